"""Table of checks: property -> level + steps (harness package, test regex, budgets)."""

def step(pkg, run="^Test", **kw):
    d = {"pkg": pkg, "run": run}
    d.update(kw)
    return d

RECONCILE = lambda: [step("./c01_reconcile/", shards={"thorough": 4}, timeout={"quick": 900, "thorough": 5400}),
                     step("./c01_sessions/", shards={"thorough": 8}, timeout={"quick": 900, "thorough": 5400})]
RECONCILE_PURE = lambda: [step("./c01_reconcile/", shards={"thorough": 4}, timeout={"quick": 900, "thorough": 5400})]

HOOK_COMMITS = ["ddf102b"]

NOT_APPLICABLE = {}

PBT = "property-based testing (rapid) + exhaustive small-scope enumeration against an independent oracle"
TREE_NOTE = ("Trusted: the harness's own tree algebra (kit/tree) and the model of the controller pipeline "
             "(reify phantoms, propagate executability, reconcile, apply); no absence claim beyond the enumerated bound.")

CHECKS = {
    "C01": {"level": "exploration", "steps": RECONCILE(), "technique": PBT, "note": TREE_NOTE,
            "text": "Every (ancestor, alpha, beta) triple of a bounded shape is enumerated and 40k-400k random deeper triples are generated; an independent oracle checks that two-way-safe plans only destroy content equal to the ancestor and report both-modified paths as conflicts. Exhaustive inside the bound, sampled beyond.",
            "assumptions": ["tree-level oracle judges core.Reconcile output after the controller's pre-processing pipeline"]},
    "C02": {"level": "exploration", "steps": RECONCILE(), "technique": PBT, "note": TREE_NOTE,
            "text": "Same enumeration under the three directional modes: no alpha change in one-way modes, protected side only loses ancestor-equal content."},
    "C03": {"level": "exploration", "steps": RECONCILE(), "technique": PBT, "note": TREE_NOTE,
            "text": "Same enumeration incl. untracked/problematic/phantom entries: no planned change covers or lies below unsynchronizable content; all change payloads synchronizable."},
    "C04": {"level": "exploration", "steps": RECONCILE(), "technique": PBT + "; metamorphic (second cycle must be empty)", "note": TREE_NOTE,
            "text": "Plans are applied with ideal results through a model apply and reconciled again: no further changes, same conflict roots, two-way endpoints agree outside conflicts."},
    "C05": {"level": "fault_enumeration", "steps": RECONCILE_PURE(), "technique": PBT + "; enumeration of per-transition outcomes", "note": TREE_NOTE,
            "text": "For each plan every vector of transition outcomes (nothing, Old, New, every partial removal/creation) is enumerated (full product for small plans, deterministic sample beyond) and core.Apply's result is validated and compared with the reported outcomes."},
    "C07": {"level": "exploration", "steps": [step("./c07_tree/", shards={"thorough": 8}, timeout={"quick": 600, "thorough": 3600})],
            "technique": PBT + "; round-trip (diff/apply) and aliasing metamorphic checks", "note": TREE_NOTE,
            "text": "All ordered pairs of bounded trees (incl. untracked/problematic/phantom) and random larger pairs: Apply(x,Diff(x,y))==y, Diff(x,x) empty, all four Copy behaviours stay equal to a pre-mutation rendering after the original is mutated, Apply equals a model apply on multi-change scripts and mutates nothing, filter and Count equal independent implementations."},
    "C18": {"level": "exploration", "steps": [step("./c18_exec/", shards={"thorough": 8}, timeout={"quick": 600, "thorough": 3600})],
            "technique": PBT + "; model-based multi-cycle histories", "note": TREE_NOTE + " The non-preserving endpoint is modelled as a scan that reports no executable bits and a filesystem that drops them.",
            "text": "Every bounded (ancestor, preserving, non-preserving) triple and random 3-8 cycle edit histories are run through propagate -> reconcile -> ideal apply in both two-way modes and role assignments; the preserving side's bit must be unchanged wherever a file exists on both sides before and after and content was not edited on both sides; every bit set by propagation must be justified by matching content."},
    "C12": {"level": "exploration", "steps": [step("./c12_scan/", shards={"thorough": 8}, timeout={"quick": 600, "thorough": 3600})],
            "technique": "property-based testing (rapid) on a real filesystem; differential against an independent lstat/readlink/sha walk",
            "note": "Trusted: kit/disk's observer and expectation model; runs as root on ext4 (executability-preserving, no Unicode decomposition), so unreadable content is only reachable through the uid-switched variant; ignore decisions are scripted (pattern semantics are C14/C15).",
            "text": "Random real directory trees (files up to 200 kB, all mode bits, portable and non-portable links, FIFOs, non-UTF-8 names, temporary-prefixed names, file and missing roots) are scanned under every symlink and permissions mode and both hashers with a scripted ignore set; snapshot content, the four counters and the digest cache must equal what an independent walk of the same tree computes."},
    "C13": {"level": "exploration", "steps": [step("./c13_accel/", shards={"thorough": 8}, timeout={"quick": 600, "thorough": 3600})],
            "technique": "stateful property-based testing (rapid) on a real filesystem; differential accelerated-vs-cold scan, chained",
            "note": "Trusted: the cold scan as reference (itself judged by C12); edits report every created/deleted/modified path incl. descendants, and content edits always change size, mtime or inode, as the statement's precondition requires.",
            "text": "Random trees with Mutagen- or Docker-syntax ignores go through 3-10 steps of edit batches; after each step the accelerated scan (baseline + recheck paths + digest and ignore caches from the previous accelerated scan) must equal a cold scan in content, flags, counters and digest cache, and never fail."},
    "C09": {"level": "fault_enumeration", "steps": [step("./c09_transition/", shards={"thorough": 8}, timeout={"quick": 900, "thorough": 5400})],
            "technique": "fault enumeration over build-tag hooks at the syscall helpers of pkg/filesystem, driven by rapid-generated trees and plans; oracle = independent cold scan vs reported results",
            "note": "Faults are fail-before-effect at the hooked helpers (openat, mkdirat, renameat, renameat2, unlinkat, fstat, fchmod, fstatat, fchmodat, fchownat, symlinkat, readlinkat, chown/chmod by path); reads/writes of file data and getdents are not hooked; the post-transition cold scan is trusted (C12).",
            "text": "Each generated plan is executed fault-free, then once per hooked filesystem call with that call failing, once per call with cancellation at that call, and again with a forced cross-device rename; a real tmpfs staging directory and missing staged files are included. After every run a cold scan must equal the pre-scan with the reported results substituted, and no temporary file may be left behind."},
    "C08": {"level": "exploration", "steps": [step("./c08_interloper/", shards={"thorough": 8}, timeout={"quick": 900, "thorough": 5400})],
            "technique": "property-based testing (rapid) on a real filesystem with an interloper editing between scan and transition; oracle = independent lstat/readlink/read walk before and after",
            "note": "The interloper acts between the scan and the transition call (not during it): the documented check-to-use race window inside a transition is out of scope. Runs as root on ext4.",
            "text": "For random trees and plans, 1-3 modifications of every kind the statement lists are applied after the scan; each modified object covered by a transition must still be there afterwards with identical lstat identity, bytes or target, must be reported as a problem, and transitions that were not interfered with must complete."},
    "C11": {"level": "exploration", "steps": [step("./c11_halt/", shards={"thorough": 8}, timeout={"quick": 900, "thorough": 5400})],
            "technique": "stateful property-based testing (rapid) of real in-process sessions on two real roots; oracle = independent lstat walks + independent classification of (archive, alpha, beta)",
            "note": "Sessions run in no-watch mode and are driven by waiting flushes; the polling-triggered path to a cycle is not exercised here (C42 covers polling). The archive file is read back as the last-synchronized state.",
            "text": "Random warm-up histories build shared content; then one root is deleted, replaced by a file or emptied, with optional edits on the other side. Across two flush attempts, late edits, and a resume, the untouched root must keep every object, and where the classification says the change may not propagate the flush must fail with the matching Halted status, no cycle may complete, and both roots must stay frozen."},
    "C29": {"level": "exploration", "steps": [step("./c29_lifecycle/", shards={"thorough": 8}, timeout={"quick": 900, "thorough": 5400})],
            "technique": "stateful property-based testing (rapid) of a real in-process Manager; oracle = history invariants over a sequence-stamped journal of endpoint calls + persisted files + root contents",
            "note": "The journal wraps the registered local protocol handler (public ProtocolHandlers map); 'no call begins after pause returned' is judged on journal order, not on time; stray activity after the end of a history is only observed for a bounded 50 ms.",
            "text": "Generated command sequences (edits, pause, resume, waiting and non-waiting flush, reset, terminate, manager restart, flush racing with pause) run against a real session: no scan/stage/supply/transition may begin between a pause's return and the next resume/reset, paused state must survive restarts, a successful waiting flush must enclose a complete scan of both endpoints and deliver all prior edits, terminate must remove session and archive files for good, reset must empty the archive and lose no file."},
    "C06": {"level": "exploration", "steps": RECONCILE_PURE(), "technique": PBT, "note": TREE_NOTE,
            "text": "Same enumeration: no two actions on equal or nested paths, every action sits at a first disagreement found by an independent walker, conflicts have changes on both sides within their root."},
}
