// Package c01_reconcile decides the pure (tree-level) parts of C01–C06 by
// exhaustive and random generation of (ancestor, alpha, beta) triples.
package c01_reconcile

import (
	"fmt"

	"github.com/mutagen-io/mutagen/pkg/synchronization/core"

	"verif/kit/tree"
)

// Modes are the four synchronization modes.
var Modes = []core.SynchronizationMode{
	core.SynchronizationMode_SynchronizationModeTwoWaySafe,
	core.SynchronizationMode_SynchronizationModeTwoWayResolved,
	core.SynchronizationMode_SynchronizationModeOneWaySafe,
	core.SynchronizationMode_SynchronizationModeOneWayReplica,
}

var modeNames = map[core.SynchronizationMode]string{
	core.SynchronizationMode_SynchronizationModeTwoWaySafe:     "two-way-safe",
	core.SynchronizationMode_SynchronizationModeTwoWayResolved: "two-way-resolved",
	core.SynchronizationMode_SynchronizationModeOneWaySafe:     "one-way-safe",
	core.SynchronizationMode_SynchronizationModeOneWayReplica:  "one-way-replica",
}

func twoWay(m core.SynchronizationMode) bool {
	return m == core.SynchronizationMode_SynchronizationModeTwoWaySafe ||
		m == core.SynchronizationMode_SynchronizationModeTwoWayResolved
}

// Plan is the output of a reconciliation.
type Plan struct {
	Anc, Alpha, Beta []*core.Change
	Conflicts        []*core.Conflict
}

func (p *Plan) String() string {
	return fmt.Sprintf("anc=%s alpha=%s beta=%s conflicts=%s",
		tree.RenderChanges(p.Anc), tree.RenderChanges(p.Alpha), tree.RenderChanges(p.Beta), tree.RenderConflicts(p.Conflicts))
}

// Case is one generated input; it is what replay files hold.
type Case struct {
	Anc    *tree.J `json:"ancestor"`
	Alpha  *tree.J `json:"alpha"`
	Beta   *tree.J `json:"beta"`
	Mode   int32   `json:"mode"`
	Docker bool    `json:"docker_pipeline"`
	// Exec: 0 none, 1 alpha preserves and beta does not, 2 the reverse.
	Exec int `json:"exec_propagation"`
	// Outcomes is the C05 outcome vector (index per transition), see outcomes().
	Outcomes []int `json:"outcomes,omitempty"`
}

// Input is the in-memory form of a case.
type Input struct {
	Anc, Alpha, Beta *core.Entry
	Mode             core.SynchronizationMode
	Docker           bool
	Exec             int
	Outcomes         []int
}

func (in *Input) Case() *Case {
	return &Case{Anc: tree.ToJ(in.Anc), Alpha: tree.ToJ(in.Alpha), Beta: tree.ToJ(in.Beta), Mode: int32(in.Mode), Docker: in.Docker, Exec: in.Exec, Outcomes: in.Outcomes}
}

func (c *Case) Input() *Input {
	return &Input{Anc: tree.FromJ(c.Anc), Alpha: tree.FromJ(c.Alpha), Beta: tree.FromJ(c.Beta), Mode: core.SynchronizationMode(c.Mode), Docker: c.Docker, Exec: c.Exec, Outcomes: c.Outcomes}
}

func (in *Input) Sample() map[string]any {
	return map[string]any{"ancestor": tree.Render(in.Anc), "alpha": tree.Render(in.Alpha), "beta": tree.Render(in.Beta), "mode": modeNames[in.Mode], "docker": in.Docker, "exec": in.Exec}
}

// stripExec clears executable bits (what a non-preserving endpoint reports).
func stripExec(e *core.Entry) *core.Entry {
	if e == nil {
		return nil
	}
	r := &core.Entry{Kind: e.Kind, Digest: e.Digest, Target: e.Target, Problem: e.Problem}
	if len(e.Contents) > 0 {
		r.Contents = make(map[string]*core.Entry, len(e.Contents))
		for n, c := range e.Contents {
			r.Contents[n] = stripExec(c)
		}
	}
	return r
}

// Pipeline mirrors what the controller does with two snapshots before and
// including reconciliation and returns the effective endpoint trees.
func Pipeline(in *Input) (alpha, beta *core.Entry, plan *Plan) {
	alpha, beta = in.Alpha, in.Beta
	if in.Docker {
		alpha, beta, _, _ = core.ReifyPhantomDirectories(in.Anc, alpha, beta)
	}
	switch in.Exec {
	case 1:
		if beta != nil {
			beta = core.PropagateExecutability(in.Anc, alpha, stripExec(beta))
		}
	case 2:
		if alpha != nil {
			alpha = core.PropagateExecutability(in.Anc, beta, stripExec(alpha))
		}
	}
	plan = &Plan{}
	plan.Anc, plan.Alpha, plan.Beta, plan.Conflicts = core.Reconcile(in.Anc, alpha, beta, in.Mode)
	return
}

// related tells whether one path is a component-wise prefix of the other.
func related(p, q string) bool { return tree.IsPrefix(p, q) || tree.IsPrefix(q, p) }

// Result of judging one case for one property.
type Result struct {
	Violation  string
	NonTrivial bool
	Classes    []string
}

// checkOldAndDestroyed checks, for every change on endpoint content E, that
// Old is what is really there and that everything the change destroys is
// unchanged since the ancestor.
func checkOldAndDestroyed(side string, changes []*core.Change, E, anc *core.Entry) string {
	for _, c := range changes {
		if !tree.DeepEqual(c.Old, tree.At(E, c.Path)) {
			return fmt.Sprintf("%s change at %q: Old %s does not describe the endpoint content %s", side, c.Path, tree.Render(c.Old), tree.Render(tree.At(E, c.Path)))
		}
		for _, d := range tree.Destroyed(c.Path, c.Old, c.New) {
			if !tree.ShallowEqual(tree.At(anc, d.Path), d.Entry) {
				return fmt.Sprintf("%s change %s destroys %q = %s which differs from the last-synchronized %s", side, tree.RenderChange(c), d.Path, tree.Render(d.Entry), tree.Render(tree.At(anc, d.Path)))
			}
		}
	}
	return ""
}

func destroysSomething(changes []*core.Change) bool {
	for _, c := range changes {
		if len(tree.Destroyed(c.Path, c.Old, c.New)) > 0 {
			return true
		}
	}
	return false
}

// JudgeC01: two-way-safe never loses a modification.
func JudgeC01(in *Input, A, B *core.Entry, p *Plan) (r Result) {
	if in.Mode != core.SynchronizationMode_SynchronizationModeTwoWaySafe {
		return
	}
	if v := checkOldAndDestroyed("alpha", p.Alpha, A, in.Anc); v != "" {
		r.Violation = v
		return
	}
	if v := checkOldAndDestroyed("beta", p.Beta, B, in.Anc); v != "" {
		r.Violation = v
		return
	}
	for _, path := range tree.FirstDisagreements(A, B) {
		a, b, anc := tree.At(A, path), tree.At(B, path), tree.At(in.Anc, path)
		if tree.SubsetOf(tree.Sync(a), anc) || tree.SubsetOf(tree.Sync(b), anc) {
			continue
		}
		r.Classes = append(r.Classes, "both-modified")
		// Both sides created or modified content here: a conflict rooted
		// here, and no change at, above or below.
		found := false
		for _, c := range p.Conflicts {
			if c.Root == path {
				found = true
			}
		}
		if !found {
			r.Violation = fmt.Sprintf("both endpoints created/modified content at %q (alpha %s, beta %s, ancestor %s) but no conflict is rooted there", path, tree.Render(a), tree.Render(b), tree.Render(anc))
			return
		}
		for _, c := range append(append([]*core.Change{}, p.Alpha...), p.Beta...) {
			if related(c.Path, path) {
				r.Violation = fmt.Sprintf("both endpoints created/modified content at %q but a change is planned at %q", path, c.Path)
				return
			}
		}
	}
	r.NonTrivial = len(p.Conflicts) > 0 || destroysSomething(p.Alpha) || destroysSomething(p.Beta)
	if v, class := revertAfterAgreement(in, A, B, p, []string{"alpha", "beta"}); v != "" {
		r.Violation = v
		return
	} else if class != "" {
		r.Classes = append(r.Classes, class)
	}
	return
}

// revertAfterAgreement looks one cycle further. After the plan has been
// applied exactly, wherever both endpoints hold the same synchronizable entry
// X, X is what was last synchronized there. If the recorded state holds a
// different entry Y at such a path, the history is continued: one endpoint
// puts Y back (a modification since the last synchronization) and the next
// cycle is planned from the recorded state; it must not destroy Y.
func revertAfterAgreement(in *Input, A, B *core.Entry, p *Plan, protected []string) (violation, class string) {
	anc2, A2, B2, e := applyPlanIdeal(in.Anc, A, B, p)
	if e != "" {
		return "", ""
	}
	type cand struct {
		path string
		x, y *core.Entry
	}
	var cands []cand
	var walk func(path string, a, b, anc *core.Entry)
	walk = func(path string, a, b, anc *core.Entry) {
		if a == nil || b == nil || !tree.IsSyncKind(a.Kind) || !tree.IsSyncKind(b.Kind) || !tree.ShallowEqual(a, b) {
			return
		}
		if !tree.ShallowEqual(anc, a) {
			cands = append(cands, cand{path, a, anc})
			return
		}
		for _, n := range tree.Names(a) {
			walk(tree.Join(path, n), a.Contents[n], b.Contents[n], anc.Contents[n])
		}
	}
	walk("", A2, B2, anc2)
	for _, c := range cands {
		class = "recorded-state-differs-from-agreed-content"
		if c.y == nil || !tree.IsSyncKind(c.y.Kind) {
			continue
		}
		truth, ok := tree.ApplyModel(anc2, c.path, c.x)
		if !ok {
			continue
		}
		for _, side := range protected {
			A3, B3 := A2, B2
			if side == "alpha" {
				A3, ok = tree.ApplyModel(A2, c.path, tree.Clone(c.y))
			} else {
				B3, ok = tree.ApplyModel(B2, c.path, tree.Clone(c.y))
			}
			if !ok {
				continue
			}
			_, alphaT, betaT, _ := core.Reconcile(anc2, A3, B3, in.Mode)
			v := ""
			if side == "alpha" {
				v = checkOldAndDestroyed("alpha", alphaT, A3, truth)
			} else {
				v = checkOldAndDestroyed("beta", betaT, B3, truth)
			}
			if v != "" {
				return fmt.Sprintf("after the planned cycle was applied exactly both endpoints hold %s at %q, but the recorded last-synchronized state holds %s there; %s then puts %s back and the next cycle loses that modification: %s", tree.Render(c.x), c.path, tree.Render(c.y), side, tree.Render(c.y), v), class
			}
		}
	}
	return "", class
}

// JudgeC02: directional modes.
func JudgeC02(in *Input, A, B *core.Entry, p *Plan) (r Result) {
	switch in.Mode {
	case core.SynchronizationMode_SynchronizationModeOneWaySafe, core.SynchronizationMode_SynchronizationModeOneWayReplica:
		if len(p.Alpha) > 0 {
			r.Violation = fmt.Sprintf("one-way mode plans changes to alpha: %s", tree.RenderChanges(p.Alpha))
			return
		}
		if in.Mode == core.SynchronizationMode_SynchronizationModeOneWaySafe {
			if v := checkOldAndDestroyed("beta", p.Beta, B, in.Anc); v != "" {
				r.Violation = v
				return
			}
			r.NonTrivial = !tree.SubsetOf(tree.Sync(B), in.Anc) && len(p.Beta)+len(p.Conflicts) > 0
			if v, class := revertAfterAgreement(in, A, B, p, []string{"beta"}); v != "" {
				r.Violation = v
				return
			} else if class != "" {
				r.Classes = append(r.Classes, class)
			}
		} else {
			// Replica: the plan must at least describe beta faithfully.
			for _, c := range p.Beta {
				if !tree.DeepEqual(c.Old, tree.At(B, c.Path)) {
					r.Violation = fmt.Sprintf("beta change at %q: Old %s does not describe beta's content %s", c.Path, tree.Render(c.Old), tree.Render(tree.At(B, c.Path)))
					return
				}
			}
			r.NonTrivial = len(p.Beta)+len(p.Conflicts) > 0
		}
	case core.SynchronizationMode_SynchronizationModeTwoWayResolved:
		if v := checkOldAndDestroyed("alpha", p.Alpha, A, in.Anc); v != "" {
			r.Violation = v
			return
		}
		r.NonTrivial = !tree.SubsetOf(tree.Sync(A), in.Anc) && len(p.Alpha)+len(p.Beta)+len(p.Conflicts) > 0
		if v, class := revertAfterAgreement(in, A, B, p, []string{"alpha"}); v != "" {
			r.Violation = v
			return
		} else if class != "" {
			r.Classes = append(r.Classes, class)
		}
	}
	return
}

// JudgeC03: unsynchronizable content is never covered by a planned change.
func JudgeC03(in *Input, A, B *core.Entry, p *Plan) (r Result) {
	check := func(side string, changes []*core.Change, E *core.Entry) string {
		for _, c := range changes {
			if tree.HasUnsync(tree.At(E, c.Path)) {
				return fmt.Sprintf("%s change at %q covers unsynchronizable content: %s", side, c.Path, tree.Render(tree.At(E, c.Path)))
			}
			// No proper prefix of the path may be unsynchronizable.
			comps := tree.Split(c.Path)
			e := E
			for i := 0; i < len(comps); i++ {
				if e == nil || e.Kind != tree.KDir {
					return fmt.Sprintf("%s change at %q lies below non-directory content %s", side, c.Path, tree.Render(e))
				}
				e = e.Contents[comps[i]]
			}
			if tree.HasUnsync(c.Old) || tree.HasUnsync(c.New) {
				return fmt.Sprintf("%s change %s carries unsynchronizable content", side, tree.RenderChange(c))
			}
			if err := c.EnsureValid(true); err != nil {
				return fmt.Sprintf("%s change %s is invalid: %v", side, tree.RenderChange(c), err)
			}
		}
		return ""
	}
	if v := check("alpha", p.Alpha, A); v != "" {
		r.Violation = v
		return
	}
	if v := check("beta", p.Beta, B); v != "" {
		r.Violation = v
		return
	}
	for _, c := range p.Anc {
		if tree.HasUnsync(c.New) {
			r.Violation = fmt.Sprintf("ancestor change %s carries unsynchronizable content", tree.RenderChange(c))
			return
		}
		if err := c.EnsureValid(true); err != nil {
			r.Violation = fmt.Sprintf("ancestor change %s is invalid: %v", tree.RenderChange(c), err)
			return
		}
	}
	for _, path := range tree.FirstDisagreements(A, B) {
		if tree.HasUnsync(tree.At(A, path)) || tree.HasUnsync(tree.At(B, path)) {
			r.NonTrivial = true
			r.Classes = append(r.Classes, "unsync-at-disagreement")
			break
		}
	}
	return
}

// applyPlanIdeal applies a plan with ideal transition results using the model
// apply: alpha' / beta' receive their changes, the ancestor receives the
// ancestor changes followed by {path, New} of every transition.
func applyPlanIdeal(anc, A, B *core.Entry, p *Plan) (anc2, A2, B2 *core.Entry, err string) {
	ok := true
	A2, B2, anc2 = A, B, anc
	for _, c := range p.Alpha {
		if A2, ok = tree.ApplyModel(A2, c.Path, c.New); !ok {
			return nil, nil, nil, fmt.Sprintf("alpha change at %q has no parent directory", c.Path)
		}
	}
	for _, c := range p.Beta {
		if B2, ok = tree.ApplyModel(B2, c.Path, c.New); !ok {
			return nil, nil, nil, fmt.Sprintf("beta change at %q has no parent directory", c.Path)
		}
	}
	for _, list := range [][]*core.Change{p.Anc, p.Alpha, p.Beta} {
		for _, c := range list {
			if anc2, ok = tree.ApplyModel(anc2, c.Path, c.New); !ok {
				return nil, nil, nil, fmt.Sprintf("ancestor update at %q has no parent directory", c.Path)
			}
		}
	}
	return
}

func conflictRoots(cs []*core.Conflict) map[string]bool {
	m := map[string]bool{}
	for _, c := range cs {
		m[c.Root] = true
	}
	return m
}

// JudgeC04: fixpoint and convergence.
func JudgeC04(in *Input, A, B *core.Entry, p *Plan) (r Result) {
	anc2, A2, B2, e := applyPlanIdeal(in.Anc, A, B, p)
	if e != "" {
		r.Violation = e
		return
	}
	if tree.HasUnsync(anc2) {
		r.Violation = fmt.Sprintf("ancestor after an ideal cycle contains unsynchronizable content: %s", tree.Render(anc2))
		return
	}
	p2 := &Plan{}
	p2.Anc, p2.Alpha, p2.Beta, p2.Conflicts = core.Reconcile(anc2, A2, B2, in.Mode)
	if len(p2.Anc)+len(p2.Alpha)+len(p2.Beta) > 0 {
		r.Violation = fmt.Sprintf("second cycle after an ideal first cycle still plans changes: %s (after first plan %s; ancestor' %s alpha' %s beta' %s)", p2, p, tree.Render(anc2), tree.Render(A2), tree.Render(B2))
		return
	}
	r1, r2 := conflictRoots(p.Conflicts), conflictRoots(p2.Conflicts)
	same := len(r1) == len(r2)
	for k := range r1 {
		same = same && r2[k]
	}
	if !same {
		r.Violation = fmt.Sprintf("conflict roots change across an ideal cycle: first %v second %v", r1, r2)
		return
	}
	if twoWay(in.Mode) {
		if v := converged("", A2, B2, r1); v != "" {
			r.Violation = v + fmt.Sprintf(" (alpha' %s beta' %s)", tree.Render(A2), tree.Render(B2))
			return
		}
	}
	r.NonTrivial = len(p.Anc)+len(p.Alpha)+len(p.Beta) > 0
	return
}

// converged walks alpha' and beta' jointly: outside conflict roots and paths
// that are untracked/problematic on a side the entries must agree.
func converged(path string, a, b *core.Entry, conflicts map[string]bool) string {
	if conflicts[path] {
		return ""
	}
	if (a != nil && (a.Kind == tree.KProb || a.Kind == tree.KUntr)) || (b != nil && (b.Kind == tree.KProb || b.Kind == tree.KUntr)) {
		return ""
	}
	if a == nil && b == nil {
		return ""
	}
	if !tree.ShallowEqual(a, b) {
		return fmt.Sprintf("two-way endpoints differ at %q after an ideal cycle: alpha %s beta %s", path, tree.Render(a), tree.Render(b))
	}
	seen := map[string]bool{}
	for _, n := range append(tree.Names(a), tree.Names(b)...) {
		if seen[n] {
			continue
		}
		seen[n] = true
		if v := converged(tree.Join(path, n), a.Contents[n], b.Contents[n], conflicts); v != "" {
			return v
		}
	}
	return ""
}

// prefixClosed lists the prefix-closed sub-trees of e that keep e's root
// (every way of dropping descendants), capped at limit results.
func prefixClosed(e *core.Entry, limit int) []*core.Entry {
	if e == nil {
		return nil
	}
	if len(e.Contents) == 0 {
		return []*core.Entry{e}
	}
	names := tree.Names(e)
	// options per child: absent + its own sub-trees
	results := []*core.Entry{{Kind: e.Kind, Executable: e.Executable, Digest: e.Digest, Target: e.Target, Problem: e.Problem}}
	for _, n := range names {
		subs := prefixClosed(e.Contents[n], limit)
		var next []*core.Entry
		for _, r := range results {
			next = append(next, r) // child absent
			for _, s := range subs {
				if len(next) >= limit {
					break
				}
				c := &core.Entry{Kind: r.Kind, Executable: r.Executable, Digest: r.Digest, Target: r.Target, Problem: r.Problem, Contents: map[string]*core.Entry{}}
				for k, v := range r.Contents {
					c.Contents[k] = v
				}
				c.Contents[n] = s
				next = append(next, c)
			}
		}
		results = next
	}
	return results
}

// Outcomes lists the possible results an endpoint may report for a
// transition: nothing, Old, New, and every partial removal of Old / partial
// creation of New. The first three indices are always nil, Old, New.
func Outcomes(c *core.Change) []*core.Entry {
	out := []*core.Entry{nil, c.Old, c.New}
	add := func(e *core.Entry) {
		for _, o := range out {
			if tree.DeepEqual(o, e) {
				return
			}
		}
		out = append(out, e)
	}
	for _, e := range prefixClosed(c.Old, 24) {
		add(e)
	}
	for _, e := range prefixClosed(c.New, 24) {
		add(e)
	}
	return out
}

// JudgeC05 judges one outcome vector (index into Outcomes per transition,
// alpha transitions first).
func JudgeC05(in *Input, p *Plan, vector []int) (r Result) {
	return JudgeC05With(in, p, vector, nil)
}

// PlanOutcomes precomputes Outcomes for every transition of a plan (alpha
// transitions first).
func PlanOutcomes(p *Plan) [][]*core.Entry {
	var out [][]*core.Entry
	for _, list := range [][]*core.Change{p.Alpha, p.Beta} {
		for _, c := range list {
			out = append(out, Outcomes(c))
		}
	}
	return out
}

// JudgeC05With is JudgeC05 with precomputed outcome lists.
func JudgeC05With(in *Input, p *Plan, vector []int, pre [][]*core.Entry) (r Result) {
	changes := append([]*core.Change{}, p.Anc...)
	type expect struct {
		path string
		e    *core.Entry
	}
	var expects []expect
	i := 0
	for _, list := range [][]*core.Change{p.Alpha, p.Beta} {
		for _, c := range list {
			var outs []*core.Entry
			if pre != nil {
				outs = pre[i]
			} else {
				outs = Outcomes(c)
			}
			o := outs[vector[i]%len(outs)]
			if !tree.DeepEqual(o, c.Old) && !tree.DeepEqual(o, c.New) {
				r.NonTrivial = true
			}
			changes = append(changes, &core.Change{Path: c.Path, New: o})
			expects = append(expects, expect{c.Path, o})
			i++
		}
	}
	before := tree.Render(in.Anc)
	res, err := core.Apply(in.Anc, changes)
	if err != nil {
		r.Violation = fmt.Sprintf("updating the last-synchronized state fails: %v (changes %s)", err, tree.RenderChanges(changes))
		return
	}
	if tree.Render(in.Anc) != before {
		r.Violation = "updating the last-synchronized state mutated the previous state in place"
		return
	}
	if tree.HasUnsync(res) {
		r.Violation = fmt.Sprintf("new last-synchronized state contains unsynchronizable content: %s", tree.Render(res))
		return
	}
	if err := res.EnsureValid(true); err != nil {
		r.Violation = fmt.Sprintf("new last-synchronized state is invalid: %v: %s", err, tree.Render(res))
		return
	}
	for _, x := range expects {
		if !tree.DeepEqual(tree.At(res, x.path), x.e) {
			r.Violation = fmt.Sprintf("new last-synchronized state records %s at %q but the endpoint reported %s", tree.Render(tree.At(res, x.path)), x.path, tree.Render(x.e))
			return
		}
	}
	return
}

// JudgeC06: at most one action per path, conflicts well formed.
func JudgeC06(in *Input, A, B *core.Entry, p *Plan) (r Result) {
	type action struct{ what, path string }
	var actions []action
	for _, c := range p.Alpha {
		actions = append(actions, action{"alpha change", c.Path})
	}
	for _, c := range p.Beta {
		actions = append(actions, action{"beta change", c.Path})
	}
	for _, c := range p.Conflicts {
		actions = append(actions, action{"conflict", c.Root})
	}
	for i := range actions {
		for j := i + 1; j < len(actions); j++ {
			if related(actions[i].path, actions[j].path) {
				r.Violation = fmt.Sprintf("%s at %q and %s at %q overlap", actions[i].what, actions[i].path, actions[j].what, actions[j].path)
				return
			}
		}
	}
	fd := map[string]bool{}
	for _, q := range tree.FirstDisagreements(A, B) {
		fd[q] = true
	}
	for _, a := range actions {
		if !fd[a.path] {
			r.Violation = fmt.Sprintf("%s at %q is not at a path where the endpoints first disagree (%v)", a.what, a.path, tree.FirstDisagreements(A, B))
			return
		}
	}
	for _, c := range p.Conflicts {
		if len(c.AlphaChanges) == 0 || len(c.BetaChanges) == 0 {
			r.Violation = fmt.Sprintf("conflict at %q lacks a change on one endpoint", c.Root)
			return
		}
		if err := c.EnsureValid(); err != nil {
			r.Violation = fmt.Sprintf("conflict at %q is invalid: %v", c.Root, err)
			return
		}
		for _, ch := range append(append([]*core.Change{}, c.AlphaChanges...), c.BetaChanges...) {
			if ch == nil || !tree.IsPrefix(c.Root, ch.Path) {
				r.Violation = fmt.Sprintf("conflict at %q lists a change outside its root: %s", c.Root, tree.RenderChange(ch))
				return
			}
		}
	}
	r.NonTrivial = len(actions) >= 2
	return
}
