package c01_reconcile

import (
	"os"
	"runtime"
	"runtime/debug"
	"sync"
	"testing"

	"pgregory.net/rapid"

	"github.com/mutagen-io/mutagen/pkg/synchronization/core"

	"verif/kit/ev"
	"verif/kit/tree"
)

func TestMain(m *testing.M) {
	debug.SetGCPercent(800)
	os.Exit(m.Run())
}

func prop() string {
	if p := os.Getenv("VERIF_PROP"); p != "" {
		return p
	}
	return "C01"
}

var rules = map[string]string{
	"C01": "non-trivial: the plan (two-way-safe) has a conflict or a change that destroys content",
	"C02": "non-trivial: directional mode, the protected side has content not in the ancestor and a change or conflict is produced",
	"C03": "non-trivial: an unsynchronizable entry lies at or below a path where the endpoints first disagree",
	"C04": "non-trivial: the first plan is non-empty",
	"C05": "non-trivial: at least one transition outcome is partial (neither Old nor New)",
	"C06": "non-trivial: the plan has at least two actions (changes + conflicts)",
}

// judge runs the selected property's oracle on one case. For C05 it iterates
// outcome vectors itself and reports how many evaluations it made.
func judge(p string, in *Input) (res Result, evals uint64, nts uint64) {
	A, B, plan := Pipeline(in)
	switch p {
	case "C01":
		return JudgeC01(in, A, B, plan), 1, 0
	case "C02":
		return JudgeC02(in, A, B, plan), 1, 0
	case "C03":
		return JudgeC03(in, A, B, plan), 1, 0
	case "C04":
		return JudgeC04(in, A, B, plan), 1, 0
	case "C06":
		return JudgeC06(in, A, B, plan), 1, 0
	case "C05":
		n := len(plan.Alpha) + len(plan.Beta)
		if n == 0 {
			return JudgeC05(in, plan, nil), 1, 0
		}
		if in.Outcomes != nil {
			r := JudgeC05(in, plan, pad(in.Outcomes, n))
			if r.NonTrivial {
				nts = 1
			}
			return r, 1, nts
		}
		var sizes []int
		total := 1
		pre := PlanOutcomes(plan)
		for _, o := range pre {
			sizes = append(sizes, len(o))
			if total < 1<<20 {
				total *= len(o)
			}
		}
		vec := make([]int, n)
		if total <= productCap() {
			// Full product.
			for {
				r := JudgeC05With(in, plan, vec, pre)
				evals++
				if r.NonTrivial {
					nts++
					res.NonTrivial = true
				}
				if r.Violation != "" {
					in.Outcomes = append([]int{}, vec...)
					r.NonTrivial = res.NonTrivial
					return r, evals, nts
				}
				i := 0
				for ; i < n; i++ {
					vec[i]++
					if vec[i] < sizes[i] {
						break
					}
					vec[i] = 0
				}
				if i == n {
					break
				}
			}
			return res, evals, nts
		}
		// Deterministic sample of the product, keyed by the case.
		h := ev.Hash(tree.Render(in.Anc), tree.Render(in.Alpha), tree.Render(in.Beta))
		for s := 0; s < sampleCount(); s++ {
			for i := range vec {
				h = h*6364136223846793005 + 1442695040888963407
				vec[i] = int((h >> 33) % uint64(sizes[i]))
			}
			r := JudgeC05With(in, plan, vec, pre)
			evals++
			if r.NonTrivial {
				nts++
				res.NonTrivial = true
			}
			if r.Violation != "" {
				in.Outcomes = append([]int{}, vec...)
				return r, evals, nts
			}
		}
		return res, evals, nts
	}
	panic("unknown property " + p)
}

// modesFor lists the modes a property's oracle says something about.
func modesFor(p string) []core.SynchronizationMode {
	switch p {
	case "C01":
		return Modes[:1]
	case "C02":
		return Modes[1:]
	}
	return Modes
}

func productCap() int { return ev.Pick(60, 400) }
func sampleCount() int { return ev.Pick(12, 64) }

func pad(v []int, n int) []int {
	out := make([]int, n)
	copy(out, v)
	return out
}

// shapes returns the alpha/beta tree list and the ancestor list of the
// bounded shape of the tier.
func shapes(level int) (ab, anc []*core.Entry, bound string) {
	leaves := []*core.Entry{tree.F(1, false), tree.F(1, true), tree.F(2, false), tree.L("t1"), tree.U(), tree.P("p1")}
	var s *tree.Shape
	switch level {
	case 0:
		s = &tree.Shape{Names: []string{"a", "b"}, Leaves: leaves, Sub: &tree.Shape{}}
		bound = "root: nil | leaf | directory over names {a,b}; leaf alphabet {F(d1), F(d1,x), F(d2), L(t1), U, P}; child: absent | leaf | empty directory"
	case 1:
		sub := &tree.Shape{Names: []string{"a"}, Leaves: []*core.Entry{tree.F(1, false), tree.F(2, false), tree.U()}, Sub: &tree.Shape{}}
		s = &tree.Shape{Names: []string{"a", "b"}, Leaves: leaves, Sub: sub}
		bound = "root: nil | leaf | directory over {a,b}; leaves {F(d1), F(d1,x), F(d2), L(t1), U, P}; child directories over name {a} with leaves {F(d1), F(d2), U, empty directory}"
	default:
		sub := &tree.Shape{Names: []string{"a", "b"}, Leaves: []*core.Entry{tree.F(1, false), tree.U()}, Sub: &tree.Shape{}}
		s = &tree.Shape{Names: []string{"a", "b"}, Leaves: leaves, Sub: sub}
		bound = "root: nil | leaf | directory over {a,b}; leaves {F(d1), F(d1,x), F(d2), L(t1), U, P}; child directories over names {a,b} with leaves {F(d1), U, empty directory}"
	}
	ab = s.Enumerate(true)
	return ab, tree.SyncOnly(ab), bound
}

func dockerShapes() (ab, anc []*core.Entry, bound string) {
	sub := &tree.Shape{Names: []string{"a"}, Leaves: []*core.Entry{tree.F(1, false), tree.U()}, Sub: &tree.Shape{}, Phantom: true}
	s := &tree.Shape{Names: []string{"a", "b"}, Leaves: []*core.Entry{tree.F(1, false), tree.F(2, false), tree.U()}, Sub: sub, Phantom: true}
	ab = s.Enumerate(true)
	return ab, tree.SyncOnly(ab), "Docker pipeline: directories and phantom directories over {a,b} / {a}, leaves {F(d1), F(d2), U}"
}

func TestExhaustive(t *testing.T) {
	if ev.ReplayPath() != "" {
		t.Skip("replaying")
	}
	p := prop()
	rec := ev.New(t, p, "exhaustive-triples", "every (ancestor, alpha, beta) triple of the bounded shape x 4 modes; "+rules[p])
	level := ev.Pick(1, 2)
	if p == "C05" {
		level = 1
	}
	ab, anc, bound := shapes(level)
	rec.SetExhaustive(bound)
	run := func(ab, anc []*core.Entry, docker bool, part *ev.Recorder) {
		shard, shards := ev.Shard(), ev.Shards()
		var mu sync.Mutex
		var failure *Input
		var failureMsg string
		work := make(chan int)
		var wg sync.WaitGroup
		for w := 0; w < runtime.GOMAXPROCS(0); w++ {
			wg.Add(1)
			go func() {
				defer wg.Done()
				for ai := range work {
					a := anc[ai]
					var evals, nts uint64
					classes := map[string]uint64{}
					var samples []map[string]any
					stop := false
					for _, x := range ab {
						for _, y := range ab {
							for _, m := range modesFor(p) {
								in := &Input{Anc: a, Alpha: x, Beta: y, Mode: m, Docker: docker}
								res, e, n := judge(p, in)
								evals += e
								if res.Violation != "" {
									mu.Lock()
									if failure == nil {
										failure, failureMsg = in, res.Violation
									}
									mu.Unlock()
									stop = true
								}
								if p == "C05" {
									nts += n
								} else if res.NonTrivial {
									nts++
								}
								if res.NonTrivial {
									classes["nontrivial/"+modeNames[m]]++
									if len(samples) < 1 && len(x.GetContents()) > 0 && len(a.GetContents()) > 0 && (ai+len(y.GetContents()))%3 == 0 {
										samples = append(samples, in.Sample())
									}
								}
								for _, c := range res.Classes {
									classes[c]++
								}
								if stop {
									break
								}
							}
							if stop {
								break
							}
						}
						if stop {
							break
						}
					}
					part.EvalN(evals)
					part.NonTrivialDistinct(nts)
					for c, n := range classes {
						part.ClassN(c, n)
					}
					for _, sm := range samples {
						part.Sample(sm)
					}
				}
			}()
		}
		for ai := range anc {
			if ai%shards != shard {
				continue
			}
			mu.Lock()
			failed := failure != nil
			mu.Unlock()
			if failed {
				break
			}
			work <- ai
		}
		close(work)
		wg.Wait()
		if failure != nil {
			ev.FailTB(t, part, failure.Case(), "%s", failureMsg)
		}
	}
	run(ab, anc, false, rec)
	rec.Note("alpha_beta_trees", len(ab))
	rec.Note("ancestor_trees", len(anc))

	drec := ev.New(t, p, "exhaustive-docker-pipeline", "every triple of the phantom-directory shape, passed through phantom reification, x 4 modes; "+rules[p])
	dab, danc, dbound := dockerShapes()
	drec.SetExhaustive(dbound)
	run(dab, danc, true, drec)
	drec.Note("alpha_beta_trees", len(dab))
	drec.Note("ancestor_trees", len(danc))
}

func TestRandom(t *testing.T) {
	if ev.ReplayPath() != "" {
		t.Skip("replaying")
	}
	p := prop()
	rec := ev.New(t, p, "random-triples", "rapid: ancestor/alpha/beta derived from a common base by random edit scripts (depth<=4, fan-out<=4), random mode and pipeline (plain / Docker phantom reification / executability propagation); "+rules[p])
	g := tree.DefaultGen
	ev.Check(t, rec, 40000, 400000, func(rt *rapid.T) {
		in := &Input{}
		in.Docker = rapid.IntRange(0, 4).Draw(rt, "docker") == 0
		gg := g
		gg.Phantom = in.Docker
		in.Anc, in.Alpha, in.Beta = gg.Triple(rt)
		if in.Docker {
			// Scan roots are never phantom directories.
			if in.Alpha != nil && in.Alpha.Kind == tree.KPhantom {
				in.Alpha = tree.D(in.Alpha.Contents)
			}
			if in.Beta != nil && in.Beta.Kind == tree.KPhantom {
				in.Beta = tree.D(in.Beta.Contents)
			}
		}
		in.Mode = rapid.SampledFrom(modesFor(p)).Draw(rt, "mode")
		if rapid.IntRange(0, 4).Draw(rt, "exec") == 0 {
			in.Exec = rapid.IntRange(1, 2).Draw(rt, "exec.side")
		}
		if p == "C05" {
			in.Outcomes = rapid.SliceOfN(rapid.IntRange(0, 40), 12, 12).Draw(rt, "outcomes")
		}
		res, evals, _ := judge(p, in)
		rec.EvalN(evals)
		if res.Violation != "" {
			ev.Failf(rt, rec, in.Case(), "%s", res.Violation)
		}
		rec.Class("mode/" + modeNames[in.Mode])
		if in.Docker {
			rec.Class("pipeline/docker")
		}
		if in.Exec != 0 {
			rec.Class("pipeline/exec")
		}
		if res.NonTrivial {
			rec.Class("nontrivial")
			rec.NonTrivial(ev.Hash(tree.Render(in.Anc), tree.Render(in.Alpha), tree.Render(in.Beta), modeNames[in.Mode]))
			if rec.WantSample() {
				rec.Sample(in.Sample())
			}
		}
		for _, c := range res.Classes {
			rec.Class(c)
		}
	})
}

func TestReplay(t *testing.T) {
	if ev.ReplayPath() == "" {
		t.Skip("no replay requested")
	}
	switch ev.ReplayPart() {
	case "exhaustive-triples", "exhaustive-docker-pipeline", "random-triples", "replay":
	default:
		t.Skip("replay belongs to another package")
	}
	p := prop()
	var c Case
	if _, err := ev.LoadReplay(ev.ReplayPath(), &c); err != nil {
		t.Fatalf("cannot load replay: %v", err)
	}
	rec := ev.New(t, p, "replay", "replay of a saved case")
	in := c.Input()
	res, _, _ := judge(p, in)
	rec.Eval()
	if res.Violation != "" {
		ev.FailTB(t, rec, in.Case(), "%s", res.Violation)
	}
}
