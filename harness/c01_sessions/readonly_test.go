package c01_sessions

import (
	"context"
	"fmt"
	"os"
	"path/filepath"
	"testing"

	"pgregory.net/rapid"

	"github.com/mutagen-io/mutagen/pkg/identifier"
	"github.com/mutagen-io/mutagen/pkg/logging"
	"github.com/mutagen-io/mutagen/pkg/synchronization"
	"github.com/mutagen-io/mutagen/pkg/synchronization/core"
	"github.com/mutagen-io/mutagen/pkg/synchronization/endpoint/local"

	"verif/kit/disk"
	"verif/kit/ev"
	"verif/kit/sess"
	"verif/kit/trans"
	"verif/kit/tree"
)

// ROCase is a root tree, a one-way mode and requests sent to the alpha
// endpoint.
type ROCase struct {
	Root     *disk.Node        `json:"root"`
	Mode     string            `json:"mode"`
	Plan     []*trans.PlanItem `json:"plan"`
	StageN   int               `json:"stage_paths"`
	ScanOnce bool              `json:"scan_first"`
}

func judgeReadOnly(c *ROCase, dir string) (violation string, nontrivial bool) {
	root := filepath.Join(dir, "root")
	if err := disk.Build(root, c.Root); err != nil {
		return "", false
	}
	defer disk.MakeWritable(dir)
	id, err := identifier.New(identifier.PrefixSynchronization)
	if err != nil {
		return "", false
	}
	cfg := sess.ManualConfig(modeByName[c.Mode])
	ep, err := local.NewEndpoint(logging.NewLogger(logging.LevelDisabled, os.Stderr), root, id, synchronization.Version_Version1, cfg, true)
	if err != nil {
		return fmt.Sprintf("cannot create the alpha endpoint: %v", err), false
	}
	defer ep.Shutdown()
	var snap *core.Snapshot
	if c.ScanOnce {
		s, err, _ := ep.Scan(context.Background(), nil, true)
		if err != nil {
			return fmt.Sprintf("scan fails: %v", err), false
		}
		snap = s
	}
	before, _ := disk.Observe(root)
	// Stage request.
	var paths []string
	var digests [][]byte
	for i := 0; i < c.StageN; i++ {
		paths = append(paths, fmt.Sprintf("staged%d", i))
		digests = append(digests, trans.DigestFor(byte(100+i)))
	}
	if len(paths) > 0 {
		nontrivial = true
		if _, _, _, err := ep.Stage(paths, digests); err == nil {
			return fmt.Sprintf("the source endpoint of a %s session accepted a staging request for %d files", c.Mode, len(paths)), true
		}
	}
	// Transition request.
	var plan []*core.Change
	for _, it := range c.Plan {
		plan = append(plan, &core.Change{Path: it.Path, Old: tree.At(snap.GetContent(), it.Path), New: tree.FromJ(it.New)})
	}
	if len(plan) > 0 {
		nontrivial = true
		if _, _, _, err := ep.Transition(context.Background(), plan); err == nil {
			return fmt.Sprintf("the source endpoint of a %s session accepted a transition request %s", c.Mode, tree.RenderChangesOrdered(plan)), true
		}
	}
	after, _ := disk.Observe(root)
	if before.Render(true) != after.Render(true) {
		return fmt.Sprintf("the source root of a %s session changed after stage/transition requests:\n before %s\n after  %s", c.Mode, before.Render(true), after.Render(true)), true
	}
	return "", nontrivial
}

func TestReadOnlyEndpoint(t *testing.T) {
	if ev.ReplayPath() != "" || prop() != "C02" {
		t.Skip()
	}
	rec := ev.New(t, "C02", "read-only-alpha-endpoint", "rapid: random root, a real local endpoint created as alpha of a one-way-safe / one-way-replica session, optional scan, then a staging request and a transition request (plan drawn over the scanned tree); both must be refused and the root must be untouched (lstat identity walk); non-trivial: a non-empty request was sent")
	base := t.TempDir()
	env, err := sess.NewEnv(filepath.Join(base, "data"))
	if err != nil {
		t.Fatal(err)
	}
	defer env.Close()
	g := disk.Gen{MaxDepth: 2, MaxFan: 4, Names: []string{"a", "b", "c", "sub"}, Links: true}
	i := 0
	ev.Check(t, rec, 120, 3000, func(rt *rapid.T) {
		c := &ROCase{Root: g.Dir(rt, "root", 2), Mode: rapid.SampledFrom([]string{"one-way-safe", "one-way-replica"}).Draw(rt, "mode")}
		c.ScanOnce = rapid.IntRange(0, 4).Draw(rt, "scan") > 0
		c.StageN = rapid.IntRange(0, 3).Draw(rt, "stage")
		tmp, _ := os.MkdirTemp("", "c02-plan-")
		defer func() { disk.MakeWritable(tmp); os.RemoveAll(tmp) }()
		if w, err := trans.NewWorld(tmp, c.Root); err == nil {
			c.Plan = trans.GenPlan(rt, w.Snapshot.Content)
		}
		i++
		dir := filepath.Join(base, fmt.Sprintf("ro%d", i))
		os.Mkdir(dir, 0o700)
		defer os.RemoveAll(dir)
		rec.Eval()
		v, nt := judgeReadOnly(c, dir)
		if v != "" {
			ev.Failf(rt, rec, c, "%s", v)
		}
		if nt {
			rec.NonTrivial(ev.Hash(c.Root.Render(false), c.Mode, fmt.Sprint(c.StageN, len(c.Plan), c.ScanOnce)))
			if rec.WantSample() {
				rec.Sample(map[string]any{"tree": c.Root.Render(false), "mode": c.Mode, "stage_paths": c.StageN, "transitions": len(c.Plan)})
			}
		}
	})
}

func TestReplayReadOnly(t *testing.T) {
	if ev.ReplayPath() == "" || ev.ReplayPart() != "read-only-alpha-endpoint" {
		t.Skip()
	}
	var c ROCase
	if _, err := ev.LoadReplay(ev.ReplayPath(), &c); err != nil {
		t.Fatal(err)
	}
	rec := ev.New(t, "C02", "replay", "replay of a saved case")
	rec.Eval()
	base := t.TempDir()
	env, err := sess.NewEnv(filepath.Join(base, "data"))
	if err != nil {
		t.Fatal(err)
	}
	defer env.Close()
	if v, _ := judgeReadOnly(&c, base); v != "" {
		ev.FailTB(t, rec, &c, "%s", v)
	}
}
