// Package c01_sessions decides the on-disk (real session) parts of C01–C04:
// random multi-cycle edit histories on two real local roots, synchronized by a
// real in-process Manager, judged from independent observations of both roots
// and the saved archive before and after every cycle.
package c01_sessions

import (
	"fmt"
	"os"
	"path/filepath"
	"strings"
	"sync"
	"sync/atomic"
	"syscall"
	"testing"
	"time"

	"pgregory.net/rapid"

	"github.com/mutagen-io/mutagen/pkg/encoding"
	"github.com/mutagen-io/mutagen/pkg/synchronization"
	"github.com/mutagen-io/mutagen/pkg/synchronization/core"

	"verif/kit/disk"
	"verif/kit/ev"
	"verif/kit/sess"
	"verif/kit/tree"
)

func prop() string {
	if p := os.Getenv("VERIF_PROP"); p != "" {
		return p
	}
	return "C01"
}

var modeByName = map[string]core.SynchronizationMode{
	"two-way-safe":     core.SynchronizationMode_SynchronizationModeTwoWaySafe,
	"two-way-resolved": core.SynchronizationMode_SynchronizationModeTwoWayResolved,
	"one-way-safe":     core.SynchronizationMode_SynchronizationModeOneWaySafe,
	"one-way-replica":  core.SynchronizationMode_SynchronizationModeOneWayReplica,
}

func modesFor(p string) []string {
	switch p {
	case "C01":
		return []string{"two-way-safe"}
	case "C02":
		return []string{"two-way-resolved", "one-way-safe", "one-way-replica"}
	}
	return []string{"two-way-safe", "two-way-resolved", "one-way-safe", "one-way-replica"}
}

// Edit is one user edit on a root.
type Edit struct {
	Side string `json:"side"` // alpha | beta | both (the same edit on both roots)
	Op   string `json:"op"`   // write, delete, mkdir, link, chmodx, ignored, fifo, badname
	Path string `json:"path"`
	Arg  string `json:"arg,omitempty"`
	// Mid edits are applied in the middle of the cycle: right before the
	// side's endpoint receives its Transition call (after its scan).
	Mid bool `json:"mid_cycle,omitempty"`
}

// Case is a mode plus a list of cycles, each a list of edits.
type Case struct {
	Mode   string    `json:"mode"`
	Cycles [][]*Edit `json:"cycles"`
	// RemoteBeta: the beta endpoint is reached through the agent protocol
	// (client and server in this process, kernel socket pair).
	RemoteBeta bool `json:"remote_beta,omitempty"`
	// RootsOnShm: both roots live on /dev/shm (tmpfs), i.e. on another device
	// than the staging area in the data directory, so that staged files reach
	// the roots through the cross-device copy fallback.
	RootsOnShm bool `json:"roots_on_shm,omitempty"`
}

// judgedAs maps the property a run is reported under to the rules applied:
// C05 (the saved state records what the endpoints hold) is judged with the
// C04 rules, always through a remote beta endpoint.
func judgedAs(p string) string {
	if p == "C05" {
		return "C04"
	}
	return p
}

const ignoredSuffix = ".ign"

func apply(root string, e *Edit, clock *int64) {
	full := filepath.Join(root, filepath.FromSlash(e.Path))
	*clock++
	stamp := time.Unix(*clock, 0)
	parent, err := os.Lstat(filepath.Dir(full))
	if err != nil || !parent.IsDir() {
		return
	}
	fi, err := os.Lstat(full)
	exists := err == nil
	switch e.Op {
	case "write", "ignored":
		if exists && !fi.Mode().IsRegular() {
			return
		}
		os.WriteFile(full, []byte("content-"+e.Arg+strings.Repeat("x", len(e.Arg))), 0o644)
		os.Chtimes(full, stamp, stamp)
	case "delete":
		if exists {
			os.RemoveAll(full)
		}
	case "mkdir":
		if !exists {
			os.Mkdir(full, 0o755)
		}
	case "link":
		if exists && fi.Mode()&os.ModeSymlink == 0 {
			return
		}
		os.Remove(full)
		os.Symlink(e.Arg, full)
	case "chmodx":
		if exists && fi.Mode().IsRegular() {
			os.Chmod(full, fi.Mode().Perm()^0o100)
		}
	case "rewrite-chmodx": // new content and a flipped executable bit in one go
		if exists && fi.Mode().IsRegular() {
			os.WriteFile(full, []byte("content-"+e.Arg+strings.Repeat("y", len(e.Arg))), 0o644)
			os.Chmod(full, fi.Mode().Perm()^0o100)
			os.Chtimes(full, stamp, stamp)
		}
	case "fifo":
		if !exists {
			syscall.Mkfifo(full, 0o644)
		}
	case "badname":
		if exists && fi.IsDir() {
			os.WriteFile(filepath.Join(full, "bad\xffname"), []byte("non-utf8"), 0o644)
		}
	}
}

var scanOpts = disk.ScanOpts{
	SymlinkMode: core.SymbolicLinkMode_SymbolicLinkModePortable,
	PermMode:    core.PermissionsMode_PermissionsModePortable,
	Ignored:     func(p string, dir bool) bool { return strings.HasSuffix(p, ignoredSuffix) },
}

func loadArchive(path string) (*core.Entry, []byte, error) {
	raw, _ := os.ReadFile(path)
	a := &core.Archive{}
	if err := encoding.LoadAndUnmarshalProtobuf(path, a); err != nil {
		return nil, raw, err
	}
	return a.Content, raw, nil
}

// unsyncObjects lists the on-disk objects that synchronization does not
// track (by the expectation model): path -> identity rendering.
func unsyncObjects(n *disk.Node, e *core.Entry, path string, out map[string]string) {
	if n == nil || e == nil {
		return
	}
	if !tree.IsSyncKind(e.Kind) {
		out[path] = n.Render(true)
		return
	}
	for name, c := range n.Children {
		ename := name
		if !strings.HasPrefix(name, disk.TemporaryPrefix) {
			if ce, ok := e.Contents[ename]; ok {
				unsyncObjects(c, ce, tree.Join(path, name), out)
			} else if strings.Contains(name, "\xff") {
				out[tree.Join(path, name)] = c.Render(true)
			}
		}
	}
}

type observation struct {
	aN, bN *disk.Node
	a, b   *core.Entry
	// da, db are the trees against which destruction is judged: a / b, or the
	// observation taken right after the test's own mid-cycle edits.
	da, db *core.Entry
	anc    *core.Entry
	raw    []byte
}

func observe(aRoot, bRoot, archive string) (*observation, error) {
	o := &observation{}
	var err error
	if o.aN, err = disk.Observe(aRoot); err != nil {
		return nil, err
	}
	if o.bN, err = disk.Observe(bRoot); err != nil {
		return nil, err
	}
	o.a, o.b = disk.Expect(o.aN, scanOpts), disk.Expect(o.bN, scanOpts)
	if o.anc, o.raw, err = loadArchive(archive); err != nil {
		return nil, fmt.Errorf("archive unreadable: %w", err)
	}
	return o, nil
}

// synced is the test's own record, per side, of the last successfully
// synchronized content per path: the content both roots were last observed to
// agree on after a cycle, or the content a cycle itself wrote to that side
// (propagated content is synchronized content even if its source has changed
// again meanwhile). It is independent of the session's archive.
var synced map[string]map[string]*core.Entry

// heldAtScan lists, per side and path, every entry that side held when some
// earlier cycle scanned it. Content on one root that is identical to what the
// other root held at an earlier scan (and has since replaced) is not a
// modification the other root never saw: the saved state may legitimately hold
// it (a refused transition is recorded with the target's own content) and a
// state-based merge treats it as the older version.
var heldAtScan map[string]map[string][]*core.Entry

func noteHeld(side string, e *core.Entry, path string) {
	x := tree.At(e, path)
	if slim(x) == nil {
		return
	}
	heldAtScan[side][path] = append(heldAtScan[side][path], slim(x))
	for _, n := range tree.Names(x) {
		noteHeld(side, e, tree.Join(path, n))
	}
}

func slim(e *core.Entry) *core.Entry {
	s := tree.Sync(e)
	if s == nil {
		return nil
	}
	return &core.Entry{Kind: s.Kind, Executable: s.Executable, Digest: s.Digest, Target: s.Target}
}

// updateSynced records agreement between the two roots after a cycle and what
// the cycle wrote on each side (difference between the side as the test left
// it and as it is after the cycle).
func updateSynced(leftA, leftB, a, b *core.Entry, path string) {
	la, lb, x, y := tree.At(leftA, path), tree.At(leftB, path), tree.At(a, path), tree.At(b, path)
	if tree.ShallowEqual(slim(x), slim(y)) {
		synced["alpha"][path], synced["beta"][path] = slim(x), slim(y)
	}
	if !tree.ShallowEqual(slim(la), slim(x)) {
		synced["alpha"][path] = slim(x)
	}
	if !tree.ShallowEqual(slim(lb), slim(y)) {
		synced["beta"][path] = slim(y)
	}
	seen := map[string]bool{}
	for _, e := range []*core.Entry{la, lb, x, y} {
		for _, n := range tree.Names(e) {
			if !seen[n] {
				seen[n] = true
				updateSynced(leftA, leftB, a, b, tree.Join(path, n))
			}
		}
	}
}

// scanAgreement records what both roots held in common when the cycle scanned
// them (before any edit made in the middle of the cycle): that is what the
// cycle records as synchronized even if one side is edited right afterwards.
func scanAgreement(a, b *core.Entry, path string) {
	x, y := tree.At(a, path), tree.At(b, path)
	if x == nil || y == nil || !tree.ShallowEqual(slim(x), slim(y)) || slim(x) == nil {
		return
	}
	synced["alpha"][path], synced["beta"][path] = slim(x), slim(y)
	for _, n := range tree.Names(x) {
		scanAgreement(a, b, tree.Join(path, n))
	}
}

// propagatedFrom records, for the side whose content the cycle propagated, the
// content it held when the cycle scanned it: if the cycle wrote the other
// root so that it now equals that scan-time content, the content is
// synchronized for both, even if its source was edited again in the middle of
// the cycle.
func propagatedFrom(source string, scanned, otherLeft, otherNow *core.Entry, path string) {
	src, left, now := tree.At(scanned, path), tree.At(otherLeft, path), tree.At(otherNow, path)
	if slim(src) != nil && !tree.ShallowEqual(slim(left), slim(now)) && tree.ShallowEqual(slim(now), slim(src)) {
		synced[source][path] = slim(src)
	}
	seen := map[string]bool{}
	for _, e := range []*core.Entry{src, left, now} {
		for _, n := range tree.Names(e) {
			if !seen[n] {
				seen[n] = true
				propagatedFrom(source, scanned, otherLeft, otherNow, tree.Join(path, n))
			}
		}
	}
}

func destroyedOutsideAncestor(side string, pre, post, anc *core.Entry) string {
	for _, d := range tree.Destroyed("", tree.Sync(pre), tree.Sync(post)) {
		if !tree.ShallowEqual(tree.At(anc, d.Path), d.Entry) {
			return fmt.Sprintf("%s: %q = %s was deleted or overwritten by the cycle although it differs from the last-synchronized %s", side, d.Path, tree.Render(d.Entry), tree.Render(tree.At(anc, d.Path)))
		}
		if synced != nil {
			other := "alpha"
			if side == "alpha" {
				other = "beta"
			}
			known := false
			for _, h := range heldAtScan[other][d.Path] {
				if tree.ShallowEqual(h, d.Entry) {
					known = true
				}
			}
			if last := synced[side][d.Path]; !tree.ShallowEqual(last, d.Entry) && !known {
				return fmt.Sprintf("%s: %q = %s was deleted or overwritten by the cycle although both roots last agreed on %s there (the archive claims %s)", side, d.Path, tree.Render(d.Entry), tree.Render(last), tree.Render(tree.At(anc, d.Path)))
			}
		}
	}
	return ""
}

// rootless renders a root with full identity for everything below it but
// without the root directory's own modification time: on filesystems whose
// behaviour is not known by type (tmpfs) every scan probes executability and
// Unicode handling with short-lived files in the root, which bumps that time.
func rootless(n *disk.Node) string {
	if n == nil || n.Kind != disk.Dir {
		return n.Render(true)
	}
	var b strings.Builder
	fmt.Fprintf(&b, "dir(%o){", n.Perm)
	for _, name := range n.Names() {
		fmt.Fprintf(&b, "%q:%s ", name, n.Children[name].Render(true))
	}
	b.WriteString("}")
	return b.String()
}

func sameRoot(what string, pre, post *disk.Node) string {
	if rootless(pre) != rootless(post) {
		return fmt.Sprintf("%s was modified by the cycle:\n before %s\n after  %s", what, pre.Render(true), post.Render(true))
	}
	return ""
}

// judgeCycle applies the selected property's on-disk oracle to one cycle.
func judgeCycle(p, mode string, pre, post *observation, st *synchronization.State, flushErr error) (violation string, nontrivial bool) {
	m := modeByName[mode]
	switch p {
	case "C01":
		if v := destroyedOutsideAncestor("alpha", pre.da, post.a, pre.anc); v != "" {
			return v, false
		}
		if v := destroyedOutsideAncestor("beta", pre.db, post.b, pre.anc); v != "" {
			return v, false
		}
		// Both-sided creations/modifications must be reported as conflicts
		// when the cycle completed.
		for _, path := range tree.FirstDisagreements(pre.a, pre.b) {
			a, b, anc := tree.At(pre.a, path), tree.At(pre.b, path), tree.At(pre.anc, path)
			if tree.SubsetOf(tree.Sync(a), anc) || tree.SubsetOf(tree.Sync(b), anc) {
				continue
			}
			nontrivial = true
			if flushErr == nil && st != nil {
				found := false
				for _, c := range st.Conflicts {
					if c.Root == path {
						found = true
					}
				}
				if !found && st.ExcludedConflicts == 0 {
					return fmt.Sprintf("both roots created/modified %q (alpha %s, beta %s, last-synchronized %s) but the session lists no conflict there (conflicts %v)", path, tree.Render(a), tree.Render(b), tree.Render(anc), conflictRoots(st)), true
				}
			}
		}
	case "C02":
		switch m {
		case core.SynchronizationMode_SynchronizationModeOneWaySafe, core.SynchronizationMode_SynchronizationModeOneWayReplica:
			if v := sameRoot("the alpha root (one-way source)", pre.aN, post.aN); v != "" {
				return v, false
			}
			if m == core.SynchronizationMode_SynchronizationModeOneWaySafe {
				if v := destroyedOutsideAncestor("beta", pre.db, post.b, pre.anc); v != "" {
					return v, false
				}
			}
			nontrivial = !tree.SubsetOf(tree.Sync(pre.b), pre.anc) && !tree.DeepEqual(pre.a, pre.b)
		default:
			if v := destroyedOutsideAncestor("alpha", pre.da, post.a, pre.anc); v != "" {
				return v, false
			}
			nontrivial = !tree.SubsetOf(tree.Sync(pre.a), pre.anc) && !tree.DeepEqual(pre.a, pre.b)
		}
	case "C03":
		for side, pair := range map[string][2]*disk.Node{"alpha": {pre.aN, post.aN}, "beta": {pre.bN, post.bN}} {
			before, after := map[string]string{}, map[string]string{}
			e := pre.a
			if side == "beta" {
				e = pre.b
			}
			unsyncObjects(pair[0], e, "", before)
			for path, r := range before {
				now := pair[1].At(path)
				if now == nil || now.Render(true) != r {
					return fmt.Sprintf("%s: untracked/problematic object %q (%s) was removed or changed by the cycle (now %s)", side, path, r, now.Render(true)), true
				}
			}
			_ = after
			if len(before) > 0 && !tree.DeepEqual(pre.a, pre.b) {
				nontrivial = true
			}
		}
	case "C04":
		// Judged across two flushes by the caller.
	}
	return "", nontrivial
}

func conflictRoots(st *synchronization.State) []string {
	var out []string
	for _, c := range st.Conflicts {
		out = append(out, c.Root)
	}
	return out
}

var names = []string{"a", "b", "c", "d"}

func drawEdits(rt *rapid.T, p string) []*Edit {
	var out []*Edit
	if (p == "C01" || p == "C02") && rapid.IntRange(0, 3).Draw(rt, "creation-race") == 0 {
		// One root creates a file before the cycle; the other root creates a
		// file at the same path in the middle of the cycle (after its scan,
		// right before it is asked to apply the first root's creation).
		path := rapid.SampledFrom(names).Draw(rt, "race.name")
		if rapid.Bool().Draw(rt, "race.deep") {
			path = rapid.SampledFrom(names).Draw(rt, "race.dir") + "/" + path
		}
		first, second := "alpha", "beta"
		if rapid.Bool().Draw(rt, "race.first") {
			first, second = second, first
		}
		out = append(out, &Edit{Side: first, Op: "write", Path: path, Arg: "1"}, &Edit{Side: second, Op: "write", Path: path, Arg: "2", Mid: true})
	}
	n := rapid.IntRange(0, 4).Draw(rt, "edits")
	for i := 0; i < n; i++ {
		sides := []string{"alpha", "beta"}
		if p == "C04" || p == "C01" || p == "C02" {
			// The same edit on both roots (agreement without any transition).
			sides = []string{"alpha", "beta", "alpha", "beta", "both"}
		}
		e := &Edit{Side: rapid.SampledFrom(sides).Draw(rt, "side")}
		depth := rapid.IntRange(1, 2).Draw(rt, "depth")
		var comps []string
		for d := 0; d < depth; d++ {
			comps = append(comps, rapid.SampledFrom(names).Draw(rt, "name"))
		}
		e.Path = strings.Join(comps, "/")
		ops := []string{"write", "write", "write", "delete", "mkdir", "link", "chmodx", "chmodx", "rewrite-chmodx"}
		if p == "C03" {
			ops = append(ops, "ignored", "ignored", "fifo", "badname")
		}
		e.Op = rapid.SampledFrom(ops).Draw(rt, "op")
		switch e.Op {
		case "write", "rewrite-chmodx":
			e.Arg = rapid.SampledFrom([]string{"1", "2", "3"}).Draw(rt, "content")
		case "ignored":
			e.Path += ignoredSuffix
			e.Arg = rapid.SampledFrom([]string{"1", "2"}).Draw(rt, "content")
		case "link":
			e.Arg = rapid.SampledFrom([]string{"a", "b/c", "nowhere"}).Draw(rt, "target")
		}
		if (p == "C01" || p == "C02") && e.Side != "both" && (e.Op == "write" || e.Op == "delete") && rapid.IntRange(0, 4).Draw(rt, "mid") == 0 {
			e.Mid = true
		}
		out = append(out, e)
	}
	return out
}

type runner struct {
	remote atomic.Bool
	env    *sess.Env
	base   string
	n      int

	mu      sync.Mutex
	session string
	roots   map[bool]string     // alpha? -> root
	mid     map[bool][]*Edit    // pending mid-cycle edits per side
	midObs  map[bool]*disk.Node // observation of the side right after its mid-cycle edits
	clock   *int64
}

// hook runs right before an endpoint's Transition call.
// remoteBeta tells the session kit whether the endpoint being connected is to
// go through the agent protocol.
func (r *runner) remoteBeta(session string, alpha bool) bool { return !alpha && r.remote.Load() }

func (r *runner) hook(session string, alpha bool, transitions []*core.Change) (bool, []*core.Entry, []*core.Problem, bool, error) {
	r.mu.Lock()
	defer r.mu.Unlock()
	if session == r.session && len(r.mid[alpha]) > 0 {
		for _, e := range r.mid[alpha] {
			apply(r.roots[alpha], e, r.clock)
		}
		r.mid[alpha] = nil
		r.midObs[alpha], _ = disk.Observe(r.roots[alpha])
	}
	return false, nil, nil, false, nil
}

// runCase executes a case on fresh roots with a fresh session.
func (r *runner) runCase(p string, c *Case) (violation string, nontrivial bool, cycles int) {
	r.n++
	dir := filepath.Join(r.base, fmt.Sprintf("case%d", r.n))
	if c.RootsOnShm {
		if d, err := os.MkdirTemp("/dev/shm", "verif-c01-roots-"); err == nil {
			dir = d
		}
	}
	aRoot, bRoot := filepath.Join(dir, "alpha"), filepath.Join(dir, "beta")
	os.MkdirAll(aRoot, 0o755)
	os.MkdirAll(bRoot, 0o755)
	defer os.RemoveAll(dir)
	cfg := sess.ManualConfig(modeByName[c.Mode])
	cfg.Ignores = []string{"*" + ignoredSuffix}
	r.remote.Store(c.RemoteBeta)
	id, err := r.env.Create(aRoot, bRoot, cfg, nil, nil, "", nil, false)
	if err != nil {
		return fmt.Sprintf("session creation fails: %v", err), false, 0
	}
	defer r.env.Terminate(id)
	archive := r.env.ArchivePath(id)
	clock := int64(1_700_000_000)
	r.mu.Lock()
	r.session, r.roots, r.clock = id, map[bool]string{true: aRoot, false: bRoot}, &clock
	r.mid, r.midObs = map[bool][]*Edit{}, map[bool]*disk.Node{}
	r.mu.Unlock()
	synced = nil
	if p == "C01" || p == "C02" {
		synced = map[string]map[string]*core.Entry{"alpha": {"": {Kind: tree.KDir}}, "beta": {"": {Kind: tree.KDir}}}
		heldAtScan = map[string]map[string][]*core.Entry{"alpha": {}, "beta": {}}
	}
	for ci, edits := range c.Cycles {
		r.mu.Lock()
		r.mid, r.midObs = map[bool][]*Edit{}, map[bool]*disk.Node{}
		for _, e := range edits {
			if e.Mid && (p == "C01" || p == "C02") {
				r.mid[e.Side == "alpha"] = append(r.mid[e.Side == "alpha"], e)
			}
		}
		r.mu.Unlock()
		for _, e := range edits {
			if e.Mid {
				continue
			}
			if e.Side == "both" {
				apply(aRoot, e, &clock)
				apply(bRoot, e, &clock)
				continue
			}
			root := aRoot
			if e.Side == "beta" {
				root = bRoot
			}
			apply(root, e, &clock)
		}
		pre, err := observe(aRoot, bRoot, archive)
		if err != nil {
			return fmt.Sprintf("cycle %d: %v", ci, err), false, ci
		}
		flushErr := r.env.Flush(id, 10*time.Second)
		st := r.env.State(id)
		post, err := observe(aRoot, bRoot, archive)
		if err != nil {
			return fmt.Sprintf("cycle %d: after flush: %v", ci, err), false, ci
		}
		// Content the test itself changed in the middle of the cycle is
		// judged from the observation taken right after that edit.
		r.mu.Lock()
		pre.da, pre.db = pre.a, pre.b
		if o := r.midObs[true]; o != nil {
			pre.da = disk.Expect(o, scanOpts)
		}
		if o := r.midObs[false]; o != nil {
			pre.db = disk.Expect(o, scanOpts)
		}
		r.mu.Unlock()
		if post.anc != nil && tree.HasUnsync(post.anc) {
			return fmt.Sprintf("cycle %d: saved archive contains unsynchronizable content: %s", ci, tree.Render(post.anc)), false, ci
		}
		if p == "C04" {
			if flushErr == nil {
				// A second flush over unchanged roots must change nothing.
				err2 := r.env.Flush(id, 10*time.Second)
				post2, err := observe(aRoot, bRoot, archive)
				if err != nil {
					return fmt.Sprintf("cycle %d: after second flush: %v", ci, err), false, ci
				}
				if err2 == nil {
					if v := sameRoot("alpha root (second flush without edits)", post.aN, post2.aN); v != "" {
						return fmt.Sprintf("cycle %d: %s", ci, v), false, ci
					}
					if v := sameRoot("beta root (second flush without edits)", post.bN, post2.bN); v != "" {
						return fmt.Sprintf("cycle %d: %s", ci, v), false, ci
					}
					if string(post.raw) != string(post2.raw) {
						return fmt.Sprintf("cycle %d: the saved archive changes on a second flush without edits: %s -> %s", ci, tree.Render(post.anc), tree.Render(post2.anc)), false, ci
					}
					st2 := r.env.State(id)
					if st2 != nil && len(st2.AlphaState.GetTransitionProblems())+len(st2.BetaState.GetTransitionProblems()) == 0 && st != nil &&
						len(st.AlphaState.GetTransitionProblems())+len(st.BetaState.GetTransitionProblems()) == 0 && twoWay(c.Mode) {
						if v := converged("", post2.a, post2.b, st2); v != "" {
							return fmt.Sprintf("cycle %d: %s\n alpha %s\n beta  %s\n conflicts %v", ci, v, tree.Render(post2.a), tree.Render(post2.b), conflictRoots(st2)), false, ci
						}
					}
					// Wherever both roots hold the same synchronizable entry the
					// recorded state must hold it too (otherwise the next cycle
					// would still plan a change to the recorded state).
					if v := recordedAgreement("", post2.a, post2.b, post2.anc); v != "" {
						return fmt.Sprintf("cycle %d: %s\n alpha %s\n beta  %s\n archive %s", ci, v, tree.Render(post2.a), tree.Render(post2.b), tree.Render(post2.anc)), false, ci
					}
					if !tree.DeepEqual(pre.a, pre.b) {
						nontrivial = true
					}
				}
			}
		} else {
			v, nt := judgeCycle(p, c.Mode, pre, post, st, flushErr)
			if v != "" {
				return fmt.Sprintf("cycle %d (%s): %s", ci, c.Mode, v), false, ci
			}
			nontrivial = nontrivial || nt
		}
		if synced != nil {
			noteHeld("alpha", pre.a, "")
			noteHeld("beta", pre.b, "")
			if flushErr == nil {
				scanAgreement(pre.a, pre.b, "")
				propagatedFrom("alpha", pre.a, pre.db, post.b, "")
				propagatedFrom("beta", pre.b, pre.da, post.a, "")
			}
			updateSynced(pre.da, pre.db, post.a, post.b, "")
		}
		cycles++
		if flushErr != nil {
			// Halted or failed sessions are the subject of C11/C29.
			break
		}
	}
	return "", nontrivial, cycles
}

// recordedAgreement walks both roots jointly while they agree on
// synchronizable entries and compares the archive with them.
func recordedAgreement(path string, a, b, anc *core.Entry) string {
	if a == nil || b == nil || !tree.IsSyncKind(a.Kind) || !tree.IsSyncKind(b.Kind) || !tree.ShallowEqual(a, b) {
		return ""
	}
	if !tree.ShallowEqual(anc, a) {
		return fmt.Sprintf("after two flushes without problems both roots hold %s at %q but the saved last-synchronized state holds %s there", tree.Render(slim(a)), path, tree.Render(slim(anc)))
	}
	for _, n := range tree.Names(a) {
		if v := recordedAgreement(tree.Join(path, n), a.Contents[n], b.Contents[n], anc.Contents[n]); v != "" {
			return v
		}
	}
	return ""
}

func twoWay(mode string) bool { return strings.HasPrefix(mode, "two-way") }

// converged: outside conflict roots and paths that are untracked or
// problematic on a side, both roots hold the same synchronizable content.
func converged(path string, a, b *core.Entry, st *synchronization.State) string {
	for _, c := range st.Conflicts {
		if c.Root == path {
			return ""
		}
	}
	if st.ExcludedConflicts > 0 {
		return ""
	}
	unsync := func(e *core.Entry) bool { return e != nil && !tree.IsSyncKind(e.Kind) }
	if unsync(a) || unsync(b) || (a == nil && b == nil) {
		return ""
	}
	if !tree.ShallowEqual(a, b) {
		return fmt.Sprintf("after a completed two-way cycle the roots differ at %q: alpha %s beta %s", path, tree.Render(a), tree.Render(b))
	}
	seen := map[string]bool{}
	for _, n := range append(tree.Names(a), tree.Names(b)...) {
		if seen[n] {
			continue
		}
		seen[n] = true
		if v := converged(tree.Join(path, n), a.Contents[n], b.Contents[n], st); v != "" {
			return v
		}
	}
	return ""
}

var rulesByProp = map[string]string{
	"C01": "non-trivial: some cycle has a path created/modified on both roots relative to the saved archive",
	"C02": "non-trivial: some cycle where the protected side holds content not in the archive and the roots differ",
	"C03": "non-trivial: some cycle with an untracked/problematic object on disk while the roots differ",
	"C04": "non-trivial: some cycle whose roots differed before the first flush",
	"C05": "non-trivial: some cycle whose roots differed before the first flush (beta is always reached through the agent protocol; after two flushes without problems the saved state must hold every entry both roots agree on and a further flush must change nothing)",
}

func renderCase(c *Case) []string {
	out := []string{c.Mode}
	for i, cy := range c.Cycles {
		var s []string
		for _, e := range cy {
			s = append(s, fmt.Sprintf("%s:%s%s %s %s", e.Side, map[bool]string{true: "(mid-cycle)", false: ""}[e.Mid], e.Op, e.Path, e.Arg))
		}
		out = append(out, fmt.Sprintf("cycle %d: %s", i, strings.Join(s, "; ")))
	}
	return out
}

func TestSessionHistories(t *testing.T) {
	if ev.ReplayPath() != "" {
		t.Skip()
	}
	p := prop()
	rec := ev.New(t, p, "session-histories", "rapid: 3-8 cycles of 0-4 edits per cycle (write/delete/mkdir/link/chmod/rewrite+chmod"+map[bool]string{true: "/ignored file/FIFO/non-UTF-8 name", false: ""}[p == "C03"]+") on two real roots (names {a,b,c,d}, depth<=2) of a real Manager session (no-watch, waiting flush per cycle; in a third of the cases beta is reached through the agent protocol: remote client and server over a socket pair); both roots and the saved archive are observed independently before and after each flush; "+rulesByProp[p])
	base := t.TempDir()
	env, err := sess.NewEnv(filepath.Join(base, "data"))
	if err != nil {
		t.Fatal(err)
	}
	defer env.Close()
	r := &runner{env: env, base: base}
	sess.Install(nil, &sess.Hooks{Transition: r.hook, Remote: r.remoteBeta})
	defer sess.Install(nil, nil)
	jp := judgedAs(p)
	ev.Check(t, rec, 150, 6000, func(rt *rapid.T) {
		c := &Case{Mode: rapid.SampledFrom(modesFor(jp)).Draw(rt, "mode")}
		c.RemoteBeta = p == "C05" || rapid.IntRange(0, 2).Draw(rt, "remote-beta") == 0
		c.RootsOnShm = rapid.IntRange(0, 2).Draw(rt, "roots-on-shm") == 0
		for n := rapid.IntRange(3, 8).Draw(rt, "cycles"); n > 0; n-- {
			c.Cycles = append(c.Cycles, drawEdits(rt, jp))
		}
		v, nt, cycles := r.runCase(jp, c)
		rec.EvalN(uint64(max(cycles, 1)))
		if v != "" {
			ev.Failf(rt, rec, c, "%s", v)
		}
		rec.Class("mode/" + c.Mode)
		if c.RemoteBeta {
			rec.Class("beta-through-the-agent-protocol")
		}
		if c.RootsOnShm {
			rec.Class("roots-on-another-device-than-staging")
		}
		if nt {
			rec.Class("nontrivial")
			rec.NonTrivial(ev.Hash(renderCase(c)...))
			if rec.WantSample() {
				rec.Sample(renderCase(c))
			}
		}
	})
}

func TestReplay(t *testing.T) {
	if ev.ReplayPath() == "" {
		t.Skip()
	}
	if part := ev.ReplayPart(); part != "session-histories" {
		t.Skip("replay belongs to another package")
	}
	var c Case
	if _, err := ev.LoadReplay(ev.ReplayPath(), &c); err != nil {
		t.Fatal(err)
	}
	p := prop()
	rec := ev.New(t, p, "replay", "replay of a saved case")
	rec.Eval()
	base := t.TempDir()
	env, err := sess.NewEnv(filepath.Join(base, "data"))
	if err != nil {
		t.Fatal(err)
	}
	defer env.Close()
	r := &runner{env: env, base: base}
	sess.Install(nil, &sess.Hooks{Transition: r.hook, Remote: r.remoteBeta})
	defer sess.Install(nil, nil)
	if v, _, _ := r.runCase(judgedAs(p), &c); v != "" {
		ev.FailTB(t, rec, &c, "%s", v)
	}
}
