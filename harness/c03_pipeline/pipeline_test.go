// Package c03_pipeline decides C03 across the scanner and the reconciler:
// two real roots are scanned under a scripted ignorer that exercises the full
// ignorer contract (ignored, ignored but traversed under a mask, unignored
// below a mask), phantom directories are reified, a plan is reconciled, and
// the plan is judged against what is really on disk: no change may be planned
// at or above content that synchronization does not track.
package c03_pipeline

import (
	"context"
	"crypto/sha1"
	"fmt"
	"os"
	"path/filepath"
	"sort"
	"strings"
	"syscall"
	"testing"

	"pgregory.net/rapid"

	"github.com/mutagen-io/mutagen/pkg/filesystem"
	"github.com/mutagen-io/mutagen/pkg/filesystem/behavior"
	"github.com/mutagen-io/mutagen/pkg/synchronization/core"
	"github.com/mutagen-io/mutagen/pkg/synchronization/core/ignore"

	"verif/kit/disk"
	"verif/kit/ev"
	"verif/kit/tree"
)

const prop = "C03"

// Case is two on-disk trees, the recorded last-synchronized state, the
// ignorer's decisions and the mode.
type Case struct {
	Alpha     *disk.Node        `json:"alpha"`
	Beta      *disk.Node        `json:"beta"`
	Ancestor  *tree.J           `json:"ancestor"`
	Decisions map[string]string `json:"decisions"`
	Mode      int32             `json:"mode"`
}

type scriptedIgnorer map[string]string

func (s scriptedIgnorer) decide(path string, directory bool) (int, bool) {
	switch s[path] {
	case "ignored":
		return 1, false
	case "ignored-continue":
		return 1, directory
	case "unignored":
		return 2, false
	case "nominal-continue":
		return 0, directory
	}
	return 0, false
}

func (s scriptedIgnorer) Ignore(path string, directory bool) (ignore.IgnoreStatus, bool) {
	status, cont := s.decide(path, directory)
	return []ignore.IgnoreStatus{ignore.IgnoreStatusNominal, ignore.IgnoreStatusIgnored, ignore.IgnoreStatusUnignored}[status], cont
}

var modes = []core.SynchronizationMode{
	core.SynchronizationMode_SynchronizationModeTwoWaySafe,
	core.SynchronizationMode_SynchronizationModeTwoWayResolved,
	core.SynchronizationMode_SynchronizationModeOneWaySafe,
	core.SynchronizationMode_SynchronizationModeOneWayReplica,
}

func opts(c *Case) disk.ScanOpts {
	return disk.ScanOpts{
		SymlinkMode: core.SymbolicLinkMode_SymbolicLinkModePortable,
		PermMode:    core.PermissionsMode_PermissionsModePortable,
		Decide:      scriptedIgnorer(c.Decisions).decide,
	}
}

// untrackedPaths lists the paths of on-disk objects the scan must report as
// untracked or problematic.
func untrackedPaths(e *core.Entry) []string {
	var out []string
	for _, pe := range tree.Walk(e) {
		if pe.Entry.Kind == tree.KUntr || pe.Entry.Kind == tree.KProb {
			out = append(out, pe.Path)
		}
	}
	return out
}

const deniedName = "denied"

// denyModel turns every directory that lists an entry it cannot examine into
// a problematic entry (what the scan must report for it).
func denyModel(e *core.Entry) *core.Entry {
	if e == nil || len(e.Contents) == 0 {
		return e
	}
	if _, ok := e.Contents[deniedName]; ok {
		return &core.Entry{Kind: core.EntryKind_Problematic, Problem: "*"}
	}
	out := &core.Entry{Kind: e.Kind, Executable: e.Executable, Digest: e.Digest, Target: e.Target, Problem: e.Problem, Contents: map[string]*core.Entry{}}
	for n, c := range e.Contents {
		out.Contents[n] = denyModel(c)
	}
	return out
}

func hasDenied(e *core.Entry) bool {
	for _, pe := range tree.Walk(e) {
		if pe.Entry.Kind == tree.KProb {
			return true
		}
	}
	return false
}

func hasPhantom(e *core.Entry) bool {
	for _, pe := range tree.Walk(e) {
		if pe.Entry.Kind == core.EntryKind_PhantomDirectory {
			return true
		}
	}
	return false
}

func judge(c *Case, dir string) (violation string, nontrivial bool, classes []string) {
	aRoot, bRoot := filepath.Join(dir, "alpha"), filepath.Join(dir, "beta")
	if disk.Build(aRoot, c.Alpha) != nil || disk.Build(bRoot, c.Beta) != nil {
		return "", false, nil
	}
	defer disk.MakeWritable(dir)
	obsA, errA := disk.Observe(aRoot)
	obsB, errB := disk.Observe(bRoot)
	if errA != nil || errB != nil {
		return "", false, nil
	}
	o := opts(c)
	ign := scriptedIgnorer(c.Decisions)
	scan := func(root string) (*core.Entry, error) {
		snap, _, _, err := core.Scan(context.Background(), root, nil, nil, sha1.New(), nil, ign, nil,
			behavior.ProbeMode_ProbeModeProbe, o.SymlinkMode, o.PermMode)
		if err != nil {
			return nil, err
		}
		return snap.Content, nil
	}
	// Entries named "denied" cannot be examined (fstatat fails with EACCES, as
	// for an unprivileged user in a directory without search permission).
	filesystem.VerifSetInjector(func(op, path string) error {
		if op == "fstatat" && path == deniedName {
			return syscall.EACCES
		}
		return nil
	})
	defer filesystem.VerifSetInjector(nil)
	sa, err := scan(aRoot)
	if err != nil {
		return fmt.Sprintf("scan of alpha fails: %v", err), false, nil
	}
	sb, err := scan(bRoot)
	if err != nil {
		return fmt.Sprintf("scan of beta fails: %v", err), false, nil
	}
	anc := tree.FromJ(c.Ancestor)
	ra, rb, _, _ := core.ReifyPhantomDirectories(anc, sa, sb)
	mode := core.SynchronizationMode(c.Mode)
	_, alphaT, betaT, conflicts := core.Reconcile(anc, ra, rb, mode)

	// What is really on disk and not tracked.
	ea, eb := denyModel(disk.Expect(obsA, o)), denyModel(disk.Expect(obsB, o))
	check := func(side string, changes []*core.Change, untracked []string, obs *disk.Node) string {
		for _, ch := range changes {
			for _, u := range untracked {
				if tree.IsPrefix(ch.Path, u) {
					return fmt.Sprintf("%s holds %q (%s), which synchronization does not track (ignored, masked, unsupported or problematic), but the plan changes %s at %q: %s (conflicts %s)", side, u, obs.At(u).Render(false), side, ch.Path, tree.RenderChange(ch), tree.RenderConflicts(conflicts))
				}
			}
		}
		return ""
	}
	denied := false
	for _, n := range []*disk.Node{obsA, obsB} {
		var walk func(n *disk.Node)
		walk = func(n *disk.Node) {
			if n == nil {
				return
			}
			for _, name := range n.Names() {
				if name == deniedName {
					denied = true
				}
				walk(n.Children[name])
			}
		}
		walk(n)
	}
	ua, ub := untrackedPaths(ea), untrackedPaths(eb)
	if v := check("alpha", alphaT, ua, obsA); v != "" {
		return v, true, nil
	}
	if v := check("beta", betaT, ub, obsB); v != "" {
		return v, true, nil
	}
	if len(ua)+len(ub) > 0 {
		classes = append(classes, "untracked-content-present")
	}
	if hasPhantom(ea) || hasPhantom(eb) {
		classes = append(classes, "phantom-directory-scanned")
	}
	masked := false
	for _, e := range []*core.Entry{ea, eb} {
		for _, pe := range tree.Walk(e) {
			if pe.Entry.Kind == core.EntryKind_PhantomDirectory {
				for _, ch := range pe.Entry.Contents {
					if ch.Kind == tree.KUntr {
						masked = true
					}
				}
			}
		}
	}
	if masked {
		classes = append(classes, "masked-content-in-phantom-directory")
	}
	if len(conflicts) > 0 {
		classes = append(classes, "conflicts")
	}
	if denied {
		classes = append(classes, "directory-with-an-entry-that-cannot-be-examined")
	}
	nontrivial = len(ua)+len(ub) > 0 && len(alphaT)+len(betaT)+len(conflicts) > 0
	return "", nontrivial, classes
}

var names = []string{"a", "b", "c", "d"}

// mutate derives an endpoint's tree from the base: deletions, replacements,
// additions.
func mutate(rt *rapid.T, g disk.Gen, n *disk.Node, label string, depth int) *disk.Node {
	out := n.Clone()
	if out.Kind != disk.Dir {
		return out
	}
	for _, name := range out.Names() {
		switch rapid.IntRange(0, 9).Draw(rt, label+"/"+name+".op") {
		case 0, 1:
			delete(out.Children, name)
		case 2:
			out.Children[name] = g.Leaf(rt, label+"/"+name+".new")
		case 3:
			if depth > 0 {
				out.Children[name] = g.Dir(rt, label+"/"+name+".newdir", depth-1)
			}
		default:
			out.Children[name] = mutate(rt, g, out.Children[name], label+"/"+name, depth-1)
		}
	}
	if rapid.IntRange(0, 2).Draw(rt, label+".add") == 0 {
		name := rapid.SampledFrom(names).Draw(rt, label+".add.name")
		if out.Children[name] == nil {
			out.Children[name] = g.Leaf(rt, label+".added")
		}
	}
	return out
}

func allPaths(n *disk.Node, prefix string, out map[string]bool) {
	if n == nil {
		return
	}
	for _, name := range n.Names() {
		p := name
		if prefix != "" {
			p = prefix + "/" + name
		}
		out[p] = true
		allPaths(n.Children[name], p, out)
	}
}

// reifyAlone turns the phantom directories of a single expected scan into
// tracked directories where they hold tracked content and into untracked
// entries where they do not (what a synchronization of that tree with a copy
// of itself would have recorded).
func reifyAlone(e *core.Entry) *core.Entry {
	if e == nil {
		return nil
	}
	out := &core.Entry{Kind: e.Kind, Executable: e.Executable, Digest: e.Digest, Target: e.Target, Problem: e.Problem}
	tracked := false
	for n, c := range e.Contents {
		if out.Contents == nil {
			out.Contents = map[string]*core.Entry{}
		}
		r := reifyAlone(c)
		out.Contents[n] = r
		if tree.IsSyncKind(r.Kind) {
			tracked = true
		}
	}
	if e.Kind == core.EntryKind_PhantomDirectory {
		if tracked {
			out.Kind = core.EntryKind_Directory
		} else {
			return &core.Entry{Kind: core.EntryKind_Untracked}
		}
	}
	return out
}

func drawCase(rt *rapid.T) *Case {
	g := disk.Gen{MaxDepth: 2, MaxFan: 4, Names: names, Exotic: true, Links: true}
	base := g.Dir(rt, "base", 2)
	c := &Case{Alpha: mutate(rt, g, base, "alpha", 2), Beta: mutate(rt, g, base, "beta", 2)}
	c.Mode = int32(rapid.SampledFrom(modes).Draw(rt, "mode"))
	set := map[string]bool{}
	allPaths(base, "", set)
	allPaths(c.Alpha, "", set)
	allPaths(c.Beta, "", set)
	var paths []string
	for p := range set {
		if !strings.Contains(p, "\xff") {
			paths = append(paths, p)
		}
	}
	sort.Strings(paths)
	c.Decisions = map[string]string{}
	for _, p := range paths {
		switch rapid.IntRange(0, 11).Draw(rt, "decision") {
		case 0:
			c.Decisions[p] = "ignored"
		case 1, 2, 3:
			c.Decisions[p] = "ignored-continue"
		case 4, 5:
			c.Decisions[p] = "unignored"
		case 6:
			c.Decisions[p] = "nominal-continue"
		}
	}
	if rapid.IntRange(0, 2).Draw(rt, "masked-shape") == 0 {
		// A directory that is ignored but holds unignored content: present
		// in the base with a tracked child and masked siblings, kept by one
		// endpoint and deleted or replaced on the other.
		d := rapid.SampledFrom(names).Draw(rt, "masked.dir")
		dirNode := &disk.Node{Kind: disk.Dir, Perm: 0o755, Children: map[string]*disk.Node{}}
		kept := rapid.SampledFrom(names).Draw(rt, "masked.kept")
		dirNode.Children[kept] = g.File(rt, "masked.kept.file")
		for i := rapid.IntRange(1, 2).Draw(rt, "masked.siblings"); i > 0; i-- {
			n := rapid.SampledFrom(names).Draw(rt, "masked.sibling")
			if n != kept {
				if rapid.Bool().Draw(rt, "masked.sibling.dir") {
					dirNode.Children[n] = g.Dir(rt, "masked.sibling.sub", 0)
				} else {
					dirNode.Children[n] = g.Leaf(rt, "masked.sibling.leaf")
				}
			}
		}
		base.Children[d] = dirNode
		keeper, other := c.Alpha, c.Beta
		if rapid.Bool().Draw(rt, "masked.keeper") {
			keeper, other = c.Beta, c.Alpha
		}
		keeper.Children[d] = dirNode.Clone()
		if rapid.Bool().Draw(rt, "masked.keeper.extra") {
			keeper.Children[d].Children["extra"] = g.Leaf(rt, "masked.extra")
		}
		if rapid.Bool().Draw(rt, "masked.other.replaced") {
			other.Children[d] = g.Leaf(rt, "masked.replacement")
		} else {
			delete(other.Children, d)
		}
		for p := range c.Decisions {
			if p == d || strings.HasPrefix(p, d+"/") {
				delete(c.Decisions, p)
			}
		}
		c.Decisions[d] = "ignored-continue"
		c.Decisions[d+"/"+kept] = "unignored"
	}
	if rapid.IntRange(0, 3).Draw(rt, "denied-shape") == 0 {
		// A directory that both the base and one endpoint hold, with tracked
		// content and one entry that cannot be examined; the other endpoint
		// deletes or replaces it.
		d := rapid.SampledFrom(names).Draw(rt, "denied.dir")
		dirNode := &disk.Node{Kind: disk.Dir, Perm: 0o755, Children: map[string]*disk.Node{
			"keep": g.File(rt, "denied.keep"),
		}}
		base.Children[d] = dirNode.Clone()
		holder, other := c.Alpha, c.Beta
		if rapid.Bool().Draw(rt, "denied.holder") {
			holder, other = c.Beta, c.Alpha
		}
		withDenied := dirNode.Clone()
		withDenied.Children[deniedName] = g.File(rt, "denied.file")
		holder.Children[d] = withDenied
		if rapid.Bool().Draw(rt, "denied.other.replaced") {
			other.Children[d] = g.Leaf(rt, "denied.replacement")
		} else {
			delete(other.Children, d)
		}
		for p := range c.Decisions {
			if p == d || strings.HasPrefix(p, d+"/") {
				delete(c.Decisions, p)
			}
		}
	}
	// The recorded state: what a synchronization of the base would have
	// recorded (its tracked part), or nothing.
	if rapid.IntRange(0, 3).Draw(rt, "ancestor") != 0 {
		c.Ancestor = tree.ToJ(tree.Sync(reifyAlone(disk.Expect(base, opts(c)))))
	}
	return c
}

func TestScanReifyReconcile(t *testing.T) {
	if ev.ReplayPath() != "" {
		t.Skip()
	}
	rec := ev.New(t, prop, "scan-reify-reconcile", "rapid: a base tree (depth<=2, names a-d, files, links, FIFOs, non-UTF-8 names) and two endpoint trees derived from it by deletions, replacements and additions are materialised; both roots are scanned by core.Scan under a scripted ignorer with per-path decisions under the full contract (ignored / ignored but traversed under a mask / unignored / nominal but traversed), phantom directories are reified and core.Reconcile plans under each of the 4 modes from the tracked part of the base (or from nothing); oracle: an independent walk of each root plus the model of the ignorer contract (kit/disk) lists the on-disk objects that are not tracked — no planned change on an endpoint may sit at or above such an object; a quarter of the cases hold a directory with an entry that cannot be examined (fstatat made to fail with EACCES through the filesystem hook: the directory must be reported as problematic) which the other endpoint deletes or replaces; non-trivial: untracked content present and the plan has a change or a conflict")
	base := t.TempDir()
	i := 0
	ev.Check(t, rec, 400, 12000, func(rt *rapid.T) {
		c := drawCase(rt)
		i++
		dir := filepath.Join(base, fmt.Sprintf("c%d", i))
		os.Mkdir(dir, 0o700)
		defer os.RemoveAll(dir)
		rec.Eval()
		v, nt, classes := judge(c, dir)
		if v != "" {
			ev.Failf(rt, rec, c, "%s", v)
		}
		for _, k := range classes {
			rec.Class(k)
		}
		if nt {
			rec.NonTrivial(ev.Hash(c.Alpha.Render(false), c.Beta.Render(false), fmt.Sprint(c.Mode, c.Decisions), tree.Render(tree.FromJ(c.Ancestor))))
			if rec.WantSample() {
				rec.Sample(map[string]any{"alpha": c.Alpha.Render(false), "beta": c.Beta.Render(false), "ancestor": tree.Render(tree.FromJ(c.Ancestor)), "decisions": c.Decisions, "mode": c.Mode})
			}
		}
	})
}

func TestReplay(t *testing.T) {
	if ev.ReplayPath() == "" || ev.ReplayPart() != "scan-reify-reconcile" {
		t.Skip()
	}
	var c Case
	if _, err := ev.LoadReplay(ev.ReplayPath(), &c); err != nil {
		t.Fatal(err)
	}
	rec := ev.New(t, prop, "replay", "replay of a saved case")
	rec.Eval()
	if v, _, _ := judge(&c, t.TempDir()); v != "" {
		ev.FailTB(t, rec, &c, "%s", v)
	}
}
