// Package c05_controller decides the controller part of C05: the real
// synchronization controller, fed generated snapshots and generated transition
// outcomes through scripted endpoints, must save an archive that is valid and
// records exactly what the endpoints reported.
package c05_controller

import (
	"context"
	"fmt"
	"os"
	"path/filepath"
	"sort"
	"strings"
	"sync"
	"testing"
	"time"

	"pgregory.net/rapid"

	"github.com/mutagen-io/mutagen/pkg/encoding"
	"github.com/mutagen-io/mutagen/pkg/synchronization/core"

	rec01 "verif/c01_reconcile"
	"verif/kit/ev"
	"verif/kit/sess"
	"verif/kit/tree"
)

const prop = "C05"

// Case is a triple, a mode and an outcome vector (index per transition in
// sorted path order, alpha transitions first).
type Case struct {
	Anc      *tree.J `json:"ancestor"`
	Alpha    *tree.J `json:"alpha"`
	Beta     *tree.J `json:"beta"`
	Mode     int32   `json:"mode"`
	Outcomes []int   `json:"outcomes"`
	FailSide string  `json:"transition_error_side,omitempty"` // "", alpha, beta: that endpoint's Transition returns an error
	// PauseSide: "", alpha, beta: the session is paused while that endpoint's
	// Transition call is running; the call returns its (generated) outcomes
	// once the controller's context has been cancelled.
	PauseSide string `json:"pause_during_transition_side,omitempty"`
}

type script struct {
	mu       sync.Mutex
	phase    int
	anc      *core.Entry
	a, b     *core.Entry
	outcomes []int
	failSide string
	partial  bool
	// pause scenario
	pauseSide   string
	pause       func()
	pauseFired  bool
	cancelSeen  bool
	pauseResult chan error
}

// onTransition implements the pause scenario: the first Transition call on
// the chosen side starts Pause in the background and waits until the
// controller's context is cancelled.
func (s *script) onTransition(ctx context.Context, session string, alpha bool) {
	s.mu.Lock()
	side := "beta"
	if alpha {
		side = "alpha"
	}
	fire := s.phase == 2 && s.pauseSide == side && !s.pauseFired
	if fire {
		s.pauseFired = true
	}
	pause := s.pause
	s.mu.Unlock()
	if !fire {
		return
	}
	go pause()
	select {
	case <-ctx.Done():
		s.mu.Lock()
		s.cancelSeen = true
		s.mu.Unlock()
	case <-time.After(20 * time.Second):
	}
}

func (s *script) scan(session string, alpha bool, ancestor *core.Entry, full bool) (bool, *core.Snapshot, error, bool) {
	s.mu.Lock()
	defer s.mu.Unlock()
	content := s.anc
	if s.phase == 2 {
		content = s.b
		if alpha {
			content = s.a
		}
	}
	return true, &core.Snapshot{Content: content, PreservesExecutability: true}, nil, false
}

func (s *script) transition(session string, alpha bool, transitions []*core.Change) (bool, []*core.Entry, []*core.Problem, bool, error) {
	s.mu.Lock()
	defer s.mu.Unlock()
	side := "beta"
	if alpha {
		side = "alpha"
	}
	if s.failSide == side {
		return true, nil, nil, false, fmt.Errorf("scripted transition failure")
	}
	// Outcome index by rank of the path among this side's transitions; beta
	// ranks continue after alpha's (offset 6 keeps them apart).
	paths := make([]string, len(transitions))
	for i, t := range transitions {
		paths[i] = t.Path
	}
	sort.Strings(paths)
	rank := map[string]int{}
	for i, p := range paths {
		rank[p] = i
	}
	results := make([]*core.Entry, len(transitions))
	var problems []*core.Problem
	for i, t := range transitions {
		outs := rec01.Outcomes(t)
		k := rank[t.Path]
		if !alpha {
			k += 6
		}
		idx := 2 // New
		if k < len(s.outcomes) {
			idx = s.outcomes[k] % len(outs)
		}
		results[i] = outs[idx]
		if !tree.DeepEqual(results[i], t.New) {
			problems = append(problems, &core.Problem{Path: t.Path, Error: "scripted partial outcome"})
			if !tree.DeepEqual(results[i], t.Old) {
				s.partial = true
			}
		}
	}
	return true, results, problems, false, nil
}

type runner struct {
	env  *sess.Env
	base string
	n    int
	sc   *script
}

func loadArchive(path string) (*core.Entry, error) {
	a := &core.Archive{}
	if err := encoding.LoadAndUnmarshalProtobuf(path, a); err != nil {
		return nil, err
	}
	if err := a.EnsureValid(true); err != nil {
		return nil, fmt.Errorf("archive invalid: %w", err)
	}
	return a.Content, nil
}

func (r *runner) run(c *Case) (violation string, nontrivial bool, class string) {
	r.n++
	dir := filepath.Join(r.base, fmt.Sprintf("case%d", r.n))
	aRoot, bRoot := filepath.Join(dir, "alpha"), filepath.Join(dir, "beta")
	os.MkdirAll(aRoot, 0o755)
	os.MkdirAll(bRoot, 0o755)
	defer os.RemoveAll(dir)
	anc, A, B := tree.FromJ(c.Anc), tree.FromJ(c.Alpha), tree.FromJ(c.Beta)
	mode := core.SynchronizationMode(c.Mode)
	r.sc.mu.Lock()
	r.sc.phase, r.sc.anc, r.sc.a, r.sc.b, r.sc.outcomes, r.sc.failSide, r.sc.partial = 1, anc, A, B, c.Outcomes, "", false
	r.sc.mu.Unlock()
	id, err := r.env.Create(aRoot, bRoot, sess.ManualConfig(mode), nil, nil, "", nil, false)
	if err != nil {
		return fmt.Sprintf("session creation fails: %v", err), false, ""
	}
	defer r.env.Terminate(id)
	// Phase 1: both endpoints report the ancestor; the archive becomes it.
	if err := r.env.Flush(id, 10*time.Second); err != nil {
		return "", false, "warmup-flush-failed"
	}
	got, err := loadArchive(r.env.ArchivePath(id))
	if err != nil || !tree.DeepEqual(got, anc) {
		return fmt.Sprintf("after both endpoints reported %s the archive holds %s (%v)", tree.Render(anc), tree.Render(got), err), false, ""
	}
	// Phase 2.
	r.sc.mu.Lock()
	r.sc.phase, r.sc.failSide = 2, c.FailSide
	pauseResult := make(chan error, 1)
	r.sc.pauseSide, r.sc.pauseFired, r.sc.cancelSeen = c.PauseSide, false, false
	r.sc.pause = func() { pauseResult <- r.env.Pause(id) }
	r.sc.mu.Unlock()
	ancChanges, alphaT, betaT, _ := core.Reconcile(anc, A, B, mode)
	flushErr := r.env.Flush(id, 10*time.Second)
	paused := false
	if c.PauseSide != "" {
		r.sc.mu.Lock()
		fired, seen := r.sc.pauseFired, r.sc.cancelSeen
		r.sc.mu.Unlock()
		if fired {
			select {
			case err := <-pauseResult:
				if err != nil {
					return fmt.Sprintf("pause during transition fails: %v", err), true, ""
				}
			case <-time.After(30 * time.Second):
				return "", false, "pause-did-not-return"
			}
			if !seen {
				return "", false, "pause-not-noticed-during-transition"
			}
			paused = true
			flushErr = nil
		}
	}
	st := r.env.State(id)
	if st != nil && sess.Halted(st.Status) {
		return "", false, "halted-for-safety"
	}
	lastErr := ""
	if st != nil {
		lastErr = st.LastError
	}
	for _, bad := range []string{"new ancestor is invalid", "unable to propagate changes to ancestor", "invalid archive"} {
		if strings.Contains(lastErr, bad) || (flushErr != nil && strings.Contains(flushErr.Error(), bad)) {
			return fmt.Sprintf("the cycle ends with %q (flush: %v)", lastErr, flushErr), true, ""
		}
	}
	// Expected archive: ancestor changes, then the reported outcome of every
	// transition of an endpoint whose Transition call did not fail as a whole.
	want := anc
	ok := true
	for _, ch := range ancChanges {
		if want, ok = tree.ApplyModel(want, ch.Path, ch.New); !ok {
			return "", false, "model-cannot-apply"
		}
	}
	apply := func(list []*core.Change, alpha bool) {
		side := "beta"
		if alpha {
			side = "alpha"
		}
		if c.FailSide == side {
			return
		}
		handled, results, _, _, _ := r.sc.transition(id, alpha, list)
		_ = handled
		for i, ch := range list {
			want, _ = tree.ApplyModel(want, ch.Path, results[i])
		}
	}
	apply(alphaT, true)
	apply(betaT, false)
	got, err = loadArchive(r.env.ArchivePath(id))
	if err != nil {
		return fmt.Sprintf("archive unusable after the cycle: %v", err), true, ""
	}
	if tree.HasUnsync(got) {
		return fmt.Sprintf("archive contains unsynchronizable content: %s", tree.Render(got)), true, ""
	}
	if !tree.DeepEqual(got, want) {
		return fmt.Sprintf("archive after the cycle is %s, the endpoints' reports imply %s (ancestor %s alpha %s beta %s; alpha transitions %s beta transitions %s)", tree.Render(got), tree.Render(want), tree.Render(anc), tree.Render(A), tree.Render(B), tree.RenderChanges(alphaT), tree.RenderChanges(betaT)), true, ""
	}
	// Restart: the saved archive must be loadable by a new cycle.
	r.sc.mu.Lock()
	partial := r.sc.partial
	r.sc.mu.Unlock()
	class = "complete"
	if partial {
		class = "partial-outcome"
	}
	if paused {
		class = "paused-during-transition"
	}
	if c.FailSide != "" {
		class = "endpoint-transition-error"
	}
	return "", (partial || c.FailSide != "" || paused) && len(alphaT)+len(betaT) > 0, class
}

func TestScriptedController(t *testing.T) {
	if ev.ReplayPath() != "" {
		t.Skip()
	}
	rec := ev.New(t, prop, "scripted-controller", "rapid: (ancestor, alpha, beta) triples by mutation of a common base x 4 modes, served to the real controller by scripted endpoints (registered through the public protocol-handler map): a warm-up cycle installs the ancestor, then the endpoints report alpha/beta and answer Transition with generated per-transition outcomes (nothing / Old / New / any partial removal or creation) or a whole-call error on one side, or the session is paused while one side's Transition call is running (the call returns its outcomes after the controller's context was cancelled); the archive read back from disk must be valid, synchronizable-only and equal to ancestor-changes-then-reported-outcomes; non-trivial: some outcome is partial, an endpoint's Transition failed or the session was paused during the transition, with >= 1 transition")
	base := t.TempDir()
	env, err := sess.NewEnv(filepath.Join(base, "data"))
	if err != nil {
		t.Fatal(err)
	}
	defer env.Close()
	sc := &script{}
	sess.Install(nil, &sess.Hooks{Scan: sc.scan, Transition: sc.transition, OnTransition: sc.onTransition, SkipStaging: true})
	defer sess.Install(nil, nil)
	r := &runner{env: env, base: base, sc: sc}
	g := tree.DefaultGen
	g.MaxDepth, g.MaxFan = 3, 3
	ev.Check(t, rec, 300, 12000, func(rt *rapid.T) {
		anc, a, b := g.Triple(rt)
		c := &Case{Anc: tree.ToJ(anc), Alpha: tree.ToJ(a), Beta: tree.ToJ(b)}
		c.Mode = int32(rapid.SampledFrom(rec01.Modes).Draw(rt, "mode"))
		c.Outcomes = rapid.SliceOfN(rapid.IntRange(0, 40), 12, 12).Draw(rt, "outcomes")
		switch rapid.IntRange(0, 7).Draw(rt, "fail") {
		case 0:
			c.FailSide = rapid.SampledFrom([]string{"alpha", "beta"}).Draw(rt, "fail.side")
		case 1, 2:
			c.PauseSide = rapid.SampledFrom([]string{"alpha", "beta"}).Draw(rt, "pause.side")
		}
		v, nt, class := r.run(c)
		rec.Eval()
		if v != "" {
			ev.Failf(rt, rec, c, "%s", v)
		}
		rec.Class(class)
		if nt {
			rec.NonTrivial(ev.Hash(tree.Render(anc), tree.Render(a), tree.Render(b), fmt.Sprint(c.Mode, c.Outcomes, c.FailSide, c.PauseSide)))
			if rec.WantSample() {
				rec.Sample(map[string]any{"ancestor": tree.Render(anc), "alpha": tree.Render(a), "beta": tree.Render(b), "mode": c.Mode, "outcomes": c.Outcomes, "failing_side": c.FailSide, "paused_during_transition_of": c.PauseSide})
			}
		}
	})
}

func TestReplay(t *testing.T) {
	if ev.ReplayPath() == "" || ev.ReplayPart() != "scripted-controller" {
		t.Skip()
	}
	var c Case
	if _, err := ev.LoadReplay(ev.ReplayPath(), &c); err != nil {
		t.Fatal(err)
	}
	rec := ev.New(t, prop, "replay", "replay of a saved case")
	rec.Eval()
	base := t.TempDir()
	env, err := sess.NewEnv(filepath.Join(base, "data"))
	if err != nil {
		t.Fatal(err)
	}
	defer env.Close()
	sc := &script{}
	sess.Install(nil, &sess.Hooks{Scan: sc.scan, Transition: sc.transition, OnTransition: sc.onTransition, SkipStaging: true})
	defer sess.Install(nil, nil)
	r := &runner{env: env, base: base, sc: sc}
	if v, _, _ := r.run(&c); v != "" {
		ev.FailTB(t, rec, &c, "%s", v)
	}
}
