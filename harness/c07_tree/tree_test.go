// Package c07_tree decides C07: diff / apply / copy / filter / count
// consistency of entry trees.
package c07_tree

import (
	"fmt"
	"sort"
	"testing"

	"pgregory.net/rapid"

	"github.com/mutagen-io/mutagen/pkg/synchronization/core"

	"verif/kit/ev"
	"verif/kit/tree"
)

const prop = "C07"

// Case is a pair of trees plus an optional change script for the
// apply-does-not-mutate part.
type Case struct {
	X      *tree.J   `json:"x"`
	Y      *tree.J   `json:"y"`
	Script []ScriptC `json:"script,omitempty"`
}

// ScriptC is one change of an apply script.
type ScriptC struct {
	Path string  `json:"path"`
	New  *tree.J `json:"new"`
}

func sample(x, y *core.Entry) map[string]string {
	return map[string]string{"x": tree.Render(x), "y": tree.Render(y)}
}

// judgePair checks diff/apply round trip, copy behaviours, filter and count on
// a pair of trees.
func judgePair(x, y *core.Entry) (violation string, nontrivial bool) {
	xr, yr := tree.Render(x), tree.Render(y)

	// Diff(x, x) is empty.
	if d := core.Diff(x, x); len(d) != 0 {
		return fmt.Sprintf("Diff(x,x) is not empty for x=%s: %s", xr, tree.RenderChanges(d)), false
	}
	// Diff describes both trees and Apply(x, Diff(x,y)) == y.
	d := core.Diff(x, y)
	for _, c := range d {
		if !tree.DeepEqual(c.Old, tree.At(x, c.Path)) || !tree.DeepEqual(c.New, tree.At(y, c.Path)) {
			return fmt.Sprintf("Diff(%s, %s) has change %s that does not describe the trees at %q", xr, yr, tree.RenderChange(c), c.Path), false
		}
	}
	for i := range d {
		for j := range d {
			if i != j && tree.IsPrefix(d[i].Path, d[j].Path) {
				return fmt.Sprintf("Diff(%s, %s) has overlapping changes at %q and %q", xr, yr, d[i].Path, d[j].Path), false
			}
		}
	}
	if tree.DeepEqual(x, y) != (len(d) == 0) {
		return fmt.Sprintf("Diff(%s, %s) = %s but trees equal is %v", xr, yr, tree.RenderChanges(d), tree.DeepEqual(x, y)), false
	}
	res, err := core.Apply(x, d)
	if err != nil {
		return fmt.Sprintf("Apply(x, Diff(x,y)) fails for x=%s y=%s: %v", xr, yr, err), false
	}
	if !tree.DeepEqual(res, y) {
		return fmt.Sprintf("Apply(x, Diff(x,y)) = %s, want y; x=%s y=%s diff=%s", tree.Render(res), xr, yr, tree.RenderChanges(d)), false
	}
	if tree.Render(x) != xr || tree.Render(y) != yr {
		return fmt.Sprintf("Diff/Apply mutated an input: x %s -> %s, y %s -> %s", xr, tree.Render(x), yr, tree.Render(y)), false
	}
	// Mutating the result of Apply the way the package mutates trees must not
	// affect x (copy-on-apply).
	if res != nil && len(d) > 0 && !(len(d) == 1 && d[0].Path == "") {
		mutateDirs(res)
		if tree.Render(x) != xr {
			return fmt.Sprintf("Apply's result shares directory maps with its base: base changed from %s to %s", xr, tree.Render(x)), false
		}
		if tree.Render(y) != yr {
			return fmt.Sprintf("Apply's result shares directory maps with a change payload: payload changed from %s to %s", yr, tree.Render(y)), false
		}
	}

	// Filter and count.
	if v := judgeSingle(x); v != "" {
		return v, false
	}
	return "", len(d) > 0
}

// mutateDirs inserts a marker child into every directory-like entry of a tree
// and deletes one existing child.
func mutateDirs(e *core.Entry) {
	if e == nil || (e.Kind != tree.KDir && e.Kind != tree.KPhantom) {
		return
	}
	for _, n := range tree.Names(e) {
		mutateDirs(e.Contents[n])
	}
	names := tree.Names(e)
	if e.Contents == nil {
		e.Contents = map[string]*core.Entry{}
	}
	if len(names) > 0 {
		delete(e.Contents, names[0])
	}
	e.Contents["zz-marker"] = tree.F(9, false)
}

// mutateScalars reassigns the scalar fields of every entry (digest slice
// replaced, not byte-edited).
func mutateScalars(e *core.Entry) {
	if e == nil {
		return
	}
	for _, c := range e.Contents {
		mutateScalars(c)
	}
	switch e.Kind {
	case tree.KFile:
		e.Digest = tree.Digest(0x77)
		e.Executable = !e.Executable
	case tree.KLink:
		e.Target = e.Target + "-changed"
	case tree.KProb:
		e.Problem = e.Problem + "-changed"
	}
}

// judgeSingle checks copy behaviours, filter and count on one tree.
func judgeSingle(x *core.Entry) string {
	xr := tree.Render(x)
	if got, want := x.Count(), tree.CountSync(x); got != want {
		return fmt.Sprintf("Count() = %d, want %d synchronizable entries in %s", got, want, xr)
	}
	if got, want := x.VerifSynchronizable(), tree.Sync(x); !tree.DeepEqual(got, want) {
		return fmt.Sprintf("synchronizable filter of %s = %s, want %s", xr, tree.Render(got), tree.Render(want))
	}
	if tree.Render(x) != xr {
		return fmt.Sprintf("filter/count mutated the tree: %s -> %s", xr, tree.Render(x))
	}
	// Public-API observation of the filter: the New of the single beta change
	// of Reconcile(nil, {x: T}, nil, one-way-replica).
	if x != nil && x.Kind != tree.KPhantom {
		wrapped := tree.D(map[string]*core.Entry{"x": x})
		_, _, beta, _ := core.Reconcile(nil, wrapped, nil, core.SynchronizationMode_SynchronizationModeOneWayReplica)
		if len(beta) != 1 || beta[0].Path != "" || !tree.DeepEqual(beta[0].New, tree.Sync(wrapped)) {
			return fmt.Sprintf("replicating %s onto an empty endpoint plans %s, want the synchronizable part %s", tree.Render(wrapped), tree.RenderChanges(beta), tree.Render(tree.Sync(wrapped)))
		}
	}

	for _, b := range []core.EntryCopyBehavior{core.EntryCopyBehaviorDeep, core.EntryCopyBehaviorDeepPreservingLeaves, core.EntryCopyBehaviorShallow, core.EntryCopyBehaviorSlim} {
		orig := tree.Clone(x)
		cp := orig.Copy(b)
		switch b {
		case core.EntryCopyBehaviorDeep, core.EntryCopyBehaviorDeepPreservingLeaves:
			if !tree.DeepEqual(cp, orig) {
				return fmt.Sprintf("Copy(%d) of %s = %s", b, xr, tree.Render(cp))
			}
			if !orig.Equal(cp, true) || !cp.Equal(orig, true) {
				return fmt.Sprintf("Copy(%d) of %s does not compare Equal(deep) to the original", b, xr)
			}
			mutateDirs(orig)
			if b == core.EntryCopyBehaviorDeep {
				mutateScalars(orig)
			}
			if tree.Render(cp) != xr {
				return fmt.Sprintf("Copy(%d) of %s changed to %s after the original was modified", b, xr, tree.Render(cp))
			}
		case core.EntryCopyBehaviorShallow:
			if !tree.ShallowEqual(cp, orig) || (orig != nil && len(cp.Contents) != len(orig.Contents)) {
				return fmt.Sprintf("Copy(shallow) of %s = %s", xr, tree.Render(cp))
			}
			if orig != nil {
				for n, c := range orig.Contents {
					if !tree.DeepEqual(cp.Contents[n], c) {
						return fmt.Sprintf("Copy(shallow) of %s differs at child %q", xr, n)
					}
				}
				if !orig.Equal(cp, false) {
					return fmt.Sprintf("Copy(shallow) of %s does not compare Equal(shallow)", xr)
				}
				// Top-level map changes on the original do not show in the copy.
				if orig.Kind == tree.KDir || orig.Kind == tree.KPhantom {
					before := len(cp.Contents)
					if orig.Contents == nil {
						orig.Contents = map[string]*core.Entry{}
					}
					orig.Contents["zz-marker"] = tree.F(9, false)
					if len(cp.Contents) != before {
						return fmt.Sprintf("Copy(shallow) of %s shares its content map with the original", xr)
					}
				}
			}
		case core.EntryCopyBehaviorSlim:
			if !tree.ShallowEqual(cp, orig) || (cp != nil && cp.Contents != nil) {
				return fmt.Sprintf("Copy(slim) of %s = %s", xr, tree.Render(cp))
			}
			if orig != nil {
				mutateScalars(orig)
				want := tree.Clone(x)
				if want != nil {
					want.Contents = nil
				}
				if !tree.DeepEqual(cp, want) {
					return fmt.Sprintf("Copy(slim) of %s changed to %s after the original was modified", xr, tree.Render(cp))
				}
			}
		}
	}
	return ""
}

// judgeScript checks that Apply with a multi-change script (later changes may
// land below earlier ones) equals the model apply and mutates neither the base
// nor the change payloads.
func judgeScript(x *core.Entry, script []*core.Change) (violation string, nontrivial bool) {
	xr := tree.Render(x)
	before := tree.RenderChangesOrdered(script)
	want := x
	ok := true
	for _, c := range script {
		if want, ok = tree.ApplyModel(want, c.Path, c.New); !ok {
			break
		}
	}
	if !ok {
		// A change whose parent is missing or not a directory: no caller
		// produces such scripts (reconciliation only plans below directories),
		// so they are outside the property's domain.
		return "", false
	}
	got, err := core.Apply(x, script)
	if err != nil {
		return fmt.Sprintf("Apply(%s, %s) fails: %v", xr, before, err), false
	}
	if !tree.DeepEqual(got, want) {
		return fmt.Sprintf("Apply(%s, %s) = %s, want %s", xr, before, tree.Render(got), tree.Render(want)), false
	}
	if tree.Render(x) != xr {
		return fmt.Sprintf("Apply mutated its base: %s -> %s (script %s)", xr, tree.Render(x), before), false
	}
	if tree.RenderChangesOrdered(script) != before {
		return fmt.Sprintf("Apply mutated a change payload: script %s -> %s", before, tree.RenderChangesOrdered(script)), false
	}
	nested := false
	for i := range script {
		for j := i + 1; j < len(script); j++ {
			if script[i].Path != script[j].Path && tree.IsPrefix(script[i].Path, script[j].Path) {
				nested = true
			}
		}
	}
	return "", nested
}

func shape(level int, phantom bool) ([]*core.Entry, string) {
	leaves := []*core.Entry{tree.F(1, false), tree.F(1, true), tree.F(2, false), tree.L("t1"), tree.U(), tree.P("p1")}
	var s *tree.Shape
	if level <= 1 {
		sub := &tree.Shape{Names: []string{"a"}, Leaves: []*core.Entry{tree.F(1, false), tree.F(2, false), tree.U()}, Sub: &tree.Shape{}, Phantom: phantom}
		s = &tree.Shape{Names: []string{"a", "b"}, Leaves: leaves, Sub: sub, Phantom: phantom}
		return s.Enumerate(true), "root: nil | leaf | directory over {a,b}; leaves {F(d1),F(d1,x),F(d2),L(t1),U,P}; child directories (and phantom directories) over {a} with leaves {F(d1),F(d2),U,empty directory}"
	}
	sub := &tree.Shape{Names: []string{"a", "b"}, Leaves: []*core.Entry{tree.F(1, false), tree.U(), tree.P("p1")}, Sub: &tree.Shape{}, Phantom: phantom}
	s = &tree.Shape{Names: []string{"a", "b"}, Leaves: leaves, Sub: sub, Phantom: phantom}
	return s.Enumerate(true), "root: nil | leaf | directory over {a,b}; leaves {F(d1),F(d1,x),F(d2),L(t1),U,P}; child directories (and phantom directories) over {a,b} with leaves {F(d1),U,P,empty directory}"
}

func TestExhaustivePairs(t *testing.T) {
	if ev.ReplayPath() != "" {
		t.Skip()
	}
	rec := ev.New(t, prop, "exhaustive-pairs", "every ordered pair of trees of the bounded shape (incl. untracked, problematic and phantom entries); non-trivial: the pair differs at >= 1 path")
	trees, bound := shape(ev.Pick(1, 2), true)
	rec.SetExhaustive(bound)
	rec.Note("trees", len(trees))
	shard, shards := ev.Shard(), ev.Shards()
	for i, x := range trees {
		if i%shards != shard {
			continue
		}
		var nt uint64
		for _, y := range trees {
			v, n := judgePair(x, y)
			if v != "" {
				ev.FailTB(t, rec, &Case{X: tree.ToJ(x), Y: tree.ToJ(y)}, "%s", v)
			}
			if n {
				nt++
				if tree.HasUnsync(x) {
					rec.Class("differs+unsync")
				}
				if rec.WantSample() && i%97 == 5 && len(y.GetContents()) > 1 {
					rec.Sample(sample(x, y))
				}
			}
		}
		rec.EvalN(uint64(len(trees)))
		rec.NonTrivialDistinct(nt)
	}
}

func drawScript(rt *rapid.T, g tree.GenConfig, x *core.Entry) []*core.Change {
	// Paths: existing paths of x, their extensions, and paths created by
	// earlier script entries.
	var paths []string
	for _, pe := range tree.Walk(x) {
		paths = append(paths, pe.Path)
	}
	paths = append(paths, "")
	sort.Strings(paths)
	n := rapid.IntRange(1, 5).Draw(rt, "script.len")
	var script []*core.Change
	for i := 0; i < n; i++ {
		base := rapid.SampledFrom(paths).Draw(rt, "script.base")
		p := base
		if rapid.IntRange(0, 2).Draw(rt, "script.extend") > 0 {
			p = tree.Join(base, rapid.SampledFrom(g.Names).Draw(rt, "script.name"))
		}
		var nw *core.Entry
		if rapid.IntRange(0, 4).Draw(rt, "script.delete") > 0 {
			nw = g.Tree(rt, "script.new", 2, true)
			if nw.Kind == tree.KDir {
				for _, pe := range tree.Walk(nw) {
					if pe.Entry.Kind == tree.KDir {
						paths = append(paths, tree.Join(p, pe.Path))
					}
				}
			}
		}
		script = append(script, &core.Change{Path: p, New: nw})
	}
	return script
}

func TestRandom(t *testing.T) {
	if ev.ReplayPath() != "" {
		t.Skip()
	}
	g := tree.DefaultGen
	g.Phantom = true
	rec := ev.New(t, prop, "random-pairs", "rapid: y derived from x by a random edit script (depth<=4, fan-out<=4, incl. unsynchronizable kinds); non-trivial: the pair differs and x contains an unsynchronizable entry below a directory")
	ev.Check(t, rec, 20000, 300000, func(rt *rapid.T) {
		var x *core.Entry
		if rapid.IntRange(0, 9).Draw(rt, "x.nil") > 0 {
			x = g.Tree(rt, "x", 4, true)
		}
		y := g.Mutate(rt, "y", x, true)
		rec.Eval()
		v, n := judgePair(x, y)
		if v != "" {
			ev.Failf(rt, rec, &Case{X: tree.ToJ(x), Y: tree.ToJ(y)}, "%s", v)
		}
		if n {
			rec.Class("differs")
		}
		if n && x != nil && len(x.Contents) > 0 && tree.HasUnsync(x) {
			rec.NonTrivial(ev.Hash(tree.Render(x), tree.Render(y)))
			if rec.WantSample() {
				rec.Sample(sample(x, y))
			}
		}
	})

	srec := ev.New(t, prop, "random-apply-scripts", "rapid: a tree plus a script of 1-5 changes whose later entries may land inside entries created by earlier ones; Apply must equal the model apply and leave base and payloads untouched; non-trivial: a later change lies below an earlier one")
	ev.Check(t, srec, 20000, 300000, func(rt *rapid.T) {
		var x *core.Entry
		if rapid.IntRange(0, 9).Draw(rt, "x.nil") > 0 {
			x = g.Tree(rt, "x", 3, true)
		}
		script := drawScript(rt, g, x)
		srec.Eval()
		v, n := judgeScript(x, script)
		c := &Case{X: tree.ToJ(x)}
		for _, s := range script {
			c.Script = append(c.Script, ScriptC{s.Path, tree.ToJ(s.New)})
		}
		if v != "" {
			ev.Failf(rt, srec, c, "%s", v)
		}
		if n {
			srec.NonTrivial(ev.Hash(tree.Render(x), tree.RenderChangesOrdered(script)))
			if srec.WantSample() {
				srec.Sample(map[string]string{"x": tree.Render(x), "script": tree.RenderChangesOrdered(script)})
			}
		}
	})
}

func TestReplay(t *testing.T) {
	if ev.ReplayPath() == "" {
		t.Skip()
	}
	var c Case
	if _, err := ev.LoadReplay(ev.ReplayPath(), &c); err != nil {
		t.Fatal(err)
	}
	rec := ev.New(t, prop, "replay", "replay of a saved case")
	rec.Eval()
	x, y := tree.FromJ(c.X), tree.FromJ(c.Y)
	if len(c.Script) > 0 {
		var script []*core.Change
		for _, s := range c.Script {
			script = append(script, &core.Change{Path: s.Path, New: tree.FromJ(s.New)})
		}
		if v, _ := judgeScript(x, script); v != "" {
			ev.FailTB(t, rec, &c, "%s", v)
		}
		return
	}
	if v, _ := judgePair(x, y); v != "" {
		ev.FailTB(t, rec, &c, "%s", v)
	}
}
