package c08_interloper

// Endpoint-level part of C08: "the preceding scan" is the scan whose snapshot
// was returned to the controller and produced the transitions. A local
// endpoint that watches by polling keeps scanning in the background; those
// scans must not replace what Transition compares the disk with.

import (
	"context"
	"crypto/sha1"
	"fmt"
	"os"
	"path/filepath"
	"sort"
	"sync"
	"testing"
	"time"

	"pgregory.net/rapid"

	"github.com/mutagen-io/mutagen/pkg/identifier"
	"github.com/mutagen-io/mutagen/pkg/logging"
	"github.com/mutagen-io/mutagen/pkg/synchronization"
	"github.com/mutagen-io/mutagen/pkg/synchronization/core"
	"github.com/mutagen-io/mutagen/pkg/synchronization/endpoint/local"

	"verif/kit/disk"
	"verif/kit/ev"
	"verif/kit/tree"
)

// EPFile is one file of the endpoint scenario, what the plan does with it and
// what the interloper does to it after the scan.
type EPFile struct {
	Name   string `json:"name"`
	Perm   uint32 `json:"perm"`
	Length int    `json:"length"`
	Plan   string `json:"plan"`  // delete, to-link, to-dir, swap
	Touch  string `json:"touch"` // "", chmod, chmod-exec, new-inode, touch, setgid
}

// EPCase is a root of 1-4 files plus a template file (local staging source).
type EPCase struct {
	Files []EPFile `json:"files"`
	// Wait: let background polling scans run between the interloper's edits
	// and the transition (2.5 polling intervals).
	Wait bool `json:"wait_for_polling_scans"`
	// Force: poll-only watching; otherwise portable (native + poll hybrid).
	Force bool `json:"force_poll"`
}

var templateContent = []byte("template content used as a local staging source")

func runEndpointCase(c *EPCase, dir string) (violation string, nontrivial bool, classes []string) {
	root := filepath.Join(dir, "root")
	if err := os.MkdirAll(root, 0o755); err != nil {
		return "", false, nil
	}
	defer os.RemoveAll(dir)
	base := time.Unix(1_600_000_000, 0)
	os.WriteFile(filepath.Join(root, "template"), templateContent, 0o644)
	os.Chtimes(filepath.Join(root, "template"), base, base)
	for i, f := range c.Files {
		p := filepath.Join(root, f.Name)
		os.WriteFile(p, disk.Content(byte(30+i), f.Length), 0o600)
		os.Chmod(p, os.FileMode(f.Perm))
		os.Chtimes(p, base, base)
	}
	id, err := identifier.New(identifier.PrefixSynchronization)
	if err != nil {
		return "", false, nil
	}
	cfg := &synchronization.Configuration{
		SynchronizationMode:  core.SynchronizationMode_SynchronizationModeTwoWaySafe,
		WatchMode:            synchronization.WatchMode_WatchModePortable,
		WatchPollingInterval: 1,
	}
	if c.Force {
		cfg.WatchMode = synchronization.WatchMode_WatchModeForcePoll
	}
	ep, err := local.NewEndpoint(logging.NewLogger(logging.LevelDisabled, os.Stderr), root, id, synchronization.Version_Version1, cfg, false)
	if err != nil {
		return fmt.Sprintf("cannot create endpoint: %v", err), false, nil
	}
	defer ep.Shutdown()
	ctx := context.Background()
	var snap *core.Snapshot
	for attempt := 0; ; attempt++ {
		s, err, again := ep.Scan(ctx, nil, true)
		if err == nil {
			snap = s
			break
		}
		if !again || attempt > 50 {
			return "", false, []string{"scan-failed"}
		}
		time.Sleep(20 * time.Millisecond)
	}
	atScan, _ := disk.Observe(root)

	// Interloper.
	later := time.Unix(1_800_000_000, 0)
	touched := map[string]string{}
	for _, f := range c.Files {
		p := filepath.Join(root, f.Name)
		n := atScan.At(f.Name)
		if n == nil {
			continue
		}
		switch f.Touch {
		case "chmod":
			os.Chmod(p, os.FileMode(n.Perm^0o044))
		case "chmod-exec":
			os.Chmod(p, os.FileMode(n.Perm^0o100))
		case "setgid":
			os.Chmod(p, os.FileMode(n.Perm)|os.ModeSetgid)
		case "touch":
			os.Chtimes(p, later, later)
		case "new-inode":
			tmp := p + ".interloper"
			os.WriteFile(tmp, n.Data, 0o600)
			os.Chmod(tmp, os.FileMode(n.Perm))
			os.Chtimes(tmp, time.Unix(0, n.MTimeN), time.Unix(0, n.MTimeN))
			os.Rename(tmp, p)
		default:
			continue
		}
		touched[f.Name] = f.Touch
	}
	afterInterloper, _ := disk.Observe(root)
	if c.Wait {
		time.Sleep(2500 * time.Millisecond)
	}

	// The plan, computed from the snapshot the endpoint returned.
	var plan []*core.Change
	var stagePaths []string
	var stageDigests [][]byte
	digest := sha1.Sum(templateContent)
	for _, f := range c.Files {
		old := tree.At(snap.Content, f.Name)
		if old == nil || old.Kind != tree.KFile {
			continue
		}
		ch := &core.Change{Path: f.Name, Old: old}
		switch f.Plan {
		case "to-link":
			ch.New = tree.L("template")
		case "to-dir":
			ch.New = tree.D(nil)
		case "swap":
			ch.New = &core.Entry{Kind: tree.KFile, Digest: digest[:]}
			stagePaths = append(stagePaths, f.Name)
			stageDigests = append(stageDigests, digest[:])
		}
		plan = append(plan, ch)
	}
	if len(plan) == 0 {
		return "", false, nil
	}
	if len(stagePaths) > 0 {
		missing, _, _, err := ep.Stage(stagePaths, stageDigests)
		if err != nil {
			return "", false, []string{"stage-failed"}
		}
		if len(missing) > 0 {
			return "", false, []string{"template-not-staged-locally"}
		}
	}
	results, problems, _, err := ep.Transition(ctx, plan)
	if err != nil {
		return "", false, []string{"transition-error"}
	}
	final, _ := disk.Observe(root)
	if len(results) != len(plan) {
		return fmt.Sprintf("%d results for %d transitions", len(results), len(plan)), false, nil
	}
	for i, ch := range plan {
		op, wasTouched := touched[ch.Path]
		if !wasTouched {
			if !tree.DeepEqual(results[i], ch.New) {
				return fmt.Sprintf("transition %s was not interfered with but ended as %s (problems %s)", tree.RenderChange(ch), tree.Render(results[i]), renderProblems(problems)), nontrivial, classes
			}
			continue
		}
		was, now, scanned := afterInterloper.At(ch.Path), final.At(ch.Path), atScan.At(ch.Path)
		if was == nil || scanned == nil || was.Render(true) == scanned.Render(true) {
			continue
		}
		nontrivial = true
		class := "endpoint/" + op
		if c.Wait {
			class += "/after-polling-scans"
		}
		classes = append(classes, class)
		story := fmt.Sprintf("file %q was %s at the scan whose snapshot produced the plan and %s afterwards (%s)", ch.Path, scanned.Render(true), was.Render(true), op)
		if c.Wait {
			story += "; background polling scans ran before the transition"
		}
		if now == nil {
			return fmt.Sprintf("%s; the transition %s removed it (problems %s)", story, tree.RenderChange(ch), renderProblems(problems)), true, classes
		}
		if now.Render(true) != was.Render(true) {
			return fmt.Sprintf("%s; the transition %s replaced or altered it: now %s (problems %s)", story, tree.RenderChange(ch), now.Render(true), renderProblems(problems)), true, classes
		}
		reported := false
		for _, p := range problems {
			if p.Path == ch.Path {
				reported = true
			}
		}
		if !reported {
			return fmt.Sprintf("%s; it was left alone but no problem is reported for it (problems %s)", story, renderProblems(problems)), true, classes
		}
	}
	return "", nontrivial, classes
}

func drawEPCase(rt *rapid.T, label string) *EPCase {
	c := &EPCase{Wait: rapid.IntRange(0, 3).Draw(rt, label+".wait") != 0, Force: rapid.Bool().Draw(rt, label+".force")}
	n := rapid.IntRange(1, 4).Draw(rt, label+".files")
	for i := 0; i < n; i++ {
		c.Files = append(c.Files, EPFile{
			Name:   fmt.Sprintf("f%d", i),
			Perm:   rapid.SampledFrom([]uint32{0o644, 0o600, 0o755, 0o640, 0o664}).Draw(rt, label+".perm"),
			Length: rapid.SampledFrom([]int{0, 1, 100, 5000}).Draw(rt, label+".length"),
			Plan:   rapid.SampledFrom([]string{"delete", "delete", "swap", "swap", "to-link", "to-dir"}).Draw(rt, label+".plan"),
			Touch:  rapid.SampledFrom([]string{"", "chmod", "chmod", "chmod-exec", "new-inode", "touch", "setgid"}).Draw(rt, label+".touch"),
		})
	}
	return c
}

const epParallel = 8

func TestPollingEndpointInterloper(t *testing.T) {
	if ev.ReplayPath() != "" {
		t.Skip()
	}
	rec := ev.New(t, prop, "polling-endpoint-interloper", "rapid: a real local endpoint that watches by polling (interval 1 s; poll-only or portable) over 1-4 files plus a template; full Scan -> per file optionally one interloper edit that keeps the content (permission bits, executable bit, setgid, mtime, same bytes in a new inode) -> optionally 2.5 s during which background polling scans run -> Stage (swap content is sourced from the template inside the root) -> Transition (delete / swap / replace by link or directory) planned from the returned snapshot; 8 scenarios run concurrently per rapid case. Oracle: an edited file is byte-, mode-, mtime- and inode-identical afterwards and a problem is reported at its path; transitions of untouched files complete. Non-trivial: at least one edited file is covered by the plan")
	base := t.TempDir()
	n := 0
	ev.Check(t, rec, 3, 60, func(rt *rapid.T) {
		var cases []*EPCase
		for i := 0; i < epParallel; i++ {
			cases = append(cases, drawEPCase(rt, fmt.Sprintf("s%d", i)))
		}
		type out struct {
			v   string
			nt  bool
			cls []string
		}
		outs := make([]out, len(cases))
		var wg sync.WaitGroup
		for i, c := range cases {
			n++
			dir := filepath.Join(base, fmt.Sprintf("ep%d", n))
			wg.Add(1)
			go func() {
				defer wg.Done()
				v, nt, cls := runEndpointCase(c, dir)
				outs[i] = out{v, nt, cls}
			}()
		}
		wg.Wait()
		for i, o := range outs {
			rec.Eval()
			if o.v != "" {
				ev.Failf(rt, rec, cases[i], "%s", o.v)
			}
			sort.Strings(o.cls)
			for _, k := range o.cls {
				rec.Class(k)
			}
			if o.nt {
				rec.NonTrivial(ev.Hash(fmt.Sprint(*cases[i])))
				if rec.WantSample() {
					rec.Sample(cases[i])
				}
			}
		}
	})
}

func TestReplayEndpoint(t *testing.T) {
	if ev.ReplayPath() == "" || ev.ReplayPart() != "polling-endpoint-interloper" {
		t.Skip()
	}
	var c EPCase
	if _, err := ev.LoadReplay(ev.ReplayPath(), &c); err != nil {
		t.Fatal(err)
	}
	rec := ev.New(t, prop, "replay", "replay of a saved case")
	rec.Eval()
	if v, _, _ := runEndpointCase(&c, filepath.Join(t.TempDir(), "ep")); v != "" {
		ev.FailTB(t, rec, &c, "%s", v)
	}
}

