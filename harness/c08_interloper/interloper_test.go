// Package c08_interloper decides C08: transitions never destroy content that
// changed after the scan.
package c08_interloper

import (
	"context"
	"fmt"
	"os"
	"path/filepath"
	"sort"
	"strings"
	"testing"
	"time"

	"pgregory.net/rapid"

	"github.com/mutagen-io/mutagen/pkg/filesystem"
	"github.com/mutagen-io/mutagen/pkg/synchronization/core"

	"verif/kit/disk"
	"verif/kit/ev"
	"verif/kit/trans"
	"verif/kit/tree"
)

const prop = "C08"

// Touch is one interloper edit applied between the scan and the transition.
type Touch struct {
	Op   string `json:"op"` // grow, same-size-later-mtime, chmod, new-inode, to-dir, to-link, to-file, retarget, new-child, create-at-new, touch
	Path string `json:"path"`
	Name string `json:"name,omitempty"` // for new-child
	// During: the edit is made in the middle of the transition, when it is
	// about to unlink some other object (first unlinkat of a different name),
	// instead of between the scan and the transition.
	During bool `json:"during_transition,omitempty"`
}

// Case is a tree, a plan and the interloper's edits.
type Case struct {
	Root    *disk.Node        `json:"root"`
	Plan    []*trans.PlanItem `json:"plan"`
	Config  trans.Config      `json:"config"`
	Touches []*Touch          `json:"touches"`
}

// applyTouch performs the edit; it returns the path of the object whose
// survival must be checked ("" if the edit did not apply).
func applyTouch(root string, tc *Touch, obs *disk.Node) string {
	full := filepath.Join(root, filepath.FromSlash(tc.Path))
	n := obs.At(tc.Path)
	later := time.Unix(1_800_000_000, 0)
	switch tc.Op {
	case "grow":
		if n == nil || n.Kind != disk.File {
			return ""
		}
		os.WriteFile(full, append(append([]byte{}, n.Data...), []byte("-edited")...), 0)
		os.Chtimes(full, time.Unix(0, n.MTimeN), time.Unix(0, n.MTimeN)) // size differs, mtime kept
	case "same-size-later-mtime":
		if n == nil || n.Kind != disk.File || len(n.Data) == 0 {
			return ""
		}
		d := append([]byte{}, n.Data...)
		d[0] ^= 0x55
		os.WriteFile(full, d, 0)
		os.Chtimes(full, later, later)
	case "same-size-same-second": // in-place edit, same size, new mtime within the same second
		if n == nil || n.Kind != disk.File || len(n.Data) == 0 {
			return ""
		}
		d := append([]byte{}, n.Data...)
		d[len(d)-1] ^= 0x33
		f, err := os.OpenFile(full, os.O_WRONLY, 0)
		if err != nil {
			return ""
		}
		f.Write(d)
		f.Close()
		os.Chmod(full, os.FileMode(n.Perm))
		sameSecond := time.Unix(0, n.MTimeN-n.MTimeN%1_000_000_000+int64(500*time.Millisecond))
		if sameSecond.UnixNano() == n.MTimeN {
			sameSecond = sameSecond.Add(100 * time.Millisecond)
		}
		os.Chtimes(full, sameSecond, sameSecond)
	case "touch":
		if n == nil || n.Kind != disk.File {
			return ""
		}
		os.Chtimes(full, later, later)
	case "chmod":
		if n == nil || n.Kind != disk.File {
			return ""
		}
		os.Chmod(full, os.FileMode(n.Perm^0o010))
	case "chmod-special": // only setuid / setgid / sticky change
		if n == nil || n.Kind != disk.File {
			return ""
		}
		special := []os.FileMode{os.ModeSetuid, os.ModeSetgid, os.ModeSticky}[len(tc.Path)%3]
		os.Chmod(full, os.FileMode(n.Perm&0o777)|special)
	case "new-inode": // identical bytes, mode and mtime, different file identity
		if n == nil || n.Kind != disk.File {
			return ""
		}
		tmp := filepath.Join(filepath.Dir(root), "interloper-tmp")
		os.WriteFile(tmp, n.Data, os.FileMode(n.Perm))
		os.Chmod(tmp, os.FileMode(n.Perm))
		os.Chtimes(tmp, time.Unix(0, n.MTimeN), time.Unix(0, n.MTimeN))
		if os.Rename(tmp, full) != nil {
			return ""
		}
	case "to-dir":
		if n == nil || n.Kind == disk.Dir {
			return ""
		}
		os.Remove(full)
		os.Mkdir(full, 0o755)
		os.WriteFile(filepath.Join(full, "inside"), []byte("interloper"), 0o644)
	case "to-link":
		if n == nil || n.Kind == disk.Link {
			return ""
		}
		disk.MakeWritable(full)
		os.RemoveAll(full)
		os.Symlink("interloper-target", full)
	case "to-file":
		if n == nil || n.Kind == disk.File {
			return ""
		}
		disk.MakeWritable(full)
		os.RemoveAll(full)
		os.WriteFile(full, []byte("interloper file"), 0o644)
	case "retarget":
		if n == nil || n.Kind != disk.Link {
			return ""
		}
		os.Remove(full)
		os.Symlink(n.Target+"-retargeted", full)
	case "new-child":
		if n == nil || n.Kind != disk.Dir {
			return ""
		}
		child := filepath.Join(full, tc.Name)
		if _, err := os.Lstat(child); err == nil {
			return ""
		}
		os.Chmod(full, 0o755)
		if os.WriteFile(child, []byte("new child"), 0o644) != nil {
			return ""
		}
		return tree.Join(tc.Path, tc.Name)
	case "create-at-new": // the interloper creates content where the plan wants to create
		if n != nil {
			return ""
		}
		if os.WriteFile(full, []byte("interloper got here first"), 0o644) != nil {
			return ""
		}
	default:
		return ""
	}
	return tc.Path
}

func judge(c *Case, dir string) (violation string, nontrivial bool, classes []string) {
	w, err := trans.NewWorld(dir, c.Root)
	if err != nil {
		return "", false, nil
	}
	defer disk.MakeWritable(dir)
	plan := w.Changes(c.Plan)
	sdir, onShm := w.StagingDir(c.Config)
	if onShm {
		defer os.RemoveAll(sdir)
		classes = append(classes, "staging-on-another-device")
	}
	prov := &trans.Provider{Dir: sdir}
	if err := prov.Stage(plan); err != nil {
		return "", false, nil
	}
	obs, _ := disk.Observe(w.Root)
	// Interloper.
	type protected struct {
		path string
		tc   *Touch
	}
	var prot []protected
	var during []*Touch
	for _, tc := range c.Touches {
		if tc.During {
			during = append(during, tc)
			continue
		}
		cur, _ := disk.Observe(w.Root)
		if p := applyTouch(w.Root, tc, cur); p != "" {
			prot = append(prot, protected{p, tc})
		}
	}
	afterInterloper, _ := disk.Observe(w.Root)
	// Edits made while the transition runs: applied (once) when the transition
	// is about to unlink an object with another name, i.e. strictly before the
	// transition examines the edited file itself.
	duringWas := map[string]*disk.Node{}
	if len(during) > 0 {
		filesystem.VerifSetInjector(func(op, leaf string) error {
			if op != "unlinkat" {
				return nil
			}
			rest := during[:0]
			for _, tc := range during {
				if filepath.Base(tc.Path) == leaf {
					rest = append(rest, tc)
					continue
				}
				cur, _ := disk.Observe(w.Root)
				// Only a file the transition has not dealt with yet (still
				// exactly as scanned) is edited.
				if at, now := obs.At(tc.Path), cur.At(tc.Path); at == nil || now == nil || at.Render(true) != now.Render(true) {
					continue
				}
				if p := applyTouch(w.Root, tc, cur); p != "" {
					prot = append(prot, protected{p, tc})
					duringWas[p], _ = disk.Observe(filepath.Join(w.Root, filepath.FromSlash(p)))
					classes = append(classes, "edited-during-the-transition")
				}
			}
			during = rest
			return nil
		})
		defer filesystem.VerifSetInjector(nil)
	}

	results, problems, _ := w.Transition(context.Background(), plan, c.Config, prov)
	filesystem.VerifSetInjector(nil)
	final, _ := disk.Observe(w.Root)
	if len(results) != len(plan) {
		return fmt.Sprintf("%d results for %d transitions", len(results), len(plan)), false, nil
	}

	covered := func(p string) *core.Change {
		for _, ch := range plan {
			if tree.IsPrefix(ch.Path, p) {
				return ch
			}
		}
		return nil
	}
	for _, pr := range prot {
		ch := covered(pr.path)
		if ch == nil {
			continue
		}
		nontrivial = true
		classes = append(classes, "covered/"+pr.tc.Op)
		was, now := afterInterloper.At(pr.path), final.At(pr.path)
		if d, ok := duringWas[pr.path]; ok {
			was = d
		}
		if was == nil {
			continue
		}
		if at := obs.At(pr.path); at != nil && at.Render(true) == was.Render(true) {
			// Several edits cancelled out: nothing differs from the scan.
			continue
		}
		if now == nil {
			return fmt.Sprintf("content at %q that changed after the scan (%s) was removed by the transition %s (problems %s)", pr.path, pr.tc.Op, tree.RenderChange(ch), renderProblems(problems)), true, classes
		}
		same := was.Render(true) == now.Render(true)
		if was.Kind == disk.Dir {
			// A directory the interloper created or modified must survive;
			// its own new content is checked through the child path.
			same = now.Kind == disk.Dir
			if pr.tc.Op == "to-dir" {
				same = same && now.At("inside") != nil && was.At("inside").Render(true) == now.At("inside").Render(true)
			}
		}
		if !same {
			return fmt.Sprintf("content at %q that changed after the scan (%s) was replaced or altered by the transition %s: was %s, now %s (problems %s)", pr.path, pr.tc.Op, tree.RenderChange(ch), was.Render(true), now.Render(true), renderProblems(problems)), true, classes
		}
		// It must be reported.
		reported := false
		for _, p := range problems {
			if tree.IsPrefix(p.Path, pr.path) || tree.IsPrefix(pr.path, p.Path) {
				reported = true
			}
		}
		if !reported {
			return fmt.Sprintf("content at %q changed after the scan (%s) and was left alone, but no problem is reported for it (problems %s)", pr.path, pr.tc.Op, renderProblems(problems)), true, classes
		}
	}
	// Transitions that the interloper did not interfere with must go through.
	for i, ch := range plan {
		interfered := false
		for _, pr := range prot {
			if tree.IsPrefix(ch.Path, pr.path) || tree.IsPrefix(pr.path, ch.Path) {
				interfered = true
			}
		}
		if !interfered && !tree.DeepEqual(results[i], ch.New) {
			return fmt.Sprintf("transition %s was not interfered with but ended as %s (problems %s)", tree.RenderChange(ch), tree.Render(results[i]), renderProblems(problems)), nontrivial, classes
		}
	}
	return "", nontrivial, classes
}

func renderProblems(ps []*core.Problem) string {
	var s []string
	for _, p := range ps {
		s = append(s, fmt.Sprintf("%q: %s", p.Path, p.Error))
	}
	return "[" + strings.Join(s, "; ") + "]"
}

func drawCase(rt *rapid.T) *Case {
	g := disk.Gen{MaxDepth: 2, MaxFan: 4, Names: []string{"a", "b", "c", "sub", "x.txt"}, Links: true}
	c := &Case{Root: g.Dir(rt, "root", 2)}
	tmp, err := os.MkdirTemp("", "c08-plan-")
	if err != nil {
		rt.Skip("no temp dir")
	}
	defer func() { disk.MakeWritable(tmp); os.RemoveAll(tmp) }()
	w, err := trans.NewWorld(tmp, c.Root)
	if err != nil {
		rt.Skip("cannot build tree")
	}
	c.Plan = trans.GenPlan(rt, w.Snapshot.Content)
	if len(c.Plan) == 0 {
		rt.Skip("empty plan")
	}
	c.Config = trans.Config{FileMode: 0o644, DirMode: 0o755}
	// Staging on another filesystem (tmpfs): files reach the root through the
	// copy-then-rename fallback instead of a direct rename.
	c.Config.StageOnShm = rapid.IntRange(0, 2).Draw(rt, "stage-on-other-device") == 0
	// Candidate paths: everything at or below a planned path (plus the
	// planned creation paths), and a few elsewhere.
	var inPlan, elsewhere []string
	for _, pe := range tree.Walk(w.Snapshot.Content) {
		if pe.Path == "" {
			continue
		}
		hit := false
		for _, it := range c.Plan {
			if tree.IsPrefix(it.Path, pe.Path) {
				hit = true
			}
		}
		if hit {
			inPlan = append(inPlan, pe.Path)
		} else {
			elsewhere = append(elsewhere, pe.Path)
		}
	}
	var creations []string
	for _, it := range c.Plan {
		if tree.At(w.Snapshot.Content, it.Path) == nil {
			creations = append(creations, it.Path)
		}
	}
	sort.Strings(inPlan)
	sort.Strings(elsewhere)
	n := rapid.IntRange(1, 3).Draw(rt, "touches")
	for i := 0; i < n; i++ {
		pool := inPlan
		if len(pool) == 0 || (len(elsewhere) > 0 && rapid.IntRange(0, 5).Draw(rt, "elsewhere") == 0) {
			pool = elsewhere
		}
		if len(creations) > 0 && rapid.IntRange(0, 2).Draw(rt, "at-creation") == 0 {
			c.Touches = append(c.Touches, &Touch{Op: "create-at-new", Path: rapid.SampledFrom(creations).Draw(rt, "creation")})
			continue
		}
		if len(pool) == 0 {
			continue
		}
		p := rapid.SampledFrom(pool).Draw(rt, "touch.path")
		e := tree.At(w.Snapshot.Content, p)
		var ops []string
		switch e.Kind {
		case tree.KFile:
			ops = []string{"grow", "same-size-later-mtime", "same-size-same-second", "touch", "chmod", "chmod-special", "new-inode", "to-dir", "to-link"}
		case tree.KLink:
			ops = []string{"retarget", "to-file", "to-dir"}
		case tree.KDir:
			ops = []string{"new-child", "new-child", "to-file", "to-link"}
		}
		tc := &Touch{Op: rapid.SampledFrom(ops).Draw(rt, "touch.op"), Path: p, Name: rapid.SampledFrom([]string{"zz-new", "interloper.txt"}).Draw(rt, "touch.name")}
		if e.Kind == tree.KFile && strings.Contains(p, "/") && (tc.Op == "grow" || tc.Op == "same-size-later-mtime" || tc.Op == "same-size-same-second" || tc.Op == "touch" || tc.Op == "chmod" || tc.Op == "new-inode") {
			tc.During = rapid.IntRange(0, 2).Draw(rt, "touch.during") == 0
		}
		c.Touches = append(c.Touches, tc)
	}
	return c
}

func TestInterloper(t *testing.T) {
	if ev.ReplayPath() != "" {
		t.Skip()
	}
	rec := ev.New(t, prop, "scan-interloper-transition", "rapid: random tree -> cold scan -> plan with Old from the snapshot -> 1-3 interloper edits (grow, same-size edit with later mtime, same-size in-place edit whose new mtime lies in the same second, touch, chmod, same bytes/mtime/mode in a new inode, type change, link retarget, new child in a directory, content created where the plan creates; file edits optionally made in the middle of the transition, when it is about to unlink an object of another name) -> core.Transition (staged files in a third of the cases on another filesystem, so that they arrive through the cross-device copy fallback); every touched object covered by a transition must survive exactly (lstat identity, bytes, target) and be reported, untouched transitions must complete; non-trivial: >= 1 interloper edit on a path covered by a transition")
	base := t.TempDir()
	i := 0
	ev.Check(t, rec, 700, 40000, func(rt *rapid.T) {
		c := drawCase(rt)
		i++
		dir := filepath.Join(base, fmt.Sprintf("c%d", i))
		os.Mkdir(dir, 0o700)
		defer func() { disk.MakeWritable(dir); os.RemoveAll(dir) }()
		rec.Eval()
		v, nt, classes := judge(c, dir)
		if v != "" {
			ev.Failf(rt, rec, c, "%s", v)
		}
		for _, cl := range classes {
			rec.Class(cl)
		}
		if nt {
			rec.NonTrivial(ev.Hash(c.Root.Render(false), fmt.Sprint(sample(c))))
			if rec.WantSample() {
				rec.Sample(sample(c))
			}
		}
	})
}

func sample(c *Case) map[string]any {
	var plan, touches []string
	for _, p := range c.Plan {
		plan = append(plan, p.Path+" => "+tree.Render(tree.FromJ(p.New)))
	}
	for _, tc := range c.Touches {
		touches = append(touches, tc.Op+" "+tc.Path)
	}
	return map[string]any{"tree": c.Root.Render(false), "plan": plan, "interloper": touches}
}

func TestReplay(t *testing.T) {
	if ev.ReplayPath() == "" || ev.ReplayPart() == "polling-endpoint-interloper" {
		t.Skip()
	}
	var c Case
	if _, err := ev.LoadReplay(ev.ReplayPath(), &c); err != nil {
		t.Fatal(err)
	}
	rec := ev.New(t, prop, "replay", "replay of a saved case")
	rec.Eval()
	if v, _, _ := judge(&c, t.TempDir()); v != "" {
		ev.FailTB(t, rec, &c, "%s", v)
	}
}
