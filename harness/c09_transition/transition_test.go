// Package c09_transition decides C09: transition results describe the disk
// exactly under any fault.
package c09_transition

import (
	"context"
	"fmt"
	"os"
	"path/filepath"
	"strings"
	"syscall"
	"testing"

	"pgregory.net/rapid"

	"github.com/mutagen-io/mutagen/pkg/synchronization/core"

	"verif/kit/disk"
	"verif/kit/ev"
	"verif/kit/fault"
	"verif/kit/trans"
	"verif/kit/tree"
)

const prop = "C09"

// Case is a tree, a plan, a configuration and one fault schedule.
type Case struct {
	Root    *disk.Node        `json:"root"`
	Plan    []*trans.PlanItem `json:"plan"`
	Config  trans.Config      `json:"config"`
	Missing []string          `json:"missing_digests,omitempty"` // hex ids of digests not staged
	// Fault schedule.
	FailAt     int   `json:"fail_at"`
	Errno      int   `json:"errno"`
	Persistent bool  `json:"persistent"`
	Exdev      bool  `json:"exdev_first_rename"`
	CancelAt   int   `json:"cancel_at"`
	PreCancel  bool  `json:"cancelled_before_start"`
	MissingIDs []int `json:"missing_ids,omitempty"`
}

type outcome struct {
	calls     int
	hit       bool
	hitOp     string
	partial   bool
	violation string
	log       []string
}

var caseCounter int

// run executes the case in a fresh directory below base.
func run(c *Case, base string) outcome {
	caseCounter++
	dir := filepath.Join(base, fmt.Sprintf("w%d", caseCounter))
	if err := os.Mkdir(dir, 0o700); err != nil {
		return outcome{}
	}
	defer func() {
		disk.MakeWritable(dir)
		os.RemoveAll(dir)
	}()
	w, err := trans.NewWorld(dir, c.Root)
	if err != nil {
		return outcome{}
	}
	plan := w.Changes(c.Plan)
	sdir, shm := w.StagingDir(c.Config)
	if shm {
		defer os.RemoveAll(sdir)
	}
	prov := &trans.Provider{Dir: sdir, Missing: map[string]bool{}}
	for _, id := range c.MissingIDs {
		prov.Missing[string(trans.DigestFor(byte(id)))] = true
	}
	if err := prov.Stage(plan); err != nil {
		return outcome{}
	}
	ctx, cancel := context.WithCancel(context.Background())
	defer cancel()
	if c.PreCancel {
		cancel()
	}
	inj := &fault.Injector{FailAt: c.FailAt, Errno: syscall.Errno(c.Errno), Persistent: c.Persistent, ExdevFirstRename: c.Exdev, CancelAt: c.CancelAt, Cancel: cancel}
	inj.Install()
	results, problems, _ := w.Transition(ctx, plan, c.Config, prov)
	fault.Remove()

	out := outcome{calls: inj.Calls, hit: inj.Hit, hitOp: inj.HitOp + " " + inj.HitPath, log: inj.Log}
	if len(results) != len(plan) {
		out.violation = fmt.Sprintf("%d results for %d transitions", len(results), len(plan))
		return out
	}
	// The disk must be what the results say: scan-before with every
	// transitioned path replaced by its reported result.
	want := w.Snapshot.Content
	for i, ch := range plan {
		var ok bool
		if want, ok = tree.ApplyModel(want, ch.Path, results[i]); !ok {
			out.violation = fmt.Sprintf("result for %q cannot be placed in the tree", ch.Path)
			return out
		}
		if !tree.DeepEqual(results[i], ch.Old) && !tree.DeepEqual(results[i], ch.New) {
			out.partial = true
		}
		if tree.HasUnsync(results[i]) {
			out.violation = fmt.Sprintf("result for %q contains unsynchronizable content: %s", ch.Path, tree.Render(results[i]))
			return out
		}
	}
	after, _, err := trans.Scan(w.Root)
	if err != nil {
		out.violation = fmt.Sprintf("scan after the transition fails: %v", err)
		return out
	}
	if ok, d := disk.EqualModuloProblems(after.Content, want); !ok {
		out.violation = fmt.Sprintf("disk differs from the reported results: %s\n plan     %s\n results  %s\n problems %s\n on disk  %s\n reported %s\n fault    %s (call %d of %d)",
			d, tree.RenderChangesOrdered(plan), renderEntries(results), renderProblems(problems), tree.Render(after.Content), tree.Render(want), out.hitOp, c.FailAt+c.CancelAt, inj.Calls)
		return out
	}
	// No stray temporary files, unless the injected fault hit the very
	// cleanup (an unlink) that would have removed one.
	cleanupFailed := false
	for _, op := range inj.Failed {
		if strings.HasPrefix(op, "unlinkat") {
			cleanupFailed = true
		}
	}
	if !cleanupFailed {
		if obs, _ := disk.Observe(w.Root); obs != nil {
			if p := findTemporary(obs, ""); p != "" {
				out.violation = fmt.Sprintf("temporary file %q left behind (fault %s)", p, out.hitOp)
				return out
			}
		}
	}
	return out
}

func findTemporary(n *disk.Node, path string) string {
	for _, name := range n.Names() {
		p := tree.Join(path, name)
		if strings.HasPrefix(name, disk.TemporaryPrefix) {
			return p
		}
		if r := findTemporary(n.Children[name], p); r != "" {
			return r
		}
	}
	return ""
}

func renderEntries(es []*core.Entry) string {
	var s []string
	for _, e := range es {
		s = append(s, tree.Render(e))
	}
	return "[" + strings.Join(s, " ") + "]"
}

func renderProblems(ps []*core.Problem) string {
	var s []string
	for _, p := range ps {
		s = append(s, fmt.Sprintf("%q: %s", p.Path, p.Error))
	}
	return "[" + strings.Join(s, "; ") + "]"
}

func drawBase(rt *rapid.T) *Case {
	g := disk.Gen{MaxDepth: 2, MaxFan: 4, Names: []string{"a", "b", "c", "sub", "x.txt"}, Links: true}
	c := &Case{Root: g.Dir(rt, "root", 2)}
	// A scan is needed to draw a plan: build once in a scratch place.
	tmp, err := os.MkdirTemp("", "c09-plan-")
	if err != nil {
		rt.Skip("no temp dir")
	}
	defer func() { disk.MakeWritable(tmp); os.RemoveAll(tmp) }()
	w, err := trans.NewWorld(tmp, c.Root)
	if err != nil {
		rt.Skip("cannot build tree")
	}
	c.Plan = trans.GenPlan(rt, w.Snapshot.Content)
	if len(c.Plan) == 0 {
		rt.Skip("empty plan")
	}
	c.Config = trans.Config{
		FileMode:   rapid.SampledFrom([]uint32{0o600, 0o644, 0o640}).Draw(rt, "filemode"),
		DirMode:    rapid.SampledFrom([]uint32{0o700, 0o755}).Draw(rt, "dirmode"),
		Ownership:  rapid.IntRange(0, 2).Draw(rt, "ownership") == 0,
		StageOnShm: rapid.IntRange(0, 5).Draw(rt, "shm") == 0,
	}
	if rapid.IntRange(0, 5).Draw(rt, "missing") == 0 {
		c.MissingIDs = []int{100 + rapid.IntRange(0, 9).Draw(rt, "missing.id")}
	}
	c.Errno = int(rapid.SampledFrom(fault.Errnos).Draw(rt, "errno"))
	return c
}

func sampleOf(c *Case) map[string]any {
	var plan []string
	for _, p := range c.Plan {
		plan = append(plan, p.Path+" => "+tree.Render(tree.FromJ(p.New)))
	}
	return map[string]any{"tree": c.Root.Render(false), "plan": plan, "config": c.Config, "fail_at": c.FailAt, "errno": c.Errno, "exdev": c.Exdev, "cancel_at": c.CancelAt, "missing": c.MissingIDs}
}

func TestFaultEnumeration(t *testing.T) {
	if ev.ReplayPath() != "" {
		t.Skip()
	}
	rec := ev.New(t, prop, "fault-enumeration", "rapid: random tree + plan (delete / replace any kind / swap file content or exec bit / create) + configuration (modes, ownership id:0, staging on tmpfs, missing staged file); each plan is run fault-free, then once per hooked filesystem call k with that call failing (EIO/EACCES/ENOSPC/EPERM/EMFILE/EROFS), once per k with the context cancelled at call k, and the same again with the first rename failing EXDEV (cross-device fallback); after every run a cold scan must equal scan-before with the reported results substituted; non-trivial: the injected fault was reached and some result is partial (neither Old nor New)")
	base := t.TempDir()
	ev.Check(t, rec, 80, 2500, func(rt *rapid.T) {
		c := drawBase(rt)
		check := func(cc *Case, class string) outcome {
			o := run(cc, base)
			rec.Eval()
			rec.Class(class)
			if o.violation != "" {
				ev.Failf(rt, rec, cc, "%s", o.violation)
			}
			if o.hit {
				rec.Class(class + "/hit")
			}
			if o.hit && o.partial {
				rec.Class(class + "/partial")
				rec.NonTrivial(ev.Hash(cc.Root.Render(false), fmt.Sprint(sampleOf(cc))))
				if rec.WantSample() {
					rec.Sample(sampleOf(cc))
				}
			}
			return o
		}
		for _, exdev := range []bool{false, true} {
			b := *c
			b.Exdev = exdev
			o := check(&b, fmt.Sprintf("fault-free/exdev=%v", exdev))
			n := o.calls
			if exdev && !containsRename(o.log) {
				continue
			}
			for k := 1; k <= n; k++ {
				f := b
				f.FailAt = k
				check(&f, fmt.Sprintf("fail-at-k/exdev=%v", exdev))
				if k%3 == 0 {
					p := f
					p.Persistent = true
					check(&p, "fail-from-k")
				}
				x := b
				x.CancelAt = k
				check(&x, fmt.Sprintf("cancel-at-k/exdev=%v", exdev))
			}
		}
		pc := *c
		pc.PreCancel = true
		check(&pc, "cancelled-before-start")
	})
}

func containsRename(log []string) bool {
	for _, l := range log {
		if strings.HasPrefix(l, "renameat") {
			return true
		}
	}
	return false
}

func TestReplay(t *testing.T) {
	if ev.ReplayPath() == "" {
		t.Skip()
	}
	var c Case
	if _, err := ev.LoadReplay(ev.ReplayPath(), &c); err != nil {
		t.Fatal(err)
	}
	rec := ev.New(t, prop, "replay", "replay of a saved case")
	rec.Eval()
	if o := run(&c, t.TempDir()); o.violation != "" {
		ev.FailTB(t, rec, &c, "%s", o.violation)
	}
}
