// Package c10_staging decides C10 (files written into a root carry the
// planned content) and C41 (staging requests only what is missing and enforces
// limits) on a real local endpoint fed by real rsync transmissions that the
// harness corrupts, truncates, drops and aborts.
package c10_staging

import (
	"context"
	"crypto/sha1"
	"crypto/sha256"
	"errors"
	"fmt"
	"os"
	"path/filepath"
	"sort"
	"strings"
	"testing"

	"google.golang.org/protobuf/proto"
	"pgregory.net/rapid"

	"github.com/mutagen-io/mutagen/pkg/identifier"
	"github.com/mutagen-io/mutagen/pkg/logging"
	"github.com/mutagen-io/mutagen/pkg/synchronization"
	"github.com/mutagen-io/mutagen/pkg/synchronization/core"
	"github.com/mutagen-io/mutagen/pkg/synchronization/endpoint/local"
	"github.com/mutagen-io/mutagen/pkg/synchronization/hashing"
	"github.com/mutagen-io/mutagen/pkg/synchronization/rsync"

	"verif/kit/disk"
	"verif/kit/ev"
	"verif/kit/sess"
	"verif/kit/tree"
)

func prop() string {
	if p := os.Getenv("VERIF_PROP"); p != "" {
		return p
	}
	return "C10"
}

// Want is one file the plan creates or replaces.
type Want struct {
	Path    string `json:"path"`
	Content int    `json:"content"` // content id
	Exec    bool   `json:"exec"`
	// Source says what the supplying side holds for this path:
	// good, corrupt, truncated, missing, oversized.
	Source string `json:"source"`
}

// Case is one staging scenario.
type Case struct {
	Root      *disk.Node `json:"root"`
	Wants     []*Want    `json:"wants"`
	Deletes   []string   `json:"deletes"`   // existing paths the plan removes
	Copies    []int      `json:"copies"`    // indices of wants whose content also exists in the root under another name
	Touched   []int      `json:"touched"`   // indices into Copies modified between scan and stage
	SHA256    bool       `json:"sha256"`
	MaxEntry  int        `json:"max_entry_delta"` // 0: no limit; else limit = root entry count + (value-3)
	MaxStage  bool       `json:"small_max_staging_size"`
	Transport string     `json:"transport"` // clean, drop-op, abort, flip-byte
	TransK    int        `json:"transport_k"`
	Interrupt bool       `json:"interrupted_earlier_stage"`
	// Prestaged: "" | "same-endpoint" | "new-endpoint": an earlier staging of
	// the same request was completed (clean transfer) and never followed by a
	// transition; for "new-endpoint" the endpoint was then shut down and a new
	// endpoint of the same session created (daemon or agent restart).
	Prestaged string `json:"prestaged,omitempty"`
	Double    string     `json:"double_call"` // "", stage, transition, stage-before-scan
	NewDirs   int        `json:"new_dirs"`    // directories / links the plan creates (no staging needed)
}

// stagingLimit is the small maximum staging file size some cases configure; it
// lies inside the range of planned content sizes, so that some well-formed
// planned files are themselves too large to stage.
const stagingLimit = 420

func contentFor(id int) []byte { return disk.Content(byte(50+id), 300+id*37) }

func (c *Case) digest(b []byte) []byte {
	if c.SHA256 {
		s := sha256.Sum256(b)
		return s[:]
	}
	s := sha1.Sum(b)
	return s[:]
}

// listEncoder records transmissions.
type listEncoder struct{ list []*rsync.Transmission }

func (e *listEncoder) Encode(t *rsync.Transmission) error {
	e.list = append(e.list, proto.Clone(t).(*rsync.Transmission))
	return nil
}
func (e *listEncoder) Finalize() error { return nil }

// listDecoder replays transmissions and fails when the list is exhausted.
type listDecoder struct {
	list []*rsync.Transmission
	i    int
}

func (d *listDecoder) Decode(t *rsync.Transmission) error {
	if d.i >= len(d.list) {
		return errors.New("connection lost")
	}
	proto.Reset(t)
	proto.Merge(t, d.list[d.i])
	d.i++
	return nil
}
func (d *listDecoder) Finalize() error { return nil }

type verdict struct {
	c10, c41   string
	nt10, nt41 bool
	classes    []string
}

func judge(c *Case, dir string) (v verdict) {
	root, src := filepath.Join(dir, "root"), filepath.Join(dir, "source")
	if err := disk.Build(root, c.Root); err != nil {
		return
	}
	defer disk.MakeWritable(dir)
	os.MkdirAll(src, 0o755)
	// Copies of wanted content inside the root, under unrelated names.
	copyPath := map[int]string{}
	for _, wi := range c.Copies {
		if wi < len(c.Wants) {
			p := fmt.Sprintf("copy-of-%d.bin", wi)
			os.WriteFile(filepath.Join(root, p), contentFor(c.Wants[wi].Content), 0o644)
			copyPath[wi] = p
		}
	}
	id, err := identifier.New(identifier.PrefixSynchronization)
	if err != nil {
		return
	}
	cfg := sess.ManualConfig(core.SynchronizationMode_SynchronizationModeTwoWaySafe)
	if c.SHA256 {
		cfg.HashingAlgorithm = hashing.Algorithm_AlgorithmSHA256
	}
	if c.MaxStage {
		cfg.MaximumStagingFileSize = stagingLimit
	}
	obs0, _ := disk.Observe(root)
	opts := disk.ScanOpts{SymlinkMode: core.SymbolicLinkMode_SymbolicLinkModePortable, PermMode: core.PermissionsMode_PermissionsModePortable, SHA256: c.SHA256}
	rootCount := tree.CountSync(disk.Expect(obs0, opts))
	var limit uint64
	if c.MaxEntry != 0 {
		limit = uint64(int(rootCount) + c.MaxEntry - 3)
		if limit == 0 {
			limit = 1
		}
		cfg.MaximumEntryCount = limit
	}
	ep, err := local.NewEndpoint(logging.NewLogger(logging.LevelDisabled, os.Stderr), root, id, synchronization.Version_Version1, cfg, false)
	if err != nil {
		v.c41 = fmt.Sprintf("cannot create endpoint: %v", err)
		return
	}
	defer func() { ep.Shutdown() }()
	ctx := context.Background()

	if c.Double == "stage-before-scan" {
		v.nt41 = true
		if _, _, _, err := ep.Stage([]string{"x"}, [][]byte{c.digest(contentFor(1))}); err == nil {
			v.c41 = "staging without a preceding scan is accepted"
			return
		}
		if _, _, _, err := ep.Transition(ctx, []*core.Change{{Path: "zz-new", New: tree.D(nil)}}); err == nil {
			v.c41 = "transition without a preceding scan is accepted"
			return
		}
		if o, _ := disk.Observe(root); o.Render(true) != obs0.Render(true) {
			v.c41 = "a refused request (no preceding scan) modified the root"
			return
		}
	}

	snap, err, _ := ep.Scan(ctx, nil, true)
	if err != nil {
		if limit != 0 && rootCount > limit {
			v.classes = append(v.classes, "scan-over-limit")
			// The scan was refused, so no scan precedes these requests: they
			// must be refused too and must not touch the root.
			v.nt41 = true
			if _, _, _, err := ep.Stage([]string{"zz-staged"}, [][]byte{c.digest(contentFor(1))}); err == nil {
				v.c41 = fmt.Sprintf("staging accepted after a scan that was refused for exceeding the entry limit (%d entries, limit %d)", rootCount, limit)
				return
			}
			if _, _, _, err := ep.Transition(ctx, []*core.Change{{Path: "zz-new", New: tree.D(nil)}}); err == nil {
				v.c41 = "transition accepted after a scan that was refused for exceeding the entry limit"
				return
			}
			if o, _ := disk.Observe(root); o.Render(true) != obs0.Render(true) {
				v.c41 = "requests after a refused scan modified the root"
			}
			return
		}
		v.c41 = fmt.Sprintf("scan fails: %v", err)
		return
	}
	if limit != 0 && rootCount > limit {
		v.c41 = fmt.Sprintf("scan accepted a root of %d entries with a limit of %d", rootCount, limit)
		return
	}

	// Build the plan: one transition per want (create or replace a file) and
	// per delete.
	var plan []*core.Change
	wantAt := map[string]*Want{}
	for _, w := range c.Wants {
		old := tree.At(snap.Content, w.Path)
		if old != nil && (old.Kind == tree.KDir || tree.HasUnsync(old)) {
			continue
		}
		if parent := tree.At(snap.Content, parentOf(w.Path)); parent == nil || parent.Kind != tree.KDir {
			continue
		}
		plan = append(plan, &core.Change{Path: w.Path, Old: old, New: &core.Entry{Kind: tree.KFile, Digest: c.digest(contentFor(w.Content)), Executable: w.Exec}})
		wantAt[w.Path] = w
	}
	for _, d := range c.Deletes {
		old := tree.At(snap.Content, d)
		nested := false
		for _, ch := range plan {
			if tree.IsPrefix(ch.Path, d) || tree.IsPrefix(d, ch.Path) {
				nested = true
			}
		}
		if old != nil && !nested && !tree.HasUnsync(old) && d != "" {
			plan = append(plan, &core.Change{Path: d, Old: old})
		}
	}
	for i := 0; i < c.NewDirs; i++ {
		p := fmt.Sprintf("zz-extra%d", i)
		if tree.At(snap.Content, p) == nil {
			nw := tree.D(nil)
			if i%2 == 1 {
				nw = tree.L("a")
			}
			plan = append(plan, &core.Change{Path: p, New: nw})
		}
	}
	if len(plan) == 0 {
		return
	}
	paths, digests := core.TransitionDependencies(plan)
	// The supplying side.
	for _, p := range paths {
		w := wantAt[p]
		data := contentFor(w.Content)
		switch w.Source {
		case "corrupt":
			data = append([]byte{}, data...)
			data[len(data)/2] ^= 0x01
		case "truncated":
			data = data[:len(data)/2]
		case "oversized":
			data = append(append([]byte{}, data...), make([]byte, 2000)...)
		case "missing":
			continue
		}
		full := filepath.Join(src, filepath.FromSlash(p))
		os.MkdirAll(filepath.Dir(full), 0o755)
		os.WriteFile(full, data, 0o644)
	}

	transfer := func(filtered []string, sigs []*rsync.Signature, receiver rsync.Receiver, transport string, k int) {
		enc := &listEncoder{}
		rsync.Transmit(src, filtered, sigs, rsync.NewEncodingReceiver(enc))
		list := enc.list
		switch transport {
		case "drop-op":
			if len(list) > 0 {
				i := k % len(list)
				if !list[i].Done {
					list = append(append([]*rsync.Transmission{}, list[:i]...), list[i+1:]...)
				}
			}
		case "abort":
			if len(list) > 0 {
				list = list[:k%len(list)]
			}
		case "flip-byte":
			for n := 0; n < len(list); n++ {
				i := (k + n) % len(list)
				if op := list[i].Operation; op != nil && len(op.Data) > 0 {
					op.Data[len(op.Data)/2] ^= 0x80
					break
				}
			}
		}
		rsync.DecodeToReceiver(&listDecoder{list: list}, uint64(len(filtered)), receiver)
	}

	// Optionally: an earlier, complete staging of the same request that was
	// never followed by a transition.
	if c.Prestaged != "" && !c.Interrupt {
		if f, s, r, err := ep.Stage(append([]string{}, paths...), digests); err == nil && len(f) > 0 {
			transfer(f, s, r, "clean", 0)
			v.classes = append(v.classes, "prestaged/"+c.Prestaged)
		}
		if c.Prestaged == "new-endpoint" {
			ep.Shutdown()
			ep, err = local.NewEndpoint(logging.NewLogger(logging.LevelDisabled, os.Stderr), root, id, synchronization.Version_Version1, cfg, false)
			if err != nil {
				v.c41 = fmt.Sprintf("cannot create a second endpoint for the same session: %v", err)
				return
			}
		}
		if _, err, _ := ep.Scan(ctx, nil, true); err != nil {
			return
		}
	}
	// Optionally: an earlier stage that was interrupted half way, followed
	// by a new scan (pre-staged leftovers).
	if c.Interrupt {
		if f, s, r, err := ep.Stage(append([]string{}, paths...), digests); err == nil && len(f) > 0 {
			transfer(f, s, r, "abort", c.TransK+1)
			v.classes = append(v.classes, "interrupted-earlier-stage")
		}
		if _, err, _ := ep.Scan(ctx, nil, true); err != nil {
			return
		}
	}
	// Copies modified after the scan.
	touched := map[int]bool{}
	for _, ti := range c.Touched {
		if ti < len(c.Copies) {
			wi := c.Copies[ti]
			if p, ok := copyPath[wi]; ok {
				os.WriteFile(filepath.Join(root, p), []byte("modified after the scan"), 0o644)
				touched[wi] = true
			}
		}
	}
	anyTouched := len(touched) > 0
	before, _ := disk.Observe(root)

	request := append([]string{}, paths...)
	filtered, sigs, receiver, err := ep.Stage(paths, digests)
	overLimit := limit != 0 && uint64(len(request)) > limit-rootCount
	if overLimit {
		v.nt41 = true
		v.classes = append(v.classes, "stage-over-limit")
		if err == nil {
			v.c41 = fmt.Sprintf("staging %d files accepted with %d entries in the root and a limit of %d", len(request), rootCount, limit)
		}
		return
	}
	if err != nil {
		v.c41 = fmt.Sprintf("staging fails: %v", err)
		return
	}
	// Subsequence in request order.
	j := 0
	for _, f := range filtered {
		for j < len(request) && request[j] != f {
			j++
		}
		if j == len(request) {
			v.c41 = fmt.Sprintf("staging returned %v which is not a subsequence of the request %v", filtered, request)
			return
		}
		j++
	}
	inFiltered := map[string]bool{}
	for _, f := range filtered {
		inFiltered[f] = true
	}
	if len(filtered) != len(sigs) {
		v.c41 = "staging returned a different number of signatures and paths"
		return
	}
	// A path whose content sits untouched in the root must not be requested.
	for i, w := range c.Wants {
		if _, planned := wantAt[w.Path]; !planned || wantAt[w.Path] != w {
			continue
		}
		tooLarge := c.MaxStage && len(contentFor(w.Content)) > stagingLimit
		if _, has := copyPath[i]; has && !anyTouched && !tooLarge && inFiltered[w.Path] {
			v.c41 = fmt.Sprintf("staging requests %q although a file with that digest exists in the root (%s)", w.Path, copyPath[i])
			return
		}
	}
	// A path that is not requested must have its content available: nothing
	// was staged before (no interrupted earlier stage), so a file with that
	// digest must exist in the root as it is now.
	if c.Prestaged != "" && !c.Interrupt && !overLimit {
		// Content that was completely staged before must not be requested.
		for _, p := range request {
			w := wantAt[p]
			if w == nil || w.Source != "good" || (c.MaxStage && len(contentFor(w.Content)) > stagingLimit) {
				continue
			}
			v.nt41 = true
			if inFiltered[p] {
				v.c41 = fmt.Sprintf("staging requests %q again although its content was completely staged by an earlier staging of the same request (%s) and no transition happened since", p, c.Prestaged)
				return
			}
		}
	}
	if !c.Interrupt && c.Prestaged == "" {
		inRoot := map[string]bool{}
		var collect func(n *disk.Node)
		collect = func(n *disk.Node) {
			if n == nil {
				return
			}
			if n.Kind == disk.File {
				inRoot[string(c.digest(n.Data))] = true
			}
			for _, name := range n.Names() {
				collect(n.Children[name])
			}
		}
		collect(before)
		for _, p := range request {
			w := wantAt[p]
			if w == nil || inFiltered[p] {
				continue
			}
			if !inRoot[string(c.digest(contentFor(w.Content)))] {
				v.c41 = fmt.Sprintf("staging does not request %q although nothing was staged before and no file with its digest %x exists in the root at the time of the call (files modified after the scan: %v)", p, c.digest(contentFor(w.Content)), anyTouched)
				return
			}
			if anyTouched {
				v.nt41 = true
			}
		}
	}
	if c.Double == "stage" && len(request) > 0 {
		v.nt41 = true
		if _, _, _, err := ep.Stage(append([]string{}, request...), digests); err == nil {
			v.c41 = "a second staging request without a scan in between is accepted"
			return
		}
	}
	if len(filtered) > 0 {
		transfer(filtered, sigs, receiver, c.Transport, c.TransK)
	}

	results, problems, missing, terr := ep.Transition(ctx, plan)
	if terr != nil {
		v.c41 = fmt.Sprintf("transition fails: %v", terr)
		return
	}
	if c.Double == "transition" {
		v.nt41 = true
		if _, _, _, err := ep.Transition(ctx, plan); err == nil {
			v.c41 = "a second transition without a scan in between is accepted"
			return
		}
	}
	after, _ := disk.Observe(root)
	afterCount := tree.CountSync(disk.Expect(after, opts))
	if limit != 0 && afterCount > limit {
		v.c41 = fmt.Sprintf("the root holds %d entries after the transition, limit %d", afterCount, limit)
		return
	}
	// Would the plan exceed the limit? Then it must have been refused whole.
	if limit != 0 {
		resulting := rootCount
		for _, ch := range plan {
			resulting = resulting - tree.CountSync(ch.Old) + tree.CountSync(ch.New)
		}
		if resulting > limit {
			v.nt41 = true
			v.classes = append(v.classes, "transition-over-limit")
			if before.Render(true) != after.Render(true) {
				v.c41 = fmt.Sprintf("a transition that would leave %d entries (limit %d) modified the root", resulting, limit)
			}
			return
		}
	}

	// C10: every planned file that is now a regular file holds either the
	// planned content or is the untouched previous file.
	allGood := c.Transport == "clean"
	for _, p := range request {
		w := wantAt[p]
		if w.Source != "good" || (c.MaxStage && len(contentFor(w.Content)) > stagingLimit) {
			allGood = false
		}
	}
	badSource := false
	for i, ch := range plan {
		w := wantAt[ch.Path]
		if w == nil {
			continue
		}
		if w.Source != "good" {
			badSource = true
		}
		now, was := after.At(ch.Path), before.At(ch.Path)
		want := contentFor(w.Content)
		created := now != nil && now.Kind == disk.File && string(now.Data) == string(want)
		untouched := was != nil && now != nil && was.Render(true) == now.Render(true)
		if now != nil && now.Kind == disk.File && !created && !untouched {
			v.c10 = fmt.Sprintf("%q now holds content with digest %x, the plan names %x (source %s, transport %s; previous file %s)", ch.Path, c.digest(now.Data), c.digest(want), w.Source, c.Transport, was.Render(false))
			return
		}
		reportedNew := tree.DeepEqual(results[i], ch.New)
		if reportedNew && !created {
			v.c10 = fmt.Sprintf("transition reports %q as created but the file is %s", ch.Path, now.Render(false))
			return
		}
		sameContentAsOld := ch.Old != nil && ch.Old.Kind == tree.KFile && string(ch.Old.Digest) == string(ch.New.Digest)
		if !created && !sameContentAsOld && !missing {
			// Not written: must be visible as missing files (or at least a problem).
			found := false
			for _, pr := range problems {
				if pr.Path == ch.Path {
					found = true
				}
			}
			if !found {
				v.c10 = fmt.Sprintf("%q was not created (source %s, transport %s) but neither missing files nor a problem is reported", ch.Path, w.Source, c.Transport)
				return
			}
		}
		if !created && !inFiltered[ch.Path] && !anyTouched && !sameContentAsOld {
			// Not requested means the endpoint claimed to have the content.
			v.c41 = fmt.Sprintf("staging did not request %q (claimed available) but the transition could not create it: result %s problems %s", ch.Path, tree.Render(results[i]), renderProblems(problems))
			return
		}
		if allGood && !created && !c.Interrupt {
			v.c10 = fmt.Sprintf("all sources and the transport were good but %q was not created: result %s problems %s missing=%v", ch.Path, tree.Render(results[i]), renderProblems(problems), missing)
			return
		}
	}
	// Nothing outside planned paths (and the copies the test modified) changed.
	if d := unrelatedChange(before, after, plan, ""); d != "" {
		v.c10 = "content outside the planned paths changed: " + d
		return
	}
	v.nt10 = badSource || c.Transport != "clean"
	if v.nt10 {
		good := false
		for _, p := range request {
			if wantAt[p].Source == "good" {
				good = true
			}
		}
		v.nt10 = good
	}
	v.nt41 = v.nt41 || len(filtered) < len(request)
	return
}

func parentOf(p string) string {
	if i := strings.LastIndex(p, "/"); i >= 0 {
		return p[:i]
	}
	return ""
}

func unrelatedChange(before, after *disk.Node, plan []*core.Change, path string) string {
	for _, ch := range plan {
		if tree.IsPrefix(ch.Path, path) && path != "" {
			return ""
		}
	}
	if before == nil || after == nil {
		if before == nil && after == nil {
			return ""
		}
		return fmt.Sprintf("%q appeared or disappeared", path)
	}
	if before.Kind != after.Kind {
		return fmt.Sprintf("%q changed kind", path)
	}
	if before.Kind != disk.Dir {
		if before.Render(true) != after.Render(true) {
			return fmt.Sprintf("%q: %s -> %s", path, before.Render(true), after.Render(true))
		}
		return ""
	}
	names := map[string]bool{}
	for n := range before.Children {
		names[n] = true
	}
	for n := range after.Children {
		names[n] = true
	}
	var sorted []string
	for n := range names {
		sorted = append(sorted, n)
	}
	sort.Strings(sorted)
	for _, n := range sorted {
		if d := unrelatedChange(before.Children[n], after.Children[n], plan, tree.Join(path, n)); d != "" {
			return d
		}
	}
	return ""
}

func renderProblems(ps []*core.Problem) string {
	var s []string
	for _, p := range ps {
		s = append(s, fmt.Sprintf("%q: %s", p.Path, p.Error))
	}
	return "[" + strings.Join(s, "; ") + "]"
}

func drawCase(rt *rapid.T) *Case {
	g := disk.Gen{MaxDepth: 2, MaxFan: 4, Names: []string{"a", "b", "c", "sub"}, Links: true}
	c := &Case{Root: g.Dir(rt, "root", 2)}
	var dirs, files []string
	var walk func(n *disk.Node, p string)
	walk = func(n *disk.Node, p string) {
		if n.Kind == disk.Dir {
			dirs = append(dirs, p)
			for _, name := range n.Names() {
				walk(n.Children[name], tree.Join(p, name))
			}
		} else if p != "" {
			files = append(files, p)
		}
	}
	walk(c.Root, "")
	sort.Strings(dirs)
	sort.Strings(files)
	sources := []string{"good", "good", "good", "corrupt", "truncated", "missing", "oversized"}
	seen := map[string]bool{}
	for n := rapid.IntRange(1, 5).Draw(rt, "wants"); n > 0; n-- {
		var p string
		if len(files) > 0 && rapid.IntRange(0, 2).Draw(rt, "replace") == 0 {
			p = rapid.SampledFrom(files).Draw(rt, "want.existing")
		} else {
			p = tree.Join(rapid.SampledFrom(dirs).Draw(rt, "want.dir"), rapid.SampledFrom([]string{"new1", "new2", "new3", "a"}).Draw(rt, "want.name"))
		}
		if seen[p] {
			continue
		}
		seen[p] = true
		c.Wants = append(c.Wants, &Want{Path: p, Content: rapid.IntRange(1, 6).Draw(rt, "want.content"), Exec: rapid.IntRange(0, 3).Draw(rt, "want.exec") == 0, Source: rapid.SampledFrom(sources).Draw(rt, "want.source")})
	}
	if len(files) > 0 && rapid.IntRange(0, 2).Draw(rt, "deletes") == 0 {
		c.Deletes = []string{rapid.SampledFrom(files).Draw(rt, "delete")}
	}
	for i := range c.Wants {
		if rapid.IntRange(0, 3).Draw(rt, "copy") == 0 {
			c.Copies = append(c.Copies, i)
		}
	}
	if len(c.Copies) > 0 && rapid.IntRange(0, 2).Draw(rt, "touch") == 0 {
		c.Touched = []int{rapid.IntRange(0, len(c.Copies)-1).Draw(rt, "touch.i")}
	}
	c.SHA256 = rapid.IntRange(0, 3).Draw(rt, "sha256") == 0
	if rapid.IntRange(0, 3).Draw(rt, "limit") == 0 {
		c.MaxEntry = rapid.IntRange(1, 8).Draw(rt, "limit.delta")
	}
	c.MaxStage = rapid.IntRange(0, 5).Draw(rt, "maxstage") == 0
	c.Transport = rapid.SampledFrom([]string{"clean", "clean", "drop-op", "abort", "flip-byte"}).Draw(rt, "transport")
	c.TransK = rapid.IntRange(0, 40).Draw(rt, "transport.k")
	c.Interrupt = rapid.IntRange(0, 4).Draw(rt, "interrupt") == 0
	if !c.Interrupt && rapid.IntRange(0, 3).Draw(rt, "prestaged") == 0 {
		c.Prestaged = rapid.SampledFrom([]string{"same-endpoint", "new-endpoint", "new-endpoint"}).Draw(rt, "prestaged.kind")
	}
	if rapid.IntRange(0, 2).Draw(rt, "newdirs") == 0 {
		c.NewDirs = rapid.IntRange(1, 5).Draw(rt, "newdirs.n")
	}
	c.Double = rapid.SampledFrom([]string{"", "", "", "stage", "transition", "stage-before-scan"}).Draw(rt, "double")
	return c
}

func sample(c *Case) map[string]any {
	var wants []string
	for _, w := range c.Wants {
		wants = append(wants, fmt.Sprintf("%s<=content%d(%s)", w.Path, w.Content, w.Source))
	}
	return map[string]any{"tree": c.Root.Render(false), "wants": wants, "deletes": c.Deletes, "copies_in_root": c.Copies, "copies_modified_after_scan": c.Touched,
		"sha256": c.SHA256, "limit_delta": c.MaxEntry, "small_max_staging_size": c.MaxStage, "transport": c.Transport, "k": c.TransK, "interrupted_earlier_stage": c.Interrupt, "prestaged": c.Prestaged, "double_call": c.Double, "new_dirs_or_links": c.NewDirs}
}

var rules = map[string]string{
	"C10": "non-trivial: the plan has >= 1 file with a bad source or a faulty transport and >= 1 file with a good source",
	"C41": "non-trivial: staging returned fewer paths than requested, or a limit / call-order refusal was exercised",
}

func TestStaging(t *testing.T) {
	if ev.ReplayPath() != "" {
		t.Skip()
	}
	p := prop()
	rec := ev.New(t, p, "stage-transfer-transition", "rapid: random root (+ copies of wanted content under other names, optionally modified after the scan), plan of 1-5 file creations/replacements (+ deletion), real local endpoint (sha1/sha256, optional entry limit around the root's count, optional 420-byte staging limit (smaller than some planned files)): Scan, optional interrupted earlier Stage, Stage, real rsync transmission from a source root whose files are good/corrupt/truncated/missing/oversized passed through a list transport that drops an operation, aborts at k or flips a data byte, Transition, plus call-order probes (stage/transition twice or before any scan); "+rules[p])
	base := t.TempDir()
	env, err := sess.NewEnv(filepath.Join(base, "data"))
	if err != nil {
		t.Fatal(err)
	}
	defer env.Close()
	n := 0
	ev.Check(t, rec, 1500, 20000, func(rt *rapid.T) {
		c := drawCase(rt)
		n++
		dir := filepath.Join(base, fmt.Sprintf("c%d", n))
		os.Mkdir(dir, 0o700)
		defer os.RemoveAll(dir)
		v := judge(c, dir)
		rec.Eval()
		msg, nt := v.c10, v.nt10
		if p == "C41" {
			msg, nt = v.c41, v.nt41
		}
		if msg != "" {
			ev.Failf(rt, rec, c, "%s", msg)
		}
		for _, cl := range v.classes {
			rec.Class(cl)
		}
		rec.Class("transport/" + c.Transport)
		if nt {
			rec.Class("nontrivial")
			rec.NonTrivial(ev.Hash(fmt.Sprint(sample(c))))
			if rec.WantSample() {
				rec.Sample(sample(c))
			}
		}
	})
}

func TestReplay(t *testing.T) {
	if ev.ReplayPath() == "" {
		t.Skip()
	}
	var c Case
	if _, err := ev.LoadReplay(ev.ReplayPath(), &c); err != nil {
		t.Fatal(err)
	}
	p := prop()
	rec := ev.New(t, p, "replay", "replay of a saved case")
	rec.Eval()
	base := t.TempDir()
	env, err := sess.NewEnv(filepath.Join(base, "data"))
	if err != nil {
		t.Fatal(err)
	}
	defer env.Close()
	v := judge(&c, base)
	msg := v.c10
	if p == "C41" {
		msg = v.c41
	}
	if msg != "" {
		ev.FailTB(t, rec, &c, "%s", msg)
	}
}
