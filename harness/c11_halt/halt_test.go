// Package c11_halt decides C11: root deletion, root type change and one-sided
// emptying halt the session.
package c11_halt

import (
	"fmt"
	"os"
	"path/filepath"
	"strings"
	"testing"
	"time"

	"pgregory.net/rapid"

	"github.com/mutagen-io/mutagen/pkg/encoding"
	"github.com/mutagen-io/mutagen/pkg/synchronization"
	"github.com/mutagen-io/mutagen/pkg/synchronization/core"

	"verif/kit/disk"
	"verif/kit/ev"
	"verif/kit/sess"
	"verif/kit/tree"
)

const prop = "C11"

var modeByName = map[string]core.SynchronizationMode{
	"two-way-safe":     core.SynchronizationMode_SynchronizationModeTwoWaySafe,
	"two-way-resolved": core.SynchronizationMode_SynchronizationModeTwoWayResolved,
	"one-way-safe":     core.SynchronizationMode_SynchronizationModeOneWaySafe,
	"one-way-replica":  core.SynchronizationMode_SynchronizationModeOneWayReplica,
}

// Edit is a user edit (same vocabulary as the session histories of C01).
type Edit struct {
	Side string `json:"side"`
	Op   string `json:"op"` // write, delete, mkdir
	Path string `json:"path"`
	Arg  string `json:"arg,omitempty"`
}

// Case: warm-up cycles, then a trigger on one side, optional further edits on
// the other side, then flush attempts.
type Case struct {
	Mode      string    `json:"mode"`
	Warmup    [][]*Edit `json:"warmup"`
	Trigger   string    `json:"trigger"` // delete-root, root-to-file, empty-root
	Side      string    `json:"side"`
	OtherEdit []*Edit   `json:"other_side_edits"`
	LateEdit  []*Edit   `json:"late_edits"` // applied to the untouched side after the first halted flush
}

func apply(root string, e *Edit, clock *int64) {
	full := filepath.Join(root, filepath.FromSlash(e.Path))
	*clock++
	stamp := time.Unix(*clock, 0)
	if p, err := os.Lstat(filepath.Dir(full)); err != nil || !p.IsDir() {
		return
	}
	fi, err := os.Lstat(full)
	switch e.Op {
	case "write":
		if err == nil && !fi.Mode().IsRegular() {
			return
		}
		os.WriteFile(full, []byte("content-"+e.Arg), 0o644)
		os.Chtimes(full, stamp, stamp)
	case "delete":
		os.RemoveAll(full)
	case "mkdir":
		if err != nil {
			os.Mkdir(full, 0o755)
		}
	}
}

var scanOpts = disk.ScanOpts{SymlinkMode: core.SymbolicLinkMode_SymbolicLinkModePortable, PermMode: core.PermissionsMode_PermissionsModePortable}

func archive(path string) *core.Entry {
	a := &core.Archive{}
	if encoding.LoadAndUnmarshalProtobuf(path, a) != nil {
		return nil
	}
	return a.Content
}

type runner struct {
	env  *sess.Env
	base string
	n    int
}

func (r *runner) run(c *Case) (violation string, nontrivial bool, class string) {
	r.n++
	dir := filepath.Join(r.base, fmt.Sprintf("case%d", r.n))
	roots := map[string]string{"alpha": filepath.Join(dir, "alpha"), "beta": filepath.Join(dir, "beta")}
	os.MkdirAll(roots["alpha"], 0o755)
	os.MkdirAll(roots["beta"], 0o755)
	defer os.RemoveAll(dir)
	id, err := r.env.Create(roots["alpha"], roots["beta"], sess.ManualConfig(modeByName[c.Mode]), nil, nil, "", nil, false)
	if err != nil {
		return fmt.Sprintf("session creation fails: %v", err), false, ""
	}
	defer r.env.Terminate(id)
	clock := int64(1_700_000_000)
	for _, edits := range c.Warmup {
		for _, e := range edits {
			apply(roots[e.Side], e, &clock)
		}
		if err := r.env.Flush(id, 10*time.Second); err != nil {
			// A warm-up that already halts (e.g. it emptied a root) is a
			// different case; nothing to judge here.
			return "", false, "warmup-ended-early"
		}
	}
	st0 := r.env.State(id)
	if st0 == nil {
		return "session not listed after warm-up", false, ""
	}
	anc := archive(r.env.ArchivePath(id))
	x, y := c.Side, "beta"
	if x == "beta" {
		y = "alpha"
	}
	// Trigger.
	switch c.Trigger {
	case "delete-root":
		os.RemoveAll(roots[x])
	case "root-to-file":
		os.RemoveAll(roots[x])
		os.WriteFile(roots[x], []byte("now a file"), 0o644)
	case "empty-root":
		entries, _ := os.ReadDir(roots[x])
		for _, e := range entries {
			os.RemoveAll(filepath.Join(roots[x], e.Name()))
		}
	}
	for _, e := range c.OtherEdit {
		apply(roots[y], e, &clock)
	}
	xN, _ := disk.Observe(roots[x])
	yN, _ := disk.Observe(roots[y])
	xE, yE := disk.Expect(xN, scanOpts), disk.Expect(yN, scanOpts)
	aE, bE := xE, yE
	if x == "beta" {
		aE, bE = yE, xE
	}
	oneWay := strings.HasPrefix(c.Mode, "one-way")

	// Independent classification of what must happen.
	emptied := anc != nil && anc.Kind == tree.KDir && len(anc.Contents) >= 2 &&
		aE != nil && aE.Kind == tree.KDir && bE != nil && bE.Kind == tree.KDir &&
		(len(aE.Contents) == 0) != (len(bE.Contents) == 0)
	yUnchanged := tree.DeepEqual(yE, anc)
	var wantStatus synchronization.Status
	mustHalt := false
	frozen := false // both roots must stay exactly as the test left them
	switch c.Trigger {
	case "empty-root":
		if emptied {
			mustHalt, frozen, wantStatus = true, true, synchronization.Status_HaltedOnRootEmptied
		}
	case "delete-root":
		if anc != nil && yUnchanged && (!oneWay || x == "alpha") {
			mustHalt, frozen, wantStatus = true, true, synchronization.Status_HaltedOnRootDeletion
		}
	case "root-to-file":
		if anc != nil && anc.Kind == tree.KDir && yUnchanged && (!oneWay || x == "alpha") {
			mustHalt, frozen, wantStatus = true, true, synchronization.Status_HaltedOnRootTypeChange
		}
	}
	class = c.Trigger + "/" + map[bool]string{true: "must-halt", false: "no-halt-required"}[mustHalt]

	check := func(stage string, frozen bool) string {
		xNow, _ := disk.Observe(roots[x])
		yNow, _ := disk.Observe(roots[y])
		// Never propagated: the other root still exists with every object it
		// had, whatever else happens.
		if c.Trigger != "empty-root" || emptied {
			if yNow == nil || yNow.Kind != yN.Kind {
				return fmt.Sprintf("%s: the %s root was removed or changed kind after the %s root was subjected to %s (was %s, now %s)", stage, y, x, c.Trigger, yN.Render(false), yNow.Render(false))
			}
			if yN.Render(true) != yNow.Render(true) {
				return fmt.Sprintf("%s: the %s root changed although the only difference is %s on the %s root:\n before %s\n after  %s", stage, y, c.Trigger, x, yN.Render(true), yNow.Render(true))
			}
		}
		if frozen && xN.Render(true) != xNow.Render(true) {
			return fmt.Sprintf("%s: the %s root was modified while the session must be halted:\n before %s\n after  %s", stage, x, xN.Render(true), xNow.Render(true))
		}
		return ""
	}

	for attempt := 1; attempt <= 2; attempt++ {
		ferr := r.env.Flush(id, 3*time.Second)
		st := r.env.State(id)
		if v := check(fmt.Sprintf("flush attempt %d", attempt), frozen); v != "" {
			return v, true, class
		}
		if mustHalt {
			if ferr == nil {
				return fmt.Sprintf("flush attempt %d reports success although the cycle must halt (%s on %s, mode %s)", attempt, c.Trigger, x, c.Mode), true, class
			}
			if st == nil || st.Status != wantStatus {
				return fmt.Sprintf("flush attempt %d: status is %v, want %v (%s on %s, mode %s)", attempt, st.GetStatus(), wantStatus, c.Trigger, x, c.Mode), true, class
			}
			if st.SuccessfulCycles > st0.SuccessfulCycles {
				return fmt.Sprintf("flush attempt %d: successful cycles advanced from %d to %d although the cycle must halt", attempt, st0.SuccessfulCycles, st.SuccessfulCycles), true, class
			}
		}
		if attempt == 1 && mustHalt {
			// Edits elsewhere do not wake a halted session up.
			for _, e := range c.LateEdit {
				apply(roots[y], e, &clock)
			}
			yN, _ = disk.Observe(roots[y])
		}
	}
	if mustHalt {
		// Only Resume / Reset leave the halted state; resuming with the
		// condition still present halts again without touching anything.
		if err := r.env.Resume(id); err != nil {
			return fmt.Sprintf("resume of a halted session fails: %v", err), true, class
		}
		ferr := r.env.Flush(id, 10*time.Second)
		if v := check("after resume", frozen && len(c.LateEdit) == 0); v != "" {
			return v, true, class
		}
		if len(c.LateEdit) == 0 {
			// Nothing changed since the halt: the condition is still present.
			st := r.env.State(id)
			if ferr == nil || st == nil || st.Status != wantStatus {
				return fmt.Sprintf("after resume with the condition still present: flush error %v, status %v, want halted %v", ferr, st.GetStatus(), wantStatus), true, class
			}
		}
	}
	return "", mustHalt, class
}

var names = []string{"a", "b", "c", "d"}

func drawEdits(rt *rapid.T, label string, side string, max int) []*Edit {
	var out []*Edit
	for n := rapid.IntRange(0, max).Draw(rt, label+".n"); n > 0; n-- {
		e := &Edit{Side: side}
		if side == "" {
			e.Side = rapid.SampledFrom([]string{"alpha", "beta"}).Draw(rt, label+".side")
		}
		comps := []string{rapid.SampledFrom(names).Draw(rt, label+".name")}
		if rapid.Bool().Draw(rt, label+".deep") {
			comps = append(comps, rapid.SampledFrom(names).Draw(rt, label+".name2"))
		}
		e.Path = strings.Join(comps, "/")
		e.Op = rapid.SampledFrom([]string{"write", "write", "mkdir", "delete"}).Draw(rt, label+".op")
		e.Arg = rapid.SampledFrom([]string{"1", "2", "3"}).Draw(rt, label+".arg")
		out = append(out, e)
	}
	return out
}

func render(c *Case) []string {
	r := func(es []*Edit) string {
		var s []string
		for _, e := range es {
			s = append(s, fmt.Sprintf("%s:%s %s", e.Side, e.Op, e.Path))
		}
		return strings.Join(s, "; ")
	}
	out := []string{c.Mode}
	for i, w := range c.Warmup {
		out = append(out, fmt.Sprintf("warm-up %d: %s", i, r(w)))
	}
	out = append(out, fmt.Sprintf("trigger: %s on %s; other side: %s; late: %s", c.Trigger, c.Side, r(c.OtherEdit), r(c.LateEdit)))
	return out
}

func TestHaltingHistories(t *testing.T) {
	if ev.ReplayPath() != "" {
		t.Skip()
	}
	rec := ev.New(t, prop, "halting-histories", "rapid: real Manager session (all four modes, no-watch, waiting flushes): 1-4 warm-up cycles of edits, then one root is deleted / replaced by a file / emptied, optional edits on the other root, two flush attempts with further edits in between, resume and another flush; the untouched root must keep every object (lstat identity), and where an independent classification of (archive, alpha, beta) says the change must not propagate, flush must fail, status must be the matching Halted value and both roots must stay frozen; non-trivial: the classification requires a halt")
	base := t.TempDir()
	env, err := sess.NewEnv(filepath.Join(base, "data"))
	if err != nil {
		t.Fatal(err)
	}
	defer env.Close()
	sess.Install(nil, nil)
	r := &runner{env: env, base: base}
	ev.Check(t, rec, 150, 5000, func(rt *rapid.T) {
		c := &Case{
			Mode:    rapid.SampledFrom([]string{"two-way-safe", "two-way-resolved", "one-way-safe", "one-way-replica"}).Draw(rt, "mode"),
			Trigger: rapid.SampledFrom([]string{"delete-root", "root-to-file", "empty-root", "empty-root"}).Draw(rt, "trigger"),
			Side:    rapid.SampledFrom([]string{"alpha", "beta"}).Draw(rt, "side"),
		}
		for n := rapid.IntRange(1, 4).Draw(rt, "warmups"); n > 0; n-- {
			w := drawEdits(rt, "warmup", "", 4)
			// In one-way modes only alpha edits build up shared content.
			c.Warmup = append(c.Warmup, w)
		}
		other := "beta"
		if c.Side == "beta" {
			other = "alpha"
		}
		if rapid.IntRange(0, 3).Draw(rt, "other?") == 0 {
			c.OtherEdit = drawEdits(rt, "other", other, 2)
		}
		if c.Trigger == "empty-root" && rapid.Bool().Draw(rt, "shared-deletions") {
			// The other root deletes some of the same top-level entries in
			// the same cycle (deletions both sides agree on).
			for _, name := range names {
				if rapid.IntRange(0, 2).Draw(rt, "shared-deletion."+name) != 0 {
					c.OtherEdit = append(c.OtherEdit, &Edit{Side: other, Op: "delete", Path: name})
				}
			}
		}
		c.LateEdit = drawEdits(rt, "late", other, 2)
		v, nt, class := r.run(c)
		rec.Eval()
		if v != "" {
			ev.Failf(rt, rec, c, "%s", v)
		}
		rec.Class(class)
		if nt {
			rec.Class("mode/" + c.Mode)
			rec.NonTrivial(ev.Hash(render(c)...))
			if rec.WantSample() {
				rec.Sample(render(c))
			}
		}
	})
}

func TestReplay(t *testing.T) {
	if ev.ReplayPath() == "" || ev.ReplayPart() == "polling-sessions" || ev.ReplayPart() == "mid-cycle-root-loss" {
		t.Skip()
	}
	var c Case
	if _, err := ev.LoadReplay(ev.ReplayPath(), &c); err != nil {
		t.Fatal(err)
	}
	rec := ev.New(t, prop, "replay", "replay of a saved case")
	rec.Eval()
	base := t.TempDir()
	env, err := sess.NewEnv(filepath.Join(base, "data"))
	if err != nil {
		t.Fatal(err)
	}
	defer env.Close()
	sess.Install(nil, nil)
	r := &runner{env: env, base: base}
	if v, _, _ := r.run(&c); v != "" {
		ev.FailTB(t, rec, &c, "%s", v)
	}
}
