package c11_halt

import (
	"fmt"
	"os"
	"path/filepath"
	"sync/atomic"
	"testing"
	"time"

	"pgregory.net/rapid"

	"github.com/mutagen-io/mutagen/pkg/synchronization"

	"verif/kit/ev"
	"verif/kit/sess"
)

// A root that is deleted or emptied in the middle of a cycle: after the
// cycle's scan and safety checks, right before the endpoint is asked to stage
// the files the other side created. Whatever that cycle does, the deletion
// must never reach the other root, in that cycle or in the following ones.

// MidCase is a trigger applied right before one endpoint's Stage call.
type MidCase struct {
	Mode      string `json:"mode"`
	Side      string `json:"side"`       // the root that disappears
	Trigger   string `json:"trigger"`    // delete-root, empty-root
	StageMode string `json:"stage_mode"` // default, internal, neighboring
	Files     int    `json:"files"`      // files synchronized before the trigger (>= 2)
}

var stageModes = map[string]synchronization.StageMode{
	"default":     synchronization.StageMode_StageModeDefault,
	"internal":    synchronization.StageMode_StageModeInternal,
	"neighboring": synchronization.StageMode_StageModeNeighboring,
}

// ClassEmptiedMidCycle is the class of the listed finding: the root is
// emptied (its directory stays) in the window between scan and staging.
const ClassEmptiedMidCycle = "root-emptied-between-scan-and-staging"

type midRunner struct {
	env   *sess.Env
	base  string
	n     int
	armed atomic.Pointer[func()]
	side  atomic.Bool // true: alpha's Stage call triggers
}

func (r *midRunner) onStage(session string, alpha bool) {
	if alpha != r.side.Load() {
		return
	}
	if f := r.armed.Swap(nil); f != nil {
		(*f)()
	}
}

func (r *midRunner) run(c *MidCase) (violation string, nontrivial bool, class string) {
	r.n++
	dir := filepath.Join(r.base, fmt.Sprintf("mid%d", r.n))
	roots := map[string]string{"alpha": filepath.Join(dir, "alpha"), "beta": filepath.Join(dir, "beta")}
	os.MkdirAll(roots["alpha"], 0o755)
	os.MkdirAll(roots["beta"], 0o755)
	defer os.RemoveAll(dir)
	x, y := c.Side, "alpha"
	if x == "alpha" {
		y = "beta"
	}
	// One-way modes only ever stage on beta.
	oneWay := c.Mode == "one-way-safe" || c.Mode == "one-way-replica"
	if oneWay && x == "alpha" {
		return "", false, "not-applicable"
	}
	names := []string{}
	for i := 0; i < c.Files; i++ {
		n := fmt.Sprintf("f%d", i)
		names = append(names, n)
		os.WriteFile(filepath.Join(roots["alpha"], n), []byte("content "+n), 0o644)
	}
	cfg := sess.ManualConfig(modeByName[c.Mode])
	cfg.StageMode = stageModes[c.StageMode]
	id, err := r.env.Create(roots["alpha"], roots["beta"], cfg, nil, nil, "", nil, false)
	if err != nil {
		return fmt.Sprintf("session creation fails: %v", err), false, ""
	}
	defer r.env.Terminate(id)
	if err := r.env.Flush(id, 10*time.Second); err != nil {
		return "", false, "initial-flush-failed"
	}
	for _, n := range names {
		if _, err := os.Stat(filepath.Join(roots["beta"], n)); err != nil {
			return "", false, "initial-content-not-propagated"
		}
	}
	// The other root gets a new file, so that the disappearing root has
	// something to stage in the next cycle.
	os.WriteFile(filepath.Join(roots[y], "fresh"), []byte("fresh content"), 0o644)
	fired := false
	trigger := func() {
		fired = true
		if c.Trigger == "delete-root" {
			os.RemoveAll(roots[x])
		} else {
			for _, n := range names {
				os.Remove(filepath.Join(roots[x], n))
			}
		}
	}
	r.side.Store(x == "alpha")
	r.armed.Store(&trigger)
	r.env.Flush(id, 1500*time.Millisecond)
	r.armed.Store(nil)
	if !fired {
		return "", false, "stage-not-reached"
	}
	// Further cycles (a halted session refuses them; that is fine).
	for i := 0; i < 3; i++ {
		r.env.Flush(id, 700*time.Millisecond)
		for _, n := range names {
			data, err := os.ReadFile(filepath.Join(roots[y], n))
			if err != nil || string(data) != "content "+n {
				st := r.env.State(id)
				return fmt.Sprintf("%s of the %s root in the middle of a cycle (right before its Stage call, stage mode %s, mode %s): %d cycle(s) later %q is gone from the %s root (%v); session status %v", c.Trigger, x, c.StageMode, c.Mode, i+1, n, y, err, st.GetStatus()), true, ""
			}
		}
	}
	return "", true, c.Trigger + "/" + c.StageMode
}

func TestMidCycleRootLoss(t *testing.T) {
	if ev.ReplayPath() != "" {
		t.Skip()
	}
	rec := ev.New(t, prop, "mid-cycle-root-loss", "rapid: real sessions (no-watch, flush-driven; stage mode default / internal / neighboring; 4 modes) synchronize 2-4 files, the other root gets a new file, and in the next cycle the root is deleted or emptied right before its endpoint's Stage call (after that cycle's scan and safety checks; hook in the session kit); three further flushes follow; the files of the other root must all survive; non-trivial: the Stage call was reached and the trigger fired")
	base := t.TempDir()
	env, err := sess.NewEnv(filepath.Join(base, "data"))
	if err != nil {
		t.Fatal(err)
	}
	defer env.Close()
	r := &midRunner{env: env, base: base}
	sess.Install(nil, &sess.Hooks{OnStage: r.onStage})
	defer sess.Install(nil, nil)
	// Listed finding: emptying (not deleting) the root in that window. Its
	// canonical instance is re-executed and the class is excluded below.
	finding, listed := ev.KnownClass(prop, ClassEmptiedMidCycle)
	if listed {
		canonical := &MidCase{Mode: "two-way-safe", Side: "beta", Trigger: "empty-root", StageMode: "default", Files: 3}
		if v, _, _ := r.run(canonical); v != "" {
			rec.ReportKnown(finding)
			rec.Class("known-findings-still-failing/" + ClassEmptiedMidCycle)
		} else {
			rec.Note("known_finding_no_longer_reproduces", ClassEmptiedMidCycle)
		}
	}
	ev.Check(t, rec, 60, 1500, func(rt *rapid.T) {
		c := &MidCase{
			Mode:      rapid.SampledFrom([]string{"two-way-safe", "two-way-resolved", "one-way-safe", "one-way-replica"}).Draw(rt, "mode"),
			Side:      rapid.SampledFrom([]string{"alpha", "beta", "beta"}).Draw(rt, "side"),
			Trigger:   rapid.SampledFrom([]string{"delete-root", "delete-root", "empty-root"}).Draw(rt, "trigger"),
			StageMode: rapid.SampledFrom([]string{"default", "internal", "internal", "neighboring"}).Draw(rt, "stage_mode"),
			Files:     rapid.IntRange(2, 4).Draw(rt, "files"),
		}
		if listed && c.Trigger == "empty-root" {
			rec.Excluded(ClassEmptiedMidCycle)
			return
		}
		v, nt, class := r.run(c)
		rec.Eval()
		if v != "" {
			ev.Failf(rt, rec, c, "%s", v)
		}
		if class != "" {
			rec.Class(class)
		}
		if nt {
			rec.NonTrivial(ev.Hash(fmt.Sprint(*c)))
			if rec.WantSample() {
				rec.Sample(c)
			}
		}
	})
}

func TestReplayMidCycle(t *testing.T) {
	if ev.ReplayPath() == "" || ev.ReplayPart() != "mid-cycle-root-loss" {
		t.Skip()
	}
	var c MidCase
	if _, err := ev.LoadReplay(ev.ReplayPath(), &c); err != nil {
		t.Fatal(err)
	}
	rec := ev.New(t, prop, "replay", "replay of a saved case")
	rec.Eval()
	base := t.TempDir()
	env, err := sess.NewEnv(filepath.Join(base, "data"))
	if err != nil {
		t.Fatal(err)
	}
	defer env.Close()
	r := &midRunner{env: env, base: base}
	sess.Install(nil, &sess.Hooks{OnStage: r.onStage})
	defer sess.Install(nil, nil)
	if v, _, _ := r.run(&c); v != "" {
		ev.FailTB(t, rec, &c, "%s", v)
	}
}
