package c11_halt

import (
	"fmt"
	"os"
	"path/filepath"
	"sync"
	"testing"
	"time"

	"pgregory.net/rapid"

	"github.com/mutagen-io/mutagen/pkg/synchronization"

	"verif/kit/disk"
	"verif/kit/ev"
	"verif/kit/sess"
)

// Polling variant: the session watches by polling (1 s interval), so the cycle
// that meets the emptied / deleted / retyped root is triggered by the poller,
// not by a flush. The session must end up halted and stay that way: both roots
// frozen over two further polling intervals.

// PollCase is a trigger on one side of a polling session.
type PollCase struct {
	Mode    string `json:"mode"`
	Trigger string `json:"trigger"`
	Side    string `json:"side"`
}

func runPolling(env *sess.Env, c *PollCase, dir string) (violation string, timing bool) {
	roots := map[string]string{"alpha": filepath.Join(dir, "alpha"), "beta": filepath.Join(dir, "beta")}
	os.MkdirAll(roots["alpha"], 0o755)
	os.MkdirAll(roots["beta"], 0o755)
	for _, n := range []string{"a", "b", "c"} {
		os.WriteFile(filepath.Join(roots["alpha"], n), []byte("content "+n), 0o644)
	}
	cfg := &synchronization.Configuration{SynchronizationMode: modeByName[c.Mode], WatchMode: synchronization.WatchMode_WatchModeForcePoll, WatchPollingInterval: 1}
	id, err := env.Create(roots["alpha"], roots["beta"], cfg, nil, nil, "", nil, false)
	if err != nil {
		return fmt.Sprintf("session creation fails: %v", err), false
	}
	defer env.Terminate(id)
	// Wait until the three files have arrived on beta.
	deadline := time.Now().Add(20 * time.Second)
	for {
		if _, err := os.Stat(filepath.Join(roots["beta"], "c")); err == nil {
			break
		}
		if time.Now().After(deadline) {
			return "initial content never reached beta in a polling session", true
		}
		time.Sleep(50 * time.Millisecond)
	}
	time.Sleep(300 * time.Millisecond)
	x, y := c.Side, "beta"
	if x == "beta" {
		y = "alpha"
	}
	var want synchronization.Status
	switch c.Trigger {
	case "delete-root":
		os.RemoveAll(roots[x])
		want = synchronization.Status_HaltedOnRootDeletion
	case "root-to-file":
		os.RemoveAll(roots[x])
		os.WriteFile(roots[x], []byte("now a file"), 0o644)
		want = synchronization.Status_HaltedOnRootTypeChange
	case "empty-root":
		for _, n := range []string{"a", "b", "c"} {
			os.Remove(filepath.Join(roots[x], n))
		}
		want = synchronization.Status_HaltedOnRootEmptied
	}
	xN, _ := disk.Observe(roots[x])
	yN, _ := disk.Observe(roots[y])
	oneWay := c.Mode == "one-way-safe" || c.Mode == "one-way-replica"
	// One-way modes never change alpha, and one-way-safe keeps a beta root
	// that became a file (a modification on the protected side: a conflict,
	// nothing to propagate); one-way-replica would replace it and must halt.
	mustHalt := !oneWay || x == "alpha" || c.Trigger == "empty-root" || (c.Trigger == "root-to-file" && c.Mode == "one-way-replica")
	// Observe for up to 6 s: the untouched root must never change; once halted
	// the session must stay halted.
	halted := false
	end := time.Now().Add(6 * time.Second)
	var haltedAt time.Time
	for time.Now().Before(end) {
		yNow, _ := disk.Observe(roots[y])
		if yN.Render(true) != yNow.Render(true) {
			return fmt.Sprintf("the %s root changed after %s on the %s root (polling session):\n before %s\n after  %s", y, c.Trigger, x, yN.Render(true), yNow.Render(true)), false
		}
		st := env.State(id)
		if st != nil && sess.Halted(st.Status) {
			if !halted {
				halted, haltedAt = true, time.Now()
			}
			// Replacing the root by a file is not atomic (remove, then create):
			// a polling scan in between legitimately sees a deleted root.
			if st.Status != want && !(c.Trigger == "root-to-file" && st.Status == synchronization.Status_HaltedOnRootDeletion) {
				return fmt.Sprintf("halted with status %v, want %v", st.Status, want), false
			}
		} else if halted {
			return fmt.Sprintf("the session left the halted state by itself (status %v)", st.GetStatus()), false
		}
		if halted {
			xNow, _ := disk.Observe(roots[x])
			if xN.Render(true) != xNow.Render(true) {
				return fmt.Sprintf("the %s root was modified while the session is halted", x), false
			}
			if time.Since(haltedAt) > 2500*time.Millisecond {
				break
			}
		}
		time.Sleep(100 * time.Millisecond)
	}
	if mustHalt && !halted {
		return fmt.Sprintf("%s on the %s root (mode %s) was not followed by a halt within 6 s of polling", c.Trigger, x, c.Mode), true
	}
	return "", false
}

func TestPollingHalts(t *testing.T) {
	if ev.ReplayPath() != "" {
		t.Skip()
	}
	rec := ev.New(t, prop, "polling-sessions", "rapid: real sessions in force-poll mode (1 s interval) synchronize three files, then one root is deleted / replaced by a file / emptied; without any flush the poll-triggered cycle must halt with the matching status, stay halted for 2.5 s, and never modify the untouched root (nor, once halted, the other one); six sessions in parallel per rapid case; timing verdicts are re-executed three times; non-trivial: every case")
	base := t.TempDir()
	env, err := sess.NewEnv(filepath.Join(base, "data"))
	if err != nil {
		t.Fatal(err)
	}
	defer env.Close()
	sess.Install(nil, nil)
	n := 0
	var nmu sync.Mutex
	ev.Check(t, rec, 2, 12, func(rt *rapid.T) {
		var cases []*PollCase
		for i := 0; i < 6; i++ {
			cases = append(cases, &PollCase{
				Mode:    rapid.SampledFrom([]string{"two-way-safe", "two-way-resolved", "one-way-safe", "one-way-replica"}).Draw(rt, "mode"),
				Trigger: rapid.SampledFrom([]string{"delete-root", "root-to-file", "empty-root"}).Draw(rt, "trigger"),
				Side:    rapid.SampledFrom([]string{"alpha", "beta"}).Draw(rt, "side"),
			})
		}
		violations := make([]string, len(cases))
		var wg sync.WaitGroup
		for i, c := range cases {
			wg.Add(1)
			go func(i int, c *PollCase) {
				defer wg.Done()
				for attempt := 0; attempt < 3; attempt++ {
					nmu.Lock()
					n++
					dir := filepath.Join(base, fmt.Sprintf("poll%d", n))
					nmu.Unlock()
					os.MkdirAll(dir, 0o700)
					v, timing := runPolling(env, c, dir)
					os.RemoveAll(dir)
					violations[i] = v
					if v == "" || !timing {
						return
					}
				}
			}(i, c)
		}
		wg.Wait()
		for i, c := range cases {
			rec.Eval()
			rec.Class(c.Trigger)
			if violations[i] != "" {
				ev.Failf(rt, rec, c, "%s", violations[i])
			}
			rec.NonTrivial(ev.Hash(c.Mode, c.Trigger, c.Side))
			if rec.WantSample() {
				rec.Sample(c)
			}
		}
	})
}

func TestReplayPolling(t *testing.T) {
	if ev.ReplayPath() == "" || ev.ReplayPart() != "polling-sessions" {
		t.Skip()
	}
	var c PollCase
	if _, err := ev.LoadReplay(ev.ReplayPath(), &c); err != nil {
		t.Fatal(err)
	}
	rec := ev.New(t, prop, "replay", "replay of a saved case")
	rec.Eval()
	base := t.TempDir()
	env, err := sess.NewEnv(filepath.Join(base, "data"))
	if err != nil {
		t.Fatal(err)
	}
	defer env.Close()
	sess.Install(nil, nil)
	if v, _ := runPolling(env, &c, base); v != "" {
		ev.FailTB(t, rec, &c, "%s", v)
	}
}
