package c12_scan

import (
	"bytes"
	"context"
	"crypto/sha1"
	"fmt"
	"hash"
	"os"
	"path/filepath"
	"sort"
	"testing"

	"pgregory.net/rapid"

	"github.com/mutagen-io/mutagen/pkg/filesystem/behavior"
	"github.com/mutagen-io/mutagen/pkg/synchronization/core"

	"verif/kit/disk"
	"verif/kit/ev"
	"verif/kit/tree"
)

// A file that changes while it is being hashed. The hasher handed to Scan is
// supplied by the caller, so the test's hasher recognises (by content) the
// moment the victim file's bytes arrive and appends to that file on disk. The
// victim may be reported as problematic or with the digest of its old or new
// content; every other file must be reported exactly - in particular a failure
// while hashing one file must not leak into the digests of files hashed later.

// ConcCase is a flat or nested set of uniquely-filled files and a victim.
type ConcCase struct {
	Files  map[string]int `json:"files"` // root-relative path -> size
	Victim string         `json:"victim"`
}

type meddlingHasher struct {
	hash.Hash
	victimPrefix []byte
	victimPath   string
	done         bool
}

func (m *meddlingHasher) Write(p []byte) (int, error) {
	if !m.done && bytes.HasPrefix(p, m.victimPrefix) {
		m.done = true
		if f, err := os.OpenFile(m.victimPath, os.O_APPEND|os.O_WRONLY, 0); err == nil {
			f.Write([]byte("-appended while being hashed"))
			f.Close()
		}
	}
	return m.Hash.Write(p)
}

func uniqueContent(path string, size int) []byte {
	b := []byte("<<" + path + ">>")
	for len(b) < size {
		b = append(b, byte('a'+len(b)%26))
	}
	return b
}

func judgeConcurrent(c *ConcCase, dir string) (violation string, nontrivial bool) {
	root := filepath.Join(dir, "root")
	var paths []string
	for p := range c.Files {
		paths = append(paths, p)
	}
	sort.Strings(paths)
	before := map[string][]byte{}
	for _, p := range paths {
		full := filepath.Join(root, filepath.FromSlash(p))
		os.MkdirAll(filepath.Dir(full), 0o755)
		before[p] = uniqueContent(p, c.Files[p])
		os.WriteFile(full, before[p], 0o644)
	}
	h := &meddlingHasher{Hash: sha1.New(), victimPrefix: []byte("<<" + c.Victim + ">>"), victimPath: filepath.Join(root, filepath.FromSlash(c.Victim))}
	snap, cache, _, err := core.Scan(context.Background(), root, nil, nil, h, nil, setIgnorer{}, nil,
		behavior.ProbeMode_ProbeModeProbe, core.SymbolicLinkMode_SymbolicLinkModePortable, core.PermissionsMode_PermissionsModePortable)
	if err != nil {
		return fmt.Sprintf("scan fails: %v", err), false
	}
	victimProblematic := false
	for _, p := range paths {
		e := tree.At(snap.Content, p)
		oldSum := sha1.Sum(before[p])
		if p == c.Victim {
			now, _ := os.ReadFile(filepath.Join(root, filepath.FromSlash(p)))
			newSum := sha1.Sum(now)
			switch {
			case e != nil && e.Kind == tree.KProb:
				victimProblematic = true
			case e != nil && e.Kind == tree.KFile && (bytes.Equal(e.Digest, oldSum[:]) || bytes.Equal(e.Digest, newSum[:])):
			default:
				return fmt.Sprintf("file %q changed while being hashed is reported as %s (neither a problem nor its old or new content)", p, tree.Render(e)), false
			}
			continue
		}
		if e == nil || e.Kind != tree.KFile || !bytes.Equal(e.Digest, oldSum[:]) {
			return fmt.Sprintf("file %q (untouched) is reported as %s, its content has digest %x; %q was modified while being hashed (reported %s)", p, tree.Render(e), oldSum, c.Victim, tree.Render(tree.At(snap.Content, c.Victim))), victimProblematic
		}
		if ce := cache.GetEntries()[p]; ce == nil || !bytes.Equal(ce.Digest, oldSum[:]) {
			return fmt.Sprintf("digest cache entry of untouched file %q does not match its content", p), victimProblematic
		}
	}
	return "", victimProblematic && len(paths) > 1
}

func TestConcurrentModification(t *testing.T) {
	if ev.ReplayPath() != "" {
		t.Skip()
	}
	rec := ev.New(t, prop, "file-changes-while-hashed", "rapid: 2-8 files with unique content in up to 3 directories; the hasher passed to Scan appends to a chosen victim file at the moment its first bytes are hashed; the victim may be a problem or carry its old/new digest, every other file must be reported with exactly its own digest in snapshot and cache; non-trivial: the victim became problematic and other files exist")
	base := t.TempDir()
	n := 0
	ev.Check(t, rec, 400, 5000, func(rt *rapid.T) {
		c := &ConcCase{Files: map[string]int{}}
		dirs := []string{"", "d1/", "d2/", "d1/sub/"}
		for k := rapid.IntRange(2, 8).Draw(rt, "files"); k > 0; k-- {
			p := rapid.SampledFrom(dirs).Draw(rt, "dir") + rapid.SampledFrom([]string{"a", "b", "c", "m", "z", "0"}).Draw(rt, "name")
			c.Files[p] = rapid.SampledFrom([]int{20, 100, 5000, 40000}).Draw(rt, "size")
		}
		var paths []string
		for p := range c.Files {
			paths = append(paths, p)
		}
		sort.Strings(paths)
		// A name used both as file and directory cannot be built: skip.
		for _, p := range paths {
			for _, q := range paths {
				if p != q && len(q) > len(p) && q[:len(p)+1] == p+"/" {
					rt.Skip("file/directory name clash")
				}
			}
		}
		c.Victim = rapid.SampledFrom(paths).Draw(rt, "victim")
		n++
		dir := filepath.Join(base, fmt.Sprintf("c%d", n))
		os.MkdirAll(dir, 0o700)
		defer func() { disk.MakeWritable(dir); os.RemoveAll(dir) }()
		rec.Eval()
		v, nt := judgeConcurrent(c, dir)
		if v != "" {
			ev.Failf(rt, rec, c, "%s", v)
		}
		if nt {
			rec.NonTrivial(ev.Hash(fmt.Sprint(paths, c.Files, c.Victim)))
			if rec.WantSample() {
				rec.Sample(c)
			}
		}
	})
}

func TestReplayConcurrent(t *testing.T) {
	if ev.ReplayPath() == "" || ev.ReplayPart() != "file-changes-while-hashed" {
		t.Skip()
	}
	var c ConcCase
	if _, err := ev.LoadReplay(ev.ReplayPath(), &c); err != nil {
		t.Fatal(err)
	}
	rec := ev.New(t, prop, "replay", "replay of a saved case")
	rec.Eval()
	if v, _ := judgeConcurrent(&c, t.TempDir()); v != "" {
		ev.FailTB(t, rec, &c, "%s", v)
	}
}
