// Package c12_scan decides C12: a scan describes the filesystem exactly.
package c12_scan

import (
	"context"
	"crypto/sha1"
	"crypto/sha256"
	"fmt"
	"hash"
	"os"
	"path/filepath"
	"sort"
	"strings"
	"testing"

	"pgregory.net/rapid"

	"github.com/mutagen-io/mutagen/pkg/filesystem/behavior"
	"github.com/mutagen-io/mutagen/pkg/synchronization/core"
	"github.com/mutagen-io/mutagen/pkg/synchronization/core/ignore"

	"verif/kit/disk"
	"verif/kit/ev"
	"verif/kit/tree"
)

const prop = "C12"

// Case is one generated scan scenario.
type Case struct {
	Root        *disk.Node `json:"root"` // nil: missing root
	SymlinkMode int32      `json:"symlink_mode"`
	PermMode    int32      `json:"permissions_mode"`
	SHA256      bool       `json:"sha256"`
	Ignored     []string   `json:"ignored"` // paths the scripted ignorer reports as ignored
	// Decisions, if non-nil, script the full ignorer contract instead: path ->
	// "ignored", "ignored-continue" (directories: traversed under an ignore
	// mask), "unignored", "nominal-continue" (directories under a mask that
	// are still traversed). Unlisted paths are nominal.
	Decisions map[string]string `json:"decisions,omitempty"`
}

// scriptedIgnorer implements the full contract from Case.Decisions.
type scriptedIgnorer map[string]string

func (s scriptedIgnorer) decide(path string, directory bool) (int, bool) {
	switch s[path] {
	case "ignored":
		return 1, false
	case "ignored-continue":
		return 1, directory
	case "unignored":
		return 2, false
	case "nominal-continue":
		return 0, directory
	}
	return 0, false
}

func (s scriptedIgnorer) Ignore(path string, directory bool) (ignore.IgnoreStatus, bool) {
	status, cont := s.decide(path, directory)
	return []ignore.IgnoreStatus{ignore.IgnoreStatusNominal, ignore.IgnoreStatusIgnored, ignore.IgnoreStatusUnignored}[status], cont
}

// setIgnorer is a scripted ignorer: exactly the listed paths are ignored.
type setIgnorer map[string]bool

func (s setIgnorer) Ignore(path string, directory bool) (ignore.IgnoreStatus, bool) {
	if s[path] {
		return ignore.IgnoreStatusIgnored, false
	}
	return ignore.IgnoreStatusNominal, false
}

var symlinkModes = []core.SymbolicLinkMode{
	core.SymbolicLinkMode_SymbolicLinkModePortable,
	core.SymbolicLinkMode_SymbolicLinkModeIgnore,
	core.SymbolicLinkMode_SymbolicLinkModePOSIXRaw,
}
var permModes = []core.PermissionsMode{
	core.PermissionsMode_PermissionsModePortable,
	core.PermissionsMode_PermissionsModeManual,
}

func judge(c *Case, dir string) (violation string, nontrivial bool) {
	root := filepath.Join(dir, "root")
	if c.Root != nil {
		if err := disk.Build(root, c.Root); err != nil {
			return "", false // cannot materialise (e.g. name too long): not a case
		}
		defer disk.MakeWritable(root)
	}
	return judgeBuilt(c, root)
}

// judgeBuilt scans an already materialised root and compares the snapshot with
// the independent walk (performed by the same process, hence with the same
// access rights).
func judgeBuilt(c *Case, root string) (violation string, nontrivial bool) {
	observed, err := disk.Observe(root)
	if err != nil {
		return "", false
	}
	ign := setIgnorer{}
	for _, p := range c.Ignored {
		ign[p] = true
	}
	opts := disk.ScanOpts{
		SymlinkMode: core.SymbolicLinkMode(c.SymlinkMode), PermMode: core.PermissionsMode(c.PermMode), SHA256: c.SHA256,
		Ignored: func(p string, d bool) bool { return ign[p] },
	}
	var ignorer ignore.Ignorer = ign
	if c.Decisions != nil {
		si := scriptedIgnorer(c.Decisions)
		ignorer, opts.Decide, opts.Ignored = si, si.decide, nil
	}
	var hasher hash.Hash = sha1.New()
	if c.SHA256 {
		hasher = sha256.New()
	}
	snap, cache, _, err := core.Scan(context.Background(), root, nil, nil, hasher, nil, ignorer, nil,
		behavior.ProbeMode_ProbeModeProbe, opts.SymlinkMode, opts.PermMode)
	if err != nil {
		return fmt.Sprintf("scan of a quiescent tree fails: %v", err), false
	}
	after, _ := disk.Observe(root)
	if observed.Render(true) != after.Render(true) {
		return "the scan modified the tree it scanned", false
	}
	want := disk.Expect(observed, opts)
	if ok, d := disk.EqualModuloProblems(snap.Content, want); !ok {
		return fmt.Sprintf("snapshot differs from the filesystem: %s\n snapshot %s\n expected %s\n on disk %s", d, tree.Render(snap.Content), tree.Render(want), observed.Render(false)), false
	}
	if err := snap.Content.EnsureValid(false); err != nil {
		return fmt.Sprintf("snapshot content is invalid: %v", err), false
	}
	d, f, l, s := disk.Counts(want, observed)
	if snap.Directories != d || snap.Files != f || snap.SymbolicLinks != l || snap.TotalFileSize != s {
		return fmt.Sprintf("snapshot counters dirs=%d files=%d links=%d bytes=%d, content has %d/%d/%d/%d (snapshot %s)", snap.Directories, snap.Files, snap.SymbolicLinks, snap.TotalFileSize, d, f, l, s, tree.Render(snap.Content)), false
	}
	if observed != nil && !snap.PreservesExecutability {
		return "scan reports that this (executability-preserving) filesystem does not preserve executability", false
	}
	// Cache: exactly one entry per file of the snapshot, with its metadata.
	var filePaths []string
	for _, pe := range tree.Walk(want) {
		if pe.Entry.Kind == tree.KFile {
			filePaths = append(filePaths, pe.Path)
		}
	}
	if len(cache.GetEntries()) != len(filePaths) {
		return fmt.Sprintf("digest cache has %d entries for %d files", len(cache.GetEntries()), len(filePaths)), false
	}
	for _, p := range filePaths {
		ce, ok := cache.Entries[p]
		n := observed.At(p)
		if !ok || n == nil {
			return fmt.Sprintf("digest cache lacks file %q", p), false
		}
		if ce.Size != uint64(len(n.Data)) || string(ce.Digest) != string(opts.Digest(n.Data)) || ce.Mode&0o7777 != n.Perm || ce.ModificationTime.AsTime().UnixNano() != n.MTimeN || ce.FileID != n.Ino {
			return fmt.Sprintf("digest cache entry for %q (size %d mode %o mtime %v id %d) does not match the file (size %d mode %o mtime %d ino %d)", p, ce.Size, ce.Mode, ce.ModificationTime.AsTime().UnixNano(), ce.FileID, len(n.Data), n.Perm, n.MTimeN, n.Ino), false
		}
	}
	// Non-trivial: >= 3 distinct kinds incl. one unsynchronizable.
	kinds := map[core.EntryKind]bool{}
	unsync := false
	for _, pe := range tree.Walk(want) {
		kinds[pe.Entry.Kind] = true
		if !tree.IsSyncKind(pe.Entry.Kind) {
			unsync = true
		}
	}
	return "", len(kinds) >= 3 && unsync
}

func allPaths(n *disk.Node, prefix string, out *[]string) {
	if n == nil {
		return
	}
	for _, name := range n.Names() {
		p := name
		if prefix != "" {
			p = prefix + "/" + name
		}
		*out = append(*out, p)
		allPaths(n.Children[name], p, out)
	}
}

func TestRandomTrees(t *testing.T) {
	if ev.ReplayPath() != "" {
		t.Skip()
	}
	rec := ev.New(t, prop, "random-trees", "rapid: directory trees (depth<=3, fan-out<=6) with files of 0..200kB and random modes, portable/non-portable links, FIFOs, non-UTF-8 and temporary-prefixed names, file roots and missing roots x symlink mode x permissions mode x sha1/sha256 x scripted ignorer (a set of ignored paths, or per-path decisions under the full contract: ignored / ignored but traversed under a mask / unignored / nominal but traversed); snapshot, counters and digest cache compared with an independent lstat/readlink/sha walk; non-trivial: >= 3 distinct entry kinds incl. one unsynchronizable")
	g := disk.Gen{MaxDepth: 3, MaxFan: 6, Exotic: true, BigFiles: true, Links: true}
	base := t.TempDir()
	i := 0
	ev.Check(t, rec, 2000, 30000, func(rt *rapid.T) {
		c := &Case{}
		switch rapid.IntRange(0, 19).Draw(rt, "rootkind") {
		case 0:
			c.Root = nil
		case 1:
			c.Root = g.File(rt, "rootfile")
		default:
			c.Root = g.Dir(rt, "root", g.MaxDepth)
		}
		c.SymlinkMode = int32(rapid.SampledFrom(symlinkModes).Draw(rt, "symlinkmode"))
		c.PermMode = int32(rapid.SampledFrom(permModes).Draw(rt, "permmode"))
		c.SHA256 = rapid.IntRange(0, 3).Draw(rt, "sha256") == 0
		var paths []string
		allPaths(c.Root, "", &paths)
		sort.Strings(paths)
		if rapid.IntRange(0, 2).Draw(rt, "full-ignorer-contract") == 0 {
			// Docker-style decisions: masks, traversal of ignored directories
			// and unignored content below them.
			c.Decisions = map[string]string{}
			for _, p := range paths {
				if strings.Contains(p, "\xff") {
					continue
				}
				switch rapid.IntRange(0, 11).Draw(rt, "decision") {
				case 0:
					c.Decisions[p] = "ignored"
				case 1, 2, 3:
					c.Decisions[p] = "ignored-continue"
				case 4, 5:
					c.Decisions[p] = "unignored"
				case 6, 7:
					c.Decisions[p] = "nominal-continue"
				}
			}
		} else {
			for _, p := range paths {
				if rapid.IntRange(0, 7).Draw(rt, "ignore?") == 0 && !strings.Contains(p, "\xff") {
					c.Ignored = append(c.Ignored, p)
				}
			}
		}
		i++
		dir := filepath.Join(base, fmt.Sprintf("c%d", i))
		os.Mkdir(dir, 0o700)
		defer os.RemoveAll(dir)
		rec.Eval()
		v, nt := judge(c, dir)
		if v != "" {
			ev.Failf(rt, rec, c, "%s", v)
		}
		rec.Class(fmt.Sprintf("symlink-mode-%d", c.SymlinkMode))
		if len(c.Ignored) > 0 {
			rec.Class("with-ignored")
		}
		if c.Decisions != nil {
			rec.Class("full-ignorer-contract")
		}
		if c.Root == nil {
			rec.Class("missing-root")
		} else if c.Root.Kind == disk.File {
			rec.Class("file-root")
		}
		if nt {
			rec.Class("nontrivial")
			rec.NonTrivial(ev.Hash(c.Root.Render(false), fmt.Sprint(c.SymlinkMode, c.PermMode, c.SHA256, c.Ignored, c.Decisions)))
			if rec.WantSample() {
				rec.Sample(map[string]any{"tree": c.Root.Render(false), "symlink_mode": c.SymlinkMode, "permissions_mode": c.PermMode, "sha256": c.SHA256, "ignored": c.Ignored, "decisions": c.Decisions})
			}
		}
	})
}

func TestReplay(t *testing.T) {
	if ev.ReplayPath() == "" || ev.ReplayPart() == "file-changes-while-hashed" {
		t.Skip()
	}
	var c Case
	if _, err := ev.LoadReplay(ev.ReplayPath(), &c); err != nil {
		t.Fatal(err)
	}
	rec := ev.New(t, prop, "replay", "replay of a saved case")
	rec.Eval()
	if v, _ := judge(&c, t.TempDir()); v != "" {
		ev.FailTB(t, rec, &c, "%s", v)
	}
}
