package c12_scan

import (
	"encoding/json"
	"fmt"
	"os"
	"os/exec"
	"path/filepath"
	"strings"
	"syscall"
	"testing"

	"pgregory.net/rapid"

	"verif/kit/disk"
	"verif/kit/ev"
)

// The scan of content the scanning user cannot read. The test runs as root,
// for whom nothing is unreadable, so the tree is built by the parent and the
// scan + independent walk + comparison run in a child re-executed as the
// unprivileged user nobody (uid 65534): every file without the "other read"
// bit and every directory without "other read+execute" is then genuinely
// inaccessible.

const childEnv = "VERIF_C12_UNREADABLE_CASE"

func TestMain(m *testing.M) {
	if path := os.Getenv(childEnv); path != "" {
		data, err := os.ReadFile(path)
		var c Case
		if err == nil {
			err = json.Unmarshal(data, &c)
		}
		if err != nil {
			fmt.Println("CHILD-ERROR", err)
			os.Exit(3)
		}
		v, nt := judgeBuilt(&c, filepath.Join(filepath.Dir(path), "root"))
		out, _ := json.Marshal(map[string]any{"violation": v, "nontrivial": nt})
		fmt.Println("CHILD-RESULT " + string(out))
		os.Exit(0)
	}
	os.Exit(m.Run())
}

func runAsNobody(c *Case, dir string) (violation string, nontrivial bool, ok bool) {
	root := filepath.Join(dir, "root")
	if err := disk.Build(root, c.Root); err != nil {
		return "", false, false
	}
	defer disk.MakeWritable(root)
	casePath := filepath.Join(dir, "case.json")
	data, _ := json.Marshal(c)
	os.WriteFile(casePath, data, 0o644)
	cmd := exec.Command(os.Args[0], "-test.run", "^$")
	cmd.Env = append(os.Environ(), childEnv+"="+casePath, "HOME=/nonexistent")
	cmd.SysProcAttr = &syscall.SysProcAttr{Credential: &syscall.Credential{Uid: 65534, Gid: 65534}}
	out, err := cmd.CombinedOutput()
	for _, line := range strings.Split(string(out), "\n") {
		if strings.HasPrefix(line, "CHILD-RESULT ") {
			var r struct {
				Violation  string `json:"violation"`
				Nontrivial bool   `json:"nontrivial"`
			}
			if json.Unmarshal([]byte(strings.TrimPrefix(line, "CHILD-RESULT ")), &r) == nil {
				return r.Violation, r.Nontrivial, true
			}
		}
	}
	_ = err
	return fmt.Sprintf("child did not report: %v %s", err, string(out)), false, false
}

func hasInaccessible(n *disk.Node, root bool) bool {
	if n == nil {
		return false
	}
	switch n.Kind {
	case disk.File:
		return n.Perm&0o004 == 0
	case disk.Dir:
		if !root && n.Perm&0o005 != 0o005 {
			return true
		}
		for _, c := range n.Children {
			if hasInaccessible(c, false) {
				return true
			}
		}
	}
	return false
}

func TestUnreadableContent(t *testing.T) {
	if ev.ReplayPath() != "" {
		t.Skip()
	}
	rec := ev.New(t, prop, "unreadable-content-as-nobody", "rapid: random trees built by root, then scanned and independently walked by a child process running as uid 65534, for whom files without the other-read bit and directories without other-read+execute are inaccessible; the snapshot must mark exactly those as problematic and describe everything else exactly; non-trivial: the tree contains an inaccessible file or directory")
	// The case directory must be traversable by the child.
	base, err := os.MkdirTemp(os.Getenv("VERIF_OUT"), "c12-nobody-")
	if err != nil {
		t.Skip("no shared directory")
	}
	defer func() { disk.MakeWritable(base); os.RemoveAll(base) }()
	for p := base; p != "/" && p != "."; p = filepath.Dir(p) {
		if fi, err := os.Stat(p); err == nil && fi.Mode().Perm()&0o005 != 0o005 {
			if os.Chmod(p, fi.Mode().Perm()|0o005) != nil {
				ev.Inconclusive("cannot make %s traversable for the unprivileged child", p)
				return
			}
		}
	}
	g := disk.Gen{MaxDepth: 2, MaxFan: 5, Exotic: false, BigFiles: false, Links: true}
	n := 0
	broken := false
	ev.Check(t, rec, 60, 2000, func(rt *rapid.T) {
		if broken {
			return
		}
		c := &Case{Root: g.Dir(rt, "root", 2)}
		c.Root.Perm = 0o755
		c.SymlinkMode = int32(rapid.SampledFrom(symlinkModes).Draw(rt, "symlinkmode"))
		c.PermMode = int32(rapid.SampledFrom(permModes).Draw(rt, "permmode"))
		n++
		dir := filepath.Join(base, fmt.Sprintf("c%d", n))
		os.Mkdir(dir, 0o755)
		os.Chmod(dir, 0o755)
		defer func() { disk.MakeWritable(dir); os.RemoveAll(dir) }()
		v, _, ok := runAsNobody(c, dir)
		if !ok {
			broken = true
			ev.Inconclusive("cannot run the scan as an unprivileged user: %s", v)
			return
		}
		rec.Eval()
		if v != "" {
			ev.Failf(rt, rec, c, "%s", v)
		}
		if hasInaccessible(c.Root, true) {
			rec.NonTrivial(ev.Hash(c.Root.Render(false), fmt.Sprint(c.SymlinkMode, c.PermMode)))
			if rec.WantSample() {
				rec.Sample(map[string]any{"tree": c.Root.Render(false), "symlink_mode": c.SymlinkMode, "permissions_mode": c.PermMode})
			}
		}
	})
}
