// Package c13_accel decides C13: accelerated scans equal full scans.
package c13_accel

import (
	"context"
	"crypto/sha1"
	"fmt"
	"os"
	"path/filepath"
	"sort"
	"strings"
	"testing"
	"time"

	"pgregory.net/rapid"

	"github.com/mutagen-io/mutagen/pkg/filesystem/behavior"
	"github.com/mutagen-io/mutagen/pkg/synchronization/core"
	"github.com/mutagen-io/mutagen/pkg/synchronization/core/ignore"
	dockerignore "github.com/mutagen-io/mutagen/pkg/synchronization/core/ignore/docker"
	mutagenignore "github.com/mutagen-io/mutagen/pkg/synchronization/core/ignore/mutagen"

	"verif/kit/disk"
	"verif/kit/ev"
	"verif/kit/tree"
)

const prop = "C13"

// Edit is one filesystem edit together with the paths it reports as changed.
type Edit struct {
	Op     string     `json:"op"` // create, delete, write, replace, chmod, touch, rename
	Path   string     `json:"path"`
	To     string     `json:"to,omitempty"`
	Node   *disk.Node `json:"node,omitempty"`
	Perm   uint32     `json:"perm,omitempty"`
	Data   []byte     `json:"data,omitempty"`
	KeepMT bool       `json:"keep_mtime,omitempty"`
}

// Step is a batch of edits plus extra recheck paths.
type Step struct {
	Edits []*Edit  `json:"edits"`
	Extra []string `json:"extra_recheck"`
}

// Case is an initial tree, an ignore configuration and a sequence of steps.
type Case struct {
	Root     *disk.Node `json:"root"`
	Syntax   string     `json:"ignore_syntax"` // "mutagen" | "docker"
	Patterns []string   `json:"patterns"`
	Steps    []*Step    `json:"steps"`
}

func newIgnorer(c *Case) (ignore.Ignorer, error) {
	if c.Syntax == "docker" {
		return dockerignore.NewIgnorer(c.Patterns)
	}
	return mutagenignore.NewIgnorer(c.Patterns)
}

func descendants(n *disk.Node, path string, out map[string]bool) {
	out[path] = true
	if n == nil {
		return
	}
	for name, c := range n.Children {
		descendants(c, path+"/"+name, out)
	}
}

// apply performs the edit on disk and adds every created, deleted or modified
// path to touched. clock provides strictly increasing mtimes.
// throughLink tells whether a proper prefix of the root-relative path is a
// symbolic link: an edit there would land somewhere else than the path says,
// and the path reported as changed would be wrong.
func throughLink(root, path string) bool {
	comps := strings.Split(path, "/")
	cur := root
	for _, c := range comps[:len(comps)-1] {
		cur = filepath.Join(cur, c)
		if fi, err := os.Lstat(cur); err != nil || fi.Mode()&os.ModeSymlink != 0 {
			return true
		}
	}
	return false
}

func apply(root string, e *Edit, clock *int64, touched map[string]bool) error {
	if throughLink(root, e.Path) || (e.To != "" && throughLink(root, e.To)) {
		return nil
	}
	full := filepath.Join(root, filepath.FromSlash(e.Path))
	before, _ := disk.Observe(full)
	*clock++
	stamp := time.Unix(*clock, 0)
	switch e.Op {
	case "create":
		if before != nil {
			return nil
		}
		n := e.Node.Clone()
		restamp(n, clock)
		if err := disk.Build(full, n); err != nil {
			return nil // e.g. parent missing: the edit does not apply
		}
		descendants(n, e.Path, touched)
	case "delete":
		if before == nil {
			return nil
		}
		disk.MakeWritable(full)
		if err := os.RemoveAll(full); err != nil {
			return err
		}
		descendants(before, e.Path, touched)
	case "write": // in-place content change: size changes or mtime advances
		if before == nil || before.Kind != disk.File {
			return nil
		}
		if err := os.WriteFile(full, e.Data, 0); err != nil {
			return err
		}
		os.Chtimes(full, stamp, stamp)
		touched[e.Path] = true
	case "replace": // new inode; optionally same size and same mtime
		if before == nil || before.Kind != disk.File {
			return nil
		}
		tmp := filepath.Join(filepath.Dir(root), "replacement")
		data := e.Data
		if e.KeepMT {
			// Same length, different bytes.
			data = append([]byte(nil), before.Data...)
			if len(data) == 0 {
				return nil
			}
			data[len(data)-1] ^= 0x5a
		}
		if err := os.WriteFile(tmp, data, os.FileMode(before.Perm)); err != nil {
			return err
		}
		os.Chmod(tmp, os.FileMode(before.Perm))
		if e.KeepMT {
			old := time.Unix(0, before.MTimeN)
			os.Chtimes(tmp, old, old)
		} else {
			os.Chtimes(tmp, stamp, stamp)
		}
		if err := os.Rename(tmp, full); err != nil {
			return err
		}
		touched[e.Path] = true
	case "chmod":
		if before == nil || before.Kind == disk.Link {
			return nil
		}
		if err := os.Chmod(full, os.FileMode(e.Perm)); err != nil {
			return err
		}
		touched[e.Path] = true
	case "touch":
		if before == nil || before.Kind == disk.Link {
			return nil
		}
		os.Chtimes(full, stamp, stamp)
		touched[e.Path] = true
	case "rename":
		to := filepath.Join(root, filepath.FromSlash(e.To))
		if before == nil || strings.HasPrefix(e.To+"/", e.Path+"/") {
			return nil
		}
		target, _ := disk.Observe(to)
		if err := os.Rename(full, to); err != nil {
			return nil // e.g. target is a non-empty directory
		}
		descendants(before, e.Path, touched)
		descendants(before, e.To, touched)
		if target != nil {
			descendants(target, e.To, touched)
		}
	}
	return nil
}

func restamp(n *disk.Node, clock *int64) {
	if n == nil {
		return
	}
	if n.Kind == disk.File {
		*clock++
		n.MTime = *clock
	}
	for _, c := range n.Children {
		restamp(c, clock)
	}
}

func cacheDiff(a, b *core.Cache) string {
	ae, be := a.GetEntries(), b.GetEntries()
	var keys []string
	for k := range ae {
		keys = append(keys, k)
	}
	for k := range be {
		if _, ok := ae[k]; !ok {
			keys = append(keys, k)
		}
	}
	sort.Strings(keys)
	for _, k := range keys {
		x, y := ae[k], be[k]
		if x == nil || y == nil {
			return fmt.Sprintf("entry %q present in only one cache", k)
		}
		if x.Mode != y.Mode || x.Size != y.Size || x.FileID != y.FileID || string(x.Digest) != string(y.Digest) || !x.ModificationTime.AsTime().Equal(y.ModificationTime.AsTime()) {
			return fmt.Sprintf("entry %q differs: %v vs %v", k, x, y)
		}
	}
	return ""
}

func judge(c *Case, dir string) (violation string, nontrivial bool) {
	root := filepath.Join(dir, "root")
	if err := disk.Build(root, c.Root); err != nil {
		return "", false
	}
	defer disk.MakeWritable(root)
	ign, err := newIgnorer(c)
	if err != nil {
		return "", false
	}
	scan := func(base *core.Snapshot, recheck map[string]bool, cache *core.Cache, ic ignore.IgnoreCache) (*core.Snapshot, *core.Cache, ignore.IgnoreCache, error) {
		return core.Scan(context.Background(), root, base, recheck, sha1.New(), cache, ign, ic,
			behavior.ProbeMode_ProbeModeProbe, core.SymbolicLinkMode_SymbolicLinkModePortable, core.PermissionsMode_PermissionsModePortable)
	}
	snap, cache, icache, err := scan(nil, nil, nil, nil)
	if err != nil {
		return fmt.Sprintf("initial scan fails: %v", err), false
	}
	clock := int64(1_700_000_000)
	for si, st := range c.Steps {
		touched := map[string]bool{}
		for _, e := range st.Edits {
			if err := apply(root, e, &clock, touched); err != nil {
				return "", false
			}
		}
		recheck := map[string]bool{}
		for p := range touched {
			recheck[p] = true
		}
		for _, p := range st.Extra {
			recheck[p] = true
		}
		asnap, acache, aicache, aerr := scan(snap, recheck, cache, icache)
		csnap, ccache, _, cerr := scan(nil, nil, nil, nil)
		if cerr != nil {
			return fmt.Sprintf("step %d: full scan fails: %v", si, cerr), false
		}
		if aerr != nil {
			return fmt.Sprintf("step %d: accelerated scan fails (%v) where a full scan succeeds; recheck %v", si, aerr, keys(recheck)), false
		}
		if !tree.DeepEqual(asnap.Content, csnap.Content) {
			return fmt.Sprintf("step %d: accelerated snapshot differs from a full scan\n accelerated %s\n full        %s\n recheck %v", si, tree.Render(asnap.Content), tree.Render(csnap.Content), keys(recheck)), false
		}
		if asnap.PreservesExecutability != csnap.PreservesExecutability || asnap.DecomposesUnicode != csnap.DecomposesUnicode {
			return fmt.Sprintf("step %d: behaviour flags differ", si), false
		}
		if asnap.Directories != csnap.Directories || asnap.Files != csnap.Files || asnap.SymbolicLinks != csnap.SymbolicLinks || asnap.TotalFileSize != csnap.TotalFileSize {
			return fmt.Sprintf("step %d: counters differ: accelerated %d/%d/%d/%d full %d/%d/%d/%d (content %s)", si,
				asnap.Directories, asnap.Files, asnap.SymbolicLinks, asnap.TotalFileSize, csnap.Directories, csnap.Files, csnap.SymbolicLinks, csnap.TotalFileSize, tree.Render(csnap.Content)), false
		}
		if d := cacheDiff(acache, ccache); d != "" {
			return fmt.Sprintf("step %d: digest cache of the accelerated scan differs from a full scan's: %s", si, d), false
		}
		// Non-trivial: a strict subset was rechecked and an untouched
		// sub-directory was reused from the baseline (pointer identity).
		if len(recheck) > 0 && reused(snap.Content, asnap.Content) {
			nontrivial = true
		}
		snap, cache, icache = asnap, acache, aicache
	}
	return "", nontrivial
}

// reused tells whether some directory entry of the new snapshot is the very
// same object as in the previous snapshot.
func reused(prev, cur *core.Entry) bool {
	if prev == nil || cur == nil {
		return false
	}
	for n, c := range cur.Contents {
		if p := prev.Contents[n]; p != nil && c.Kind == tree.KDir {
			if p == c || reused(p, c) {
				return true
			}
		}
	}
	return false
}

func keys(m map[string]bool) []string {
	var out []string
	for k := range m {
		out = append(out, k)
	}
	sort.Strings(out)
	return out
}

var names = []string{"a", "b", "c", "d", "sub", "x.txt", "build", "keep.o", "t.tmp"}

var patternSets = [][]string{
	nil,
	{"*.tmp"},
	{"build/", "!build/keep.o"},
	{"*.o", "!keep.o", "sub/"},
	{"/a/b", "c"},
}

var dockerPatternSets = [][]string{
	nil,
	{"*.tmp"},
	{"build", "!build/keep.o"},
	{"sub", "!sub/a/keep.o", "*.o"},
	{"**/c"},
}

func existingPaths(n *disk.Node, prefix string, out *[]string) {
	for _, name := range n.Names() {
		p := name
		if prefix != "" {
			p = prefix + "/" + name
		}
		*out = append(*out, p)
		existingPaths(n.Children[name], p, out)
	}
}

// model applies an edit to the in-memory expectation of the tree so that later
// edits can target existing paths (generation only; the oracle never uses it).
func model(root *disk.Node, e *Edit) {
	parent, leaf := "", e.Path
	if i := strings.LastIndex(e.Path, "/"); i >= 0 {
		parent, leaf = e.Path[:i], e.Path[i+1:]
	}
	p := root.At(parent)
	if p == nil || p.Kind != disk.Dir {
		return
	}
	switch e.Op {
	case "create":
		if p.Children[leaf] == nil {
			if p.Children == nil {
				p.Children = map[string]*disk.Node{}
			}
			p.Children[leaf] = e.Node.Clone()
		}
	case "delete":
		delete(p.Children, leaf)
	case "rename":
		n := p.Children[leaf]
		tp, tl := "", e.To
		if i := strings.LastIndex(e.To, "/"); i >= 0 {
			tp, tl = e.To[:i], e.To[i+1:]
		}
		t := root.At(tp)
		if n == nil || t == nil || t.Kind != disk.Dir || strings.HasPrefix(e.To+"/", e.Path+"/") {
			return
		}
		if ex := t.Children[tl]; ex != nil && ex.Kind == disk.Dir && len(ex.Children) > 0 {
			return
		}
		delete(p.Children, leaf)
		if t.Children == nil {
			t.Children = map[string]*disk.Node{}
		}
		t.Children[tl] = n
	}
}

func drawCase(rt *rapid.T) *Case {
	g := disk.Gen{MaxDepth: 3, MaxFan: 5, Names: names, Links: true, Exotic: false}
	c := &Case{Root: g.Dir(rt, "root", 3)}
	if rapid.IntRange(0, 2).Draw(rt, "docker") == 0 {
		c.Syntax = "docker"
		c.Patterns = rapid.SampledFrom(dockerPatternSets).Draw(rt, "patterns")
	} else {
		c.Syntax = "mutagen"
		c.Patterns = rapid.SampledFrom(patternSets).Draw(rt, "patterns")
	}
	shadow := c.Root.Clone()
	steps := rapid.IntRange(3, 10).Draw(rt, "steps")
	for s := 0; s < steps; s++ {
		st := &Step{}
		for k := rapid.IntRange(0, 4).Draw(rt, "edits"); k > 0; k-- {
			var paths []string
			existingPaths(shadow, "", &paths)
			var dirs []string
			dirs = append(dirs, "")
			for _, p := range paths {
				if n := shadow.At(p); n != nil && n.Kind == disk.Dir {
					dirs = append(dirs, p)
				}
			}
			e := &Edit{}
			newPath := func(label string) string {
				d := rapid.SampledFrom(dirs).Draw(rt, label+".dir")
				n := rapid.SampledFrom(names).Draw(rt, label+".name")
				if d == "" {
					return n
				}
				return d + "/" + n
			}
			op := rapid.IntRange(0, 9).Draw(rt, "op")
			if len(paths) == 0 {
				op = 0
			}
			switch op {
			case 0, 1:
				e.Op, e.Path = "create", newPath("create")
				if rapid.IntRange(0, 2).Draw(rt, "create.dir") == 0 {
					e.Node = g.Dir(rt, "create.tree", 1)
				} else {
					e.Node = g.Leaf(rt, "create.leaf")
				}
			case 2:
				e.Op, e.Path = "delete", rapid.SampledFrom(paths).Draw(rt, "delete.path")
			case 3, 4:
				e.Op, e.Path = "write", rapid.SampledFrom(paths).Draw(rt, "write.path")
				e.Data = disk.Content(byte(rapid.IntRange(1, 9).Draw(rt, "write.content")), rapid.SampledFrom([]int{0, 1, 5, 100, 4096}).Draw(rt, "write.size"))
			case 5:
				e.Op, e.Path = "replace", rapid.SampledFrom(paths).Draw(rt, "replace.path")
				e.KeepMT = rapid.Bool().Draw(rt, "replace.keepmtime")
				e.Data = disk.Content(byte(rapid.IntRange(1, 9).Draw(rt, "replace.content")), rapid.SampledFrom([]int{1, 5, 100}).Draw(rt, "replace.size"))
			case 6:
				e.Op, e.Path = "chmod", rapid.SampledFrom(paths).Draw(rt, "chmod.path")
				e.Perm = rapid.SampledFrom([]uint32{0o644, 0o755, 0o700, 0o600}).Draw(rt, "chmod.perm")
			case 7:
				e.Op, e.Path = "touch", rapid.SampledFrom(paths).Draw(rt, "touch.path")
			default:
				e.Op, e.Path = "rename", rapid.SampledFrom(paths).Draw(rt, "rename.from")
				if rapid.Bool().Draw(rt, "rename.over") {
					e.To = rapid.SampledFrom(paths).Draw(rt, "rename.to")
				} else {
					e.To = newPath("rename.to")
				}
			}
			model(shadow, e)
			st.Edits = append(st.Edits, e)
		}
		var paths []string
		existingPaths(shadow, "", &paths)
		for k := rapid.IntRange(0, 2).Draw(rt, "extras"); k > 0 && len(paths) > 0; k-- {
			st.Extra = append(st.Extra, rapid.SampledFrom(paths).Draw(rt, "extra"))
		}
		if rapid.IntRange(0, 9).Draw(rt, "extra.ghost") == 0 {
			st.Extra = append(st.Extra, "no/such/path")
		}
		c.Steps = append(c.Steps, st)
	}
	return c
}

func TestChainedAcceleratedScans(t *testing.T) {
	if ev.ReplayPath() != "" {
		t.Skip()
	}
	rec := ev.New(t, prop, "chained-accelerated-scans", "rapid state sequences: random tree + ignore list (Mutagen or Docker syntax), then 3-10 steps of 0-4 edits (create/delete/write/replace-inode/chmod/touch/rename) each reporting every created, deleted or modified path (+ random extra paths); after each step Scan(baseline, recheck, caches) is compared with a cold scan (content, flags, counters, digest cache) and feeds the next step; non-trivial: a step rechecked a strict subset and reused a directory object from the baseline")
	base := t.TempDir()
	i := 0
	ev.Check(t, rec, 500, 8000, func(rt *rapid.T) {
		c := drawCase(rt)
		i++
		dir := filepath.Join(base, fmt.Sprintf("c%d", i))
		os.Mkdir(dir, 0o700)
		defer os.RemoveAll(dir)
		rec.Eval()
		v, nt := judge(c, dir)
		if v != "" {
			ev.Failf(rt, rec, c, "%s", v)
		}
		rec.Class("syntax/" + c.Syntax)
		for _, st := range c.Steps {
			for _, e := range st.Edits {
				rec.Class("edit/" + e.Op)
			}
		}
		if nt {
			rec.Class("nontrivial")
			rec.NonTrivial(ev.Hash(c.Root.Render(false), fmt.Sprint(c.Patterns), fmt.Sprint(len(c.Steps)), renderSteps(c)))
			if rec.WantSample() {
				rec.Sample(map[string]any{"tree": c.Root.Render(false), "syntax": c.Syntax, "patterns": c.Patterns, "steps": renderSteps(c)})
			}
		}
	})
}

func renderSteps(c *Case) string {
	var b strings.Builder
	for i, st := range c.Steps {
		fmt.Fprintf(&b, "[%d:", i)
		for _, e := range st.Edits {
			fmt.Fprintf(&b, " %s %s", e.Op, e.Path)
			if e.To != "" {
				fmt.Fprintf(&b, "->%s", e.To)
			}
		}
		fmt.Fprintf(&b, " +%v]", st.Extra)
	}
	return b.String()
}

func TestReplay(t *testing.T) {
	if ev.ReplayPath() == "" {
		t.Skip()
	}
	var c Case
	if _, err := ev.LoadReplay(ev.ReplayPath(), &c); err != nil {
		t.Fatal(err)
	}
	rec := ev.New(t, prop, "replay", "replay of a saved case")
	rec.Eval()
	if v, _ := judge(&c, t.TempDir()); v != "" {
		ev.FailTB(t, rec, &c, "%s", v)
	}
}
