package c14_ignore

import (
	"context"
	"crypto/sha1"
	"fmt"
	"os"
	"path/filepath"
	"runtime"
	"sort"
	"strings"
	"sync"
	"testing"

	"pgregory.net/rapid"

	"github.com/mutagen-io/mutagen/pkg/filesystem/behavior"
	"github.com/mutagen-io/mutagen/pkg/synchronization/core"
	"github.com/mutagen-io/mutagen/pkg/synchronization/core/ignore"
	mutagenignore "github.com/mutagen-io/mutagen/pkg/synchronization/core/ignore/mutagen"

	"verif/kit/ev"
)

const prop = "C14"

const ruleIgnore = "non-trivial: a negated and a non-negated pattern of the list both match the probed path"
const ruleScan = "non-trivial: the scanned tree has an ignored directory with content beneath it, or a path on which a negated and a non-negated pattern both match"

// Case is one evaluated case. With Tree == nil it is an Ignore-level probe of
// (Path, Dir); otherwise the tree is put on disk and scanned.
type Case struct {
	Patterns []string `json:"patterns"`
	VCS      bool     `json:"vcs"`
	Path     string   `json:"path,omitempty"`
	Dir      bool     `json:"dir,omitempty"`
	Tree     *Node    `json:"tree,omitempty"`
}

// newIgnorer builds the real ignorer the way the local endpoint does.
func newIgnorer(patterns []string, vcs bool) (ignore.Ignorer, error) {
	ig, err := mutagenignore.NewIgnorer(patterns)
	if err != nil {
		return nil, err
	}
	if vcs {
		ig = ignore.IgnoreVCS(ig)
	}
	return ig, nil
}

func statusOf(s ignore.IgnoreStatus) Status {
	switch s {
	case ignore.IgnoreStatusIgnored:
		return Ignored
	case ignore.IgnoreStatusUnignored:
		return Unignored
	}
	return Nominal
}

// judge runs one case against the real code.
func judge(c *Case) (violation string, nontrivial bool) {
	ig, err := newIgnorer(c.Patterns, c.VCS)
	if err != nil {
		return fmt.Sprintf("pattern list of the documented grammar rejected: %v", err), false
	}
	ref := NewReference(c.Patterns, c.VCS)
	if c.Tree == nil {
		want, both := ref.Status(c.Path, c.Dir)
		got, cont := ig.Ignore(c.Path, c.Dir)
		if statusOf(got) != want {
			return fmt.Sprintf("patterns %q (vcs=%v): Ignore(%q, dir=%v) = %v, reference (last matching pattern wins) says %v",
				c.Patterns, c.VCS, c.Path, c.Dir, statusOf(got), want), both
		}
		if cont {
			return fmt.Sprintf("patterns %q: Ignore(%q, dir=%v) asks to continue traversal beneath ignored content", c.Patterns, c.Path, c.Dir), both
		}
		return "", both
	}
	return judgeScan(c, ig, ref)
}

func materialize(dir string, n *Node) error {
	for _, k := range n.Children {
		p := filepath.Join(dir, k.Name)
		switch k.Kind {
		case "dir":
			if err := os.Mkdir(p, 0o755); err != nil {
				return err
			}
			if err := materialize(p, k); err != nil {
				return err
			}
		case "file":
			if err := os.WriteFile(p, []byte(k.Content), 0o644); err != nil {
				return err
			}
		case "link", "badlink":
			if err := os.Symlink(k.Content, p); err != nil {
				return err
			}
		default:
			return fmt.Errorf("unknown node kind %q", k.Kind)
		}
	}
	return nil
}

func renderEntry(b *strings.Builder, e *core.Entry) {
	if e == nil {
		b.WriteString("nil")
		return
	}
	switch e.Kind {
	case core.EntryKind_Directory:
		b.WriteString("D{")
		names := make([]string, 0, len(e.Contents))
		for n := range e.Contents {
			names = append(names, n)
		}
		sort.Strings(names)
		for _, n := range names {
			b.WriteString(n)
			b.WriteString(":")
			renderEntry(b, e.Contents[n])
			b.WriteString(";")
		}
		b.WriteString("}")
	case core.EntryKind_File:
		b.WriteString("F")
	case core.EntryKind_SymbolicLink:
		b.WriteString("L(" + e.Target + ")")
	case core.EntryKind_Untracked:
		b.WriteString("U")
		if len(e.Contents) > 0 {
			b.WriteString("+contents")
		}
	case core.EntryKind_Problematic:
		b.WriteString("P")
	case core.EntryKind_PhantomDirectory:
		b.WriteString("PHANTOM")
	default:
		fmt.Fprintf(b, "kind%d", int(e.Kind))
	}
}

func judgeScan(c *Case, ig ignore.Ignorer, ref *Reference) (string, bool) {
	base, err := os.MkdirTemp("", "c14-scan-")
	if err != nil {
		return "harness: " + err.Error(), false
	}
	defer os.RemoveAll(base)
	root := filepath.Join(base, "root")
	if err := os.Mkdir(root, 0o755); err != nil {
		return "harness: " + err.Error(), false
	}
	if err := materialize(root, c.Tree); err != nil {
		return "harness: cannot materialize tree: " + err.Error(), false
	}
	want := Expect(c.Tree, ref)
	nontrivial := want.PrunedDirs > 0 || want.BothMatched > 0
	snapshot, cache, ignoreCache, err := core.Scan(
		context.Background(), root,
		nil, nil,
		sha1.New(), nil,
		ig, nil,
		behavior.ProbeMode_ProbeModeProbe,
		core.SymbolicLinkMode_SymbolicLinkModePortable,
		core.PermissionsMode_PermissionsModePortable,
	)
	if err != nil {
		return fmt.Sprintf("scan failed: %v", err), nontrivial
	}
	var b strings.Builder
	renderEntry(&b, snapshot.Content)
	if got := b.String(); got != want.Render {
		return fmt.Sprintf("patterns %q (vcs=%v): snapshot differs from the reference (ignored entry = one untracked leaf, nothing beneath it)\n got  %s\n want %s",
			c.Patterns, c.VCS, got, want.Render), nontrivial
	}
	// Nothing beneath an ignored entry may have been hashed or evaluated.
	tracked := map[string]bool{}
	for _, p := range want.CachePaths {
		tracked[p] = true
	}
	var paths []string
	for p := range cache.Entries {
		paths = append(paths, p)
	}
	sort.Strings(paths)
	for _, p := range paths {
		if !tracked[p] {
			return fmt.Sprintf("patterns %q (vcs=%v): digest cache has an entry for %q, which the reference says is ignored, beneath ignored content or not a file", c.Patterns, c.VCS, p), nontrivial
		}
	}
	var keys []ignore.IgnoreCacheKey
	for k := range ignoreCache {
		keys = append(keys, k)
	}
	sort.Slice(keys, func(i, j int) bool {
		if keys[i].Path != keys[j].Path {
			return keys[i].Path < keys[j].Path
		}
		return !keys[i].Directory && keys[j].Directory
	})
	for _, k := range keys {
		st, ok := want.IgnoreKeys[ignoreKey(k.Path, k.Directory)]
		if !ok {
			return fmt.Sprintf("patterns %q (vcs=%v): ignore cache has key (%q, dir=%v): the scan evaluated a path the reference never visits (beneath ignored content?)", c.Patterns, c.VCS, k.Path, k.Directory), nontrivial
		}
		if got := statusOf(ignoreCache[k].Status); got != st {
			return fmt.Sprintf("patterns %q (vcs=%v): ignore cache says %v for (%q, dir=%v), reference says %v", c.Patterns, c.VCS, got, k.Path, k.Directory, st), nontrivial
		}
	}
	return "", nontrivial
}

// ---- known findings ----------------------------------------------------------

var canonical = map[string]Case{
	ClassNegatedClass: {Patterns: []string{"a[!b]c"}, Path: "a/c"},
	ClassZeroSpan:     {Patterns: []string{"a*/**"}, Path: "a", Dir: true},
}

// knownClasses executes the canonical instance of every class listed as known
// (printing the KNOWN-FINDING line while it still fails) and returns the set of
// classes the generators must exclude.
func knownClasses(rec *ev.Recorder) map[string]bool {
	// Whether a trailing "/**" also matches the directory itself (zero levels)
	// is not fixed by the statement of C14 ("'**' spans directory levels"); the
	// matching library answers it inconsistently ("a/**" matches "a" but "a*/**"
	// does not). The main session classified the alarm on that shape as the
	// reference demanding more than the property states, so the shape is
	// excluded from judgement unconditionally (counted, never reported).
	out := map[string]bool{ClassZeroSpan: true}
	for _, class := range []string{ClassNegatedClass} {
		f, ok := ev.KnownClass(prop, class)
		if !ok {
			continue
		}
		out[class] = true
		c := canonical[class]
		v, _ := judge(&c)
		rec.Eval()
		if v != "" {
			rec.ReportKnown(f)
			rec.Note("known_canonical_instance/"+class, v)
		} else {
			rec.Note("known_canonical_instance/"+class, "no longer fails")
		}
	}
	return out
}

// excluded tells whether the case belongs to a class listed as known.
func excluded(rec *ev.Recorder, known map[string]bool, c *Case) bool {
	if len(known) == 0 {
		return false
	}
	for _, class := range KnownClasses(c.Patterns, c.Path, c.Tree) {
		if known[class] {
			rec.Excluded(class)
			return true
		}
	}
	return false
}

// ---- enumeration -----------------------------------------------------------

var names = []string{"a", "b", "c", "ab", ".git"}

// allPaths lists every path of 1..depth components over names.
func allPaths(depth int) []string {
	var out []string
	level := append([]string(nil), names...)
	for d := 1; d <= depth; d++ {
		out = append(out, level...)
		if d == depth {
			break
		}
		var next []string
		for _, p := range level {
			for _, n := range names {
				next = append(next, p+"/"+n)
			}
		}
		level = next
	}
	return out
}

var bodies = []string{
	"a", "*", "a/b", "**", "a/**", "**/b", "?", "a*", "[ab]", "*/b",
	".git", "a/**/b", "ab", "*b", "a/*", "a[!c]b", "a*/**",
	"??", "b", "*/*", "**/*", "ab/c", "?/b", "[ab]/c", "a*/b", "a/b/c", "**/b/c", "a/**/c", "*/b/*", "**/.git", "[!a]", "[a-c]b", "a/**/**/b", "**/**",
}

// variant decorates a body with negation / anchoring / directory-only marks.
func variant(body string, v int) string {
	p := body
	if v&2 != 0 {
		p = "/" + p
	}
	if v&4 != 0 {
		p = p + "/"
	}
	if v&1 != 0 {
		p = "!" + p
	}
	return p
}

// corePatterns is the pattern core of a tier.
func corePatterns(thorough bool) []string {
	var out []string
	if thorough {
		for _, b := range bodies {
			for v := 0; v < 8; v++ {
				out = append(out, variant(b, v))
			}
		}
		return out
	}
	for _, b := range bodies[:17] {
		out = append(out, variant(b, 0), variant(b, 1))
	}
	for _, b := range bodies[:10] {
		out = append(out, variant(b, 2), variant(b, 4))
	}
	for _, b := range bodies[:5] {
		out = append(out, variant(b, 5), variant(b, 3))
	}
	return out
}

// tripleCore is the smaller core from which all lists of three are formed.
func tripleCore(thorough bool) []string {
	n := 6
	if thorough {
		n = 12
	}
	var out []string
	for _, b := range bodies[:n] {
		out = append(out, variant(b, 0), variant(b, 1))
	}
	if thorough {
		out = append(out, "a/", "!a/", "/b", "!/b")
	}
	return out
}

type probe struct {
	path string
	dir  bool
}

func TestExhaustiveIgnore(t *testing.T) {
	if ev.ReplayPath() != "" {
		t.Skip("replaying")
	}
	thorough := ev.Thorough()
	core2 := corePatterns(thorough)
	core3 := tripleCore(thorough)
	rec := ev.New(t, prop, "exhaustive-lists",
		fmt.Sprintf("every pattern list of <=2 patterns from a %d-pattern core and every list of 3 from a %d-pattern core, probed with every path of depth <=3 over {a,b,c,ab,.git} x directory flag, VCS option off and on; %s", len(core2), len(core3), ruleIgnore))
	rec.SetExhaustive(fmt.Sprintf("lists: <=2 of %d patterns, 3 of %d patterns; paths: depth<=3 over 5 names x dir flag; vcs off/on", len(core2), len(core3)))
	var probes []probe
	for _, p := range allPaths(3) {
		probes = append(probes, probe{p, false}, probe{p, true})
	}
	// Lists as index tuples into the respective core.
	type listSpec struct {
		core []string
		idx  []int
	}
	var lists []listSpec
	lists = append(lists, listSpec{core2, nil})
	for i := range core2 {
		lists = append(lists, listSpec{core2, []int{i}})
	}
	for i := range core2 {
		for j := range core2 {
			lists = append(lists, listSpec{core2, []int{i, j}})
		}
	}
	for i := range core3 {
		for j := range core3 {
			for k := range core3 {
				lists = append(lists, listSpec{core3, []int{i, j, k}})
			}
		}
	}
	rec.Note("lists", len(lists))
	rec.Note("probes_per_list", len(probes)*2)
	known := knownClasses(rec)

	var mu sync.Mutex
	var failure *Case
	var failureMsg string
	type classFailure struct {
		c *Case
		v string
	}
	byClass := map[string]classFailure{} // smallest failing case per classifier label
	work := make(chan int, 64)
	var wg sync.WaitGroup
	for w := 0; w < runtime.GOMAXPROCS(0); w++ {
		wg.Add(1)
		go func() {
			defer wg.Done()
			var evals, nts uint64
			classes := map[string]uint64{}
			for li := range work {
				ls := lists[li]
				patterns := make([]string, len(ls.idx))
				for x, i := range ls.idx {
					patterns[x] = ls.core[i]
				}
				for _, vcs := range []bool{false, true} {
					ig, err := newIgnorer(patterns, vcs)
					if err != nil {
						mu.Lock()
						if failure == nil {
							failure, failureMsg = &Case{Patterns: patterns, VCS: vcs}, "pattern list rejected: "+err.Error()
						}
						mu.Unlock()
						continue
					}
					ref := NewReference(patterns, vcs)
					for _, pr := range probes {
						if len(known) != 0 && excluded(rec, known, &Case{Patterns: patterns, Path: pr.path}) {
							continue
						}
						want, both := ref.Status(pr.path, pr.dir)
						got, cont := ig.Ignore(pr.path, pr.dir)
						evals++
						if both {
							nts++
						}
						classes["status/"+want.String()]++
						if statusOf(got) != want || cont {
							c := &Case{Patterns: patterns, VCS: vcs, Path: pr.path, Dir: pr.dir}
							v, _ := judge(c)
							label := strings.Join(KnownClasses(c.Patterns, c.Path, nil), "+")
							size := func(x *Case) int { return len(strings.Join(x.Patterns, "")+x.Path)*4 + len(x.Patterns) }
							mu.Lock()
							if failure == nil || size(c) < size(failure) {
								failure, failureMsg = c, v
							}
							if prev, ok := byClass[label]; !ok || size(c) < size(prev.c) {
								byClass[label] = classFailure{c, v}
							}
							mu.Unlock()
						}
					}
				}
			}
			rec.EvalN(evals)
			rec.NonTrivialDistinct(nts)
			for k, v := range classes {
				rec.ClassN(k, v)
			}
		}()
	}
	for li := range lists {
		if li%ev.Shards() != ev.Shard() {
			continue
		}
		work <- li
	}
	close(work)
	wg.Wait()
	if failure != nil {
		var labels []string
		for l := range byClass {
			labels = append(labels, l)
		}
		sort.Strings(labels)
		for _, l := range labels {
			if byClass[l].c != failure {
				failureMsg += fmt.Sprintf("\n also failing (classifier %q): %s", l, byClass[l].v)
			}
		}
		ev.FailTB(t, rec, failure, "%s", failureMsg)
	}
}

// ---- random generation -----------------------------------------------------

var componentPool = []string{
	"a", "b", "c", "ab", ".git", "a", "b",
	"*", "*", "?", "**", "**", "[ab]", "[a-c]", "[!a]", "a*", "*b", "?b", "a?", ".*", "*.*", "??", "[ab]*",
}

func genPattern(rt *rapid.T, hint string) string {
	var comps []string
	if hint != "" && rapid.IntRange(0, 9).Draw(rt, "derive") < 6 {
		// Derive from a path that exists in the case: keep a prefix, a suffix
		// or everything, and blur some components into wildcards.
		hc := strings.Split(hint, "/")
		lo := rapid.IntRange(0, len(hc)-1).Draw(rt, "from")
		hi := rapid.IntRange(lo+1, len(hc)).Draw(rt, "to")
		for _, c := range hc[lo:hi] {
			switch rapid.IntRange(0, 9).Draw(rt, "blur") {
			case 0:
				c = "*"
			case 1:
				c = "**"
			case 2:
				c = "?" + c[1:]
			case 3:
				c = c[:1] + "*"
			}
			comps = append(comps, c)
		}
		if rapid.IntRange(0, 5).Draw(rt, "lead**") == 0 {
			comps = append([]string{"**"}, comps...)
		}
		// Occasionally replace a separator by something that must not match
		// it: wildcards and classes never cross a '/'.
		if len(comps) > 1 && rapid.IntRange(0, 7).Draw(rt, "fuse") == 0 {
			at := rapid.IntRange(0, len(comps)-2).Draw(rt, "fuse.at")
			glue := rapid.SampledFrom([]string{"?", "*", "[!x]", "[^x]", "[.-a]"}).Draw(rt, "fuse.with")
			// (Runs of three or more stars have no documented meaning.)
			if !strings.HasSuffix(comps[at], "*") && !strings.HasPrefix(comps[at+1], "*") {
				fused := comps[at] + glue + comps[at+1]
				comps = append(append(append([]string{}, comps[:at]...), fused), comps[at+2:]...)
			}
		}
	} else {
		n := rapid.IntRange(1, 3).Draw(rt, "ncomp")
		for i := 0; i < n; i++ {
			comps = append(comps, rapid.SampledFrom(componentPool).Draw(rt, "comp"))
		}
	}
	p := strings.Join(comps, "/")
	if rapid.IntRange(0, 3).Draw(rt, "anchor") == 0 {
		p = "/" + p
	}
	if rapid.IntRange(0, 3).Draw(rt, "dironly") == 0 {
		p = p + "/"
	}
	if rapid.IntRange(0, 9).Draw(rt, "negate") < 4 {
		p = "!" + p
	}
	return p
}

var randomNames = []string{"a", "b", "c", "ab", ".git", "a", "b", ".hg", "a.b"}

func genPath(rt *rapid.T) string {
	n := rapid.IntRange(1, 4).Draw(rt, "depth")
	comps := make([]string, n)
	for i := range comps {
		comps[i] = rapid.SampledFrom(randomNames).Draw(rt, "name")
	}
	return strings.Join(comps, "/")
}

func TestRandomIgnore(t *testing.T) {
	if ev.ReplayPath() != "" {
		t.Skip("replaying")
	}
	rec := ev.New(t, prop, "random-lists",
		"rapid: lists of 0..6 patterns of the grammar [!][/]component(/component)*[/] (literals, *, ?, classes, a*, **; 60% derived from the probed path), path of depth 1..4 over {a,b,c,ab,.git,.hg,a.b}, directory flag, VCS option; "+ruleIgnore)
	known := knownClasses(rec)
	ev.Check(t, rec, 100000, 1000000, func(rt *rapid.T) {
		c := &Case{}
		c.Path = genPath(rt)
		c.Dir = rapid.Bool().Draw(rt, "dir")
		c.VCS = rapid.IntRange(0, 2).Draw(rt, "vcs") == 0
		n := rapid.IntRange(0, 6).Draw(rt, "npatterns")
		for i := 0; i < n; i++ {
			c.Patterns = append(c.Patterns, genPattern(rt, c.Path))
		}
		if excluded(rec, known, c) {
			return
		}
		v, nt := judge(c)
		rec.Eval()
		if v != "" {
			ev.Failf(rt, rec, c, "%s", v)
		}
		st, _ := NewReference(c.Patterns, c.VCS).Status(c.Path, c.Dir)
		rec.Class("status/" + st.String())
		if nt {
			rec.Class("nontrivial")
			rec.NonTrivial(ev.Hash(strings.Join(c.Patterns, "\n"), c.Path, fmt.Sprint(c.Dir, c.VCS)))
			if rec.WantSample() {
				rec.Sample(map[string]any{"case": c, "status": st.String()})
			}
		}
	})
}

func genTree(rt *rapid.T, depth int, path string, paths *[]string) []*Node {
	n := rapid.IntRange(0, 4).Draw(rt, "fanout")
	if depth == 0 && n == 0 {
		n = 1
	}
	used := map[string]bool{}
	var out []*Node
	for i := 0; i < n; i++ {
		name := rapid.SampledFrom(randomNames).Draw(rt, "name")
		if used[name] {
			continue
		}
		used[name] = true
		p := name
		if path != "" {
			p = path + "/" + name
		}
		*paths = append(*paths, p)
		k := rapid.IntRange(0, 9).Draw(rt, "kind")
		switch {
		case k < 5 && depth < 3:
			out = append(out, &Node{Name: name, Kind: "dir", Children: genTree(rt, depth+1, p, paths)})
		case k < 8 || k < 5:
			out = append(out, &Node{Name: name, Kind: "file", Content: rapid.SampledFrom([]string{"", "x", "yy"}).Draw(rt, "content")})
		case k == 8:
			out = append(out, &Node{Name: name, Kind: "link", Content: rapid.SampledFrom([]string{"a", "b/c", "."}).Draw(rt, "target")})
		default:
			out = append(out, &Node{Name: name, Kind: "badlink", Content: "/absolute/target"})
		}
	}
	return out
}

func TestRandomScan(t *testing.T) {
	if ev.ReplayPath() != "" {
		t.Skip("replaying")
	}
	rec := ev.New(t, prop, "random-scans",
		"rapid: trees of depth <=4, fan-out <=4 over {a,b,c,ab,.git,.hg,a.b} with directories, files, portable and absolute links, put on disk and scanned by core.Scan with a list of 0..5 patterns (mostly derived from paths of the tree) and the VCS option; snapshot shape, digest cache and ignore cache compared with the reference; "+ruleScan)
	known := knownClasses(rec)
	ev.Check(t, rec, 1000, 30000, func(rt *rapid.T) {
		c := &Case{Tree: &Node{Kind: "dir"}}
		var paths []string
		c.Tree.Children = genTree(rt, 0, "", &paths)
		c.VCS = rapid.IntRange(0, 1).Draw(rt, "vcs") == 0
		n := rapid.IntRange(0, 5).Draw(rt, "npatterns")
		for i := 0; i < n; i++ {
			hint := ""
			if len(paths) > 0 {
				hint = rapid.SampledFrom(paths).Draw(rt, "hint")
			}
			c.Patterns = append(c.Patterns, genPattern(rt, hint))
		}
		if excluded(rec, known, c) {
			return
		}
		v, nt := judge(c)
		rec.Eval()
		if v != "" {
			ev.Failf(rt, rec, c, "%s", v)
		}
		want := Expect(c.Tree, NewReference(c.Patterns, c.VCS))
		if want.PrunedDirs > 0 {
			rec.Class("pruned-nonempty-directory")
		}
		if want.Unignores > 0 {
			rec.Class("has-unignored-path")
		}
		if want.BothMatched > 0 {
			rec.Class("negated-and-plain-both-match")
		}
		if c.VCS && strings.Contains(want.Render, ".git:U") {
			rec.Class("vcs-directory-or-ignored-.git")
		}
		if nt {
			rec.Class("nontrivial")
			rec.NonTrivial(ev.Hash(strings.Join(c.Patterns, "\n"), want.Render, fmt.Sprint(c.VCS)))
			if rec.WantSample() && want.PrunedDirs > 0 && want.Unignores > 0 {
				rec.Sample(map[string]any{"patterns": c.Patterns, "vcs": c.VCS, "expected_snapshot": want.Render})
			}
		}
	})
}

func TestReplay(t *testing.T) {
	if ev.ReplayPath() == "" {
		t.Skip("no replay requested")
	}
	var c Case
	if _, err := ev.LoadReplay(ev.ReplayPath(), &c); err != nil {
		t.Fatalf("cannot load replay: %v", err)
	}
	rec := ev.New(t, prop, "replay", "replay of a saved case")
	v, _ := judge(&c)
	rec.Eval()
	if v != "" {
		ev.FailTB(t, rec, &c, "%s", v)
	}
}
