// Package c14_ignore checks property C14: Mutagen-style ignore semantics
// (last matching pattern wins, anchoring, directory-only patterns, '**',
// pruning of ignored directories, VCS directories).
//
// This file holds the reference semantics, written from the property statement
// and the user documentation. It does not call the repository's matcher or the
// doublestar library.
package c14_ignore

import (
	"sort"
	"strings"
)

// Status mirrors the three ignore states.
type Status int

const (
	Nominal Status = iota
	Ignored
	Unignored
)

func (s Status) String() string {
	switch s {
	case Ignored:
		return "ignored"
	case Unignored:
		return "unignored"
	}
	return "nominal"
}

// refPattern is a parsed pattern of the restricted grammar
// [!][/]component(/component)*[/].
type refPattern struct {
	negated  bool
	anchored bool // leading slash or slash inside: only the whole path is matched
	dirOnly  bool
	segs     []string
}

func parsePattern(p string) refPattern {
	var r refPattern
	if strings.HasPrefix(p, "!") {
		r.negated = true
		p = p[1:]
	}
	if strings.HasPrefix(p, "/") {
		r.anchored = true
		p = p[1:]
	}
	if strings.HasSuffix(p, "/") {
		r.dirOnly = true
		p = p[:len(p)-1]
	}
	if strings.Contains(p, "/") {
		r.anchored = true
	}
	r.segs = strings.Split(p, "/")
	return r
}

// matchClass matches one character against a bracket expression body (the text
// between '[' and ']').
func matchClass(body string, c rune) bool {
	negate := false
	if strings.HasPrefix(body, "!") || strings.HasPrefix(body, "^") {
		negate = true
		body = body[1:]
	}
	rs := []rune(body)
	in := false
	for i := 0; i < len(rs); i++ {
		if i+2 < len(rs) && rs[i+1] == '-' {
			if rs[i] <= c && c <= rs[i+2] {
				in = true
			}
			i += 2
			continue
		}
		if rs[i] == c {
			in = true
		}
	}
	return in != negate
}

// matchComponent matches one path component (never containing '/') against one
// pattern component: '*' any run of characters, '?' exactly one character,
// '[...]' one character of the class, everything else literally. A "**" that
// is not a whole component behaves like '*'.
func matchComponent(pat, name []rune) bool {
	if len(pat) == 0 {
		return len(name) == 0
	}
	switch pat[0] {
	case '*':
		rest := pat[1:]
		for len(rest) > 0 && rest[0] == '*' {
			rest = rest[1:]
		}
		for k := 0; k <= len(name); k++ {
			if matchComponent(rest, name[k:]) {
				return true
			}
		}
		return false
	case '?':
		return len(name) > 0 && matchComponent(pat[1:], name[1:])
	case '[':
		end := -1
		for i := 1; i < len(pat); i++ {
			if pat[i] == ']' && i > 1 {
				end = i
				break
			}
		}
		if end < 0 {
			// Not generated: unterminated class.
			return false
		}
		return len(name) > 0 && matchClass(string(pat[1:end]), name[0]) && matchComponent(pat[end+1:], name[1:])
	default:
		return len(name) > 0 && name[0] == pat[0] && matchComponent(pat[1:], name[1:])
	}
}

// matchSegments matches a whole path (as components) against pattern
// components; a whole-component "**" spans zero or more directory levels.
func matchSegments(segs, comps []string) bool {
	if len(segs) == 0 {
		return len(comps) == 0
	}
	if segs[0] == "**" {
		for k := 0; k <= len(comps); k++ {
			if matchSegments(segs[1:], comps[k:]) {
				return true
			}
		}
		return false
	}
	if len(comps) == 0 {
		return false
	}
	return matchComponent([]rune(segs[0]), []rune(comps[0])) && matchSegments(segs[1:], comps[1:])
}

func (r *refPattern) matches(path string, dir bool) bool {
	if r.dirOnly && !dir {
		return false
	}
	comps := strings.Split(path, "/")
	if matchSegments(r.segs, comps) {
		return true
	}
	if !r.anchored {
		return matchSegments(r.segs, comps[len(comps)-1:])
	}
	return false
}

var vcsNames = map[string]bool{".git": true, ".svn": true, ".hg": true, ".bzr": true, "_darcs": true}

// Reference is the reference ignorer for a pattern list.
type Reference struct {
	pats []refPattern
	vcs  bool
}

func NewReference(patterns []string, vcs bool) *Reference {
	r := &Reference{vcs: vcs}
	for _, p := range patterns {
		r.pats = append(r.pats, parsePattern(p))
	}
	return r
}

// Status is the polarity of the last matching pattern (nominal if none);
// version-control directories are ignored when the option is on. both tells
// whether a negated and a non-negated pattern both match (the non-trivial
// rule).
func (r *Reference) Status(path string, dir bool) (st Status, both bool) {
	var pos, neg bool
	for i := range r.pats {
		if r.pats[i].matches(path, dir) {
			if r.pats[i].negated {
				st, neg = Unignored, true
			} else {
				st, pos = Ignored, true
			}
		}
	}
	if r.vcs && dir {
		comps := strings.Split(path, "/")
		if vcsNames[comps[len(comps)-1]] {
			st = Ignored
		}
	}
	return st, pos && neg
}

// Node is an on-disk tree used by the scan-level part.
type Node struct {
	Name     string  `json:"name"`
	Kind     string  `json:"kind"` // dir, file, link (portable target), badlink (absolute target)
	Content  string  `json:"content,omitempty"`
	Children []*Node `json:"children,omitempty"`
}

// Expected is the reference description of a scan: rendered snapshot, the
// paths that must have a digest-cache entry, and the ignore-cache keys with
// their status.
type Expected struct {
	Render      string
	CachePaths  []string
	IgnoreKeys  map[string]Status // key: path + "|d" or "|f"
	PrunedDirs  int               // ignored directories with content beneath
	Unignores   int               // paths whose status is unignored
	BothMatched int
}

func ignoreKey(path string, dir bool) string {
	if dir {
		return path + "|d"
	}
	return path + "|f"
}

// Expect computes what a scan of root (a dir Node) must look like under the
// reference semantics: an ignored entry is one untracked leaf and nothing
// beneath it is visited.
func Expect(root *Node, ref *Reference) *Expected {
	e := &Expected{IgnoreKeys: map[string]Status{}}
	var b strings.Builder
	e.renderDir(&b, root, "", ref)
	e.Render = b.String()
	sort.Strings(e.CachePaths)
	return e
}

func (e *Expected) renderDir(b *strings.Builder, n *Node, path string, ref *Reference) {
	b.WriteString("D{")
	kids := append([]*Node(nil), n.Children...)
	sort.Slice(kids, func(i, j int) bool { return kids[i].Name < kids[j].Name })
	for _, k := range kids {
		p := k.Name
		if path != "" {
			p = path + "/" + k.Name
		}
		b.WriteString(k.Name)
		b.WriteString(":")
		isDir := k.Kind == "dir"
		st, both := ref.Status(p, isDir)
		e.IgnoreKeys[ignoreKey(p, isDir)] = st
		if both {
			e.BothMatched++
		}
		if st == Unignored {
			e.Unignores++
		}
		if st == Ignored {
			if isDir && len(k.Children) > 0 {
				e.PrunedDirs++
			}
			b.WriteString("U;")
			continue
		}
		switch k.Kind {
		case "dir":
			e.renderDir(b, k, p, ref)
		case "file":
			b.WriteString("F")
			e.CachePaths = append(e.CachePaths, p)
		case "link":
			b.WriteString("L(" + k.Content + ")")
		case "badlink":
			b.WriteString("P")
		}
		b.WriteString(";")
	}
	b.WriteString("}")
}

// ---- classifiers of known-finding classes (predicates over the case) --------

// ClassNegatedClass: some pattern of the list contains a bracket expression
// that would accept the character '/' if the separator were an ordinary
// character (a negated expression such as "[!x]", or a range spanning '/' such
// as "[.-a]"), and the probed path (or some path of the scanned tree) has more
// than one component, so that the expression can be tried against a '/'.
const ClassNegatedClass = "class-matches-separator"

func hasNegatedClass(patterns []string) bool {
	for _, p := range patterns {
		rs := []rune(p)
		for i := 0; i < len(rs); i++ {
			if rs[i] != '[' {
				continue
			}
			end := -1
			for j := i + 2; j < len(rs); j++ {
				if rs[j] == ']' {
					end = j
					break
				}
			}
			if end < 0 {
				break
			}
			if matchClass(string(rs[i+1:end]), '/') {
				return true
			}
			i = end
		}
	}
	return false
}

// ClassZeroSpan: some pattern of the list ends in a whole-component "**" that
// directly follows a component ending in '*' (other than a lone "*"), and the
// pattern matches the path only with that final "**" spanning zero levels
// (e.g. pattern "a*/**" against path "a", "a/**/**" against "a").
const ClassZeroSpan = "trailing-doublestar-zero-levels-after-star"

func zeroSpanAfterStar(patterns []string, path string) bool {
	comps := strings.Split(path, "/")
	for _, p := range patterns {
		r := parsePattern(p)
		n := len(r.segs)
		if n < 2 || r.segs[n-1] != "**" {
			continue
		}
		prev := r.segs[n-2]
		if !strings.HasSuffix(prev, "*") || prev == "*" {
			continue
		}
		if matchSegments(r.segs[:n-1], comps) {
			return true
		}
	}
	return false
}

// treePaths lists the paths of all nodes of a tree.
func treePaths(n *Node, path string, out *[]string) {
	for _, k := range n.Children {
		p := k.Name
		if path != "" {
			p = path + "/" + k.Name
		}
		*out = append(*out, p)
		treePaths(k, p, out)
	}
}

// KnownClasses returns the known-finding classes a case belongs to.
func KnownClasses(patterns []string, path string, tree *Node) []string {
	paths := []string{path}
	if tree != nil {
		paths = nil
		treePaths(tree, "", &paths)
	}
	var out []string
	if hasNegatedClass(patterns) {
		for _, p := range paths {
			if strings.Contains(p, "/") {
				out = append(out, ClassNegatedClass)
				break
			}
		}
	}
	for _, p := range paths {
		if zeroSpanAfterStar(patterns, p) {
			out = append(out, ClassZeroSpan)
			break
		}
	}
	return out
}
