package c15_dockerignore

import (
	"context"
	"crypto/sha1"
	"fmt"
	"os"
	"path/filepath"
	"sort"
	"strings"
	"testing"

	"pgregory.net/rapid"

	"github.com/mutagen-io/mutagen/pkg/filesystem/behavior"
	"github.com/mutagen-io/mutagen/pkg/synchronization/core"
	dockerignore "github.com/mutagen-io/mutagen/pkg/synchronization/core/ignore/docker"

	"verif/kit/ev"
)

const prop = "C15"

const rule = "non-trivial: Docker's walk enters at least one excluded directory (an exception pattern has it as a prefix), i.e. the scan produces a phantom directory that must be reified"

// Case is one evaluated case: a .dockerignore list, the tree on the scanned
// endpoint, optionally the tree of the peer endpoint, and the paths at which
// the ancestor (previously synchronized state) has a directory.
type Case struct {
	Patterns     []string `json:"patterns"`
	Alpha        *Node    `json:"alpha"`
	Beta         *Node    `json:"beta,omitempty"`
	AncestorDirs []string `json:"ancestor_dirs,omitempty"`
	// AncestorFiles are paths at which the ancestor has a file (its parents
	// are directories of the ancestor).
	AncestorFiles []string `json:"ancestor_files,omitempty"`
}

func materialize(dir string, n *Node) error {
	for _, k := range n.Children {
		p := filepath.Join(dir, k.Name)
		switch k.Kind {
		case "dir":
			if err := os.Mkdir(p, 0o755); err != nil {
				return err
			}
			if err := materialize(p, k); err != nil {
				return err
			}
		case "file":
			if err := os.WriteFile(p, []byte(k.Content), 0o644); err != nil {
				return err
			}
		case "link":
			if err := os.Symlink(k.Content, p); err != nil {
				return err
			}
		default:
			return fmt.Errorf("unknown node kind %q", k.Kind)
		}
	}
	return nil
}

// scanTree puts the tree on disk below base and scans it with the Docker-style
// ignorer the way the local endpoint does.
func scanTree(base, name string, tree *Node, patterns []string) (*core.Entry, error) {
	root := filepath.Join(base, name)
	if err := os.Mkdir(root, 0o755); err != nil {
		return nil, err
	}
	if err := materialize(root, tree); err != nil {
		return nil, err
	}
	return scanRoot(root, patterns)
}

func scanRoot(root string, patterns []string) (*core.Entry, error) {
	ig, err := dockerignore.NewIgnorer(patterns)
	if err != nil {
		return nil, fmt.Errorf("pattern list rejected: %w", err)
	}
	snapshot, _, _, err := core.Scan(
		context.Background(), root,
		nil, nil,
		sha1.New(), nil,
		ig, nil,
		behavior.ProbeMode_ProbeModeProbe,
		core.SymbolicLinkMode_SymbolicLinkModePortable,
		core.PermissionsMode_PermissionsModePortable,
	)
	if err != nil {
		return nil, fmt.Errorf("scan failed: %w", err)
	}
	return snapshot.Content, nil
}

// ancestorEntry builds the ancestor: directories at the given paths (parents
// included), nothing else.
func ancestorEntry(dirs, files []string) (*core.Entry, map[string]bool) {
	set := map[string]bool{}
	if len(dirs)+len(files) == 0 {
		return nil, set
	}
	root := &core.Entry{Kind: core.EntryKind_Directory}
	set[""] = true
	add := func(d string, leafIsFile bool) {
		cur := root
		p := ""
		comps := strings.Split(d, "/")
		for i, c := range comps {
			if p == "" {
				p = c
			} else {
				p += "/" + c
			}
			if cur.Kind != core.EntryKind_Directory {
				return // a file recorded earlier stands in the way
			}
			if cur.Contents == nil {
				cur.Contents = map[string]*core.Entry{}
			}
			next := cur.Contents[c]
			if next == nil {
				if leafIsFile && i == len(comps)-1 {
					next = &core.Entry{Kind: core.EntryKind_File, Digest: []byte{1, 2, 3, 4, 5, 6, 7, 8, 9, 10, 11, 12, 13, 14, 15, 16, 17, 18, 19, 20}}
				} else {
					next = &core.Entry{Kind: core.EntryKind_Directory}
				}
				cur.Contents[c] = next
			}
			if next.Kind == core.EntryKind_Directory {
				set[p] = true
			}
			cur = next
		}
	}
	for _, d := range dirs {
		add(d, false)
	}
	for _, f := range files {
		add(f, true)
	}
	return root, set
}

// synchronizedOf lists the synchronized entries of a reified snapshot.
func synchronizedOf(e *core.Entry) ([]string, string) {
	var out []string
	var odd string
	var walk func(p string, e *core.Entry)
	walk = func(p string, e *core.Entry) {
		if e == nil {
			return
		}
		switch e.Kind {
		case core.EntryKind_Directory:
			out = append(out, p+" D")
			for n, c := range e.Contents {
				cp := n
				if p != "" {
					cp = p + "/" + n
				}
				walk(cp, c)
			}
		case core.EntryKind_File:
			out = append(out, p+" F")
		case core.EntryKind_SymbolicLink:
			out = append(out, p+" L("+e.Target+")")
		case core.EntryKind_Untracked:
			if len(e.Contents) != 0 {
				odd = fmt.Sprintf("untracked entry at %q still has contents", p)
			}
		case core.EntryKind_PhantomDirectory:
			odd = fmt.Sprintf("phantom directory left at %q after reification", p)
		default:
			out = append(out, fmt.Sprintf("%s kind%d(%s)", p, int(e.Kind), e.Problem))
		}
	}
	walk("", e)
	sort.Strings(out)
	return out, odd
}

func diff(got, want []string) string {
	g, w := map[string]bool{}, map[string]bool{}
	for _, x := range got {
		g[x] = true
	}
	for _, x := range want {
		w[x] = true
	}
	var extra, missing []string
	for _, x := range got {
		if !w[x] {
			extra = append(extra, x)
		}
	}
	for _, x := range want {
		if !g[x] {
			missing = append(missing, x)
		}
	}
	if len(extra) == 0 && len(missing) == 0 {
		return ""
	}
	return fmt.Sprintf("synchronized by Mutagen but not part of Docker's context: %q; part of Docker's context but not synchronized: %q", extra, missing)
}

// judge runs one case on a fresh temp directory.
func judge(c *Case) (violation string, st Stats) {
	base, err := os.MkdirTemp("", "c15-")
	if err != nil {
		return "harness: " + err.Error(), st
	}
	defer os.RemoveAll(base)
	return judgeIn(base, c, nil)
}

// judgeIn is judge with an optional already-materialized and reusable alpha
// root (used by the fixed-tree enumeration).
func judgeIn(base string, c *Case, alphaRoot *string) (violation string, st Stats) {
	ref, err := NewReference(c.Patterns)
	if err != nil {
		return "harness: reference cannot compile the list: " + err.Error(), st
	}
	ca := ref.Classify(c.Alpha)
	ca.stats(&st, false)
	var cb *cls
	if c.Beta != nil {
		cb = ref.Classify(c.Beta)
		cb.stats(&st, false)
	}
	var alpha, beta *core.Entry
	if alphaRoot != nil {
		alpha, err = scanRoot(*alphaRoot, c.Patterns)
	} else {
		alpha, err = scanTree(base, "alpha", c.Alpha, c.Patterns)
	}
	if err != nil {
		return err.Error(), st
	}
	if c.Beta != nil {
		if beta, err = scanTree(base, "beta", c.Beta, c.Patterns); err != nil {
			return err.Error(), st
		}
	}
	ancestor, ancSet := ancestorEntry(c.AncestorDirs, c.AncestorFiles)
	// The controller's pipeline for Docker-style syntax.
	ra, rb, _, _ := core.ReifyPhantomDirectories(ancestor, alpha, beta)
	wantA, wantB := Synchronized(ca, cb, ancSet)
	gotA, odd := synchronizedOf(ra)
	if odd != "" {
		return fmt.Sprintf("patterns %q: alpha: %s", c.Patterns, odd), st
	}
	if d := diff(gotA, wantA); d != "" {
		return fmt.Sprintf("patterns %q, ancestor dirs %q files %q: alpha: %s", c.Patterns, c.AncestorDirs, c.AncestorFiles, d), st
	}
	if c.Beta != nil {
		gotB, odd := synchronizedOf(rb)
		if odd != "" {
			return fmt.Sprintf("patterns %q: beta: %s", c.Patterns, odd), st
		}
		if d := diff(gotB, wantB); d != "" {
			return fmt.Sprintf("patterns %q, ancestor dirs %q files %q: beta: %s", c.Patterns, c.AncestorDirs, c.AncestorFiles, d), st
		}
	}
	return "", st
}

// ---- known finding -----------------------------------------------------------

var canonicalKnown = Case{
	Patterns: []string{"!a/b", "a"},
	Alpha: &Node{Kind: "dir", Children: []*Node{
		{Name: "a", Kind: "dir", Children: []*Node{{Name: "b", Kind: "file", Content: "x"}}},
	}},
}

func knownClass(rec *ev.Recorder) bool {
	f, ok := ev.KnownClass(prop, ClassLaterParentMatch)
	if !ok {
		return false
	}
	c := canonicalKnown
	v, _ := judge(&c)
	rec.Eval()
	if v != "" {
		rec.ReportKnown(f)
		rec.Note("known_canonical_instance", v)
	} else {
		rec.Note("known_canonical_instance", "no longer fails")
	}
	return true
}

func excluded(rec *ev.Recorder, known bool, c *Case) bool {
	if !known {
		return false
	}
	ref, err := NewReference(c.Patterns)
	if err != nil {
		return false
	}
	if InLaterParentMatchClass(ref, c.Alpha, c.Beta) {
		rec.Excluded(ClassLaterParentMatch)
		return true
	}
	return false
}

// ---- fixed-tree enumeration --------------------------------------------------

func f(name string) *Node { return &Node{Name: name, Kind: "file", Content: name} }
func d(name string, kids ...*Node) *Node {
	return &Node{Name: name, Kind: "dir", Children: kids}
}

// fixedTree is the tree every enumerated pattern list is applied to.
func fixedTree() *Node {
	return d("",
		d("a", d("a", f("a"), f("b")), d("b", f("a")), f("c")),
		d("b", d("a", f("a"), f("b")), f("b"), d("c")),
		f("c"),
	)
}

var corePatterns = []string{
	"a", "!a", "a/b", "!a/b", "a/a/a", "!a/a/a", "*", "!*", "a/*", "!a/*",
	"**/a", "!**/a", "a/**", "!a/**", "b", "!b/a", "*/a", "!*/a", "**/b", "!**/b",
	"a/a", "!a/a", "?", "!a/a/b", "b/a/a", "!b/a/a", "/c", "!c", " a/b/ ", "! b/c",
	"a/**/a", "!a/**/a", "*/*/a", "!*/*/a", "**", "!**", "[ab]", "![ab]/a", "a/./a", "!a/b/../a",
}

func TestExhaustiveFixedTree(t *testing.T) {
	if ev.ReplayPath() != "" {
		t.Skip("replaying")
	}
	n2 := ev.Pick(30, len(corePatterns))
	n3 := ev.Pick(12, 22)
	rec := ev.New(t, prop, "exhaustive-lists-fixed-tree",
		fmt.Sprintf("every .dockerignore list of <=2 patterns from the first %d and of 3 patterns from the first %d of a %d-pattern core, applied by core.Scan + ReifyPhantomDirectories to one fixed tree of depth 3 on disk and compared with the reference walk; %s", n2, n3, len(corePatterns), rule))
	rec.SetExhaustive(fmt.Sprintf("lists: <=2 of %d, 3 of %d core patterns; one fixed tree (a/{a/{a,b},b/a,c}, b/{a/{a,b},b,c/}, c)", n2, n3))
	known := knownClass(rec)
	var lists [][]string
	lists = append(lists, nil)
	for i := 0; i < n2; i++ {
		lists = append(lists, []string{corePatterns[i]})
	}
	for i := 0; i < n2; i++ {
		for j := 0; j < n2; j++ {
			lists = append(lists, []string{corePatterns[i], corePatterns[j]})
		}
	}
	for i := 0; i < n3; i++ {
		for j := 0; j < n3; j++ {
			for k := 0; k < n3; k++ {
				lists = append(lists, []string{corePatterns[i], corePatterns[j], corePatterns[k]})
			}
		}
	}
	rec.Note("lists", len(lists))
	base := t.TempDir()
	tree := fixedTree()
	root := filepath.Join(base, "alpha")
	if err := os.Mkdir(root, 0o755); err != nil {
		t.Fatal(err)
	}
	if err := materialize(root, tree); err != nil {
		t.Fatal(err)
	}
	var failure *Case
	var failureMsg string
	var nts uint64
	for li, patterns := range lists {
		if li%ev.Shards() != ev.Shard() {
			continue
		}
		c := &Case{Patterns: patterns, Alpha: tree}
		if excluded(rec, known, c) {
			continue
		}
		v, st := judgeIn(base, c, &root)
		rec.Eval()
		if st.EnteredExcludedDirs > 0 {
			nts++
			rec.Class("enters-excluded-directory")
			if st.IncludedBelowExcl > 0 {
				rec.Class("re-includes-beneath-excluded-directory")
			}
		}
		if v != "" {
			size := len(strings.Join(patterns, "")) + 4*len(patterns)
			if failure == nil || size < len(strings.Join(failure.Patterns, ""))+4*len(failure.Patterns) {
				failure, failureMsg = c, v
			}
		}
	}
	rec.NonTrivialDistinct(nts)
	if failure != nil {
		ev.FailTB(t, rec, failure, "%s", failureMsg)
	}
}

// ---- random generation -------------------------------------------------------

var names = []string{"a", "b", "c", "ab", "a", "b"}

func genTree(rt *rapid.T, depth int, p string, paths *[]string, dirs *[]string) []*Node {
	n := rapid.IntRange(0, 4).Draw(rt, "fanout")
	if depth == 0 && n == 0 {
		n = 2
	}
	used := map[string]bool{}
	var out []*Node
	for i := 0; i < n; i++ {
		name := rapid.SampledFrom(names).Draw(rt, "name")
		if used[name] {
			continue
		}
		used[name] = true
		cp := name
		if p != "" {
			cp = p + "/" + name
		}
		*paths = append(*paths, cp)
		k := rapid.IntRange(0, 9).Draw(rt, "kind")
		switch {
		case k < 5 && depth < 3:
			*dirs = append(*dirs, cp)
			out = append(out, &Node{Name: name, Kind: "dir", Children: genTree(rt, depth+1, cp, paths, dirs)})
		case k == 9:
			out = append(out, &Node{Name: name, Kind: "link", Content: rapid.SampledFrom([]string{"a", "b/c"}).Draw(rt, "target")})
		default:
			out = append(out, &Node{Name: name, Kind: "file", Content: rapid.SampledFrom([]string{"", "x"}).Draw(rt, "content")})
		}
	}
	return out
}

var componentPool = []string{"a", "b", "c", "ab", "a", "b", "*", "*", "?", "**", "**", "a*", "*b", "[ab]", "?b"}

func genPattern(rt *rapid.T, hint string) string {
	var comps []string
	if hint != "" && rapid.IntRange(0, 9).Draw(rt, "derive") < 7 {
		hc := strings.Split(hint, "/")
		hi := rapid.IntRange(1, len(hc)).Draw(rt, "to")
		lo := 0
		if rapid.IntRange(0, 4).Draw(rt, "suffix") == 0 {
			lo = rapid.IntRange(0, hi-1).Draw(rt, "from")
		}
		for _, c := range hc[lo:hi] {
			switch rapid.IntRange(0, 11).Draw(rt, "blur") {
			case 0:
				c = "*"
			case 1:
				c = "**"
			case 2:
				c = "?" + c[1:]
			case 3:
				c = c[:1] + "*"
			}
			comps = append(comps, c)
		}
		if lo > 0 || rapid.IntRange(0, 7).Draw(rt, "lead**") == 0 {
			comps = append([]string{"**"}, comps...)
		}
		if rapid.IntRange(0, 7).Draw(rt, "more") == 0 {
			comps = append(comps, rapid.SampledFrom(componentPool).Draw(rt, "extra"))
		}
	} else {
		n := rapid.IntRange(1, 3).Draw(rt, "ncomp")
		for i := 0; i < n; i++ {
			comps = append(comps, rapid.SampledFrom(componentPool).Draw(rt, "comp"))
		}
	}
	// "**" is only generated as a whole path element, and never twice in a row.
	var cleaned []string
	for _, c := range comps {
		if c == "**" && len(cleaned) > 0 && cleaned[len(cleaned)-1] == "**" {
			continue
		}
		cleaned = append(cleaned, c)
	}
	p := strings.Join(cleaned, "/")
	switch rapid.IntRange(0, 11).Draw(rt, "decorate") {
	case 0:
		p = "/" + p
	case 1:
		p = p + "/"
	case 2:
		p = "./" + p
	case 3:
		p = " " + p + "  "
	}
	if rapid.IntRange(0, 9).Draw(rt, "negate") < 4 {
		if rapid.IntRange(0, 5).Draw(rt, "space") == 0 {
			p = "! " + p
		} else {
			p = "!" + p
		}
	}
	return p
}

// mutate derives the peer's tree from alpha's: drop, add or retype entries.
func mutate(rt *rapid.T, n *Node, depth int) *Node {
	out := &Node{Name: n.Name, Kind: n.Kind, Content: n.Content}
	used := map[string]bool{}
	for _, k := range n.Children {
		switch rapid.IntRange(0, 9).Draw(rt, "edit") {
		case 0, 2:
			continue
		case 1:
			if k.Kind == "dir" {
				out.Children = append(out.Children, &Node{Name: k.Name, Kind: "file", Content: "y"})
			} else if depth < 3 {
				out.Children = append(out.Children, &Node{Name: k.Name, Kind: "dir", Children: []*Node{{Name: "a", Kind: "file", Content: "z"}}})
			} else {
				out.Children = append(out.Children, k)
			}
		default:
			if k.Kind == "dir" {
				out.Children = append(out.Children, mutate(rt, k, depth+1))
			} else {
				out.Children = append(out.Children, k)
			}
		}
		used[k.Name] = true
	}
	if n.Kind == "dir" && rapid.IntRange(0, 3).Draw(rt, "add") == 0 {
		name := rapid.SampledFrom(names).Draw(rt, "add.name")
		if !used[name] {
			out.Children = append(out.Children, &Node{Name: name, Kind: "file", Content: "n"})
		}
	}
	return out
}

func TestRandom(t *testing.T) {
	if ev.ReplayPath() != "" {
		t.Skip("replaying")
	}
	rec := ev.New(t, prop, "random-trees",
		"rapid: trees of depth <=4, fan-out <=4 over {a,b,c,ab} (directories, files, links), .dockerignore lists of 0..6 patterns (literals, *, ?, **, classes, leading '/', '!', trailing '/', './', surrounding whitespace; 70% derived from paths of the tree), optionally a peer tree derived by edits and a random set of ancestor directories; core.Scan with the Docker ignorer + ReifyPhantomDirectories compared with the reference walk; "+rule)
	known := knownClass(rec)
	ev.Check(t, rec, 4000, 80000, func(rt *rapid.T) {
		c := &Case{Alpha: &Node{Kind: "dir"}}
		var paths, dirs []string
		c.Alpha.Children = genTree(rt, 0, "", &paths, &dirs)
		n := rapid.IntRange(0, 6).Draw(rt, "npatterns")
		for i := 0; i < n; i++ {
			c.Patterns = append(c.Patterns, genPattern(rt, rapid.SampledFrom(paths).Draw(rt, "hint")))
		}
		// Half of the cases get the typical .dockerignore shape: exclude a
		// directory (literally or by wildcard), then re-include something
		// beneath it; inserted at a random position, in either order.
		var deep []string
		for _, p := range paths {
			if strings.Contains(p, "/") {
				deep = append(deep, p)
			}
		}
		if len(deep) > 0 && rapid.Bool().Draw(rt, "scenario") {
			fcomps := strings.Split(rapid.SampledFrom(deep).Draw(rt, "scenario.path"), "/")
			cut := rapid.IntRange(1, len(fcomps)-1).Draw(rt, "scenario.cut")
			keep := rapid.IntRange(cut+1, len(fcomps)).Draw(rt, "scenario.keep")
			excl := strings.Join(fcomps[:cut], "/")
			switch rapid.IntRange(0, 5).Draw(rt, "scenario.excl") {
			case 0:
				excl = "*"
			case 1:
				excl = "**/" + fcomps[cut-1]
			case 2:
				excl = excl + "/*"
			}
			incl := "!" + strings.Join(fcomps[:keep], "/")
			if rapid.IntRange(0, 5).Draw(rt, "scenario.incl") == 0 {
				incl += "/*"
			}
			pair := []string{excl, incl}
			if rapid.IntRange(0, 5).Draw(rt, "scenario.swap") == 0 {
				pair[0], pair[1] = pair[1], pair[0]
			}
			at := rapid.IntRange(0, len(c.Patterns)).Draw(rt, "scenario.at")
			c.Patterns = append(append(append([]string{}, c.Patterns[:at]...), pair...), c.Patterns[at:]...)
		}
		if rapid.Bool().Draw(rt, "peer") {
			c.Beta = mutate(rt, c.Alpha, 0)
		}
		if len(dirs) > 0 && rapid.IntRange(0, 2).Draw(rt, "ancestor") == 0 {
			k := rapid.IntRange(1, 3).Draw(rt, "nanc")
			for i := 0; i < k; i++ {
				c.AncestorDirs = append(c.AncestorDirs, rapid.SampledFrom(dirs).Draw(rt, "anc"))
			}
		}
		// Aim at the reification rule: take a literal exception pattern, make
		// sure its parent directories exist on alpha, and then either give only
		// the peer the re-included file or let the ancestor have one of the
		// parent directories.
		var literals []string
		for _, p := range c.Patterns {
			if ex, text := preprocess(p); ex && strings.Contains(text, "/") && !strings.ContainsAny(text, "*?[") {
				literals = append(literals, text)
			}
		}
		if len(literals) > 0 && rapid.IntRange(0, 2).Draw(rt, "aim") > 0 {
			comps := strings.Split(rapid.SampledFrom(literals).Draw(rt, "aim.literal"), "/")
			ensure(c.Alpha, comps[:len(comps)-1], "dir")
			switch rapid.IntRange(0, 2).Draw(rt, "aim.how") {
			case 0:
				remove(c.Alpha, comps)
				if c.Beta == nil {
					c.Beta = &Node{Kind: "dir"}
				}
				remove(c.Beta, comps)
				ensure(c.Beta, comps, "file")
			case 1:
				remove(c.Alpha, comps)
				k := rapid.IntRange(1, len(comps)-1).Draw(rt, "aim.anc")
				if rapid.IntRange(0, 2).Draw(rt, "aim.ancfile") == 0 {
					c.AncestorFiles = append(c.AncestorFiles, strings.Join(comps[:k], "/"))
				} else {
					c.AncestorDirs = append(c.AncestorDirs, strings.Join(comps[:k], "/"))
				}
			}
		}
		if excluded(rec, known, c) {
			return
		}
		v, st := judge(c)
		rec.Eval()
		if v != "" {
			ev.Failf(rt, rec, c, "%s", v)
		}
		if c.Beta != nil {
			rec.Class("with-peer-tree")
		}
		if len(c.AncestorDirs) > 0 {
			rec.Class("with-ancestor-directories")
		}
		if len(c.AncestorFiles) > 0 {
			rec.Class("with-ancestor-file-where-alpha-has-directory")
		}
		if st.Excluded > 0 {
			rec.Class("something-excluded")
		}
		if st.IncludedBelowExcl > 0 {
			rec.Class("re-includes-beneath-excluded-directory")
		}
		if st.EnteredExcludedDirs > 0 {
			// How often does the verdict for an excluded directory hinge on
			// the peer's content or on the ancestor?
			ref, _ := NewReference(c.Patterns)
			ca := ref.Classify(c.Alpha)
			_, ancSet := ancestorEntry(c.AncestorDirs, c.AncestorFiles)
			full, _ := Synchronized(ca, classifyOrNil(ref, c.Beta), ancSet)
			noPeer, _ := Synchronized(ca, nil, ancSet)
			noAnc, _ := Synchronized(ca, classifyOrNil(ref, c.Beta), map[string]bool{})
			if fmt.Sprint(full) != fmt.Sprint(noPeer) {
				rec.Class("excluded-directory-kept-because-of-peer-content")
			}
			if fmt.Sprint(full) != fmt.Sprint(noAnc) {
				rec.Class("excluded-directory-kept-because-of-ancestor")
			}
			rec.Class("nontrivial")
			if st.IncludedBelowExcl == 0 {
				rec.Class("entered-excluded-directory-without-included-content")
			}
			rec.NonTrivial(ev.Hash(fmt.Sprintf("%q", c.Patterns), render(c.Alpha), render(c.Beta), fmt.Sprint(c.AncestorDirs, c.AncestorFiles)))
			if rec.WantSample() && st.IncludedBelowExcl > 0 {
				rec.Sample(map[string]any{"patterns": c.Patterns, "alpha": render(c.Alpha), "ancestor_dirs": c.AncestorDirs})
			}
		}
	})
}

// ensure makes the path exist in the tree: directories along the way (existing
// non-directories are replaced) and an entry of the given kind at the end
// (left alone if something of that kind is already there).
func ensure(n *Node, comps []string, kind string) {
	for i, c := range comps {
		want := "dir"
		if i == len(comps)-1 {
			want = kind
		}
		var next *Node
		for _, k := range n.Children {
			if k.Name == c {
				next = k
			}
		}
		if next == nil {
			next = &Node{Name: c}
			n.Children = append(n.Children, next)
		}
		if next.Kind != want {
			next.Kind, next.Children, next.Content = want, nil, ""
			if want == "file" {
				next.Content = "aimed"
			}
		}
		n = next
	}
}

// remove deletes the entry at the path, if any.
func remove(n *Node, comps []string) {
	for i, c := range comps {
		var next *Node
		for j, k := range n.Children {
			if k.Name == c {
				if i == len(comps)-1 {
					n.Children = append(append([]*Node{}, n.Children[:j]...), n.Children[j+1:]...)
					return
				}
				next = k
			}
		}
		if next == nil || next.Kind != "dir" {
			return
		}
		n = next
	}
}

func classifyOrNil(ref *Reference, n *Node) *cls {
	if n == nil {
		return nil
	}
	return ref.Classify(n)
}

func render(n *Node) string {
	if n == nil {
		return "-"
	}
	switch n.Kind {
	case "dir":
		var parts []string
		for _, k := range n.Children {
			parts = append(parts, k.Name+":"+render(k))
		}
		sort.Strings(parts)
		return "{" + strings.Join(parts, " ") + "}"
	case "link":
		return "->" + n.Content
	}
	return "f"
}

func TestReplay(t *testing.T) {
	if ev.ReplayPath() == "" {
		t.Skip("no replay requested")
	}
	var c Case
	if _, err := ev.LoadReplay(ev.ReplayPath(), &c); err != nil {
		t.Fatalf("cannot load replay: %v", err)
	}
	rec := ev.New(t, prop, "replay", "replay of a saved case")
	v, _ := judge(&c)
	rec.Eval()
	if v != "" {
		ev.FailTB(t, rec, &c, "%s", v)
	}
}
