// Package c15_dockerignore checks property C15: with Docker-style ignore
// syntax the synchronized files, links and directories are exactly those that
// Docker's .dockerignore processing includes from the same tree; an excluded
// directory is synchronized only if it holds synchronized content or was
// synchronized before.
//
// This file is the independent reference: .dockerignore preprocessing, the
// pattern -> regular expression translation documented for moby's
// patternmatcher, Docker's context walk with per-pattern parent-match results,
// and the reification rule for excluded directories. It does not call the
// repository's matcher (which lives in an internal package anyway).
package c15_dockerignore

import (
	"path"
	"regexp"
	"sort"
	"strings"
)

// Node is an on-disk tree.
type Node struct {
	Name     string  `json:"name"`
	Kind     string  `json:"kind"` // dir, file, link
	Content  string  `json:"content,omitempty"`
	Children []*Node `json:"children,omitempty"`
}

// refPattern is one preprocessed .dockerignore line.
type refPattern struct {
	exclusion bool   // line started with '!': an exception to the exclusions
	text      string // cleaned text, no leading slash
	re        *regexp.Regexp
}

// preprocess applies the documented .dockerignore preprocessing: surrounding
// whitespace is dropped, a leading '!' marks an exception, "." and ".."
// elements and duplicate/trailing slashes are eliminated (filepath.Clean), and
// a leading slash is dropped since all patterns are relative to the context
// root.
func preprocess(line string) (exclusion bool, text string) {
	line = strings.TrimSpace(line)
	if strings.HasPrefix(line, "!") {
		exclusion = true
		line = strings.TrimSpace(line[1:])
	}
	line = path.Clean(line)
	if len(line) > 1 && line[0] == '/' {
		line = line[1:]
	}
	return exclusion, line
}

// translate turns a cleaned pattern into a regular expression following the
// rules documented for Docker: filepath.Match syntax per path element ('*' any
// run of non-separators, '?' one non-separator, bracket classes) plus "**"
// matching any number of directories including none ("**/" may match nothing,
// a trailing "**" matches everything below).
func translate(text string) string {
	var b strings.Builder
	b.WriteString("^")
	rs := []rune(text)
	for i := 0; i < len(rs); i++ {
		switch c := rs[i]; {
		case c == '*' && i+1 < len(rs) && rs[i+1] == '*':
			i++
			if i+1 < len(rs) && rs[i+1] == '/' {
				i++
			}
			if i+1 >= len(rs) {
				b.WriteString(".*")
			} else {
				b.WriteString("(.*/)?")
			}
		case c == '*':
			b.WriteString("[^/]*")
		case c == '?':
			b.WriteString("[^/]")
		case c == '[' || c == ']':
			b.WriteRune(c)
		case strings.ContainsRune(`.+()|{}$^\`, c):
			b.WriteString(`\`)
			b.WriteRune(c)
		default:
			b.WriteRune(c)
		}
	}
	b.WriteString("$")
	return b.String()
}

// Reference is the reference matcher for a .dockerignore pattern list.
type Reference struct {
	pats []refPattern
}

func NewReference(lines []string) (*Reference, error) {
	r := &Reference{}
	for _, l := range lines {
		ex, text := preprocess(l)
		re, err := regexp.Compile(translate(text))
		if err != nil {
			return nil, err
		}
		r.pats = append(r.pats, refPattern{exclusion: ex, text: text, re: re})
	}
	return r, nil
}

// excluded decides whether the entry at path p is excluded from the context,
// given which patterns matched its parent directory (nil for entries directly
// below the root). Patterns are consulted in file order, the last one that
// matches decides; a pattern that matched the parent directory keeps matching
// everything beneath it; and, as in Docker's matcher, a pattern is only
// consulted for the entry itself if it could change the verdict reached so far
// (an exception while nothing is excluded, or an exclusion while the entry
// already is excluded, is not looked at). It returns the per-pattern results
// to hand down to the entry's children.
func (r *Reference) excluded(p string, parent []bool) (bool, []bool) {
	matched := false
	info := make([]bool, len(r.pats))
	for i := range r.pats {
		pat := &r.pats[i]
		match := parent != nil && parent[i]
		if !match {
			if pat.exclusion != matched {
				continue
			}
			match = pat.re.MatchString(p)
		}
		info[i] = match
		if match {
			matched = !pat.exclusion
		}
	}
	return matched, info
}

// descends tells whether Docker's walk still enters an excluded directory:
// only if some exception pattern names something beneath it (plain prefix
// comparison of the pattern text, wildcards are not interpreted).
func (r *Reference) descends(dir string) bool {
	for i := range r.pats {
		if r.pats[i].exclusion && strings.HasPrefix(r.pats[i].text+"/", dir+"/") {
			return true
		}
	}
	return false
}

// cls is the reference classification of one tree entry before reification.
type cls struct {
	kind     string // "F", "L" (included leaf), "U" (excluded, not part of the context), "D" (included directory), "X" (excluded directory that the walk still enters)
	target   string
	children map[string]*cls
}

// Classify performs Docker's walk over the tree.
func (r *Reference) Classify(root *Node) *cls {
	return r.classifyDir(root, "", nil, "D")
}

func (r *Reference) classifyDir(n *Node, p string, info []bool, kind string) *cls {
	out := &cls{kind: kind, children: map[string]*cls{}}
	for _, k := range n.Children {
		cp := k.Name
		if p != "" {
			cp = p + "/" + k.Name
		}
		skip, kinfo := r.excluded(cp, info)
		switch {
		case k.Kind == "dir" && !skip:
			out.children[k.Name] = r.classifyDir(k, cp, kinfo, "D")
		case k.Kind == "dir" && r.descends(cp):
			out.children[k.Name] = r.classifyDir(k, cp, kinfo, "X")
		case skip:
			out.children[k.Name] = &cls{kind: "U"}
		case k.Kind == "file":
			out.children[k.Name] = &cls{kind: "F"}
		default:
			out.children[k.Name] = &cls{kind: "L", target: k.Content}
		}
	}
	return out
}

// Stats describes a classification (for the non-trivial rule and classes).
type Stats struct {
	EnteredExcludedDirs int // excluded directories the walk still enters
	IncludedBelowExcl   int // included entries beneath such directories
	Excluded            int
	Included            int
}

func (c *cls) stats(s *Stats, belowX bool) {
	for _, k := range c.children {
		switch k.kind {
		case "U":
			s.Excluded++
		case "X":
			s.EnteredExcludedDirs++
			s.Excluded++
			k.stats(s, true)
		case "D":
			s.Included++
			if belowX {
				s.IncludedBelowExcl++
			}
			k.stats(s, belowX)
		default:
			s.Included++
			if belowX {
				s.IncludedBelowExcl++
			}
		}
	}
}

// Synchronized computes, for both endpoints of a session, the set of
// synchronized entries ("path kind") after the rule for excluded directories:
// an excluded directory the walk entered is synchronized iff the ancestor has a
// directory there or it holds synchronized content on either endpoint
// (included files, links and directories, or excluded directories that are
// themselves synchronized); otherwise it is not part of the synchronized tree
// at all.
func Synchronized(a, b *cls, ancestorDirs map[string]bool) (alpha, beta []string) {
	sa, sb := map[string]string{}, map[string]string{}
	resolve("", a, b, ancestorDirs, sa, sb)
	return flatten(sa), flatten(sb)
}

func flatten(m map[string]string) []string {
	out := make([]string, 0, len(m))
	for p, k := range m {
		out = append(out, p+" "+k)
	}
	sort.Strings(out)
	return out
}

func isDirKind(c *cls) bool { return c != nil && (c.kind == "D" || c.kind == "X") }

// resolve decides the entries at path p (a on alpha, b on beta; either may be
// nil) and returns whether synchronized content exists at or below p.
func resolve(p string, a, b *cls, anc map[string]bool, sa, sb map[string]string) bool {
	if !isDirKind(a) && !isDirKind(b) {
		held := false
		for _, x := range []struct {
			c *cls
			m map[string]string
		}{{a, sa}, {b, sb}} {
			if x.c != nil && x.c.kind != "U" {
				x.m[p] = x.c.kind
				if x.c.kind == "L" {
					x.m[p] = "L(" + x.c.target + ")"
				}
				held = true
			}
		}
		return held
	}
	names := map[string]bool{}
	var ac, bc map[string]*cls
	if isDirKind(a) {
		ac = a.children
	}
	if isDirKind(b) {
		bc = b.children
	}
	for n := range ac {
		names[n] = true
	}
	for n := range bc {
		names[n] = true
	}
	holds := false
	// Deterministic order is irrelevant for the result; sort for stable maps.
	sorted := make([]string, 0, len(names))
	for n := range names {
		sorted = append(sorted, n)
	}
	sort.Strings(sorted)
	for _, n := range sorted {
		cp := n
		if p != "" {
			cp = p + "/" + n
		}
		if resolve(cp, ac[n], bc[n], anc, sa, sb) {
			holds = true
		}
	}
	keepExcluded := holds || anc[p]
	synced := false
	for _, x := range []struct {
		c *cls
		m map[string]string
	}{{a, sa}, {b, sb}} {
		if !isDirKind(x.c) {
			// A leaf on this side opposite a directory on the other side.
			if x.c != nil && x.c.kind != "U" {
				x.m[p] = x.c.kind
				if x.c.kind == "L" {
					x.m[p] = "L(" + x.c.target + ")"
				}
				synced = true
			}
			continue
		}
		if x.c.kind == "D" || keepExcluded {
			x.m[p] = "D"
			synced = true
		}
	}
	return synced
}

// ---- classifier of the known-finding class ----------------------------------

// ClassLaterParentMatch names the known-finding class: pattern lists and trees
// on which Docker's verdict for some path is decided by a pattern that matched
// a parent directory and comes later in the file than the last pattern that
// matches the path (or a nearer directory) itself, e.g. ["!a/b", "a"] on a/b,
// or ["a", "a/b", "!a"] on a/b.
const ClassLaterParentMatch = "later-pattern-matches-parent-directory"

// ownVerdict is the verdict of the last pattern that matches p itself
// (0 none, 1 excluded, 2 exception), parent matches not considered.
func (r *Reference) ownVerdict(p string) int {
	v := 0
	for i := range r.pats {
		if r.pats[i].re.MatchString(p) {
			if r.pats[i].exclusion {
				v = 2
			} else {
				v = 1
			}
		}
	}
	return v
}

// classifyNearest is the walk in which each path takes the verdict of the
// nearest directory-or-self that some pattern matches itself, regardless of
// where in the file the patterns stand. It differs from Docker's walk exactly
// on the class above and is used only by the classifier, never as an oracle.
func (r *Reference) classifyNearest(n *Node, p string, inherited bool, kind string) *cls {
	out := &cls{kind: kind, children: map[string]*cls{}}
	for _, k := range n.Children {
		cp := k.Name
		if p != "" {
			cp = p + "/" + k.Name
		}
		skip := inherited
		switch r.ownVerdict(cp) {
		case 1:
			skip = true
		case 2:
			skip = false
		}
		switch {
		case k.Kind == "dir" && !skip:
			out.children[k.Name] = r.classifyNearest(k, cp, skip, "D")
		case k.Kind == "dir" && r.descends(cp):
			out.children[k.Name] = r.classifyNearest(k, cp, skip, "X")
		case skip:
			out.children[k.Name] = &cls{kind: "U"}
		case k.Kind == "file":
			out.children[k.Name] = &cls{kind: "F"}
		default:
			out.children[k.Name] = &cls{kind: "L", target: k.Content}
		}
	}
	return out
}

func sameCls(a, b *cls) bool {
	if a.kind != b.kind || len(a.children) != len(b.children) {
		return false
	}
	for n, x := range a.children {
		y, ok := b.children[n]
		if !ok || !sameCls(x, y) {
			return false
		}
	}
	return true
}

// InLaterParentMatchClass is the classifier (a predicate over the case).
func InLaterParentMatchClass(r *Reference, trees ...*Node) bool {
	for _, t := range trees {
		if t == nil {
			continue
		}
		if !sameCls(r.Classify(t), r.classifyNearest(t, "", false, "D")) {
			return true
		}
	}
	return false
}
