// Package c16_symlink checks property C16: in portable symbolic link mode every
// link accepted for synchronization (found by core.Scan or created by
// core.Transition) resolves to a location inside the synchronization root, and
// empty / absolute / over-long / colon- or backslash-containing targets are
// rejected.
//
// The oracle in this file is a lexical POSIX resolution written from the
// property statement. It never calls into the code under test.
package c16_symlink

import (
	"fmt"
	"os"
	"path/filepath"
	"strings"
)

// maxPortableLength is the documented maximum length (in bytes) of a portable
// symbolic link target ("over-long" means longer than this).
const maxPortableLength = 247

// Case identifies one evaluated case: a link with the given target located
// Depth directories below the synchronization root, observed either through a
// scan of a link that exists on disk or through a transition that is asked to
// create it.
type Case struct {
	Mode   string `json:"mode"` // "scan", "transition" or "retarget"
	Depth  int    `json:"depth"`
	Target string `json:"target"`
}

// Obs is what the real code did with a case.
type Obs struct {
	// Present is false if the link could not be put on disk for a scan case
	// (e.g. the kernel refuses empty targets); such cases are not judged.
	Present bool
	// Accepted: scan reported a symbolic link entry / transition reported the
	// link as created.
	Accepted bool
	// Kind describes the entry kind (scan) or result (transition) verbatim.
	Kind string
	// Reported is the target in the snapshot entry (scan) or the target read
	// back from disk after the transition ("" if no link exists on disk).
	Reported string
	// OnDisk tells whether a link exists on disk after the transition.
	OnDisk bool
	// Problem is the problem text reported by the code, if any.
	Problem string
}

// components splits a target the way POSIX path resolution does: on '/'.
func components(target string) []string { return strings.Split(target, "/") }

// lexicalEscape resolves target lexically from a directory that lies depth
// levels below the root: empty and "." components are no-ops, ".." moves one
// level up, anything else moves one level down. It reports whether the walk
// ever stands above the root. (Once above the root the walk cannot lexically
// come back: the root's own name is unknown to the peer endpoint.)
func lexicalEscape(depth int, target string) bool {
	d := depth
	for _, c := range components(target) {
		switch c {
		case "", ".":
		case "..":
			d--
			if d < 0 {
				return true
			}
		default:
			d++
		}
	}
	return false
}

// countingEmptyAsName is the lexical walk in which an empty component is
// (wrongly) treated like a name. It is used only by the classifier of the
// known-finding class, never to compute an expected verdict.
func countingEmptyAsName(depth int, target string) bool {
	d := depth
	for _, c := range components(target) {
		switch c {
		case ".":
		case "..":
			d--
			if d < 0 {
				return true
			}
		default:
			d++
		}
	}
	return false
}

// ClassEmptyComponent is the name of the classifier for the known-finding
// class: relative targets that escape the root under POSIX resolution but
// would not if every empty path component ("//", trailing "/") were a
// directory name.
const ClassEmptyComponent = "empty-component-counted-as-name"

// InEmptyComponentClass is that classifier (a predicate over the case).
func InEmptyComponentClass(c *Case) bool {
	t := c.Target
	if t == "" || t[0] == '/' || len(t) > maxPortableLength || strings.ContainsAny(t, ":\\") {
		return false
	}
	hasEmpty := false
	for _, comp := range components(t) {
		if comp == "" {
			hasEmpty = true
		}
	}
	return hasEmpty && lexicalEscape(c.Depth, t) && !countingEmptyAsName(c.Depth, t)
}

// rejectReasons lists why a target must not be accepted in portable mode.
func rejectReasons(depth int, target string) []string {
	var r []string
	if target == "" {
		return []string{"empty target"}
	}
	if len(target) > maxPortableLength {
		r = append(r, fmt.Sprintf("over-long target (%d bytes > %d)", len(target), maxPortableLength))
	}
	if strings.Contains(target, ":") {
		r = append(r, "colon in target")
	}
	if strings.Contains(target, "\\") {
		r = append(r, "backslash in target")
	}
	if target[0] == '/' {
		r = append(r, "absolute target")
	} else if lexicalEscape(depth, target) {
		r = append(r, "target leaves the synchronization root under lexical POSIX resolution")
	}
	return r
}

// plainlyPortable tells whether the target is of the documented portable form
// without any doubt: non-empty components "<name>", "." or ".." separated by
// single slashes, at most 247 bytes, no colon, no backslash, never above the
// root. Such targets are expected to be accepted (this direction only guards
// against a check that is satisfied by rejecting everything and pins the
// length boundary; targets with empty components are deliberately left out).
func plainlyPortable(depth int, target string) bool {
	if len(rejectReasons(depth, target)) != 0 {
		return false
	}
	for _, c := range components(target) {
		if c == "" {
			return false
		}
	}
	return true
}

// hasDotDot is the non-trivial rule.
func hasDotDot(target string) bool {
	for _, c := range components(target) {
		if c == ".." {
			return true
		}
	}
	return false
}

// Judge compares an observation with the oracle. escapeOnly is set for the
// violation that the kernel confirmation applies to.
func Judge(c *Case, o *Obs) (violation string, escape bool) {
	if !o.Present {
		return "", false
	}
	reasons := rejectReasons(c.Depth, c.Target)
	if o.Accepted {
		if len(reasons) > 0 {
			esc := c.Target != "" && c.Target[0] != '/' && lexicalEscape(c.Depth, c.Target)
			return fmt.Sprintf("%s accepted link at depth %d with target %q although: %s",
				c.Mode, c.Depth, c.Target, strings.Join(reasons, "; ")), esc
		}
		if o.Reported != c.Target {
			return fmt.Sprintf("%s accepted link at depth %d with target %q but reports/creates target %q",
				c.Mode, c.Depth, c.Target, o.Reported), false
		}
		if (c.Mode == "transition" || c.Mode == "retarget") && !o.OnDisk {
			return fmt.Sprintf("transition reports link with target %q at depth %d as created but no link is on disk", c.Target, c.Depth), false
		}
		return "", false
	}
	// Rejected.
	if (c.Mode == "transition" || c.Mode == "retarget") && o.OnDisk {
		return fmt.Sprintf("transition reports link with target %q at depth %d as not created but a link with target %q is on disk",
			c.Target, c.Depth, o.Reported), false
	}
	if c.Mode == "scan" && o.Kind != "Problematic" {
		return fmt.Sprintf("scan yields kind %s for a rejected link with target %q at depth %d (expected a problematic entry)",
			o.Kind, c.Target, c.Depth), false
	}
	if plainlyPortable(c.Depth, c.Target) {
		return fmt.Sprintf("%s rejected the plainly portable target %q (%d bytes) at depth %d: %s",
			c.Mode, c.Target, len(c.Target), c.Depth, o.Problem), false
	}
	return "", false
}

// KernelConfirm asks the kernel where a link with the given target, located
// depth directories below a fresh root, resolves. It builds the directories the
// walk passes through, places a canary with unique content at the lexical end
// point, reads the canary back through the link and reports the canary's path
// and whether that path is outside the root.
func KernelConfirm(scratch string, depth int, target string) (desc string, outside bool, err error) {
	// Put the root deep enough that the walk cannot leave scratch.
	ups := strings.Count(target, "..") + 2
	dir := scratch
	for i := 0; i < ups; i++ {
		dir = filepath.Join(dir, fmt.Sprintf("outer%d", i))
	}
	root := filepath.Join(dir, "syncroot")
	linkDir := root
	for i := 1; i <= depth; i++ {
		linkDir = filepath.Join(linkDir, fmt.Sprintf("d%d", i))
	}
	if err := os.MkdirAll(linkDir, 0o755); err != nil {
		return "", false, err
	}
	comps := components(target)
	// The canary is a file at the end point when the last component is a name;
	// otherwise ("..", ".", trailing slash) the end point is a directory and
	// the canary is a file inside it.
	last := comps[len(comps)-1]
	finalIsName := last != "" && last != "." && last != ".."
	lastName := len(comps) - 1
	pos := linkDir
	for i, c := range comps {
		switch c {
		case "", ".":
		case "..":
			pos = filepath.Dir(pos)
		default:
			pos = filepath.Join(pos, c)
			if !(finalIsName && i == lastName) {
				if err := os.MkdirAll(pos, 0o755); err != nil {
					return "", false, err
				}
			}
		}
	}
	content := fmt.Sprintf("canary-%d-%q", depth, target)
	canary := pos
	through := filepath.Join(linkDir, "l")
	if !finalIsName {
		canary = filepath.Join(pos, "canary-file")
		through = through + "/canary-file"
	}
	if err := os.WriteFile(canary, []byte(content), 0o644); err != nil {
		return "", false, err
	}
	if err := os.Symlink(target, filepath.Join(linkDir, "l")); err != nil {
		return "", false, err
	}
	got, err := os.ReadFile(through)
	if err != nil {
		return "", false, fmt.Errorf("kernel could not resolve the link: %w", err)
	}
	if string(got) != content {
		return "", false, fmt.Errorf("kernel resolved the link to different content")
	}
	rel, _ := filepath.Rel(root, canary)
	outside = !strings.HasPrefix(canary, root+string(filepath.Separator))
	return fmt.Sprintf("kernel resolves <root>/%sl -> %q to %q (relative to the root: %q)",
		strings.Repeat("d/", depth), target, canary, rel), outside, nil
}
