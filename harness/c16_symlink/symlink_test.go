package c16_symlink

import (
	"context"
	"crypto/sha1"
	"fmt"
	"os"
	"path/filepath"
	"strings"
	"testing"

	"pgregory.net/rapid"

	"github.com/mutagen-io/mutagen/pkg/filesystem/behavior"
	"github.com/mutagen-io/mutagen/pkg/synchronization/core"
	mutagenignore "github.com/mutagen-io/mutagen/pkg/synchronization/core/ignore/mutagen"

	"verif/kit/ev"
)

const prop = "C16"

const rule = "non-trivial: the target contains a '..' component (so the depth-tracking walk decides the verdict)"

// noProvider is the staged-file provider handed to core.Transition; creating
// symbolic links never consults it.
type noProvider struct{}

func (noProvider) Provide(path string, digest []byte) (string, error) {
	return "", fmt.Errorf("no staged files in this check")
}

// layout creates <base>/root with a chain of depth directories d1/.../dk and
// returns the root, the on-disk link directory and the root-relative path
// prefix of entries in the link directory.
func layout(base string, depth int) (root, linkDir, prefix string, err error) {
	root = filepath.Join(base, "root")
	linkDir = root
	for i := 1; i <= depth; i++ {
		name := fmt.Sprintf("d%d", i)
		linkDir = filepath.Join(linkDir, name)
		prefix += name + "/"
	}
	return root, linkDir, prefix, os.MkdirAll(linkDir, 0o755)
}

// observeScan puts links with the given targets on disk in one directory depth
// levels below a fresh root, scans the root once in portable mode through
// core.Scan (called the way the local endpoint calls it) and reports what the
// snapshot says about each link.
func observeScan(base string, depth int, targets []string) ([]Obs, error) {
	root, linkDir, _, err := layout(base, depth)
	if err != nil {
		return nil, err
	}
	obs := make([]Obs, len(targets))
	for i, target := range targets {
		if err := os.Symlink(target, filepath.Join(linkDir, linkName(i))); err != nil {
			continue
		}
		// The kernel must hand back exactly what was stored.
		if back, err := os.Readlink(filepath.Join(linkDir, linkName(i))); err != nil || back != target {
			return nil, fmt.Errorf("filesystem does not round-trip target %q: %q, %v", target, back, err)
		}
		obs[i].Present = true
	}
	ignorer, err := mutagenignore.NewIgnorer(nil)
	if err != nil {
		return nil, err
	}
	snapshot, _, _, err := core.Scan(
		context.Background(), root,
		nil, nil,
		sha1.New(), nil,
		ignorer, nil,
		behavior.ProbeMode_ProbeModeProbe,
		core.SymbolicLinkMode_SymbolicLinkModePortable,
		core.PermissionsMode_PermissionsModePortable,
	)
	if err != nil {
		return nil, fmt.Errorf("scan failed: %w", err)
	}
	dir := snapshot.Content
	for i := 1; i <= depth && dir != nil; i++ {
		dir = dir.Contents[fmt.Sprintf("d%d", i)]
	}
	if dir == nil || dir.Kind != core.EntryKind_Directory {
		return nil, fmt.Errorf("scan did not report the link directory as a directory")
	}
	for i := range targets {
		if !obs[i].Present {
			continue
		}
		e := dir.Contents[linkName(i)]
		if e == nil {
			obs[i].Kind = "missing"
			continue
		}
		obs[i].Kind = kindName(e.Kind)
		obs[i].Accepted = e.Kind == core.EntryKind_SymbolicLink
		obs[i].Reported = e.Target
		obs[i].Problem = e.Problem
	}
	return obs, nil
}

// observeTransition asks core.Transition (portable mode, called the way the
// local endpoint calls it) to create one link per target in a directory depth
// levels below a fresh root and reports the results and what is on disk.
func observeTransition(base string, depth int, targets []string) ([]Obs, error) {
	return observeTransitionFrom(base, depth, targets, "")
}

// retargetOld is the (portable at any depth) target of the links that the
// "retarget" mode asks core.Transition to point elsewhere.
const retargetOld = "previous-target"

// observeTransitionFrom is observeTransition; with a non-empty old target the
// links already exist with that target and the transition retargets them.
func observeTransitionFrom(base string, depth int, targets []string, old string) ([]Obs, error) {
	root, linkDir, prefix, err := layout(base, depth)
	if err != nil {
		return nil, err
	}
	transitions := make([]*core.Change, len(targets))
	for i, target := range targets {
		transitions[i] = &core.Change{
			Path: prefix + linkName(i),
			New:  &core.Entry{Kind: core.EntryKind_SymbolicLink, Target: target},
		}
		if old != "" {
			os.Remove(filepath.Join(linkDir, linkName(i)))
			if err := os.Symlink(old, filepath.Join(linkDir, linkName(i))); err != nil {
				return nil, err
			}
			transitions[i].Old = &core.Entry{Kind: core.EntryKind_SymbolicLink, Target: old}
		}
	}
	results, problems, _ := core.Transition(
		context.Background(), root,
		transitions,
		&core.Cache{},
		core.SymbolicLinkMode_SymbolicLinkModePortable,
		0o600, 0o700, nil,
		false,
		noProvider{},
	)
	if len(results) != len(transitions) {
		return nil, fmt.Errorf("transition returned %d results for %d changes", len(results), len(transitions))
	}
	problemAt := make(map[string]string, len(problems))
	for _, p := range problems {
		problemAt[p.Path] = p.Error
	}
	obs := make([]Obs, len(targets))
	for i, target := range targets {
		o := &obs[i]
		o.Present = true
		r := results[i]
		switch {
		case r == nil:
			o.Kind = "not created"
		case old != "" && old != target && r.Kind == core.EntryKind_SymbolicLink && r.Target == old:
			o.Kind = "not retargeted"
		case r.Kind == core.EntryKind_SymbolicLink && r.Target == target:
			o.Kind = "created"
			o.Accepted = true
		default:
			o.Kind = "result " + kindName(r.Kind) + " target " + r.Target
			o.Accepted = true
		}
		if back, err := os.Readlink(filepath.Join(linkDir, linkName(i))); err == nil {
			// A link that still has the old target is not the requested link.
			if old == "" || old == target || back != old {
				o.OnDisk = true
				o.Reported = back
			}
		} else if _, lerr := os.Lstat(filepath.Join(linkDir, linkName(i))); lerr == nil {
			o.OnDisk = true
			o.Reported = "<not a link>"
		}
		o.Problem = problemAt[transitions[i].Path]
	}
	return obs, nil
}

func linkName(i int) string { return fmt.Sprintf("l%06d", i) }

func kindName(k core.EntryKind) string {
	switch k {
	case core.EntryKind_Directory:
		return "Directory"
	case core.EntryKind_File:
		return "File"
	case core.EntryKind_SymbolicLink:
		return "SymbolicLink"
	case core.EntryKind_Untracked:
		return "Untracked"
	case core.EntryKind_Problematic:
		return "Problematic"
	case core.EntryKind_PhantomDirectory:
		return "PhantomDirectory"
	}
	return fmt.Sprintf("Kind(%d)", int(k))
}

func observe(base, mode string, depth int, targets []string) ([]Obs, error) {
	if mode == "scan" {
		return observeScan(base, depth, targets)
	}
	if mode == "retarget" {
		// In batches: tens of thousands of pre-existing links in one
		// directory make every lookup in it slow.
		var all []Obs
		for start := 0; start < len(targets); start += 2000 {
			chunk := targets[start:min(start+2000, len(targets))]
			obs, err := observeTransitionFrom(base, depth, chunk, retargetOld)
			if err != nil {
				return nil, err
			}
			all = append(all, obs...)
			removeLinks(base, depth, len(chunk))
		}
		return all, nil
	}
	return observeTransition(base, depth, targets)
}

// removeLinks removes the links a previous observe call left in base so that
// the layout can be reused for the next case.
func removeLinks(base string, depth, n int) {
	_, linkDir, _, _ := layout(base, depth)
	for i := 0; i < n; i++ {
		os.Remove(filepath.Join(linkDir, linkName(i)))
	}
}

// confirm appends the kernel's opinion to an escape violation.
func confirm(tb testing.TB, c *Case, violation string) string {
	scratch, err := os.MkdirTemp("", "c16-confirm-")
	if err != nil {
		return violation + " [kernel confirmation not possible: " + err.Error() + "]"
	}
	defer os.RemoveAll(scratch)
	desc, outside, err := KernelConfirm(scratch, c.Depth, c.Target)
	switch {
	case err != nil:
		return violation + " [kernel confirmation not possible: " + err.Error() + "]"
	case outside:
		return violation + " [CONFIRMED: " + desc + " — a file outside the synchronization root]"
	default:
		return violation + " [NOT confirmed by the kernel: " + desc + "]"
	}
}

// judgeOne runs a single case against the real code on a fresh directory.
func judgeOne(tb testing.TB, c *Case) (violation string, nontrivial bool, obs Obs) {
	base, err := os.MkdirTemp("", "c16-case-")
	if err != nil {
		tb.Fatalf("temp dir: %v", err)
	}
	defer os.RemoveAll(base)
	return judgeIn(tb, base, c)
}

// judgeIn is judgeOne on a reusable base directory (one per mode and depth);
// the link is removed again afterwards.
func judgeIn(tb testing.TB, base string, c *Case) (violation string, nontrivial bool, obs Obs) {
	defer removeLinks(base, c.Depth, 1)
	o, err := observe(base, c.Mode, c.Depth, []string{c.Target})
	if err != nil {
		return "harness could not observe the case: " + err.Error(), false, Obs{}
	}
	v, esc := Judge(c, &o[0])
	if v != "" && esc {
		v = confirm(tb, c, v)
	}
	return v, hasDotDot(c.Target) && o[0].Present, o[0]
}

// tokenTargets enumerates every target built from 1..maxTokens tokens of
// {n, ., .., empty} joined by '/'.
func tokenTargets(maxTokens int) []string {
	tokens := []string{"n", ".", "..", ""}
	var out []string
	level := []string{}
	for _, t := range tokens {
		level = append(level, t)
	}
	// level holds all targets with exactly k tokens.
	for k := 1; k <= maxTokens; k++ {
		out = append(out, level...)
		if k == maxTokens {
			break
		}
		next := make([]string, 0, len(level)*len(tokens))
		for _, p := range level {
			for _, t := range tokens {
				next = append(next, p+"/"+t)
			}
		}
		level = next
	}
	return out
}

// canonicalKnown is the canonical instance of the known-finding class.
var canonicalKnown = Case{Mode: "scan", Depth: 0, Target: "x//../../secret"}

// reportKnownIfListed executes the canonical instance when the class is listed
// as known and prints the KNOWN-FINDING line if it still fails.
func reportKnownIfListed(t *testing.T, rec *ev.Recorder) (ev.Finding, bool) {
	f, known := ev.KnownClass(prop, ClassEmptyComponent)
	if !known {
		return f, false
	}
	c := canonicalKnown
	v, _, _ := judgeOne(t, &c)
	rec.Eval()
	if v != "" {
		rec.ReportKnown(f)
		rec.Note("known_canonical_instance", v)
	} else {
		rec.Note("known_canonical_instance", "no longer fails: "+fmt.Sprintf("%+v", c))
	}
	return f, true
}

func TestExhaustiveTokens(t *testing.T) {
	if ev.ReplayPath() != "" {
		t.Skip("replaying")
	}
	maxTokens := ev.Pick(6, 8)
	maxDepth := ev.Pick(3, 4)
	rec := ev.New(t, prop, "exhaustive-token-targets",
		"every target of 1.."+fmt.Sprint(maxTokens)+" tokens from {n, ., .., empty} joined by '/', at link depths 0.."+fmt.Sprint(maxDepth)+
			", once as a link on disk seen by core.Scan once as a link core.Transition is asked to create and once as the new target of an existing link core.Transition is asked to retarget (portable mode, real temp directory); "+rule)
	rec.SetExhaustive(fmt.Sprintf("tokens {n,.,..,empty}, 1..%d tokens, depths 0..%d, modes scan+transition+retarget", maxTokens, maxDepth))
	_, known := reportKnownIfListed(t, rec)
	all := tokenTargets(maxTokens)
	rec.Note("targets_per_depth_and_mode", len(all))
	idx := 0
	for depth := 0; depth <= maxDepth; depth++ {
		for _, mode := range []string{"scan", "transition", "retarget"} {
			idx++
			if (idx-1)%ev.Shards() != ev.Shard() {
				continue
			}
			targets := all
			if known {
				targets = make([]string, 0, len(all))
				for _, tg := range all {
					if InEmptyComponentClass(&Case{Mode: mode, Depth: depth, Target: tg}) {
						rec.Excluded(ClassEmptyComponent)
						continue
					}
					targets = append(targets, tg)
				}
			}
			base := t.TempDir()
			obs, err := observe(base, mode, depth, targets)
			if err != nil {
				t.Fatalf("harness: %s depth %d: %v", mode, depth, err)
			}
			var firstViolation string
			var firstCase *Case
			var nts uint64
			for i, tg := range targets {
				c := &Case{Mode: mode, Depth: depth, Target: tg}
				o := &obs[i]
				if !o.Present {
					rec.Class("not-creatable-on-disk")
					continue
				}
				rec.Eval()
				if hasDotDot(tg) {
					nts++
				}
				switch {
				case o.Accepted:
					rec.Class(mode + "/accepted")
				default:
					rec.Class(mode + "/rejected")
				}
				if rejectReasons(depth, tg) != nil {
					rec.Class("oracle/must-reject")
					if tg != "" && tg[0] != '/' {
						rec.Class("oracle/must-reject-escape")
					}
				}
				if strings.Contains(tg, "//") || strings.HasSuffix(tg, "/") {
					rec.Class("has-empty-component")
				}
				if v, esc := Judge(c, o); v != "" && (firstCase == nil || len(tg) < len(firstCase.Target)) {
					if esc {
						v = confirm(t, c, v)
					}
					firstViolation, firstCase = v, c
				}
				if hasDotDot(tg) && o.Accepted && i%977 == 0 && rec.WantSample() {
					rec.Sample(map[string]any{"case": c, "observed": o.Kind})
				}
			}
			rec.NonTrivialDistinct(nts)
			os.RemoveAll(base)
			if firstCase != nil {
				ev.FailTB(t, rec, firstCase, "%s", firstViolation)
			}
		}
	}
}

// randomTarget draws a target from components that include the troublesome
// ones (colon, backslash, empty, multi-byte, long) or a target tuned to a
// length around the 247-byte boundary.
func randomTarget(rt *rapid.T) string {
	pool := []string{
		"n", "x", "name", "n", "x", "é", "a b", "...", "..x", ".x", "~", "-", "nul",
		"..", "..", "..", "..", "..", "..", "..", "..",
		".", ".", ".",
		"", "", "", "", "",
		"c:", "a:b", ":", "a\\b", "\\", "..\\..",
	}
	var target string
	switch rapid.IntRange(0, 9).Draw(rt, "shape") {
	case 0, 1, 2:
		// Around the length boundary: a plain relative target padded to an
		// exact byte length.
		want := rapid.IntRange(240, 256).Draw(rt, "length")
		unit := rapid.SampledFrom([]string{"a/", "ab/", "é/", "./", "sub/../"}).Draw(rt, "unit")
		var b strings.Builder
		if rapid.IntRange(0, 3).Draw(rt, "updown") == 0 {
			b.WriteString("n/../")
		}
		for b.Len()+len(unit) < want {
			b.WriteString(unit)
		}
		for b.Len() < want {
			b.WriteString("z")
		}
		target = b.String()
	case 3:
		// One very long single name.
		target = strings.Repeat("q", rapid.IntRange(240, 255).Draw(rt, "length"))
	default:
		n := rapid.IntRange(1, 9).Draw(rt, "components")
		comps := make([]string, n)
		for i := range comps {
			comps[i] = rapid.SampledFrom(pool).Draw(rt, "component")
		}
		target = strings.Join(comps, "/")
		if rapid.IntRange(0, 7).Draw(rt, "absolute") == 0 {
			target = "/" + target
		}
	}
	return target
}

func TestRandomTargets(t *testing.T) {
	if ev.ReplayPath() != "" {
		t.Skip("replaying")
	}
	rec := ev.New(t, prop, "random-targets",
		"rapid: targets of 1..9 components drawn from names, '.', '..', empty, colon-, backslash- and multi-byte-containing names, optional leading '/', plus targets padded to 240..256 bytes; link depth 0..3; mode scan, transition (creation) or retarget (existing link pointed elsewhere) on a real temp directory; "+rule)
	_, known := reportKnownIfListed(t, rec)
	bases := map[string]string{}
	for _, m := range []string{"scan", "transition", "retarget"} {
		for d := 0; d <= 3; d++ {
			bases[fmt.Sprint(m, d)] = t.TempDir()
		}
	}
	ev.Check(t, rec, 5000, 30000, func(rt *rapid.T) {
		c := &Case{
			Mode:   rapid.SampledFrom([]string{"scan", "transition", "retarget"}).Draw(rt, "mode"),
			Depth:  rapid.IntRange(0, 3).Draw(rt, "depth"),
			Target: randomTarget(rt),
		}
		if known && InEmptyComponentClass(c) {
			rec.Excluded(ClassEmptyComponent)
			return
		}
		v, nt, o := judgeIn(t, bases[fmt.Sprint(c.Mode, c.Depth)], c)
		if !o.Present && v == "" {
			rec.Class("not-creatable-on-disk")
			return
		}
		rec.Eval()
		if v != "" {
			ev.Failf(rt, rec, c, "%s", v)
		}
		if o.Accepted {
			rec.Class(c.Mode + "/accepted")
		} else {
			rec.Class(c.Mode + "/rejected")
		}
		for _, r := range rejectReasons(c.Depth, c.Target) {
			rec.Class("oracle/" + strings.SplitN(r, " (", 2)[0])
		}
		if l := len(c.Target); l >= 246 && l <= 249 {
			rec.Class(fmt.Sprintf("length/%d", l))
		}
		if nt {
			rec.Class("nontrivial")
			rec.NonTrivial(ev.Hash(c.Mode, fmt.Sprint(c.Depth), c.Target))
			if o.Accepted && rec.WantSample() {
				rec.Sample(map[string]any{"case": c, "observed": o.Kind})
			}
		}
	})
}

func TestReplay(t *testing.T) {
	if ev.ReplayPath() == "" {
		t.Skip("no replay requested")
	}
	var c Case
	if _, err := ev.LoadReplay(ev.ReplayPath(), &c); err != nil {
		t.Fatalf("cannot load replay: %v", err)
	}
	rec := ev.New(t, prop, "replay", "replay of a saved case")
	v, _, _ := judgeOne(t, &c)
	rec.Eval()
	if v != "" {
		ev.FailTB(t, rec, &c, "%s", v)
	}
}
