package c17_escape

import (
	"os"
	"testing"
)

// TestMain keeps the endpoints' caches and staging areas out of the user's
// real Mutagen data directory.
func TestMain(m *testing.M) {
	dir, err := os.MkdirTemp("", "verif-datadir-")
	if err != nil {
		os.Exit(2)
	}
	os.Setenv("MUTAGEN_DATA_DIRECTORY", dir)
	code := m.Run()
	os.RemoveAll(dir)
	os.Exit(code)
}
