// Package c17_escape decides C17: synchronization never reaches outside the
// root through in-root symbolic links.
//
// The strongest adversary is used: after the scan, a directory (or file) of
// the root is MOVED outside the root and replaced by a symbolic link to its new
// place. Every inode, size, mode and modification time then still matches what
// the scan recorded, so only refusing to follow links protects the outside
// tree. Raw inotify watches on the outside directories record any open, read,
// write, attribute change, creation or deletion there.
package c17_escape

import (
	"context"
	"crypto/sha1"
	"errors"
	"fmt"
	"io"
	"os"
	"path/filepath"
	"sort"
	"strings"
	"testing"
	"unsafe"

	"golang.org/x/sys/unix"
	"google.golang.org/protobuf/proto"
	"pgregory.net/rapid"

	"github.com/mutagen-io/mutagen/pkg/filesystem"
	"github.com/mutagen-io/mutagen/pkg/filesystem/behavior"
	"github.com/mutagen-io/mutagen/pkg/identifier"
	"github.com/mutagen-io/mutagen/pkg/logging"
	"github.com/mutagen-io/mutagen/pkg/synchronization"
	"github.com/mutagen-io/mutagen/pkg/synchronization/endpoint/local"
	"github.com/mutagen-io/mutagen/pkg/synchronization/core"
	mutagenignore "github.com/mutagen-io/mutagen/pkg/synchronization/core/ignore/mutagen"
	"github.com/mutagen-io/mutagen/pkg/synchronization/rsync"

	"verif/kit/disk"
	"verif/kit/ev"
	"verif/kit/trans"
	"verif/kit/tree"
)

const prop = "C17"

// Op is one operation performed after the swap.
type Op struct {
	Kind string `json:"kind"` // transition-delete, transition-create, transition-swap, transition-delete-dir, transmit, receive, open, scan
	Path string `json:"path"` // root-relative path (crossing or ending at the link)
	Mode int32  `json:"symlink_mode,omitempty"`
}

// Case describes the root, what is swapped for a link, and the operations.
type Case struct {
	Prefix   []string   `json:"prefix"`    // directories above the victim
	Victim   *disk.Node `json:"victim"`    // directory (or file) that is moved outside and replaced by a link
	Siblings *disk.Node `json:"siblings"`  // other root content
	Swap     bool       `json:"swap"`      // false: the link exists from the start (scan sees it)
	Absolute bool       `json:"absolute"`  // link target absolute instead of relative
	Ops      []*Op      `json:"ops"`
	// Late selects the second scenario: the victim directory is REMOVED and
	// replaced by a link to another outside directory in the middle of one
	// Opener's / one Transmit's lifetime (after a first file below it was
	// opened), and a path that only exists behind the link is requested next.
	// "transition": the swap happens in the middle of one core.Transition
	// call (when its first staged file is requested), at a directory two
	// levels above the paths the following changes of the same call name.
	// "staging-link": a local endpoint staging inside its root finds the name
	// of its staging directory occupied by a link to an outside directory.
	Late string `json:"late,omitempty"` // "", opener, transmit, transition, staging-link
}

// lateProvider hands out freshly staged files and performs the swap when the
// first one is requested.
type lateProvider struct {
	dir   string
	swap  func()
	calls int
}

func (p *lateProvider) Provide(path string, digest []byte) (string, error) {
	if p.calls == 0 {
		p.swap()
	}
	p.calls++
	name := filepath.Join(p.dir, fmt.Sprintf("staged%d", p.calls))
	if err := os.WriteFile(name, lateContent, 0o600); err != nil {
		return "", err
	}
	return name, nil
}

var lateContent = []byte("content staged for the transition")

type watcher struct {
	fd     int
	byWD   map[int32]string
	events []string
}

func newWatcher(dirs []string) (*watcher, error) {
	fd, err := unix.InotifyInit1(unix.IN_NONBLOCK | unix.IN_CLOEXEC)
	if err != nil {
		return nil, err
	}
	w := &watcher{fd: fd, byWD: map[int32]string{}}
	for _, d := range dirs {
		wd, err := unix.InotifyAddWatch(fd, d, unix.IN_ALL_EVENTS)
		if err != nil {
			unix.Close(fd)
			return nil, err
		}
		w.byWD[int32(wd)] = d
	}
	return w, nil
}

func (w *watcher) drain() []string {
	buf := make([]byte, 64*1024)
	for {
		n, err := unix.Read(w.fd, buf)
		if n <= 0 || err != nil {
			break
		}
		for off := 0; off+unix.SizeofInotifyEvent <= n; {
			e := (*unix.InotifyEvent)(unsafe.Pointer(&buf[off]))
			name := ""
			if e.Len > 0 {
				name = strings.TrimRight(string(buf[off+unix.SizeofInotifyEvent:off+unix.SizeofInotifyEvent+int(e.Len)]), "\x00")
			}
			w.events = append(w.events, fmt.Sprintf("%s/%s mask=%#x", filepath.Base(w.byWD[e.Wd]), name, e.Mask))
			off += unix.SizeofInotifyEvent + int(e.Len)
		}
	}
	out := w.events
	w.events = nil
	return out
}

func (w *watcher) close() { unix.Close(w.fd) }

func dirsOf(path string) []string {
	var out []string
	filepath.Walk(path, func(p string, fi os.FileInfo, err error) error {
		if err == nil && fi.IsDir() {
			out = append(out, p)
		}
		return nil
	})
	return out
}

type listEncoder struct{ list []*rsync.Transmission }

func (e *listEncoder) Encode(t *rsync.Transmission) error {
	e.list = append(e.list, proto.Clone(t).(*rsync.Transmission))
	return nil
}
func (e *listEncoder) Finalize() error { return nil }

type memSinker struct{ data map[string][]byte }
type memSink struct {
	s    *memSinker
	path string
	buf  []byte
}

func (s *memSinker) Sink(path string) (io.WriteCloser, error) { return &memSink{s: s, path: path}, nil }
func (m *memSink) Write(p []byte) (int, error)                { m.buf = append(m.buf, p...); return len(p), nil }
func (m *memSink) Close() error                               { m.s.data[m.path] = m.buf; return nil }

type listDecoder struct {
	list []*rsync.Transmission
	i    int
}

func (d *listDecoder) Decode(t *rsync.Transmission) error {
	if d.i >= len(d.list) {
		return errors.New("end")
	}
	proto.Reset(t)
	proto.Merge(t, d.list[d.i])
	d.i++
	return nil
}
func (d *listDecoder) Finalize() error { return nil }

// swapEncoder performs the late swap when the first file's transmission is done.
type swapEncoder struct {
	listEncoder
	swap func()
	done bool
}

func (e *swapEncoder) Encode(t *rsync.Transmission) error {
	e.listEncoder.Encode(t)
	if t.Done && !e.done {
		e.done = true
		e.swap()
	}
	return nil
}

// judgeLate runs the late-swap scenario.
func judgeLate(c *Case, dir string) (violation string, nontrivial bool, classes []string) {
	root, outside := filepath.Join(dir, "root"), filepath.Join(dir, "outside")
	other := filepath.Join(outside, "other")
	victimRel := strings.Join(append(append([]string{}, c.Prefix...), "victim"), "/")
	victimFull := filepath.Join(root, filepath.FromSlash(victimRel))
	os.MkdirAll(victimFull, 0o755)
	os.WriteFile(filepath.Join(victimFull, "present"), []byte("inside the root"), 0o644)
	os.MkdirAll(other, 0o755)
	secret := []byte("SECRET content outside the root")
	os.WriteFile(filepath.Join(other, "fresh"), secret, 0o644)
	os.WriteFile(filepath.Join(other, "present"), secret, 0o644)
	if c.Late == "transition" {
		os.MkdirAll(filepath.Join(victimFull, "inner"), 0o755)
		os.WriteFile(filepath.Join(victimFull, "inner", "present"), secret, 0o644)
		os.MkdirAll(filepath.Join(other, "inner"), 0o755)
		os.WriteFile(filepath.Join(other, "inner", "present"), secret, 0o644)
	}
	defer disk.MakeWritable(dir)
	before, _ := disk.Observe(outside)
	w, err := newWatcher(dirsOf(outside))
	if err != nil {
		ev.Inconclusive("inotify unavailable: %v", err)
		return "", false, nil
	}
	defer w.close()
	swap := func() {
		os.RemoveAll(victimFull)
		target := other
		if !c.Absolute {
			target, _ = filepath.Rel(filepath.Dir(victimFull), other)
		}
		os.Symlink(target, victimFull)
	}
	leaked := false
	detail := ""
	switch c.Late {
	case "opener":
		o := filesystem.NewOpener(root)
		if f, _, err := o.OpenFile(victimRel + "/present"); err == nil {
			f.Close()
		}
		swap()
		for _, name := range []string{"fresh", "present"} {
			if f, _, err := o.OpenFile(victimRel + "/" + name); err == nil {
				data, _ := io.ReadAll(f)
				f.Close()
				if strings.Contains(string(data), "SECRET") {
					leaked, detail = true, "Opener.OpenFile("+victimRel+"/"+name+") returned outside content"
				}
			}
		}
		o.Close()
	case "transmit":
		enc := &swapEncoder{swap: swap}
		paths := []string{victimRel + "/present", victimRel + "/fresh", victimRel + "/present"}
		rsync.Transmit(root, paths, []*rsync.Signature{{}, {}, {}}, rsync.NewEncodingReceiver(enc))
		for _, tr := range enc.list {
			if tr.Operation != nil && strings.Contains(string(tr.Operation.Data), "SECRET") {
				leaked, detail = true, "rsync.Transmit sent outside content"
			}
		}
	case "transition":
		// The changes of one call share the parent victim/inner; the outside
		// directory the link leads to has an "inner" as well.
		ignorer, _ := mutagenignore.NewIgnorer(nil)
		snap, cache, _, err := core.Scan(context.Background(), root, nil, nil, sha1.New(), nil, ignorer, nil,
			behavior.ProbeMode_ProbeModeProbe, core.SymbolicLinkMode_SymbolicLinkModePortable, core.PermissionsMode_PermissionsModePortable)
		if err != nil {
			return "", false, nil
		}
		staging := filepath.Join(dir, "staging")
		os.MkdirAll(staging, 0o700)
		digest := sha1.Sum(lateContent)
		file := &core.Entry{Kind: core.EntryKind_File, Digest: digest[:]}
		inner := victimRel + "/inner"
		changes := []*core.Change{
			{Path: inner + "/first", New: file},
			{Path: inner + "/second", New: file},
			{Path: inner + "/present", Old: tree.At(snap.Content, inner+"/present")},
			{Path: inner + "/newdir", New: tree.D(map[string]*core.Entry{"f": file})},
			{Path: inner + "/newlink", New: tree.L("present")},
			{Path: inner + "/third", New: file},
		}
		core.Transition(context.Background(), root, changes, cache,
			core.SymbolicLinkMode_SymbolicLinkModePortable, 0o600, 0o700, nil, false,
			&lateProvider{dir: staging, swap: swap})
	case "staging-link":
		// A local endpoint that stages inside its root: the name of its
		// staging directory is occupied by a link to the outside directory
		// when files are to be staged.
		id, err := identifier.New(identifier.PrefixSynchronization)
		if err != nil {
			return "", false, nil
		}
		cfg := &synchronization.Configuration{
			SynchronizationMode: core.SynchronizationMode_SynchronizationModeTwoWaySafe,
			WatchMode:           synchronization.WatchMode_WatchModeNoWatch,
			StageMode:           synchronization.StageMode_StageModeInternal,
		}
		alpha := c.Absolute
		ep, err := local.NewEndpoint(logging.NewLogger(logging.LevelDisabled, os.Stderr), root, id, synchronization.Version_Version1, cfg, alpha)
		if err != nil {
			return "", false, nil
		}
		defer ep.Shutdown()
		if _, err, _ := ep.Scan(context.Background(), nil, true); err != nil {
			return "", false, nil
		}
		name := map[bool]string{true: "alpha", false: "beta"}[alpha]
		stagingName := filesystem.TemporaryNamePrefix + "staging-" + id + "-" + name
		os.Symlink(other, filepath.Join(root, stagingName))
		data := []byte("content to be staged")
		digest := sha1.Sum(data)
		paths := []string{victimRel + "/incoming"}
		filtered, sigs, receiver, err := ep.Stage(paths, [][]byte{digest[:]})
		if err == nil && len(filtered) > 0 && receiver != nil {
			src := filepath.Join(dir, "source")
			os.MkdirAll(filepath.Join(src, filepath.FromSlash(victimRel)), 0o755)
			os.WriteFile(filepath.Join(src, filepath.FromSlash(paths[0])), data, 0o644)
			rsync.Transmit(src, filtered, sigs, receiver)
			ep.Transition(context.Background(), []*core.Change{{Path: paths[0], New: &core.Entry{Kind: core.EntryKind_File, Digest: digest[:]}}})
		}
	default:
		return "", false, nil
	}
	classes = append(classes, "late-swap/"+c.Late)
	events := w.drain()
	after, _ := disk.Observe(outside)
	if leaked {
		return fmt.Sprintf("late swap (%s): %s", c.Late, detail), true, classes
	}
	if len(events) > 0 {
		return fmt.Sprintf("late swap (%s): activity outside the root through the link at %q: %v", c.Late, victimRel, events), true, classes
	}
	if before.Render(true) != after.Render(true) {
		return fmt.Sprintf("late swap (%s): the tree outside the root changed", c.Late), true, classes
	}
	return "", true, classes
}

func judge(c *Case, dir string) (violation string, nontrivial bool, classes []string) {
	if c.Late != "" {
		return judgeLate(c, dir)
	}
	root, outside := filepath.Join(dir, "root"), filepath.Join(dir, "outside")
	rootNode := c.Siblings.Clone()
	if rootNode == nil || rootNode.Kind != disk.Dir {
		rootNode = &disk.Node{Kind: disk.Dir, Children: map[string]*disk.Node{}}
	}
	if rootNode.Children == nil {
		rootNode.Children = map[string]*disk.Node{}
	}
	// Place the victim below the prefix directories.
	cur := rootNode
	for _, p := range c.Prefix {
		n := &disk.Node{Kind: disk.Dir, Perm: 0o755, Children: map[string]*disk.Node{}}
		cur.Children[p] = n
		cur = n
	}
	cur.Children["victim"] = c.Victim.Clone()
	if err := disk.Build(root, rootNode); err != nil {
		return "", false, nil
	}
	defer disk.MakeWritable(dir)
	os.Mkdir(outside, 0o755)
	victimRel := strings.Join(append(append([]string{}, c.Prefix...), "victim"), "/")
	victimFull := filepath.Join(root, filepath.FromSlash(victimRel))
	moved := filepath.Join(outside, "moved")
	linkTarget := moved
	if !c.Absolute {
		linkTarget, _ = filepath.Rel(filepath.Dir(victimFull), moved)
	}
	swap := func() bool {
		if err := os.Rename(victimFull, moved); err != nil {
			return false
		}
		return os.Symlink(linkTarget, victimFull) == nil
	}
	if !c.Swap {
		if !swap() {
			return "", false, nil
		}
	}
	ign, _ := mutagenignore.NewIgnorer(nil)
	scan := func(mode core.SymbolicLinkMode) (*core.Snapshot, *core.Cache, error) {
		s, ca, _, err := core.Scan(context.Background(), root, nil, nil, sha1.New(), nil, ign, nil,
			behavior.ProbeMode_ProbeModeProbe, mode, core.PermissionsMode_PermissionsModePortable)
		return s, ca, err
	}
	snap, cache, err := scan(core.SymbolicLinkMode_SymbolicLinkModePortable)
	if err != nil {
		return fmt.Sprintf("scan fails: %v", err), false, nil
	}
	if c.Swap {
		if !swap() {
			return "", false, nil
		}
	}
	// From here on the outside tree is watched.
	before, _ := disk.Observe(outside)
	w, err := newWatcher(dirsOf(outside))
	if err != nil {
		ev.Inconclusive("inotify unavailable: %v", err)
		return "", false, nil
	}
	defer w.close()

	staging := filepath.Join(dir, "staging")
	os.MkdirAll(staging, 0o700)
	for oi, op := range c.Ops {
		if !tree.IsPrefix(victimRel, op.Path) {
			continue
		}
		nontrivial = true
		classes = append(classes, op.Kind)
		failed := true
		var detail string
		old := tree.At(snap.Content, op.Path)
		w2 := &trans.World{Dir: dir, Root: root, Snapshot: snap, Cache: cache}
		runTransition := func(ch *core.Change) {
			prov := &trans.Provider{Dir: staging}
			prov.Stage([]*core.Change{ch})
			results, problems, _ := w2.Transition(context.Background(), []*core.Change{ch}, trans.Config{FileMode: 0o644, DirMode: 0o755}, prov)
			failed = len(results) == 1 && !tree.DeepEqual(results[0], ch.New) && len(problems) > 0
			if ch.Old == nil && ch.New == nil {
				failed = true
			}
			detail = fmt.Sprintf("result %s", tree.Render(results[0]))
		}
		switch op.Kind {
		case "transition-delete":
			if old == nil {
				continue
			}
			runTransition(&core.Change{Path: op.Path, Old: old})
		case "transition-create":
			if old != nil {
				continue
			}
			runTransition(&core.Change{Path: op.Path, New: &core.Entry{Kind: tree.KFile, Digest: trans.DigestFor(101)}})
		case "transition-create-dir":
			if old != nil {
				continue
			}
			runTransition(&core.Change{Path: op.Path, New: tree.D(map[string]*core.Entry{"n": tree.L("a")})})
		case "transition-swap":
			if old == nil || old.Kind != tree.KFile {
				continue
			}
			runTransition(&core.Change{Path: op.Path, Old: old, New: &core.Entry{Kind: tree.KFile, Digest: trans.DigestFor(102), Executable: !old.Executable}})
		case "transition-chmod":
			if old == nil || old.Kind != tree.KFile {
				continue
			}
			runTransition(&core.Change{Path: op.Path, Old: old, New: &core.Entry{Kind: tree.KFile, Digest: old.Digest, Executable: !old.Executable}})
		case "transmit":
			enc := &listEncoder{}
			rsync.Transmit(root, []string{op.Path}, []*rsync.Signature{{}}, rsync.NewEncodingReceiver(enc))
			failed = true
			for _, tr := range enc.list {
				if tr.Operation != nil && len(tr.Operation.Data) > 0 {
					failed = false
					detail = fmt.Sprintf("transmitted %d bytes of file data", len(tr.Operation.Data))
				}
			}
		case "receive":
			// A receiver whose base file would be read through the link: a
			// block operation copies base content into the staged file.
			full := filepath.Join(moved, strings.TrimPrefix(strings.TrimPrefix(op.Path, victimRel), "/"))
			data, rerr := os.ReadFile(full)
			w.drain() // the read above is the test's own
			if rerr != nil || len(data) == 0 {
				continue
			}
			sig := &rsync.Signature{BlockSize: uint64(len(data)), LastBlockSize: uint64(len(data)), Hashes: []*rsync.BlockHash{{Weak: 1, Strong: make([]byte, 20)}}}
			sinker := &memSinker{data: map[string][]byte{}}
			recv, nerr := rsync.NewReceiver(root, []string{op.Path}, []*rsync.Signature{sig}, sinker)
			if nerr != nil {
				continue
			}
			rsync.DecodeToReceiver(&listDecoder{list: []*rsync.Transmission{{Operation: &rsync.Operation{Start: 0, Count: 1}}, {Done: true}}}, 1, recv)
			failed = len(sinker.data[op.Path]) == 0
			detail = fmt.Sprintf("staged %d bytes copied from the base", len(sinker.data[op.Path]))
		case "open":
			o := filesystem.NewOpener(root)
			f, _, oerr := o.OpenFile(op.Path)
			failed = oerr != nil
			if f != nil {
				f.Close()
			}
			o.Close()
			detail = "opened"
		case "scan":
			s2, _, serr := scan(core.SymbolicLinkMode(op.Mode))
			failed = true
			if serr == nil {
				if e := tree.At(s2.Content, victimRel); e != nil && (e.Kind == tree.KDir || e.Kind == tree.KFile) {
					failed = false
					detail = "the scan lists the link as " + tree.Render(e)
				}
			}
		default:
			continue
		}
		events := w.drain()
		after, _ := disk.Observe(outside)
		w.drain() // the observation itself
		if len(events) > 0 {
			return fmt.Sprintf("op %d (%s %q): activity outside the root through the link at %q: %v", oi, op.Kind, op.Path, victimRel, events), true, classes
		}
		if before.Render(true) != after.Render(true) {
			return fmt.Sprintf("op %d (%s %q): the tree outside the root changed:\n before %s\n after  %s", oi, op.Kind, op.Path, before.Render(true), after.Render(true)), true, classes
		}
		if !failed {
			return fmt.Sprintf("op %d (%s %q) crosses the link at %q and did not fail: %s", oi, op.Kind, op.Path, victimRel, detail), true, classes
		}
	}
	return "", nontrivial, classes
}

func drawCase(rt *rapid.T) *Case {
	g := disk.Gen{MaxDepth: 2, MaxFan: 4, Names: []string{"a", "b", "c", "sub"}, Links: false}
	c := &Case{Swap: rapid.IntRange(0, 3).Draw(rt, "swap") > 0, Absolute: rapid.Bool().Draw(rt, "absolute")}
	if rapid.IntRange(0, 4).Draw(rt, "late") == 0 {
		c.Late = rapid.SampledFrom([]string{"opener", "transmit", "transition", "transition", "staging-link"}).Draw(rt, "late.kind")
		for n := rapid.IntRange(0, 2).Draw(rt, "prefix"); n > 0; n-- {
			c.Prefix = append(c.Prefix, rapid.SampledFrom([]string{"p", "q"}).Draw(rt, "prefix.name"))
		}
		c.Victim = &disk.Node{Kind: disk.Dir}
		return c
	}
	for n := rapid.IntRange(0, 2).Draw(rt, "prefix"); n > 0; n-- {
		c.Prefix = append(c.Prefix, rapid.SampledFrom([]string{"p", "q"}).Draw(rt, "prefix.name"))
	}
	if rapid.IntRange(0, 3).Draw(rt, "victim.file") == 0 {
		c.Victim = g.File(rt, "victim")
		if len(c.Victim.Data) == 0 {
			c.Victim.Data = []byte("secret")
		}
	} else {
		c.Victim = g.Dir(rt, "victim", 2)
	}
	c.Siblings = g.Dir(rt, "siblings", 1)
	victimRel := strings.Join(append(append([]string{}, c.Prefix...), "victim"), "/")
	var inside []string
	var walk func(n *disk.Node, p string)
	walk = func(n *disk.Node, p string) {
		inside = append(inside, p)
		for _, name := range n.Names() {
			walk(n.Children[name], p+"/"+name)
		}
	}
	walk(c.Victim, victimRel)
	sort.Strings(inside)
	kinds := []string{"transition-delete", "transition-create", "transition-create-dir", "transition-swap", "transition-chmod", "transmit", "receive", "open", "scan"}
	for n := rapid.IntRange(1, 5).Draw(rt, "ops"); n > 0; n-- {
		op := &Op{Kind: rapid.SampledFrom(kinds).Draw(rt, "op.kind")}
		op.Path = rapid.SampledFrom(inside).Draw(rt, "op.path")
		if strings.HasPrefix(op.Kind, "transition-create") {
			op.Path += "/" + rapid.SampledFrom([]string{"new1", "new2"}).Draw(rt, "op.new")
		}
		if op.Kind == "scan" {
			op.Mode = int32(rapid.SampledFrom([]core.SymbolicLinkMode{core.SymbolicLinkMode_SymbolicLinkModePortable, core.SymbolicLinkMode_SymbolicLinkModeIgnore, core.SymbolicLinkMode_SymbolicLinkModePOSIXRaw}).Draw(rt, "op.mode"))
		}
		c.Ops = append(c.Ops, op)
	}
	return c
}

func sample(c *Case) map[string]any {
	var ops []string
	for _, o := range c.Ops {
		ops = append(ops, o.Kind+" "+o.Path)
	}
	if c.Late != "" {
		return map[string]any{"scenario": "directory removed and replaced by a link to another outside directory in the middle of one " + c.Late + " lifetime", "victim_at": strings.Join(append(append([]string{}, c.Prefix...), "victim"), "/"), "absolute_target": c.Absolute}
	}
	return map[string]any{"victim_at": strings.Join(append(append([]string{}, c.Prefix...), "victim"), "/"), "victim": c.Victim.Render(false), "swapped_after_scan": c.Swap, "absolute_target": c.Absolute, "ops": ops}
}

func TestEscape(t *testing.T) {
	if ev.ReplayPath() != "" {
		t.Skip()
	}
	rec := ev.New(t, prop, "moved-outside-and-linked", "rapid: a directory or file at depth 0-2 of a random root is moved outside the root and replaced by a (relative or absolute) symbolic link to its new place, after the scan (3 of 4 cases; all recorded metadata still matches) or before it; then 1-5 operations on paths at or below the link: transitions (delete, create file, create directory, swap content, chmod), rsync.Transmit, an rsync receiver with a block operation on that base, Opener.OpenFile, scans in all three symlink modes; raw inotify (IN_ALL_EVENTS) on every outside directory must stay silent, the outside tree must be identical (lstat identity walk) and the operation must fail; non-trivial: >= 1 operation on a path crossing the link")
	base := t.TempDir()
	n := 0
	ev.Check(t, rec, 1500, 20000, func(rt *rapid.T) {
		c := drawCase(rt)
		n++
		dir := filepath.Join(base, fmt.Sprintf("c%d", n))
		os.Mkdir(dir, 0o700)
		defer os.RemoveAll(dir)
		v, nt, classes := judge(c, dir)
		rec.Eval()
		if v != "" {
			ev.Failf(rt, rec, c, "%s", v)
		}
		for _, cl := range classes {
			rec.Class(cl)
		}
		if nt {
			rec.NonTrivial(ev.Hash(fmt.Sprint(sample(c))))
			if rec.WantSample() {
				rec.Sample(sample(c))
			}
		}
	})
}

func TestReplay(t *testing.T) {
	if ev.ReplayPath() == "" {
		t.Skip()
	}
	var c Case
	if _, err := ev.LoadReplay(ev.ReplayPath(), &c); err != nil {
		t.Fatal(err)
	}
	rec := ev.New(t, prop, "replay", "replay of a saved case")
	rec.Eval()
	if v, _, _ := judge(&c, t.TempDir()); v != "" {
		ev.FailTB(t, rec, &c, "%s", v)
	}
}
