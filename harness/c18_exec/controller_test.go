package c18_exec

// Controller part of C18 (and of the pipeline model the tree-level checks of
// C01-C06 and C18 trust): the real synchronization controller is fed generated
// snapshots by scripted endpoints, one of which may report that it does not
// preserve executability, under Mutagen or Docker ignore syntax (phantom
// directories); the transitions it sends to the endpoints must be the ones the
// documented pipeline yields: reify phantom directories, then propagate
// executability towards the side that does not preserve it, then reconcile.

import (
	"fmt"
	"os"
	"path/filepath"
	"sort"
	"strings"
	"sync"
	"testing"
	"time"

	"pgregory.net/rapid"

	"github.com/mutagen-io/mutagen/pkg/synchronization/core"
	"github.com/mutagen-io/mutagen/pkg/synchronization/core/ignore"

	rec01 "verif/c01_reconcile"
	"verif/kit/ev"
	"verif/kit/sess"
	"verif/kit/tree"
)

// ctlProp is the property the controller part reports under: C18, or one of
// C01-C06 (whose tree-level checks trust the same model of the pipeline).
func ctlProp() string {
	switch p := os.Getenv("VERIF_PROP"); p {
	case "C01", "C02", "C03", "C04", "C05", "C06":
		return p
	}
	return prop
}

type ctlScript struct {
	mu         sync.Mutex
	phase      int
	anc, a, b  *core.Entry
	aPreserves bool
	bPreserves bool
	got        map[bool][]*core.Change
}

func (s *ctlScript) scan(session string, alpha bool, ancestor *core.Entry, full bool) (bool, *core.Snapshot, error, bool) {
	s.mu.Lock()
	defer s.mu.Unlock()
	if s.phase != 2 {
		return true, &core.Snapshot{Content: s.anc, PreservesExecutability: true}, nil, false
	}
	if alpha {
		return true, &core.Snapshot{Content: s.a, PreservesExecutability: s.aPreserves}, nil, false
	}
	return true, &core.Snapshot{Content: s.b, PreservesExecutability: s.bPreserves}, nil, false
}

func (s *ctlScript) transition(session string, alpha bool, transitions []*core.Change) (bool, []*core.Entry, []*core.Problem, bool, error) {
	s.mu.Lock()
	defer s.mu.Unlock()
	results := make([]*core.Entry, len(transitions))
	for i, t := range transitions {
		results[i] = t.New
	}
	if s.phase == 2 {
		s.got[alpha] = append(s.got[alpha], transitions...)
	}
	return true, results, nil, false, nil
}

func renderSet(changes []*core.Change) string {
	var out []string
	for _, c := range changes {
		out = append(out, tree.RenderChange(c))
	}
	sort.Strings(out)
	return strings.Join(out, " ; ")
}

type ctlRunner struct {
	env  *sess.Env
	base string
	n    int
	sc   *ctlScript
}

func (r *ctlRunner) run(c *rec01.Case) (violation string, nontrivial bool, class string) {
	in := c.Input()
	r.n++
	dir := filepath.Join(r.base, fmt.Sprintf("case%d", r.n))
	aRoot, bRoot := filepath.Join(dir, "alpha"), filepath.Join(dir, "beta")
	os.MkdirAll(aRoot, 0o755)
	os.MkdirAll(bRoot, 0o755)
	defer os.RemoveAll(dir)
	// What the endpoints report: a side that does not preserve executability
	// reports no executable bits.
	a, b := in.Alpha, in.Beta
	aPres, bPres := true, true
	switch in.Exec {
	case 1:
		bPres, b = false, strip(b)
	case 2:
		aPres, a = false, strip(a)
	}
	r.sc.mu.Lock()
	r.sc.phase, r.sc.anc, r.sc.a, r.sc.b, r.sc.aPreserves, r.sc.bPreserves = 1, in.Anc, a, b, aPres, bPres
	r.sc.got = map[bool][]*core.Change{}
	r.sc.mu.Unlock()
	cfg := sess.ManualConfig(in.Mode)
	if in.Docker {
		cfg.IgnoreSyntax = ignore.Syntax_SyntaxDocker
	}
	id, err := r.env.Create(aRoot, bRoot, cfg, nil, nil, "", nil, false)
	if err != nil {
		return fmt.Sprintf("session creation fails: %v", err), false, ""
	}
	defer r.env.Terminate(id)
	if err := r.env.Flush(id, 10*time.Second); err != nil {
		return "", false, "warmup-flush-failed"
	}
	r.sc.mu.Lock()
	r.sc.phase = 2
	r.sc.mu.Unlock()
	flushErr := r.env.Flush(id, 10*time.Second)
	st := r.env.State(id)
	if st != nil && sess.Halted(st.Status) {
		return "", false, "halted-for-safety"
	}
	if flushErr != nil {
		return "", false, "flush-failed"
	}
	_, _, plan := rec01.Pipeline(in)
	r.sc.mu.Lock()
	gotA, gotB := renderSet(r.sc.got[true]), renderSet(r.sc.got[false])
	r.sc.mu.Unlock()
	wantA, wantB := renderSet(plan.Alpha), renderSet(plan.Beta)
	if gotA != wantA || gotB != wantB {
		return fmt.Sprintf("the controller sent alpha [%s] and beta [%s]; reify-phantoms, then propagate executability towards the non-preserving side, then reconcile gives alpha [%s] and beta [%s] (ancestor %s, alpha reports %s preserves=%v, beta reports %s preserves=%v, docker syntax %v)",
			gotA, gotB, wantA, wantB, tree.Render(in.Anc), tree.Render(a), aPres, tree.Render(b), bPres, in.Docker), true, ""
	}
	class = "plain"
	if in.Docker {
		class = "docker-syntax"
	}
	if in.Exec != 0 {
		class += "+one-side-does-not-preserve-executability"
	}
	if ctlProp() != prop {
		return "", len(plan.Alpha)+len(plan.Beta) > 0, class
	}
	return "", in.Exec != 0 && len(plan.Alpha)+len(plan.Beta) > 0, class
}

func hasExecFileUnderPhantom(e *core.Entry, under bool) bool {
	if e == nil {
		return false
	}
	if e.Kind == tree.KFile && e.Executable && under {
		return true
	}
	for _, c := range e.Contents {
		if hasExecFileUnderPhantom(c, under || e.Kind == tree.KPhantom) {
			return true
		}
	}
	return false
}

func newCtlRunner(t *testing.T) *ctlRunner {
	base := t.TempDir()
	env, err := sess.NewEnv(filepath.Join(base, "data"))
	if err != nil {
		t.Fatal(err)
	}
	t.Cleanup(env.Close)
	sc := &ctlScript{}
	sess.Install(nil, &sess.Hooks{Scan: sc.scan, Transition: sc.transition, SkipStaging: true})
	t.Cleanup(func() { sess.Install(nil, nil) })
	return &ctlRunner{env: env, base: base, sc: sc}
}

func TestControllerPipeline(t *testing.T) {
	if ev.ReplayPath() != "" {
		t.Skip()
	}
	rec := ev.New(t, ctlProp(), "controller-pipeline", "rapid: (ancestor, alpha, beta) triples by mutation of a common base, half of them with phantom directories under Docker ignore syntax, two thirds with exactly one endpoint reporting that it does not preserve executability (its snapshot carries no executable bits), x 4 modes, served to the real controller by scripted endpoints after a warm-up cycle that installs the ancestor; the transitions the endpoints receive are compared with reify-phantoms -> propagate-executability -> reconcile computed by the harness's model of the pipeline; non-trivial: one side does not preserve executability and the plan has a transition (under C01-C06: the plan has a transition)")
	r := newCtlRunner(t)
	g := tree.DefaultGen
	g.MaxDepth, g.MaxFan = 3, 3
	ev.Check(t, rec, 250, 8000, func(rt *rapid.T) {
		in := &rec01.Input{}
		in.Docker = rapid.Bool().Draw(rt, "docker")
		gg := g
		gg.Phantom = in.Docker
		in.Anc, in.Alpha, in.Beta = gg.Triple(rt)
		for _, side := range []**core.Entry{&in.Alpha, &in.Beta} {
			if *side != nil && (*side).Kind == tree.KPhantom {
				*side = tree.D((*side).Contents)
			}
		}
		in.Mode = rapid.SampledFrom(rec01.Modes).Draw(rt, "mode")
		execOdds := 2
		if ctlProp() != prop {
			execOdds = 5 // C01-C06: mostly both sides preserve executability
		}
		if rapid.IntRange(0, execOdds).Draw(rt, "exec") > execOdds-2 {
			in.Exec = rapid.IntRange(1, 2).Draw(rt, "exec.side")
		}
		if in.Docker && in.Exec != 0 && rapid.IntRange(0, 1).Draw(rt, "unignored-executable") == 0 &&
			in.Anc != nil && in.Anc.Kind == tree.KDir && in.Alpha != nil && in.Alpha.Kind == tree.KDir && in.Beta != nil && in.Beta.Kind == tree.KDir {
			// An executable file re-included below an ignored directory: the
			// directories above it are phantom in both scans.
			d1, d2 := []byte{0xd1, 1, 2, 3, 4, 5, 6, 7, 8, 9, 10, 11, 12, 13, 14, 15, 16, 17, 18, 19}, []byte{0xd2, 1, 2, 3, 4, 5, 6, 7, 8, 9, 10, 11, 12, 13, 14, 15, 16, 17, 18, 19}
			file := func(label string, exec bool) *core.Entry {
				d := d1
				if rapid.IntRange(0, 3).Draw(rt, label+".edited") == 0 {
					d = d2
				}
				return &core.Entry{Kind: tree.KFile, Digest: d, Executable: exec}
			}
			phantom := func(f *core.Entry, junk bool) *core.Entry {
				inner := &core.Entry{Kind: tree.KPhantom, Contents: map[string]*core.Entry{"run": f}}
				outer := &core.Entry{Kind: tree.KPhantom, Contents: map[string]*core.Entry{"t": inner}}
				if junk {
					outer.Contents["junk"] = &core.Entry{Kind: tree.KUntr}
				}
				return outer
			}
			ancExec := rapid.IntRange(0, 3).Draw(rt, "anc.exec") != 0
			set := func(root *core.Entry, e *core.Entry) *core.Entry {
				out := &core.Entry{Kind: root.Kind, Contents: map[string]*core.Entry{}}
				for n, c := range root.Contents {
					out.Contents[n] = c
				}
				out.Contents["v"] = e
				return out
			}
			in.Anc = set(in.Anc, tree.D(map[string]*core.Entry{"t": tree.D(map[string]*core.Entry{"run": {Kind: tree.KFile, Digest: d1, Executable: ancExec}})}))
			presExec := ancExec
			if rapid.IntRange(0, 3).Draw(rt, "pres.chmod") == 0 {
				presExec = !presExec
			}
			pres, nonp := phantom(file("pres", presExec), rapid.Bool().Draw(rt, "pres.junk")), phantom(file("nonp", false), rapid.Bool().Draw(rt, "nonp.junk"))
			if in.Exec == 1 {
				in.Alpha, in.Beta = set(in.Alpha, pres), set(in.Beta, nonp)
			} else {
				in.Alpha, in.Beta = set(in.Alpha, nonp), set(in.Beta, pres)
			}
		}
		c := in.Case()
		v, nt, class := r.run(c)
		rec.Eval()
		if v != "" {
			ev.Failf(rt, rec, c, "%s", v)
		}
		rec.Class(class)
		if in.Exec != 0 && (hasExecFileUnderPhantom(in.Alpha, false) || hasExecFileUnderPhantom(in.Beta, false)) {
			rec.Class("executable-file-below-a-phantom-directory")
		}
		if nt {
			rec.NonTrivial(ev.Hash(tree.Render(in.Anc), tree.Render(in.Alpha), tree.Render(in.Beta), fmt.Sprint(in.Mode, in.Docker, in.Exec)))
			if rec.WantSample() {
				rec.Sample(in.Sample())
			}
		}
	})
}

func TestReplayController(t *testing.T) {
	if ev.ReplayPath() == "" || ev.ReplayPart() != "controller-pipeline" {
		t.Skip()
	}
	var c rec01.Case
	if _, err := ev.LoadReplay(ev.ReplayPath(), &c); err != nil {
		t.Fatal(err)
	}
	rec := ev.New(t, ctlProp(), "replay", "replay of a saved case")
	rec.Eval()
	r := newCtlRunner(t)
	if v, _, _ := r.run(&c); v != "" {
		ev.FailTB(t, rec, &c, "%s", v)
	}
}
