// Package c18_exec decides C18: executability survives synchronization
// through an endpoint that cannot store it.
package c18_exec

import (
	"bytes"
	"fmt"
	"testing"

	"pgregory.net/rapid"

	"github.com/mutagen-io/mutagen/pkg/synchronization/core"

	"verif/kit/ev"
	"verif/kit/tree"
)

const prop = "C18"

var twoWayModes = []core.SynchronizationMode{
	core.SynchronizationMode_SynchronizationModeTwoWaySafe,
	core.SynchronizationMode_SynchronizationModeTwoWayResolved,
}

// Case is one cycle: last-synchronized state, preserving side P, non-preserving
// side N (as it exists on disk; its scan reports no executable bits).
type Case struct {
	Anc      *tree.J   `json:"ancestor"`
	P        *tree.J   `json:"preserving"`
	N        *tree.J   `json:"non_preserving"`
	Mode     int32     `json:"mode"`
	PIsAlpha bool      `json:"preserving_is_alpha"`
	History  []string  `json:"history,omitempty"`
	Steps    []*CaseSt `json:"steps,omitempty"`
}

// CaseSt is one step of a history replay: the trees after the user's edits.
type CaseSt struct {
	P *tree.J `json:"preserving"`
	N *tree.J `json:"non_preserving"`
}

func strip(e *core.Entry) *core.Entry {
	if e == nil {
		return nil
	}
	r := &core.Entry{Kind: e.Kind, Digest: e.Digest, Target: e.Target, Problem: e.Problem}
	if len(e.Contents) > 0 {
		r.Contents = make(map[string]*core.Entry, len(e.Contents))
		for n, c := range e.Contents {
			r.Contents[n] = strip(c)
		}
	}
	return r
}

func isFile(e *core.Entry) bool { return e != nil && e.Kind == tree.KFile }

// judgePropagation checks PropagateExecutability itself: the result is the
// target with only executable bits changed, inputs are untouched, and every
// bit that is set is justified by matching content on the preserving side or
// in the last-synchronized state.
func judgePropagation(anc, P, Nscan *core.Entry) (res *core.Entry, violation string) {
	ar, pr, nr := tree.Render(anc), tree.Render(P), tree.Render(Nscan)
	res = core.PropagateExecutability(anc, P, Nscan)
	if tree.Render(anc) != ar || tree.Render(P) != pr || tree.Render(Nscan) != nr {
		return res, "executability propagation mutated one of its inputs"
	}
	if !tree.DeepEqual(strip(res), strip(Nscan)) {
		return res, fmt.Sprintf("executability propagation changed more than executable bits: %s -> %s", nr, tree.Render(res))
	}
	for _, pe := range tree.Walk(res) {
		if !isFile(pe.Entry) || !pe.Entry.Executable {
			continue
		}
		p, a := tree.At(P, pe.Path), tree.At(anc, pe.Path)
		ok := (isFile(p) && p.Executable && bytes.Equal(p.Digest, pe.Entry.Digest)) ||
			(isFile(a) && a.Executable && bytes.Equal(a.Digest, pe.Entry.Digest)) ||
			(isFile(p) && isFile(a) && p.Executable && bytes.Equal(p.Digest, a.Digest))
		if !ok {
			return res, fmt.Sprintf("non-preserving side marks %q executable without matching content on the preserving side (%s) or in the last-synchronized state (%s)", pe.Path, tree.Render(p), tree.Render(a))
		}
	}
	return res, ""
}

// cycle runs one synchronization cycle with ideal transitions and returns the
// new (ancestor, P, N) plus a violation of the property, if any.
func cycle(anc, P, N *core.Entry, mode core.SynchronizationMode, pIsAlpha bool) (anc2, P2, N2 *core.Entry, violation string, nontrivial bool) {
	Nscan := strip(N)
	Nprop := Nscan
	if Nscan != nil {
		var v string
		if Nprop, v = judgePropagation(anc, P, Nscan); v != "" {
			return nil, nil, nil, v, false
		}
	}
	alpha, beta := P, Nprop
	if !pIsAlpha {
		alpha, beta = Nprop, P
	}
	ac, alc, bc, _ := core.Reconcile(anc, alpha, beta, mode)
	pc, nc := alc, bc
	if !pIsAlpha {
		pc, nc = bc, alc
	}
	ok := true
	P2, N2, anc2 = P, Nprop, anc
	for _, c := range pc {
		if P2, ok = tree.ApplyModel(P2, c.Path, c.New); !ok {
			return nil, nil, nil, "preserving-side change has no parent directory: " + tree.RenderChange(c), false
		}
	}
	for _, c := range nc {
		if N2, ok = tree.ApplyModel(N2, c.Path, c.New); !ok {
			return nil, nil, nil, "non-preserving-side change has no parent directory: " + tree.RenderChange(c), false
		}
	}
	for _, l := range [][]*core.Change{ac, alc, bc} {
		for _, c := range l {
			if anc2, ok = tree.ApplyModel(anc2, c.Path, c.New); !ok {
				return nil, nil, nil, "ancestor change has no parent directory: " + tree.RenderChange(c), false
			}
		}
	}
	// The non-preserving filesystem cannot store bits.
	N2 = strip(N2)

	// The property: for every path that is a file on both sides before and
	// after the cycle and whose content was not changed to different content on both sides, the
	// preserving side's bit is unchanged.
	for _, pe := range tree.Walk(P) {
		if !isFile(pe.Entry) {
			continue
		}
		q := pe.Path
		nBefore, pAfter, nAfter, a := tree.At(Nscan, q), tree.At(P2, q), tree.At(N2, q), tree.At(anc, q)
		if !isFile(nBefore) || !isFile(pAfter) || !isFile(nAfter) {
			continue
		}
		pChanged := !isFile(a) || !bytes.Equal(a.Digest, pe.Entry.Digest)
		nChanged := !isFile(a) || !bytes.Equal(a.Digest, nBefore.Digest)
		if nChanged && !pChanged && pe.Entry.Executable {
			nontrivial = true
		}
		if pChanged && nChanged && !bytes.Equal(pe.Entry.Digest, nBefore.Digest) {
			// Both sides edited the content differently: whichever version
			// wins, the statement does not say whose bit it carries.
			continue
		}
		if pAfter.Executable != pe.Entry.Executable {
			return nil, nil, nil, fmt.Sprintf("cycle changes the executable bit of %q on the preserving side from %v to %v (ancestor %s, preserving %s, non-preserving %s; content changed on preserving side: %v, on the other: %v)",
				q, pe.Entry.Executable, pAfter.Executable, tree.Render(a), tree.Render(pe.Entry), tree.Render(nBefore), pChanged, nChanged), nontrivial
		}
	}
	return anc2, P2, N2, "", nontrivial
}

func modeName(m core.SynchronizationMode) string {
	if m == twoWayModes[0] {
		return "two-way-safe"
	}
	return "two-way-resolved"
}

func TestExhaustiveCycles(t *testing.T) {
	if ev.ReplayPath() != "" {
		t.Skip()
	}
	rec := ev.New(t, prop, "exhaustive-single-cycle", "every (ancestor, preserving, non-preserving) triple of a bounded shape x two-way modes x role assignment, one ideal cycle; non-trivial: the non-preserving side edited the content of a file that is executable and unedited on the preserving side")
	sub := &tree.Shape{Names: []string{"a"}, Leaves: []*core.Entry{tree.F(1, false), tree.F(1, true), tree.F(2, false)}, Sub: &tree.Shape{}}
	leaves := []*core.Entry{tree.F(1, false), tree.F(1, true), tree.F(2, false), tree.F(2, true), tree.F(3, false), tree.L("t1")}
	if !ev.Thorough() {
		sub = nil
	}
	ps := (&tree.Shape{Names: []string{"a", "b"}, Leaves: leaves, Sub: sub}).Enumerate(true)
	nleaves := []*core.Entry{tree.F(1, false), tree.F(2, false), tree.F(3, false), tree.L("t1")}
	var nsub *tree.Shape
	if ev.Thorough() {
		nsub = &tree.Shape{Names: []string{"a"}, Leaves: []*core.Entry{tree.F(1, false), tree.F(2, false)}, Sub: &tree.Shape{}}
	}
	ns := (&tree.Shape{Names: []string{"a", "b"}, Leaves: nleaves, Sub: nsub}).Enumerate(true)
	rec.SetExhaustive("trees over names {a,b} (thorough: child directories over {a}); files d1/d2/d3 with and without executable bit, link t1; non-preserving side without bits")
	rec.Note("preserving_and_ancestor_trees", len(ps))
	rec.Note("non_preserving_trees", len(ns))
	shard, shards := ev.Shard(), ev.Shards()
	for ai, a := range ps {
		if ai%shards != shard {
			continue
		}
		var evals, nts uint64
		for _, p := range ps {
			for _, n := range ns {
				for _, m := range twoWayModes {
					for _, pa := range []bool{true, false} {
						evals++
						_, _, _, v, nt := cycle(a, p, n, m, pa)
						if v != "" {
							ev.FailTB(t, rec, &Case{Anc: tree.ToJ(a), P: tree.ToJ(p), N: tree.ToJ(n), Mode: int32(m), PIsAlpha: pa}, "%s", v)
						}
						if nt {
							nts++
							if rec.WantSample() && ai%7 == 3 {
								rec.Sample(map[string]any{"ancestor": tree.Render(a), "preserving": tree.Render(p), "non_preserving": tree.Render(n), "mode": modeName(m), "preserving_is_alpha": pa})
							}
						}
					}
				}
			}
		}
		rec.EvalN(evals)
		rec.NonTrivialDistinct(nts)
	}
}

var names = []string{"a", "b", "c"}

// edit applies a random user edit to a side. preserving selects whether chmod
// edits are possible.
func edit(rt *rapid.T, label string, e *core.Entry, preserving bool, depth int) *core.Entry {
	if e != nil && e.Kind == tree.KDir && depth > 0 && rapid.IntRange(0, 9).Draw(rt, label+".descend") < 8 {
		pool := append([]string{}, names...)
		// Bias towards existing children so that edits hit shared files.
		pool = append(pool, tree.Names(e)...)
		pool = append(pool, tree.Names(e)...)
		name := rapid.SampledFrom(pool).Draw(rt, label+".name")
		nc := edit(rt, label, e.Contents[name], preserving, depth-1)
		r, _ := tree.ApplyModel(e, name, nc)
		return r
	}
	switch rapid.IntRange(0, 6).Draw(rt, label+".op") {
	case 0:
		return nil
	case 1:
		return tree.D(nil)
	case 2:
		return tree.L("t1")
	case 3, 4: // content edit keeps the bit (a real editor writes in place)
		x := isFile(e) && e.Executable
		return tree.F(byte(1+rapid.IntRange(0, 3).Draw(rt, label+".digest")), x && preserving)
	default:
		if isFile(e) && preserving {
			return &core.Entry{Kind: tree.KFile, Digest: e.Digest, Executable: !e.Executable}
		}
		return tree.F(byte(1+rapid.IntRange(0, 3).Draw(rt, label+".digest")), preserving && rapid.Bool().Draw(rt, label+".x"))
	}
}

func TestHistories(t *testing.T) {
	if ev.ReplayPath() != "" {
		t.Skip()
	}
	rec := ev.New(t, prop, "random-histories", "rapid: from a random synchronized state, 3-8 cycles of random edits (create/delete/edit content/chmod on the preserving side, content edits on the other), each followed by propagate -> reconcile -> ideal apply; both two-way modes and role assignments; non-trivial: a cycle in which the non-preserving side edited a file that is executable and unedited on the preserving side")
	ev.Check(t, rec, 15000, 300000, func(rt *rapid.T) {
		mode := rapid.SampledFrom(twoWayModes).Draw(rt, "mode")
		pa := rapid.Bool().Draw(rt, "preserving_is_alpha")
		var anc, P, N *core.Entry
		// Start from a synchronized state with some executable files.
		start := map[string]*core.Entry{}
		for _, n := range names {
			switch rapid.IntRange(0, 3).Draw(rt, "start."+n) {
			case 1:
				start[n] = tree.F(byte(1+rapid.IntRange(0, 3).Draw(rt, "start.d")), rapid.Bool().Draw(rt, "start.x"))
			case 2:
				start[n] = tree.D(map[string]*core.Entry{"a": tree.F(1, true), "b": tree.F(2, rapid.Bool().Draw(rt, "start.x2"))})
			}
		}
		anc = tree.D(start)
		P, N = anc, strip(anc)
		cs := &Case{Anc: tree.ToJ(anc), Mode: int32(mode), PIsAlpha: pa}
		cycles := rapid.IntRange(3, 8).Draw(rt, "cycles")
		nontrivial := false
		for i := 0; i < cycles; i++ {
			for k := rapid.IntRange(0, 3).Draw(rt, "p.edits"); k > 0; k-- {
				P = edit(rt, "p", P, true, 2)
			}
			for k := rapid.IntRange(0, 2).Draw(rt, "n.edits"); k > 0; k-- {
				N = edit(rt, "n", N, false, 2)
			}
			cs.Steps = append(cs.Steps, &CaseSt{P: tree.ToJ(P), N: tree.ToJ(N)})
			cs.History = append(cs.History, fmt.Sprintf("cycle %d: ancestor %s preserving %s non-preserving %s", i, tree.Render(anc), tree.Render(P), tree.Render(N)))
			a2, p2, n2, v, nt := cycle(anc, P, N, mode, pa)
			rec.Eval()
			if v != "" {
				ev.Failf(rt, rec, cs, "%s", v)
			}
			nontrivial = nontrivial || nt
			anc, P, N = a2, p2, n2
		}
		if nontrivial {
			rec.NonTrivial(ev.Hash(cs.History...))
			if rec.WantSample() {
				rec.Sample(cs.History)
			}
		}
	})
}

func TestReplay(t *testing.T) {
	if ev.ReplayPath() == "" || ev.ReplayPart() == "controller-pipeline" {
		t.Skip()
	}
	var c Case
	if _, err := ev.LoadReplay(ev.ReplayPath(), &c); err != nil {
		t.Fatal(err)
	}
	rec := ev.New(t, prop, "replay", "replay of a saved case")
	rec.Eval()
	mode := core.SynchronizationMode(c.Mode)
	if len(c.Steps) == 0 {
		if _, _, _, v, _ := cycle(tree.FromJ(c.Anc), tree.FromJ(c.P), tree.FromJ(c.N), mode, c.PIsAlpha); v != "" {
			ev.FailTB(t, rec, &c, "%s", v)
		}
		return
	}
	// History replay: the recorded per-cycle edited trees are re-applied as
	// deltas against the evolving synchronized state is not possible without
	// the edit script, so the recorded trees are used as the state before each
	// cycle together with the ancestor computed so far.
	anc := tree.FromJ(c.Anc)
	for _, s := range c.Steps {
		a2, _, _, v, _ := cycle(anc, tree.FromJ(s.P), tree.FromJ(s.N), mode, c.PIsAlpha)
		if v != "" {
			ev.FailTB(t, rec, &c, "%s", v)
		}
		anc = a2
	}
}
