package c19_rsync

import (
	"bytes"
	"fmt"
	"os"
	"runtime"
	"runtime/debug"
	"sync"
	"testing"
	"testing/iotest"

	"pgregory.net/rapid"

	"github.com/mutagen-io/mutagen/pkg/synchronization/rsync"

	"verif/kit/ev"
)

func TestMain(m *testing.M) {
	debug.SetGCPercent(400)
	os.Exit(m.Run())
}

func prop() string {
	if p := os.Getenv("VERIF_PROP"); p != "" {
		return p
	}
	return "C19"
}

const ruleC19 = "non-trivial: the delta has at least one block operation and at least one data operation"

// Case is a replayable C19 case: explicit bytes for small inputs, a recipe for
// large generated ones.
type Case struct {
	Base      []byte  `json:"base,omitempty"`
	Target    []byte  `json:"target,omitempty"`
	BaseText  string  `json:"base_text,omitempty"` // informational, printable inputs only
	TargText  string  `json:"target_text,omitempty"`
	Recipe    *Recipe `json:"recipe,omitempty"`
	BlockSize uint64  `json:"block_size"` // 0: the engine chooses (optimal for the base length)
	MaxDataOp uint64  `json:"max_data_op"`
}

func (c *Case) bytes() (base, target []byte) {
	if c.Recipe != nil {
		return c.Recipe.Build()
	}
	return c.Base, c.Target
}

func printable(p []byte) bool {
	for _, b := range p {
		if b < 0x20 || b > 0x7e {
			return false
		}
	}
	return len(p) <= 256
}

func explicitCase(base, target []byte, bs, m uint64) *Case {
	c := &Case{Base: base, Target: target, BlockSize: bs, MaxDataOp: m}
	if printable(base) && printable(target) {
		c.BaseText, c.TargText = string(base), string(target)
	}
	return c
}

// Info describes a judged case for the evidence.
type Info struct {
	Ops             []Op
	Blocks, Datas   int
	NonTrivial      bool
	Identical       bool
	Coalesced       bool
	Chunked         bool
	ShortLastUsed   bool
	RefCompared     bool
	EqualsReference bool
}

// collector receives streamed operations.
type collector struct{ delta []*rsync.Operation }

func (c *collector) transmit(o *rsync.Operation) error {
	c.delta = append(c.delta, &rsync.Operation{Data: append([]byte(nil), o.Data...), Start: o.Start, Count: o.Count})
	return nil
}

// refLimit bounds len(target)*blockSize for the hash-free reference matcher.
const refLimit = 1 << 24

// judgeC19 runs the C19 oracle on one input. sig/lookup may be passed in when
// the caller already holds them for (base, bs); sigChecked tells that the
// signature shape was verified already.
func judgeC19(eng *rsync.Engine, base, target []byte, bs, m uint64, sig *rsync.Signature, sigChecked bool, lookup map[string]uint64, viaBytesAPI bool) (string, Info) {
	var info Info
	if sig == nil {
		sig = eng.BytesSignature(base, bs)
	}
	if bs == 0 {
		// The engine chose; take its word for the size, check the rest.
		bs = sig.BlockSize
		if len(base) > 0 && bs == 0 {
			return "signature of a non-empty base has block size 0", info
		}
		if bs == 0 {
			bs = 1
		}
	}
	if !sigChecked {
		if v := checkSignature(sig, base, bs); v != "" {
			return v, info
		}
	}
	blocks := blockCount(len(base), bs)

	// The delta, through the API under observation.
	var delta []*rsync.Operation
	if viaBytesAPI {
		delta = eng.DeltifyBytes(target, sig, m)
	} else {
		var c collector
		if err := eng.Deltify(bytes.NewReader(target), sig, m, c.transmit); err != nil {
			return fmt.Sprintf("Deltify of an in-memory target failed: %v", err), info
		}
		delta = c.delta
	}
	ops, v := checkOps(delta, blocks, m)
	if v != "" {
		return v + " | delta: " + renderDelta(delta), info
	}
	info.Ops = ops
	info.Blocks, info.Datas = countKinds(ops)
	info.NonTrivial = info.Blocks > 0 && info.Datas > 0
	info.Identical = bytes.Equal(base, target)
	for i, o := range ops {
		if !o.isData() {
			if o.Count > 1 {
				info.Coalesced = true
			}
			if blocks > 0 && o.Start+o.Count == blocks && uint64(len(base))%bs != 0 {
				info.ShortLastUsed = true
			}
		} else if i > 0 && ops[i-1].isData() {
			info.Chunked = true
		}
	}

	// Reconstruction, by the model and by the engine.
	if got, ok := modelPatch(base, bs, ops); !ok {
		return "delta refers to blocks outside the base: " + renderOps(ops), info
	} else if !bytes.Equal(got, target) {
		return fmt.Sprintf("applying the delta to the base (slice model) gives %s, target is %s | delta: %s", show(got), show(target), renderOps(ops)), info
	}
	if got, err := eng.PatchBytes(base, sig, delta); err != nil {
		return fmt.Sprintf("PatchBytes failed on the engine's own delta: %v | delta: %s", err, renderOps(ops)), info
	} else if !bytes.Equal(got, target) {
		return fmt.Sprintf("PatchBytes gives %s, target is %s | delta: %s", show(got), show(target), renderOps(ops)), info
	}

	// An unchanged target needs no literal data.
	if info.Identical && info.Datas > 0 {
		return "target equals base but the delta carries literal data: " + renderOps(ops), info
	}

	// Streaming Deltify fed one byte per Read gives the same operations.
	if len(target) <= 1<<18 {
		var c collector
		if err := eng.Deltify(iotest.OneByteReader(bytes.NewReader(target)), sig, m, c.transmit); err != nil {
			return fmt.Sprintf("streaming Deltify failed: %v", err), info
		}
		sops := make([]Op, len(c.delta))
		for i, o := range c.delta {
			sops[i] = copyOp(o)
		}
		if !opsEqual(ops, sops) {
			return fmt.Sprintf("streaming Deltify (one byte per read) yields %s, in-memory yields %s", renderOps(sops), renderOps(ops)), info
		}
	}

	// No matchable block is missed: the literal volume does not exceed that of
	// the hash-free greedy reference.
	if uint64(len(target))*bs <= refLimit {
		if lookup == nil {
			lookup = fullBlockLookup(base, bs)
		}
		ref := referenceDelta(base, target, bs, lookup)
		info.RefCompared = true
		info.EqualsReference = opsEqual(normalize(ops), ref)
		if lb, lr := literalBytes(ops), literalBytes(ref); lb > lr {
			return fmt.Sprintf("delta carries %d literal bytes where greedy block matching by direct comparison needs %d | delta: %s | reference: %s", lb, lr, renderOps(ops), renderOps(ref)), info
		}
	}
	return "", info
}

func renderDelta(delta []*rsync.Operation) string {
	ops := make([]Op, 0, len(delta))
	for _, o := range delta {
		if o == nil {
			ops = append(ops, Op{})
			continue
		}
		ops = append(ops, copyOp(o))
	}
	return renderOps(ops)
}

func show(p []byte) string {
	if len(p) <= 48 {
		return fmt.Sprintf("%q", p)
	}
	return fmt.Sprintf("[%d bytes %q...]", len(p), p[:24])
}

// abStrings lists every string over {a,b} of length <= maxLen, shortest first.
func abStrings(maxLen int) [][]byte {
	var out [][]byte
	for n := 0; n <= maxLen; n++ {
		for bits := 0; bits < 1<<n; bits++ {
			s := make([]byte, n)
			for i := range s {
				s[i] = 'a' + byte(bits>>(n-1-i)&1)
			}
			out = append(out, s)
		}
	}
	return out
}

func maxDataOps() []uint64 { return []uint64{1, 2, 3, 0} }

type tally struct {
	evals, nts uint64
	classes    map[string]uint64
	samples    []any
}

func (tl *tally) flush(rec *ev.Recorder) {
	rec.EvalN(tl.evals)
	rec.NonTrivialDistinct(tl.nts)
	for c, n := range tl.classes {
		rec.ClassN(c, n)
	}
	for _, s := range tl.samples {
		rec.Sample(s)
	}
}

func (tl *tally) count(info *Info) {
	tl.evals++
	if info.NonTrivial {
		tl.nts++
		tl.classes["nontrivial"]++
	}
	if info.Identical {
		tl.classes["target==base"]++
	}
	if info.Blocks == 0 {
		tl.classes["no-block-op"]++
	}
	if info.Datas == 0 {
		tl.classes["no-data-op"]++
	}
	if info.Coalesced {
		tl.classes["coalesced-block-op"]++
	}
	if info.Chunked {
		tl.classes["chunked-literal-run"]++
	}
	if info.ShortLastUsed {
		tl.classes["short-last-block-copied"]++
	}
	if info.RefCompared {
		if info.EqualsReference {
			tl.classes["delta==greedy-reference"]++
		} else {
			tl.classes["delta!=greedy-reference"]++
		}
	}
}

func TestC19_Exhaustive(t *testing.T) {
	if ev.ReplayPath() != "" || prop() != "C19" {
		t.Skip()
	}
	maxLen := ev.Pick(8, 10)
	rec := ev.New(t, "C19", "exhaustive-ab", "every (base, target) over {a,b} up to the length bound x every block size 1..|base|+1 x max data operation size {1,2,3,default}; "+ruleC19)
	rec.SetExhaustive(fmt.Sprintf("|base|,|target| <= %d over {a,b}; block size 1..|base|+1; max data op in {1,2,3,0(default)}", maxLen))
	strs := abStrings(maxLen)
	rec.Note("strings", len(strs))

	shard, shards := ev.Shard(), ev.Shards()
	var mu sync.Mutex
	var failure *Case
	var failureMsg string
	work := make(chan int)
	var wg sync.WaitGroup
	for w := 0; w < runtime.GOMAXPROCS(0); w++ {
		wg.Add(1)
		go func() {
			defer wg.Done()
			eng := rsync.NewEngine()
			for bi := range work {
				base := strs[bi]
				tl := &tally{classes: map[string]uint64{}}
				stop := false
				for bs := uint64(1); bs <= uint64(len(base))+1 && !stop; bs++ {
					sig := eng.BytesSignature(base, bs)
					if v := checkSignature(sig, base, bs); v != "" {
						mu.Lock()
						if failure == nil {
							failure, failureMsg = explicitCase(base, nil, bs, 0), v
						}
						mu.Unlock()
						stop = true
						break
					}
					lookup := fullBlockLookup(base, bs)
					for ti, target := range strs {
						for _, m := range maxDataOps() {
							v, info := judgeC19(eng, base, target, bs, m, sig, true, lookup, false)
							tl.count(&info)
							if v != "" {
								mu.Lock()
								if failure == nil {
									failure, failureMsg = explicitCase(base, target, bs, m), v
								}
								mu.Unlock()
								stop = true
								break
							}
							if info.NonTrivial && len(tl.samples) < 1 && (bi+ti)%97 == 0 && len(base) >= 5 && bs >= 2 {
								tl.samples = append(tl.samples, map[string]any{"base": string(base), "target": string(target), "block_size": bs, "max_data_op": m, "delta": renderOps(info.Ops)})
							}
						}
						if stop {
							break
						}
					}
				}
				tl.flush(rec)
			}
		}()
	}
	// Longest bases first: they are the expensive work units.
	for bi := len(strs) - 1; bi >= 0; bi-- {
		if bi%shards != shard {
			continue
		}
		mu.Lock()
		failed := failure != nil
		mu.Unlock()
		if failed {
			break
		}
		work <- bi
	}
	close(work)
	wg.Wait()
	if failure != nil {
		ev.FailTB(t, rec, failure, "%s", failureMsg)
	}
}

// drawCase draws a random large-input case.
func drawCase(rt *rapid.T) *Case {
	r := &Recipe{Seed: rapid.Uint64().Draw(rt, "seed")}
	switch sz := rapid.IntRange(0, 19).Draw(rt, "size.class"); {
	case sz < 11:
		r.BaseLen = rapid.IntRange(0, 4096).Draw(rt, "base.len")
	case sz < 18:
		r.BaseLen = rapid.IntRange(4097, 1<<16).Draw(rt, "base.len")
	default:
		r.BaseLen = rapid.IntRange(1<<16+1, 1<<20).Draw(rt, "base.len")
	}
	r.Alphabet = rapid.IntRange(0, alphaCount-1).Draw(rt, "alphabet")
	n := r.BaseLen

	// Block size.
	var bs uint64
	switch rapid.IntRange(0, 9).Draw(rt, "bs.mode") {
	case 0:
		bs = 1
	case 1:
		bs = uint64(rapid.IntRange(2, 16).Draw(rt, "bs"))
	case 2:
		bs = uint64(max(n, 1))
	case 3:
		bs = uint64(n + 1)
	case 4:
		bs = uint64(max(n-1, 1))
	case 5:
		bs = 0
	case 6:
		bs = uint64(max(n/rapid.IntRange(2, 9).Draw(rt, "bs.div"), 1))
	case 7:
		bs = uint64(rapid.IntRange(250, 1100).Draw(rt, "bs"))
	default:
		bs = uint64(rapid.IntRange(1, n+1).Draw(rt, "bs"))
	}
	if bs > 0 && uint64(n)/bs > 20000 {
		bs = uint64(n)/20000 + 1
	}
	effBS := bs
	if effBS == 0 {
		effBS = 1024
	}

	// Duplicate blocks: make the base periodic with a period tied to the block size.
	if rapid.IntRange(0, 3).Draw(rt, "periodic") == 0 {
		r.Period = int(effBS) * rapid.IntRange(1, 3).Draw(rt, "period.blocks")
		if rapid.Bool().Draw(rt, "period.skew") {
			r.Period++
		}
	}

	// Edit script, mostly in units of the block size.
	nEdits := rapid.IntRange(0, 8).Draw(rt, "edits")
	for i := 0; i < nEdits; i++ {
		e := Edit{Kind: rapid.IntRange(0, editKinds-1).Draw(rt, "edit.kind")}
		pos := func(label string) int {
			p := rapid.IntRange(0, max(n, 1)).Draw(rt, label)
			if rapid.Bool().Draw(rt, label+".aligned") {
				p -= p % int(effBS)
			}
			return p
		}
		e.A = pos("edit.a")
		e.C = pos("edit.c")
		switch rapid.IntRange(0, 3).Draw(rt, "edit.len.mode") {
		case 0:
			e.B = rapid.IntRange(0, 3).Draw(rt, "edit.len")
		case 1:
			e.B = int(effBS) * rapid.IntRange(1, 4).Draw(rt, "edit.len.blocks")
		case 2:
			e.B = int(effBS)*rapid.IntRange(1, 4).Draw(rt, "edit.len.blocks") + rapid.IntRange(-2, 2).Draw(rt, "edit.len.skew")
		default:
			e.B = rapid.IntRange(0, max(n/4, 1)).Draw(rt, "edit.len")
		}
		e.B = max(min(e.B, 1<<18), 0)
		r.Edits = append(r.Edits, e)
	}

	// Maximum data operation size.
	var m uint64
	switch rapid.IntRange(0, 6).Draw(rt, "m.mode") {
	case 0, 1:
		m = 0
	case 2:
		m = 1
	case 3:
		m = uint64(rapid.IntRange(2, 64).Draw(rt, "m"))
	case 4:
		m = uint64(max(int(effBS)+rapid.IntRange(-1, 1).Draw(rt, "m.skew"), 1))
	default:
		m = uint64(rapid.IntRange(1, 200000).Draw(rt, "m"))
	}
	return &Case{Recipe: r, BlockSize: bs, MaxDataOp: m}
}

func runRandomCase(eng *rsync.Engine, c *Case) (string, Info, []byte, []byte) {
	base, target := c.bytes()
	m := c.MaxDataOp
	// Keep the number of literal operations bounded (each is an allocation).
	if m > 0 && uint64(len(target))/m > 200000 {
		m = uint64(len(target))/200000 + 1
		c.MaxDataOp = m
	}
	v, info := judgeC19(eng, base, target, c.BlockSize, m, nil, false, nil, true)
	return v, info, base, target
}

func TestC19_Random(t *testing.T) {
	if ev.ReplayPath() != "" || prop() != "C19" {
		t.Skip()
	}
	rec := ev.New(t, "C19", "random-edits", "rapid: bases of 0..1 MiB (four alphabets, optionally periodic so that blocks repeat), target derived by a script of insert/delete/duplicate/move/flip/weak-hash-twin/truncate/append edits mostly aligned to the block size; block size 1, small, |base|, |base|+-1, optimal, random; max data op default, 1, small, around the block size, random; "+ruleC19)
	eng := rsync.NewEngine()
	tl := &tally{classes: map[string]uint64{}}
	ev.Check(t, rec, 5000, 60000, func(rt *rapid.T) {
		c := drawCase(rt)
		v, info, base, target := runRandomCase(eng, c)
		if v != "" {
			fc := c
			if len(base)+len(target) <= 8192 {
				fc = explicitCase(base, target, c.BlockSize, c.MaxDataOp)
			}
			ev.Failf(rt, rec, fc, "%s", v)
		}
		before := tl.nts
		tl.count(&info)
		switch {
		case len(base) <= 4096:
			tl.classes["base<=4KiB"]++
		case len(base) <= 1<<16:
			tl.classes["base<=64KiB"]++
		default:
			tl.classes["base<=1MiB"]++
		}
		if c.BlockSize == 0 {
			tl.classes["block-size-chosen-by-engine"]++
		}
		if tl.nts > before {
			rec.NonTrivial(ev.Hash(fmt.Sprintf("%+v", *c.Recipe), fmt.Sprint(c.BlockSize, c.MaxDataOp)))
			if rec.WantSample() {
				rec.Sample(map[string]any{"recipe": c.Recipe, "block_size": c.BlockSize, "max_data_op": c.MaxDataOp,
					"base_len": len(base), "target_len": len(target), "block_ops": info.Blocks, "data_ops": info.Datas, "literal_bytes": literalBytes(info.Ops)})
			}
		}
	})
	// NonTrivial() already counted the non-trivial evaluations.
	tl.nts = 0
	tl.flush(rec)
}
