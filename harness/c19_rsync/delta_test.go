package c19_rsync

import (
	"io"
	"bytes"
	"fmt"
	"os"
	"runtime"
	"runtime/debug"
	"sync"
	"testing"
	"testing/iotest"

	"pgregory.net/rapid"

	"github.com/mutagen-io/mutagen/pkg/synchronization/rsync"

	"verif/kit/ev"
)

func TestMain(m *testing.M) {
	debug.SetGCPercent(400)
	os.Exit(m.Run())
}

func prop() string {
	if p := os.Getenv("VERIF_PROP"); p != "" {
		return p
	}
	return "C19"
}

const ruleC19 = "non-trivial: the delta has at least one block operation and at least one data operation"

// Case is a replayable C19 case: explicit bytes for small inputs, a recipe for
// large generated ones.
type Case struct {
	Base      []byte  `json:"base,omitempty"`
	Target    []byte  `json:"target,omitempty"`
	BaseText  string  `json:"base_text,omitempty"` // informational, printable inputs only
	TargText  string  `json:"target_text,omitempty"`
	Recipe    *Recipe `json:"recipe,omitempty"`
	BlockSize uint64  `json:"block_size"` // 0: the engine chooses (optimal for the base length)
	MaxDataOp uint64  `json:"max_data_op"`
}

func (c *Case) bytes() (base, target []byte) {
	if c.Recipe != nil {
		return c.Recipe.Build()
	}
	return c.Base, c.Target
}

func printable(p []byte) bool {
	for _, b := range p {
		if b < 0x20 || b > 0x7e {
			return false
		}
	}
	return len(p) <= 256
}

func explicitCase(base, target []byte, bs, m uint64) *Case {
	c := &Case{Base: base, Target: target, BlockSize: bs, MaxDataOp: m}
	if printable(base) && printable(target) {
		c.BaseText, c.TargText = string(base), string(target)
	}
	return c
}

// Info describes a judged case for the evidence.
type Info struct {
	Ops             []Op
	Blocks, Datas   int
	NonTrivial      bool
	Identical       bool
	Coalesced       bool
	Chunked         bool
	ShortLastUsed   bool
	RefCompared     bool
	EqualsReference bool
}

// scratch is the per-worker state of the judge: the engine under test (reused
// across cases on purpose, its buffers are meant to be reused) and buffers
// that keep the enumeration allocation-free.
type scratch struct {
	eng     *rsync.Engine
	arena   []byte
	dst     *[]Op
	invalid string
	ops     []Op
	sops    []Op
	ref     []Op
	patchOp *rsync.Operation
	out     bytes.Buffer
	baseRd  *bytes.Reader
	targRd  *bytes.Reader
	xmit    rsync.OperationTransmitter
}

func newScratch() *scratch {
	s := &scratch{eng: rsync.NewEngine(), patchOp: &rsync.Operation{}, baseRd: bytes.NewReader(nil), targRd: bytes.NewReader(nil)}
	s.xmit = func(o *rsync.Operation) error {
		// Validate the operation as transmitted, then detach it from the
		// engine's reused buffers.
		if s.invalid == "" {
			if err := o.EnsureValid(); err != nil {
				s.invalid = fmt.Sprintf("operation %d fails EnsureValid: %v", len(*s.dst), err)
			}
		}
		op := Op{Start: o.Start, Count: o.Count}
		if len(o.Data) > 0 {
			at := len(s.arena)
			s.arena = append(s.arena, o.Data...)
			op.Data = s.arena[at:len(s.arena):len(s.arena)]
		}
		*s.dst = append(*s.dst, op)
		return nil
	}
	return s
}

// options of one judge call.
type options struct {
	sig        *rsync.Signature  // precomputed signature of (base, bs), or nil
	sigChecked bool              // its shape was verified already
	lookup     map[string]uint64 // precomputed full-block lookup, or nil
	keepRef    bool              // s.ref is valid for this (base, bs, target)
	stream     bool              // also run the one-byte-per-read streaming variant
	bytesAPI   bool              // go through DeltifyBytes / PatchBytes
}

// refLimit bounds len(target)*blockSize for the hash-free reference matcher.
const refLimit = 1 << 24

// judgeC19 runs the C19 oracle on one input.
func judgeC19(s *scratch, base, target []byte, bs, m uint64, opt options) (string, Info) {
	var info Info
	eng := s.eng
	sig := opt.sig
	if sig == nil {
		sig = eng.BytesSignature(base, bs)
	}
	if bs == 0 {
		// The engine chose; take its word for the size, check the rest.
		bs = sig.BlockSize
		if len(base) > 0 && bs == 0 {
			return "signature of a non-empty base has block size 0", info
		}
		if bs == 0 {
			bs = 1
		}
	}
	if !opt.sigChecked {
		if v := checkSignature(sig, base, bs); v != "" {
			return v, info
		}
	}
	blocks := blockCount(len(base), bs)

	// The delta, through the API under observation.
	s.arena = s.arena[:0]
	s.ops = s.ops[:0]
	s.invalid = ""
	var delta []*rsync.Operation
	if opt.bytesAPI {
		delta = eng.DeltifyBytes(target, sig, m)
		s.dst = &s.ops
		for _, o := range delta {
			if o == nil {
				return "DeltifyBytes returned a nil operation", info
			}
			s.xmit(o)
		}
	} else {
		s.dst = &s.ops
		s.targRd.Reset(target)
		if err := eng.Deltify(s.targRd, sig, m, s.xmit); err != nil {
			return fmt.Sprintf("Deltify of an in-memory target failed: %v", err), info
		}
	}
	ops := s.ops
	if s.invalid != "" {
		return s.invalid + " | delta: " + renderOps(ops), info
	}
	if v := checkOps(ops, blocks, m); v != "" {
		return v + " | delta: " + renderOps(ops), info
	}
	info.Ops = ops
	info.Blocks, info.Datas = countKinds(ops)
	info.NonTrivial = info.Blocks > 0 && info.Datas > 0
	info.Identical = bytes.Equal(base, target)
	for i, o := range ops {
		if !o.isData() {
			if o.Count > 1 {
				info.Coalesced = true
			}
			if blocks > 0 && o.Start+o.Count == blocks && uint64(len(base))%bs != 0 {
				info.ShortLastUsed = true
			}
		} else if i > 0 && ops[i-1].isData() {
			info.Chunked = true
		}
	}

	// Reconstruction, by the slice model and by the engine.
	if v := modelPatchEquals(base, bs, ops, target); v != "" {
		return v + " | delta: " + renderOps(ops), info
	}
	if opt.bytesAPI {
		if got, err := eng.PatchBytes(base, sig, delta); err != nil {
			return fmt.Sprintf("PatchBytes failed on the engine's own delta: %v | delta: %s", err, renderOps(ops)), info
		} else if !bytes.Equal(got, target) {
			return fmt.Sprintf("PatchBytes gives %s, target is %s | delta: %s", show(got), show(target), renderOps(ops)), info
		}
	} else {
		s.out.Reset()
		s.baseRd.Reset(base)
		for i, o := range ops {
			s.patchOp.Data, s.patchOp.Start, s.patchOp.Count = o.Data, o.Start, o.Count
			if err := eng.Patch(&s.out, s.baseRd, sig, s.patchOp); err != nil {
				return fmt.Sprintf("Patch failed on operation %d of the engine's own delta: %v | delta: %s", i, err, renderOps(ops)), info
			}
		}
		if !bytes.Equal(s.out.Bytes(), target) {
			return fmt.Sprintf("Patch gives %s, target is %s | delta: %s", show(s.out.Bytes()), show(target), renderOps(ops)), info
		}
	}

	// An unchanged target needs no literal data.
	if info.Identical && info.Datas > 0 {
		return "target equals base but the delta carries literal data: " + renderOps(ops), info
	}

	// Streaming Deltify fed one byte per Read gives the same operations.
	if opt.stream {
		s.sops = s.sops[:0]
		s.dst = &s.sops
		s.targRd.Reset(target)
		if err := eng.Deltify(iotest.OneByteReader(s.targRd), sig, m, s.xmit); err != nil {
			return fmt.Sprintf("streaming Deltify failed: %v", err), info
		}
		if s.invalid != "" {
			return "streaming: " + s.invalid, info
		}
		if !opsEqual(ops, s.sops) {
			return fmt.Sprintf("streaming Deltify (one byte per read) yields %s, in-memory yields %s", renderOps(s.sops), renderOps(ops)), info
		}
		// The same through a plain io.Reader that is not an io.ByteReader and
		// hands out as much as is asked for (what a file does): the engine
		// then reads through its own buffering layer.
		s.sops = s.sops[:0]
		s.targRd.Reset(target)
		if err := eng.Deltify(plainReader{s.targRd}, sig, m, s.xmit); err != nil {
			return fmt.Sprintf("streaming Deltify (plain reader) failed: %v", err), info
		}
		if s.invalid != "" {
			return "streaming (plain reader): " + s.invalid, info
		}
		if !opsEqual(ops, s.sops) {
			return fmt.Sprintf("streaming Deltify (plain io.Reader) yields %s, in-memory yields %s", renderOps(s.sops), renderOps(ops)), info
		}
	}

	// No matchable block is missed: the literal volume does not exceed that of
	// the hash-free greedy reference.
	if uint64(len(target))*bs <= refLimit {
		if !opt.keepRef {
			lookup := opt.lookup
			if lookup == nil {
				lookup = fullBlockLookup(base, bs)
			}
			s.ref = referenceDelta(s.ref[:0], base, target, bs, lookup)
		}
		info.RefCompared = true
		info.EqualsReference = equalsNormalized(ops, s.ref)
		if lb, lr := literalBytes(ops), literalBytes(s.ref); lb > lr {
			return fmt.Sprintf("delta carries %d literal bytes where greedy block matching by direct comparison needs %d | delta: %s | reference: %s", lb, lr, renderOps(ops), renderOps(s.ref)), info
		}
	}
	return "", info
}

// plainReader hides every method of the wrapped reader except Read.
type plainReader struct{ r io.Reader }

func (p plainReader) Read(b []byte) (int, error) { return p.r.Read(b) }

func show(p []byte) string {
	if len(p) <= 48 {
		return fmt.Sprintf("%q", p)
	}
	return fmt.Sprintf("[%d bytes %q...]", len(p), p[:24])
}

// abStrings lists every string over {a,b} of length <= maxLen, shortest first.
func abStrings(maxLen int) [][]byte {
	var out [][]byte
	for n := 0; n <= maxLen; n++ {
		for bits := 0; bits < 1<<n; bits++ {
			s := make([]byte, n)
			for i := range s {
				s[i] = 'a' + byte(bits>>(n-1-i)&1)
			}
			out = append(out, s)
		}
	}
	return out
}

func maxDataOps() []uint64 { return []uint64{1, 2, 3, 0} }

type tally struct {
	evals, nts uint64
	classes    map[string]uint64
	samples    []any
}

func (tl *tally) flush(rec *ev.Recorder) {
	rec.EvalN(tl.evals)
	rec.NonTrivialDistinct(tl.nts)
	for c, n := range tl.classes {
		rec.ClassN(c, n)
	}
	for _, s := range tl.samples {
		rec.Sample(s)
	}
}

func (tl *tally) count(info *Info) {
	tl.evals++
	if info.NonTrivial {
		tl.nts++
		tl.classes["nontrivial"]++
	}
	if info.Identical {
		tl.classes["target==base"]++
	}
	if info.Blocks == 0 {
		tl.classes["no-block-op"]++
	}
	if info.Datas == 0 {
		tl.classes["no-data-op"]++
	}
	if info.Coalesced {
		tl.classes["coalesced-block-op"]++
	}
	if info.Chunked {
		tl.classes["chunked-literal-run"]++
	}
	if info.ShortLastUsed {
		tl.classes["short-last-block-copied"]++
	}
	if info.RefCompared {
		if info.EqualsReference {
			tl.classes["delta==greedy-reference"]++
		} else {
			tl.classes["delta!=greedy-reference"]++
		}
	}
}

func TestC19_Exhaustive(t *testing.T) {
	if ev.ReplayPath() != "" || prop() != "C19" {
		t.Skip()
	}
	maxLen := ev.Pick(8, 10)
	rec := ev.New(t, "C19", "exhaustive-ab", "every (base, target) over {a,b} up to the length bound x every block size 1..|base|+1 x max data operation size {1,2,3,default}; "+ruleC19)
	rec.SetExhaustive(fmt.Sprintf("|base|,|target| <= %d over {a,b}; block size 1..|base|+1; max data op in {1,2,3,0(default)}", maxLen))
	strs := abStrings(maxLen)
	rec.Note("strings", len(strs))

	shard, shards := ev.Shard(), ev.Shards()
	var mu sync.Mutex
	var failure *Case
	var failureMsg string
	work := make(chan int)
	var wg sync.WaitGroup
	for w := 0; w < runtime.GOMAXPROCS(0); w++ {
		wg.Add(1)
		go func() {
			defer wg.Done()
			sc := newScratch()
			eng := sc.eng
			for bi := range work {
				base := strs[bi]
				tl := &tally{classes: map[string]uint64{}}
				stop := false
				for bs := uint64(1); bs <= uint64(len(base))+1 && !stop; bs++ {
					sig := eng.BytesSignature(base, bs)
					if v := checkSignature(sig, base, bs); v != "" {
						mu.Lock()
						if failure == nil {
							failure, failureMsg = explicitCase(base, nil, bs, 0), v
						}
						mu.Unlock()
						stop = true
						break
					}
					lookup := fullBlockLookup(base, bs)
					for ti, target := range strs {
						for mi, m := range maxDataOps() {
							// The reference depends on (base, bs, target) only; the
							// streaming variant runs for the smallest limit (most operations).
							v, info := judgeC19(sc, base, target, bs, m, options{sig: sig, sigChecked: true, lookup: lookup, keepRef: mi > 0, stream: mi == 0})
							tl.count(&info)
							if v != "" {
								mu.Lock()
								if failure == nil {
									failure, failureMsg = explicitCase(base, target, bs, m), v
								}
								mu.Unlock()
								stop = true
								break
							}
							if info.NonTrivial && len(tl.samples) < 1 && (bi+ti)%97 == 0 && len(base) >= 5 && bs >= 2 {
								tl.samples = append(tl.samples, map[string]any{"base": string(base), "target": string(target), "block_size": bs, "max_data_op": m, "delta": renderOps(info.Ops)})
							}
						}
						if stop {
							break
						}
					}
				}
				tl.flush(rec)
			}
		}()
	}
	// Longest bases first: they are the expensive work units.
	for bi := len(strs) - 1; bi >= 0; bi-- {
		if bi%shards != shard {
			continue
		}
		mu.Lock()
		failed := failure != nil
		mu.Unlock()
		if failed {
			break
		}
		work <- bi
	}
	close(work)
	wg.Wait()
	if failure != nil {
		ev.FailTB(t, rec, failure, "%s", failureMsg)
	}
}

// drawCase draws a random large-input case.
func drawCase(rt *rapid.T) *Case {
	r := &Recipe{Seed: rapid.Uint64().Draw(rt, "seed")}
	switch sz := rapid.IntRange(0, 19).Draw(rt, "size.class"); {
	case sz < 12:
		r.BaseLen = rapid.IntRange(0, 4096).Draw(rt, "base.len")
	case sz < 19:
		r.BaseLen = rapid.IntRange(4097, 1<<16).Draw(rt, "base.len")
	default:
		r.BaseLen = rapid.IntRange(1<<16+1, 1<<20).Draw(rt, "base.len")
	}
	r.Alphabet = rapid.IntRange(0, alphaCount-1).Draw(rt, "alphabet")
	n := r.BaseLen

	// Block size.
	var bs uint64
	switch rapid.IntRange(0, 9).Draw(rt, "bs.mode") {
	case 0:
		bs = 1
	case 1:
		bs = uint64(rapid.IntRange(2, 16).Draw(rt, "bs"))
	case 2:
		bs = uint64(max(n, 1))
	case 3:
		bs = uint64(n + 1)
	case 4:
		bs = uint64(max(n-1, 1))
	case 5:
		bs = 0
	case 6:
		bs = uint64(max(n/rapid.IntRange(2, 9).Draw(rt, "bs.div"), 1))
	case 7:
		bs = uint64(rapid.IntRange(250, 1100).Draw(rt, "bs"))
	default:
		bs = uint64(rapid.IntRange(1, n+1).Draw(rt, "bs"))
	}
	if bs > 0 && uint64(n)/bs > 20000 {
		bs = uint64(n)/20000 + 1
	}
	effBS := bs
	if effBS == 0 {
		effBS = 1024
	}

	// Duplicate blocks: make the base periodic with a period tied to the block size.
	if rapid.IntRange(0, 3).Draw(rt, "periodic") == 0 {
		r.Period = int(effBS) * rapid.IntRange(1, 3).Draw(rt, "period.blocks")
		if rapid.Bool().Draw(rt, "period.skew") {
			r.Period++
		}
	}

	// Edit script, mostly in units of the block size.
	nEdits := rapid.IntRange(0, 8).Draw(rt, "edits")
	for i := 0; i < nEdits; i++ {
		e := Edit{Kind: rapid.IntRange(0, editKinds-1).Draw(rt, "edit.kind")}
		pos := func(label string) int {
			p := rapid.IntRange(0, max(n, 1)).Draw(rt, label)
			if rapid.Bool().Draw(rt, label+".aligned") {
				p -= p % int(effBS)
			}
			return p
		}
		e.A = pos("edit.a")
		e.C = pos("edit.c")
		switch rapid.IntRange(0, 3).Draw(rt, "edit.len.mode") {
		case 0:
			e.B = rapid.IntRange(0, 3).Draw(rt, "edit.len")
		case 1:
			e.B = int(effBS) * rapid.IntRange(1, 4).Draw(rt, "edit.len.blocks")
		case 2:
			e.B = int(effBS)*rapid.IntRange(1, 4).Draw(rt, "edit.len.blocks") + rapid.IntRange(-2, 2).Draw(rt, "edit.len.skew")
		default:
			e.B = rapid.IntRange(0, max(n/4, 1)).Draw(rt, "edit.len")
		}
		e.B = max(min(e.B, 1<<18), 0)
		r.Edits = append(r.Edits, e)
	}

	// Maximum data operation size.
	var m uint64
	switch rapid.IntRange(0, 6).Draw(rt, "m.mode") {
	case 0, 1:
		m = 0
	case 2:
		m = 1
	case 3:
		m = uint64(rapid.IntRange(2, 64).Draw(rt, "m"))
	case 4:
		m = uint64(max(int(effBS)+rapid.IntRange(-1, 1).Draw(rt, "m.skew"), 1))
	default:
		m = uint64(rapid.IntRange(1, 200000).Draw(rt, "m"))
	}
	return &Case{Recipe: r, BlockSize: bs, MaxDataOp: m}
}

func runRandomCase(sc *scratch, c *Case) (string, Info, []byte, []byte) {
	base, target := c.bytes()
	m := c.MaxDataOp
	// Keep the number of literal operations bounded (each is an allocation).
	if m > 0 && uint64(len(target))/m > 200000 {
		m = uint64(len(target))/200000 + 1
		c.MaxDataOp = m
	}
	v, info := judgeC19(sc, base, target, c.BlockSize, m, options{stream: len(target) <= 1<<18, bytesAPI: true})
	return v, info, base, target
}

func TestC19_Random(t *testing.T) {
	if ev.ReplayPath() != "" || prop() != "C19" {
		t.Skip()
	}
	rec := ev.New(t, "C19", "random-edits", "rapid: bases of 0..1 MiB (four alphabets, optionally periodic so that blocks repeat), target derived by a script of insert/delete/duplicate/move/flip/weak-hash-twin/truncate/append edits mostly aligned to the block size; block size 1, small, |base|, |base|+-1, optimal, random; max data op default, 1, small, around the block size, random; "+ruleC19)
	sc := newScratch()
	tl := &tally{classes: map[string]uint64{}}
	ev.Check(t, rec, 5000, 60000, func(rt *rapid.T) {
		c := drawCase(rt)
		v, info, base, target := runRandomCase(sc, c)
		if v != "" {
			fc := c
			if len(base)+len(target) <= 8192 {
				fc = explicitCase(base, target, c.BlockSize, c.MaxDataOp)
			}
			ev.Failf(rt, rec, fc, "%s", v)
		}
		before := tl.nts
		tl.count(&info)
		switch {
		case len(base) <= 4096:
			tl.classes["base<=4KiB"]++
		case len(base) <= 1<<16:
			tl.classes["base<=64KiB"]++
		default:
			tl.classes["base<=1MiB"]++
		}
		if c.BlockSize == 0 {
			tl.classes["block-size-chosen-by-engine"]++
		}
		if tl.nts > before {
			rec.NonTrivial(ev.Hash(fmt.Sprintf("%+v", *c.Recipe), fmt.Sprint(c.BlockSize, c.MaxDataOp)))
			if rec.WantSample() {
				rec.Sample(map[string]any{"recipe": c.Recipe, "block_size": c.BlockSize, "max_data_op": c.MaxDataOp,
					"base_len": len(base), "target_len": len(target), "block_ops": info.Blocks, "data_ops": info.Datas, "literal_bytes": literalBytes(info.Ops)})
			}
		}
	})
	// NonTrivial() already counted the non-trivial evaluations.
	tl.nts = 0
	tl.flush(rec)
}
