package c19_rsync

// C20: rsync transfers report every transmission failure. Fault enumeration:
// the transmitter handed to Engine.Deltify, or the Encoder behind
// rsync.Transmit + NewEncodingReceiver, fails at every call index (once,
// once-after-delivering, persistently, or in Finalize). Oracle: the call
// returns an error, or what was actually delivered reconstructs the target
// exactly (slice model of model.go; for Transmit additionally the real
// DecodeToReceiver/NewReceiver pair fed with the delivered messages).

import (
	"bytes"
	"errors"
	"fmt"
	"io"
	"os"
	"path/filepath"
	"runtime"
	"sync"
	"testing"

	"google.golang.org/protobuf/proto"
	"pgregory.net/rapid"

	"github.com/mutagen-io/mutagen/pkg/synchronization/rsync"

	"verif/kit/ev"
)

const ruleC20 = "non-trivial: the failing call carries a block operation (one that was held in the coalescing buffer and flushed by a later match, by literal data or at the end)"

// knownSendBlock is the classifier name of the one known-finding class of C20:
// a transient failure (the transport works again afterwards) of a call that
// carries a block operation which is directly followed by another block
// operation in the fault-free stream, i.e. a block range flushed from the
// coalescing buffer by the next, non-adjacent block match.
const knownSendBlock = "transient-failure-at-block-op-followed-by-block-op"

// Fault modes.
const (
	modeOnce          = "once"           // call k fails, nothing delivered by it; later calls work
	modeOnceDelivered = "once-delivered" // call k delivers its message and then reports failure; later calls work
	modePersistent    = "persistent"     // every call from k on fails
	modeFinalize      = "finalize"       // Encoder.Finalize fails (Transmit only)
)

var deltifyModes = []string{modeOnce, modePersistent, modeOnceDelivered}

func transient(mode string) bool { return mode == modeOnce || mode == modeOnceDelivered }

// Fault is an injected failure.
type Fault struct {
	Index int    `json:"index"`
	Mode  string `json:"mode"`
}

// at tells whether call i fails and whether its message is delivered.
func (f Fault) at(i int) (fail, deliver bool) {
	switch f.Mode {
	case modeOnce:
		return i == f.Index, i != f.Index
	case modeOnceDelivered:
		return i == f.Index, true
	case modePersistent:
		return i >= f.Index, i < f.Index
	}
	return false, true
}

var errInjected = errors.New("injected transmission failure")

// FileSpec is one file of a Transmit case.
type FileSpec struct {
	Path      string `json:"path"`
	Base      []byte `json:"base"`
	Target    []byte `json:"target"`
	BaseText  string `json:"base_text,omitempty"`
	TargText  string `json:"target_text,omitempty"`
	Missing   bool   `json:"missing,omitempty"` // the file does not exist on the transmitting side
	BlockSize uint64 `json:"block_size"`
}

// FaultCase is a replayable C20 case.
type FaultCase struct {
	Kind      string     `json:"kind"` // "deltify" or "transmit"
	Base      []byte     `json:"base,omitempty"`
	Target    []byte     `json:"target,omitempty"`
	BaseText  string     `json:"base_text,omitempty"`
	TargText  string     `json:"target_text,omitempty"`
	BlockSize uint64     `json:"block_size,omitempty"`
	MaxDataOp uint64     `json:"max_data_op,omitempty"`
	Files     []FileSpec `json:"files,omitempty"`
	Fault     Fault      `json:"fault"`
}

// FaultInfo describes a judged fault case.
type FaultInfo struct {
	Class      string // what the failing call carried
	NonTrivial bool
	Known      bool // belongs to the knownSendBlock class
	Errored    bool // the call under test returned an error
	Calls      int  // calls made in the fault-free run
	CallsAfter int  // calls made after the first failing call
}

// classifyOps names what call k of a fault-free operation stream carries.
func classifyOps(ops []Op, k int) (class string, nonTrivial, known bool) {
	if ops[k].isData() {
		return "fault-at/data-op", false, false
	}
	switch {
	case k == len(ops)-1:
		return "fault-at/block-op-flushed-at-end", true, false
	case ops[k+1].isData():
		return "fault-at/block-op-flushed-by-data", true, false
	default:
		return "fault-at/block-op-flushed-by-next-block", true, true
	}
}

// faultFreeOps runs Deltify without faults.
func faultFreeOps(eng *rsync.Engine, target []byte, sig *rsync.Signature, m uint64, dst []Op) ([]Op, error) {
	dst = dst[:0]
	err := eng.Deltify(bytes.NewReader(target), sig, m, func(o *rsync.Operation) error {
		dst = append(dst, copyOp(o))
		return nil
	})
	return dst, err
}

// judgeDeltifyFault runs Engine.Deltify with the transmitter failing as
// described by fault. free is the fault-free stream for the same input.
func judgeDeltifyFault(eng *rsync.Engine, base, target []byte, bs, m uint64, sig *rsync.Signature, free []Op, fault Fault) (string, FaultInfo) {
	var info FaultInfo
	info.Calls = len(free)
	if fault.Index < 0 || fault.Index >= len(free) {
		return "", info
	}
	info.Class, info.NonTrivial, info.Known = classifyOps(free, fault.Index)
	info.Known = info.Known && transient(fault.Mode)

	var delivered []Op
	calls, failedAt := 0, -1
	err := eng.Deltify(bytes.NewReader(target), sig, m, func(o *rsync.Operation) error {
		i := calls
		calls++
		fail, deliver := fault.at(i)
		if deliver {
			delivered = append(delivered, copyOp(o))
		}
		if failedAt >= 0 {
			info.CallsAfter++
		}
		if fail {
			if failedAt < 0 {
				failedAt = i
			}
			return errInjected
		}
		return nil
	})
	if failedAt < 0 {
		return fmt.Sprintf("harness: fault %+v never fired (%d calls, fault-free run had %d)", fault, calls, len(free)), info
	}
	if err != nil {
		info.Errored = true
		return "", info
	}
	if v := modelPatchEquals(base, bs, delivered, target); v != "" {
		got, _ := modelPatch(base, bs, delivered)
		return fmt.Sprintf("Deltify returned nil although transmit call #%d (%v, mode %s) failed, and the delivered operations [%s] reconstruct %s instead of the target %s (fault-free stream: [%s])",
			failedAt, free[failedAt], fault.Mode, renderOps(delivered), show(got), show(target), renderOps(free)), info
	}
	return "", info
}

// faultyEncoder is an rsync.Encoder with an injected failure.
type faultyEncoder struct {
	fault      Fault
	calls      int
	failedAt   int
	callsAfter int
	finalized  int
	delivered  []*rsync.Transmission
}

func (e *faultyEncoder) Encode(t *rsync.Transmission) error {
	i := e.calls
	e.calls++
	if e.failedAt >= 0 {
		e.callsAfter++
	}
	fail, deliver := e.fault.at(i)
	if deliver {
		e.delivered = append(e.delivered, proto.Clone(t).(*rsync.Transmission))
	}
	if fail {
		if e.failedAt < 0 {
			e.failedAt = i
		}
		return errInjected
	}
	return nil
}

func (e *faultyEncoder) Finalize() error {
	e.finalized++
	if e.fault.Mode == modeFinalize {
		if e.failedAt < 0 {
			e.failedAt = e.calls
		}
		return errInjected
	}
	return nil
}

// listDecoder replays delivered transmissions to DecodeToReceiver.
type listDecoder struct {
	list []*rsync.Transmission
	next int
}

func (d *listDecoder) Decode(t *rsync.Transmission) error {
	if d.next >= len(d.list) {
		return io.ErrUnexpectedEOF
	}
	proto.Reset(t)
	proto.Merge(t, d.list[d.next])
	d.next++
	return nil
}

func (d *listDecoder) Finalize() error { return nil }

// memSink stores received files in memory.
type memSink struct{ files map[string]*bytes.Buffer }

type bufCloser struct{ *bytes.Buffer }

func (bufCloser) Close() error { return nil }

func (s *memSink) Sink(path string) (io.WriteCloser, error) {
	b := &bytes.Buffer{}
	s.files[path] = b
	return bufCloser{b}, nil
}

// transmitRoots materialises a Transmit case: targets under src, bases under dst.
func transmitRoots(dir string, files []FileSpec) (src, dst string, err error) {
	src, dst = filepath.Join(dir, "src"), filepath.Join(dir, "dst")
	for _, d := range []string{src, dst} {
		if err = os.RemoveAll(d); err != nil {
			return
		}
		if err = os.MkdirAll(d, 0o700); err != nil {
			return
		}
	}
	for _, f := range files {
		if !f.Missing {
			if err = os.WriteFile(filepath.Join(src, f.Path), f.Target, 0o600); err != nil {
				return
			}
		}
		if err = os.WriteFile(filepath.Join(dst, f.Path), f.Base, 0o600); err != nil {
			return
		}
	}
	return
}

// transmitSetup holds what is shared by all faults of one Transmit case.
type transmitSetup struct {
	src, dst string
	paths    []string
	sigs     []*rsync.Signature
	free     []*rsync.Transmission
}

func newTransmitSetup(dir string, files []FileSpec) (*transmitSetup, string) {
	src, dst, err := transmitRoots(dir, files)
	if err != nil {
		return nil, "harness: " + err.Error()
	}
	s := &transmitSetup{src: src, dst: dst}
	eng := rsync.NewEngine()
	for _, f := range files {
		s.paths = append(s.paths, f.Path)
		s.sigs = append(s.sigs, eng.BytesSignature(f.Base, f.BlockSize))
	}
	enc := &faultyEncoder{failedAt: -1, fault: Fault{Mode: "none"}}
	if err := rsync.Transmit(src, s.paths, s.sigs, rsync.NewEncodingReceiver(enc)); err != nil {
		return nil, fmt.Sprintf("harness: fault-free Transmit failed: %v", err)
	}
	s.free = enc.delivered
	return s, ""
}

// interpret splits delivered transmissions into per-file operation lists. It
// fails when the Done framing is not exactly one Done per file.
func interpret(list []*rsync.Transmission, files int) ([][]Op, []string, string) {
	var perFile [][]Op
	var errs []string
	var cur []Op
	for i, t := range list {
		if len(perFile) == files {
			return nil, nil, fmt.Sprintf("transmission %d arrives after the Done message of the last file", i)
		}
		if t.Done {
			perFile = append(perFile, cur)
			errs = append(errs, t.Error)
			cur = nil
			continue
		}
		if t.Operation == nil {
			return nil, nil, fmt.Sprintf("transmission %d is neither Done nor carries an operation", i)
		}
		cur = append(cur, copyOp(t.Operation))
	}
	if len(perFile) != files || len(cur) != 0 {
		return nil, nil, fmt.Sprintf("delivered stream ends after %d of %d Done messages (%d trailing operations)", len(perFile), files, len(cur))
	}
	return perFile, errs, ""
}

func renderTransmissions(list []*rsync.Transmission) string {
	var b bytes.Buffer
	for i, t := range list {
		if i > 0 {
			b.WriteByte(' ')
		}
		switch {
		case t.Done && t.Error != "":
			b.WriteString("DONE(error)")
		case t.Done:
			b.WriteString("DONE")
		case t.Operation != nil:
			b.WriteString(copyOp(t.Operation).String())
		default:
			b.WriteString("?")
		}
	}
	return b.String()
}

// judgeTransmitFault runs rsync.Transmit through an encoding receiver whose
// Encoder fails as described.
func judgeTransmitFault(s *transmitSetup, files []FileSpec, fault Fault) (string, FaultInfo) {
	var info FaultInfo
	info.Calls = len(s.free)
	if fault.Mode != modeFinalize {
		if fault.Index < 0 || fault.Index >= len(s.free) {
			return "", info
		}
		t := s.free[fault.Index]
		if t.Done {
			info.Class = "fault-at/done-message"
		} else {
			// Classify within the file's own operation stream.
			lo := fault.Index
			for lo > 0 && !s.free[lo-1].Done {
				lo--
			}
			var ops []Op
			for i := lo; i < len(s.free) && !s.free[i].Done; i++ {
				ops = append(ops, copyOp(s.free[i].Operation))
			}
			info.Class, info.NonTrivial, info.Known = classifyOps(ops, fault.Index-lo)
			info.Known = info.Known && transient(fault.Mode)
		}
	} else {
		info.Class = "fault-at/finalize"
	}

	enc := &faultyEncoder{failedAt: -1, fault: fault}
	err := rsync.Transmit(s.src, s.paths, s.sigs, rsync.NewEncodingReceiver(enc))
	info.CallsAfter = enc.callsAfter
	if enc.failedAt < 0 {
		return fmt.Sprintf("harness: fault %+v never fired (%d Encode calls, %d Finalize calls)", fault, enc.calls, enc.finalized), info
	}
	if err != nil {
		info.Errored = true
		return "", info
	}
	what := fmt.Sprintf("Transmit returned nil although Encode call #%d failed (mode %s)", enc.failedAt, fault.Mode)
	if fault.Mode == modeFinalize {
		return "Transmit returned nil although Encoder.Finalize failed", info
	}
	ctx := fmt.Sprintf(" | delivered: [%s] | fault-free: [%s]", renderTransmissions(enc.delivered), renderTransmissions(s.free))
	perFile, doneErrs, v := interpret(enc.delivered, len(files))
	if v != "" {
		return what + ": " + v + ctx, info
	}
	for i, f := range files {
		if f.Missing {
			continue
		}
		if doneErrs[i] != "" {
			return fmt.Sprintf("%s and file %d was closed with error %q", what, i, doneErrs[i]) + ctx, info
		}
		if v := modelPatchEquals(f.Base, max(f.BlockSize, 1), perFile[i], f.Target); v != "" {
			got, _ := modelPatch(f.Base, max(f.BlockSize, 1), perFile[i])
			return fmt.Sprintf("%s and the operations delivered for file %d (%s) reconstruct %s instead of %s", what, i, f.Path, show(got), show(f.Target)) + ctx, info
		}
	}
	// The same through the real receiving side.
	sink := &memSink{files: map[string]*bytes.Buffer{}}
	recv, rerr := rsync.NewReceiver(s.dst, s.paths, s.sigs, sink)
	if rerr != nil {
		return "harness: " + rerr.Error(), info
	}
	if derr := rsync.DecodeToReceiver(&listDecoder{list: enc.delivered}, uint64(len(files)), recv); derr != nil {
		return fmt.Sprintf("%s and the receiving side fails on the delivered messages: %v", what, derr) + ctx, info
	}
	for _, f := range files {
		if f.Missing {
			continue
		}
		got := sink.files[f.Path]
		if got == nil || !bytes.Equal(got.Bytes(), f.Target) {
			var g []byte
			if got != nil {
				g = got.Bytes()
			}
			return fmt.Sprintf("%s and the receiver stored %s for %s instead of %s", what, show(g), f.Path, show(f.Target)) + ctx, info
		}
	}
	return "", info
}

// faultTally accumulates evidence of one worker.
type faultTally struct {
	evals, nts, excluded uint64
	classes              map[string]uint64
	samples              []any
}

func newFaultTally() *faultTally { return &faultTally{classes: map[string]uint64{}} }

func (tl *faultTally) count(info *FaultInfo, mode string) {
	tl.evals++
	if info.Class != "" {
		tl.classes[info.Class]++
	}
	tl.classes["mode/"+mode]++
	if info.NonTrivial {
		tl.nts++
	}
	if info.Errored {
		tl.classes["outcome/error-returned"]++
	} else {
		tl.classes["outcome/nil-and-delivery-exact"]++
	}
	if info.CallsAfter > 0 {
		tl.classes["calls-made-after-the-failing-call"]++
	}
}

func (tl *faultTally) flush(rec *ev.Recorder, distinct bool) {
	rec.EvalN(tl.evals)
	if distinct {
		rec.NonTrivialDistinct(tl.nts)
	}
	for c, n := range tl.classes {
		rec.ClassN(c, n)
	}
	for i := uint64(0); i < tl.excluded; i++ {
		rec.Excluded(knownSendBlock)
	}
	for _, s := range tl.samples {
		rec.Sample(s)
	}
}

func deltifyCase(base, target []byte, bs, m uint64, f Fault) *FaultCase {
	c := &FaultCase{Kind: "deltify", Base: base, Target: target, BlockSize: bs, MaxDataOp: m, Fault: f}
	if printable(base) && printable(target) {
		c.BaseText, c.TargText = string(base), string(target)
	}
	return c
}

// caseLess orders failing cases so that the reported one is the smallest and
// does not depend on worker scheduling.
func caseLess(a, b *FaultCase) bool {
	key := func(c *FaultCase) string {
		return fmt.Sprintf("%04d %04d %04d %04d %s %s %s", len(c.Base)+len(c.Target), c.BlockSize, c.Fault.Index, c.MaxDataOp, c.Base, c.Target, c.Fault.Mode)
	}
	return key(a) < key(b)
}

// reportKnownCanonical executes the canonical instance of the known class and
// prints the KNOWN-FINDING line when it still fails.
func reportKnownCanonical(rec *ev.Recorder, f ev.Finding) {
	eng := rsync.NewEngine()
	base, target := []byte("ab"), []byte("ba")
	sig := eng.BytesSignature(base, 1)
	free, _ := faultFreeOps(eng, target, sig, 0, nil)
	if v, _ := judgeDeltifyFault(eng, base, target, 1, 0, sig, free, Fault{Index: 0, Mode: modeOnce}); v != "" {
		rec.ReportKnown(f)
		rec.Note("known_canonical_instance", v)
	} else {
		rec.Note("known_canonical_instance", "no longer fails: base \"ab\", target \"ba\", block size 1, transmitter failing once at call 0")
	}
}

func TestC20_DeltifyExhaustive(t *testing.T) {
	if ev.ReplayPath() != "" || prop() != "C20" {
		t.Skip()
	}
	maxLen := ev.Pick(6, 8)
	rec := ev.New(t, "C20", "deltify-faults-exhaustive", "every (base, target) over {a,b} up to the length bound x block size 1..|base|+1 x max data op {1,default} x every transmit call index x {once, once-delivered, persistent}; "+ruleC20)
	rec.SetExhaustive(fmt.Sprintf("|base|,|target| <= %d over {a,b}; block size 1..|base|+1; max data op {1,0}; every call index; 3 failure modes", maxLen))
	known, excluding := ev.KnownClass("C20", knownSendBlock)
	if excluding {
		reportKnownCanonical(rec, known)
	}
	strs := abStrings(maxLen)
	shard, shards := ev.Shard(), ev.Shards()
	var mu sync.Mutex
	var failure *FaultCase
	var failureMsg string
	work := make(chan int)
	var wg sync.WaitGroup
	for w := 0; w < runtime.GOMAXPROCS(0); w++ {
		wg.Add(1)
		go func() {
			defer wg.Done()
			eng := rsync.NewEngine()
			var free []Op
			for bi := range work {
				base := strs[bi]
				tl := newFaultTally()
				stop := false
				for bs := uint64(1); bs <= uint64(len(base))+1 && !stop; bs++ {
					sig := eng.BytesSignature(base, bs)
					for ti, target := range strs {
						for _, m := range []uint64{1, 0} {
							var err error
							free, err = faultFreeOps(eng, target, sig, m, free)
							if err != nil || modelPatchEquals(base, bs, free, target) != "" {
								tl.classes["skipped/fault-free-run-not-exact(C19)"]++
								continue
							}
							for k := range free {
								for _, mode := range deltifyModes {
									f := Fault{Index: k, Mode: mode}
									if excluding {
										if _, _, kn := classifyOps(free, k); kn && transient(mode) {
											tl.excluded++
											continue
										}
									}
									v, info := judgeDeltifyFault(eng, base, target, bs, m, sig, free, f)
									tl.count(&info, mode)
									if v != "" {
										c := deltifyCase(base, target, bs, m, f)
										mu.Lock()
										if failure == nil || caseLess(c, failure) {
											failure, failureMsg = c, v
										}
										mu.Unlock()
										stop = true
									} else if info.NonTrivial && len(tl.samples) < 1 && (bi+ti)%53 == 0 && len(free) >= 3 {
										tl.samples = append(tl.samples, map[string]any{"base": string(base), "target": string(target), "block_size": bs, "max_data_op": m,
											"fault": f, "fault_free_stream": renderOps(free), "error_returned": info.Errored})
									}
								}
							}
						}
						if stop {
							break
						}
					}
				}
				tl.flush(rec, true)
			}
		}()
	}
	for bi := range strs {
		if bi%shards != shard {
			continue
		}
		mu.Lock()
		failed := failure != nil
		mu.Unlock()
		if failed {
			break
		}
		work <- bi
	}
	close(work)
	wg.Wait()
	if failure != nil {
		ev.FailTB(t, rec, failure, "%s", failureMsg)
	}
}

// drawBlocky draws a (base, target) pair in which the target is mostly a
// rearrangement of base blocks, so that deltas consist of many non-adjacent
// block operations.
func drawBlocky(rt *rapid.T, label string, maxBlocks int) (base, target []byte, bs uint64) {
	bs = uint64(rapid.IntRange(1, 4).Draw(rt, label+".bs"))
	nb := rapid.IntRange(1, maxBlocks).Draw(rt, label+".blocks")
	alphabet := rapid.SampledFrom([]int{2, 4, 16}).Draw(rt, label+".alphabet")
	base = make([]byte, 0, nb*int(bs)+3)
	for i := 0; i < nb*int(bs); i++ {
		base = append(base, 'a'+byte(rapid.IntRange(0, alphabet-1).Draw(rt, label+".byte")))
	}
	// Optional short last block.
	for i := rapid.IntRange(0, int(bs)-1).Draw(rt, label+".tail"); i > 0; i-- {
		base = append(base, 'a'+byte(rapid.IntRange(0, alphabet-1).Draw(rt, label+".byte")))
	}
	pieces := rapid.IntRange(0, 2*maxBlocks).Draw(rt, label+".pieces")
	for i := 0; i < pieces; i++ {
		switch rapid.IntRange(0, 5).Draw(rt, label+".piece") {
		case 0:
			target = append(target, 'A'+byte(rapid.IntRange(0, 3).Draw(rt, label+".lit")))
		case 1:
			// A run of consecutive blocks (coalesces).
			i0 := rapid.IntRange(0, nb-1).Draw(rt, label+".run.start")
			i1 := rapid.IntRange(i0, min(nb-1, i0+3)).Draw(rt, label+".run.end")
			target = append(target, base[i0*int(bs):(i1+1)*int(bs)]...)
		default:
			i0 := rapid.IntRange(0, nb-1).Draw(rt, label+".block")
			target = append(target, base[i0*int(bs):(i0+1)*int(bs)]...)
		}
	}
	if rapid.IntRange(0, 2).Draw(rt, label+".keep.tail") == 0 {
		target = append(target, base[nb*int(bs):]...)
	}
	return
}

func TestC20_DeltifyRandom(t *testing.T) {
	if ev.ReplayPath() != "" || prop() != "C20" {
		t.Skip()
	}
	rec := ev.New(t, "C20", "deltify-faults-random", "rapid: base of 1..12 blocks over alphabets of 2/4/16 letters, target a random sequence of base blocks, block runs and literals; every transmit call index x {once, once-delivered, persistent} enumerated per pair; "+ruleC20)
	_, excluding := ev.KnownClass("C20", knownSendBlock)
	eng := rsync.NewEngine()
	tl := newFaultTally()
	lastSampled := ""
	ev.Check(t, rec, 3000, 60000, func(rt *rapid.T) {
		base, target, bs := drawBlocky(rt, "pair", 12)
		m := uint64(rapid.SampledFrom([]int{0, 0, 1, 2, 5}).Draw(rt, "max.data.op"))
		sig := eng.BytesSignature(base, bs)
		free, err := faultFreeOps(eng, target, sig, m, nil)
		if err != nil || modelPatchEquals(base, bs, free, target) != "" {
			tl.classes["skipped/fault-free-run-not-exact(C19)"]++
			return
		}
		nb, nd := countKinds(free)
		if nb >= 3 {
			tl.classes["pair/3+block-ops"]++
		}
		if nd == 0 {
			tl.classes["pair/no-data-op"]++
		}
		for k := range free {
			for _, mode := range deltifyModes {
				f := Fault{Index: k, Mode: mode}
				if excluding {
					if _, _, kn := classifyOps(free, k); kn && transient(mode) {
						tl.excluded++
						continue
					}
				}
				v, info := judgeDeltifyFault(eng, base, target, bs, m, sig, free, f)
				tl.count(&info, mode)
				if v != "" {
					ev.Failf(rt, rec, deltifyCase(base, target, bs, m, f), "%s", v)
				}
				if info.NonTrivial {
					rec.NonTrivial(ev.Hash(string(base), string(target), fmt.Sprint(bs, m, k, mode)))
					if rec.WantSample() && len(free) >= 4 && lastSampled != string(target) {
						lastSampled = string(target)
						rec.Sample(map[string]any{"base": string(base), "target": string(target), "block_size": bs, "max_data_op": m, "fault": f,
							"fault_free_stream": renderOps(free), "error_returned": info.Errored})
					}
				}
			}
		}
	})
	tl.flush(rec, false)
}

func pathsFor(n int) []string {
	return []string{"a.bin", "b.bin", "c.bin"}[:n]
}

// transmitFaults lists the faults to enumerate for a Transmit case.
func transmitFaults(calls int) []Fault {
	var out []Fault
	for k := 0; k < calls; k++ {
		for _, mode := range deltifyModes {
			out = append(out, Fault{Index: k, Mode: mode})
		}
	}
	return append(out, Fault{Index: calls, Mode: modeFinalize})
}

func knownTransmit(s *transmitSetup, f Fault) bool {
	if !transient(f.Mode) || f.Index+1 >= len(s.free) {
		return false
	}
	a, b := s.free[f.Index], s.free[f.Index+1]
	return !a.Done && !b.Done && len(a.Operation.Data) == 0 && len(b.Operation.Data) == 0
}

// runTransmitCase enumerates all faults of one file set. It returns the first
// violation.
func runTransmitCase(dir string, files []FileSpec, excluding bool, tl *faultTally, each func(f Fault, info *FaultInfo, free []*rsync.Transmission)) (string, *FaultCase) {
	s, v := newTransmitSetup(dir, files)
	if v != "" {
		return v, &FaultCase{Kind: "transmit", Files: files}
	}
	for _, f := range transmitFaults(len(s.free)) {
		if excluding && knownTransmit(s, f) {
			tl.excluded++
			continue
		}
		v, info := judgeTransmitFault(s, files, f)
		tl.count(&info, f.Mode)
		if v != "" {
			return v, &FaultCase{Kind: "transmit", Files: files, Fault: f}
		}
		if each != nil {
			each(f, &info, s.free)
		}
	}
	return "", nil
}

func fileSpec(path string, base, target []byte, bs uint64) FileSpec {
	f := FileSpec{Path: path, Base: base, Target: target, BlockSize: bs}
	if printable(base) && printable(target) {
		f.BaseText, f.TargText = string(base), string(target)
	}
	return f
}

func TestC20_TransmitExhaustive(t *testing.T) {
	if ev.ReplayPath() != "" || prop() != "C20" {
		t.Skip()
	}
	maxLen := ev.Pick(4, 5)
	rec := ev.New(t, "C20", "transmit-faults-exhaustive", "rsync.Transmit of one real file through NewEncodingReceiver: every (base, target) over {a,b} up to the length bound x block size 1..3 x every Encode call index x {once, once-delivered, persistent} + failing Finalize; "+ruleC20)
	rec.SetExhaustive(fmt.Sprintf("one file, |base| in 1..%d, |target| <= %d over {a,b}; block size 1..3; every Encode call index; 3 failure modes + Finalize failure", maxLen, maxLen))
	_, excluding := ev.KnownClass("C20", knownSendBlock)
	strs := abStrings(maxLen)
	shard, shards := ev.Shard(), ev.Shards()
	dir := t.TempDir()
	tl := newFaultTally()
	n := 0
	for _, base := range strs {
		if len(base) == 0 {
			continue
		}
		for bs := uint64(1); bs <= 3; bs++ {
			for _, target := range strs {
				n++
				if n%shards != shard {
					continue
				}
				files := []FileSpec{fileSpec("a.bin", base, target, bs)}
				v, fc := runTransmitCase(dir, files, excluding, tl, func(f Fault, info *FaultInfo, free []*rsync.Transmission) {
					if info.NonTrivial && len(tl.samples) < 3 && len(free) >= 4 && n%37 == 0 {
						tl.samples = append(tl.samples, map[string]any{"base": string(base), "target": string(target), "block_size": bs, "fault": f,
							"fault_free_stream": renderTransmissions(free), "error_returned": info.Errored})
					}
				})
				if v != "" {
					tl.flush(rec, true)
					if harnessTrouble(v) {
						return
					}
					ev.FailTB(t, rec, fc, "%s", v)
				}
			}
		}
	}
	tl.flush(rec, true)
}

func TestC20_TransmitRandom(t *testing.T) {
	if ev.ReplayPath() != "" || prop() != "C20" {
		t.Skip()
	}
	rec := ev.New(t, "C20", "transmit-faults-random", "rapid: rsync.Transmit of 1..3 real files (block-rearrangement pairs, sometimes an empty base, an unchanged file or a file missing on the transmitting side) through NewEncodingReceiver; every Encode call index x {once, once-delivered, persistent} + failing Finalize enumerated per file set; "+ruleC20)
	_, excluding := ev.KnownClass("C20", knownSendBlock)
	dir := t.TempDir()
	tl := newFaultTally()
	lastSampled := ""
	ev.Check(t, rec, 400, 6000, func(rt *rapid.T) {
		nf := rapid.IntRange(1, 3).Draw(rt, "files")
		var files []FileSpec
		for i, p := range pathsFor(nf) {
			label := fmt.Sprintf("f%d", i)
			base, target, bs := drawBlocky(rt, label, 8)
			f := fileSpec(p, base, target, bs)
			switch rapid.IntRange(0, 9).Draw(rt, label+".special") {
			case 0:
				f.Base, f.BaseText = nil, ""
			case 1:
				f.Target, f.TargText = append([]byte(nil), base...), string(base)
			case 2:
				f.Missing = true
			}
			files = append(files, f)
		}
		tl.classes[fmt.Sprintf("files/%d", nf)]++
		v, fc := runTransmitCase(dir, files, excluding, tl, func(f Fault, info *FaultInfo, free []*rsync.Transmission) {
			if info.NonTrivial {
				rec.NonTrivial(ev.Hash(fmt.Sprintf("%v", files), fmt.Sprint(f)))
				if rec.WantSample() && len(free) >= 6 && lastSampled != fmt.Sprint(files) {
					lastSampled = fmt.Sprint(files)
					rec.Sample(map[string]any{"files": files, "fault": f, "fault_free_stream": renderTransmissions(free), "error_returned": info.Errored})
				}
			}
		})
		if v != "" {
			if harnessTrouble(v) {
				rt.Skip()
			}
			ev.Failf(rt, rec, fc, "%s", v)
		}
	})
	tl.flush(rec, false)
}

// judgeFaultCase re-runs a saved C20 case.
func judgeFaultCase(t *testing.T, c *FaultCase) string {
	switch c.Kind {
	case "deltify":
		eng := rsync.NewEngine()
		sig := eng.BytesSignature(c.Base, c.BlockSize)
		free, err := faultFreeOps(eng, c.Target, sig, c.MaxDataOp, nil)
		if err != nil {
			return "fault-free Deltify failed: " + err.Error()
		}
		v, _ := judgeDeltifyFault(eng, c.Base, c.Target, c.BlockSize, c.MaxDataOp, sig, free, c.Fault)
		return v
	case "transmit":
		s, v := newTransmitSetup(t.TempDir(), c.Files)
		if v != "" {
			return v
		}
		v, _ = judgeTransmitFault(s, c.Files, c.Fault)
		return v
	}
	return "unknown case kind " + c.Kind
}
