package c19_rsync

import (
	"os"
	"strconv"
	"testing"

	"verif/kit/ev"
)

// FuzzC19_Delta is the native fuzz target of the thorough tier: arbitrary base
// and target bytes, block size and maximum data operation size, judged by the
// same oracle as the enumerations. A crasher is replayed by the Go tooling
// from its corpus file.
func FuzzC19_Delta(f *testing.F) {
	f.Add([]byte("aabbccdd"), []byte("aaccXbb"), uint16(2), uint16(0))
	f.Add([]byte("abababab"), []byte("babababa"), uint16(1), uint16(1))
	f.Add([]byte("the quick brown fox"), []byte("the quick brown fox"), uint16(4), uint16(3))
	f.Add([]byte{}, []byte("x"), uint16(0), uint16(0))
	f.Add([]byte("\xff\xff\xff\xff\xff\xff\xfe\xff"), []byte("\xff\xff\xff\xfe\xff\xff\xff\xff\xfe\xff"), uint16(3), uint16(2))
	f.Add([]byte("abcabc"), []byte("bdabc"), uint16(3), uint16(0)) // +1,-2,+1 twin of "abc" has the same weak hash
	// Worker processes of one fuzz run write separate evidence files.
	os.Setenv("VERIF_SHARD", strconv.Itoa(os.Getpid()))
	rec := ev.New(f, "C19", "native-fuzz", "go native fuzzing over (base, target, block size, max data op); "+ruleC19)
	sc := newScratch()
	f.Fuzz(func(t *testing.T, base, target []byte, bs, m uint16) {
		if len(base) > 1<<16 || len(target) > 1<<16 {
			t.Skip()
		}
		blockSize := uint64(bs) % uint64(len(base)+2)
		if blockSize == 0 {
			blockSize = 1
		}
		c := &Case{Base: base, Target: target, BlockSize: blockSize, MaxDataOp: uint64(m)}
		rec.Eval()
		v, info := judgeC19(sc, base, target, c.BlockSize, c.MaxDataOp, options{stream: true})
		if v == "" {
			v = replayC19(sc, c)
		}
		if v != "" {
			t.Fatalf("%s", rec.Violation(c, "%s", v))
		}
		if info.NonTrivial {
			rec.NonTrivial(ev.Hash(string(base), string(target), strconv.Itoa(int(blockSize)), strconv.Itoa(int(m))))
		}
	})
}
