// Package c19_rsync holds the checks for C19 (rsync deltas reconstruct the
// target exactly) and C20 (rsync transfers report every transmission failure).
//
// This file is the independent side: a patch model that applies operations to
// a base with plain slice arithmetic, a hash-free reference of the greedy block
// matcher (direct byte comparison, no weak/strong hashes, no buffers), the
// expected shape of a signature and the input generators. None of it calls
// into the rsync package except to read the fields of its message structs.
package c19_rsync

import (
	"bytes"
	"crypto/sha1"
	"fmt"

	"github.com/mutagen-io/mutagen/pkg/synchronization/rsync"
)

// defaultMaxDataOp mirrors the documented default of the maxDataOpSize
// parameter ("This value will be used if a zero value is passed").
const defaultMaxDataOp = 1 << 16

// Op is a plain copy of an rsync operation.
type Op struct {
	Data  []byte `json:"data,omitempty"`
	Start uint64 `json:"start,omitempty"`
	Count uint64 `json:"count,omitempty"`
}

func (o Op) isData() bool { return len(o.Data) > 0 }

func (o Op) String() string {
	if o.isData() {
		if len(o.Data) > 24 {
			return fmt.Sprintf("D[%d bytes]", len(o.Data))
		}
		return fmt.Sprintf("D%q", o.Data)
	}
	return fmt.Sprintf("B(%d+%d)", o.Start, o.Count)
}

func renderOps(ops []Op) string {
	var b bytes.Buffer
	for i, o := range ops {
		if i > 0 {
			b.WriteByte(' ')
		}
		if i == 40 {
			fmt.Fprintf(&b, "... (%d ops)", len(ops))
			break
		}
		b.WriteString(o.String())
	}
	return b.String()
}

// copyOp detaches an operation from the engine's reused buffers.
func copyOp(o *rsync.Operation) Op {
	return Op{Data: append([]byte(nil), o.Data...), Start: o.Start, Count: o.Count}
}

// blockCount is the number of blocks a base of length n is cut into.
func blockCount(n int, bs uint64) uint64 {
	if n == 0 {
		return 0
	}
	return (uint64(n) + bs - 1) / bs
}

// modelPatch applies ops to base with slice arithmetic only. ok is false when
// an operation refers to blocks the base does not have.
func modelPatch(base []byte, bs uint64, ops []Op) (out []byte, ok bool) {
	blocks := blockCount(len(base), bs)
	for _, o := range ops {
		if o.isData() {
			out = append(out, o.Data...)
			continue
		}
		if o.Count == 0 || o.Start >= blocks || o.Count > blocks-o.Start {
			return out, false
		}
		lo := o.Start * bs
		hi := (o.Start + o.Count) * bs
		if hi > uint64(len(base)) {
			hi = uint64(len(base))
		}
		out = append(out, base[lo:hi]...)
	}
	return out, true
}

// referenceDelta is the hash-free reference of greedy block matching: slide a
// window of one block over the target from the end of the last match; the first
// window equal to some full base block (lowest index) becomes a block
// operation; at the end of the target the short last block of the base is
// tried against the target's tail. Literal runs are returned unchunked (as
// sub-slices of target) and adjacent block operations are merged. lookup maps
// the content of every full block to its lowest index. The result is appended
// to dst[:0].
func referenceDelta(dst []Op, base, target []byte, bs uint64, lookup map[string]uint64) []Op {
	ops := dst[:0]
	if len(base) == 0 {
		if len(target) == 0 {
			return ops
		}
		return append(ops, Op{Data: target})
	}
	emitData := func(d []byte) {
		if len(d) > 0 {
			ops = append(ops, Op{Data: d})
		}
	}
	emitBlock := func(i uint64) {
		if n := len(ops); n > 0 && !ops[n-1].isData() && ops[n-1].Start+ops[n-1].Count == i {
			ops[n-1].Count++
			return
		}
		ops = append(ops, Op{Start: i, Count: 1})
	}
	blocks := blockCount(len(base), bs)
	lastSize := uint64(len(base)) - (blocks-1)*bs
	pos, p := uint64(0), uint64(0)
	n := uint64(len(target))
	for p+bs <= n {
		if i, ok := lookup[string(target[p:p+bs])]; ok {
			emitData(target[pos:p])
			emitBlock(i)
			p += bs
			pos = p
		} else {
			p++
		}
	}
	if lastSize != bs && n-pos >= lastSize && bytes.Equal(target[n-lastSize:], base[(blocks-1)*bs:]) {
		emitData(target[pos : n-lastSize])
		emitBlock(blocks - 1)
		pos = n
	}
	emitData(target[pos:])
	return ops
}

// fullBlockLookup maps the content of each full-size block of base to the
// lowest index holding it.
func fullBlockLookup(base []byte, bs uint64) map[string]uint64 {
	m := make(map[string]uint64)
	for i := uint64(0); (i+1)*bs <= uint64(len(base)); i++ {
		k := string(base[i*bs : (i+1)*bs])
		if _, ok := m[k]; !ok {
			m[k] = i
		}
	}
	return m
}

// equalsNormalized tells whether ops, with consecutive data operations merged
// (the engine chunks literal runs by the maximum data operation size, the
// reference does not), equals ref.
func equalsNormalized(ops, ref []Op) bool {
	i := 0
	for _, r := range ref {
		if i >= len(ops) {
			return false
		}
		if !r.isData() {
			if ops[i].isData() || ops[i].Start != r.Start || ops[i].Count != r.Count {
				return false
			}
			i++
			continue
		}
		rest := r.Data
		for i < len(ops) && ops[i].isData() {
			d := ops[i].Data
			if len(d) > len(rest) || !bytes.Equal(d, rest[:len(d)]) {
				return false
			}
			rest = rest[len(d):]
			i++
		}
		if len(rest) != 0 {
			return false
		}
	}
	return i == len(ops)
}

// modelPatchEquals applies ops to base with slice arithmetic and compares the
// result with target without materialising it.
func modelPatchEquals(base []byte, bs uint64, ops []Op, target []byte) string {
	blocks := blockCount(len(base), bs)
	rest := target
	take := func(p []byte) bool {
		if len(p) > len(rest) || !bytes.Equal(p, rest[:len(p)]) {
			return false
		}
		rest = rest[len(p):]
		return true
	}
	for i, o := range ops {
		var piece []byte
		if o.isData() {
			piece = o.Data
		} else {
			if o.Count == 0 || o.Start >= blocks || o.Count > blocks-o.Start {
				return fmt.Sprintf("operation %d refers to blocks outside the base", i)
			}
			hi := (o.Start + o.Count) * bs
			if hi > uint64(len(base)) {
				hi = uint64(len(base))
			}
			piece = base[o.Start*bs : hi]
		}
		if !take(piece) {
			got, _ := modelPatch(base, bs, ops)
			return fmt.Sprintf("applying the delta to the base (slice model) gives %q..., target is %q... (first difference within operation %d)", clip(got), clip(target), i)
		}
	}
	if len(rest) != 0 {
		got, _ := modelPatch(base, bs, ops)
		return fmt.Sprintf("applying the delta to the base (slice model) gives %d bytes %q..., target has %d bytes %q...", len(got), clip(got), len(target), clip(target))
	}
	return ""
}

func clip(p []byte) []byte {
	if len(p) > 48 {
		return p[:48]
	}
	return p
}

func opsEqual(a, b []Op) bool {
	if len(a) != len(b) {
		return false
	}
	for i := range a {
		if a[i].Start != b[i].Start || a[i].Count != b[i].Count || !bytes.Equal(a[i].Data, b[i].Data) {
			return false
		}
	}
	return true
}

func literalBytes(ops []Op) (n int) {
	for _, o := range ops {
		n += len(o.Data)
	}
	return
}

func countKinds(ops []Op) (blocks, datas int) {
	for _, o := range ops {
		if o.isData() {
			datas++
		} else {
			blocks++
		}
	}
	return
}

// checkSignature compares a signature with the shape the base dictates.
func checkSignature(sig *rsync.Signature, base []byte, bs uint64) string {
	if err := sig.EnsureValid(); err != nil {
		return fmt.Sprintf("signature of a %d-byte base with block size %d fails EnsureValid: %v", len(base), bs, err)
	}
	blocks := blockCount(len(base), bs)
	if uint64(len(sig.Hashes)) != blocks {
		return fmt.Sprintf("signature has %d block hashes, base of %d bytes with block size %d has %d blocks", len(sig.Hashes), len(base), bs, blocks)
	}
	if blocks == 0 {
		if sig.BlockSize != 0 || sig.LastBlockSize != 0 {
			return fmt.Sprintf("signature of an empty base has block size %d / last block size %d", sig.BlockSize, sig.LastBlockSize)
		}
		return ""
	}
	if sig.BlockSize != bs {
		return fmt.Sprintf("signature block size %d, requested %d", sig.BlockSize, bs)
	}
	if want := uint64(len(base)) - (blocks-1)*bs; sig.LastBlockSize != want {
		return fmt.Sprintf("signature last block size %d, base dictates %d", sig.LastBlockSize, want)
	}
	for i := uint64(0); i < blocks; i++ {
		hi := (i + 1) * bs
		if hi > uint64(len(base)) {
			hi = uint64(len(base))
		}
		want := sha1.Sum(base[i*bs : hi])
		if !bytes.Equal(sig.Hashes[i].Strong, want[:]) {
			return fmt.Sprintf("strong hash of block %d is not the SHA-1 of that block", i)
		}
	}
	return ""
}

// checkOps validates the received operations of a delta (EnsureValid was
// applied on reception): block ranges inside the base, literal size within the
// limit, adjacent block ranges coalesced.
func checkOps(ops []Op, blocks uint64, maxDataOp uint64) string {
	limit := maxDataOp
	if limit == 0 {
		limit = defaultMaxDataOp
	}
	for i, o := range ops {
		if o.isData() {
			if uint64(len(o.Data)) > limit {
				return fmt.Sprintf("operation %d carries %d literal bytes, limit is %d", i, len(o.Data), limit)
			}
			if o.Start != 0 || o.Count != 0 {
				return fmt.Sprintf("operation %d carries data and a block range", i)
			}
		} else if o.Count == 0 || o.Start >= blocks || o.Count > blocks-o.Start {
			return fmt.Sprintf("operation %d copies blocks [%d,%d+%d) but the base has %d blocks", i, o.Start, o.Start, o.Count, blocks)
		}
		if i > 0 && !o.isData() && !ops[i-1].isData() && ops[i-1].Start+ops[i-1].Count == o.Start {
			return fmt.Sprintf("operations %d and %d copy adjacent block ranges %v %v without being coalesced", i-1, i, ops[i-1], o)
		}
	}
	return ""
}

// splitmix is the deterministic byte source used to expand a drawn seed into
// large inputs (drawing a megabyte byte by byte from rapid is far too slow).
type splitmix uint64

func (s *splitmix) next() uint64 {
	*s += 0x9e3779b97f4a7c15
	z := uint64(*s)
	z = (z ^ (z >> 30)) * 0xbf58476d1ce4e5b9
	z = (z ^ (z >> 27)) * 0x94d049bb133111eb
	return z ^ (z >> 31)
}

func (s *splitmix) intn(n int) int {
	if n <= 1 {
		return 0
	}
	return int(s.next() % uint64(n))
}

// Alphabets of the random generator.
const (
	alphaAB   = iota // {a,b}
	alphaFour        // {a,b,c,d}
	alphaFull        // all byte values
	alphaHigh        // mostly 0xff / 0xfe (drives the weak-hash sums past the modulus)
	alphaCount
)

func (s *splitmix) fill(p []byte, alphabet int) {
	for i := range p {
		v := s.next()
		switch alphabet {
		case alphaAB:
			p[i] = 'a' + byte(v&1)
		case alphaFour:
			p[i] = 'a' + byte(v&3)
		case alphaHigh:
			p[i] = 0xff - byte((v&7)/7) // 0xff seven times out of eight
		default:
			p[i] = byte(v)
		}
	}
}

// Edit is one step of the script that derives the target from the base.
type Edit struct {
	Kind int `json:"kind"`
	A    int `json:"a"`
	B    int `json:"b"`
	C    int `json:"c"`
}

const (
	editInsert     = iota // insert B fresh bytes at A
	editDelete            // delete B bytes at A
	editDuplicate         // copy B bytes from C, insert at A
	editMove              // cut B bytes at C, insert at A
	editFlip              // change the byte at A
	editTwin              // perturb three bytes at A by +1,-2,+1 (same weak hash, different content)
	editTruncate          // keep the first A bytes
	editAppendBase        // append the base once more
	editKinds
)

// Recipe describes a randomly generated (base, target) pair compactly; the
// bytes are a pure function of it.
type Recipe struct {
	Seed     uint64 `json:"seed"`
	BaseLen  int    `json:"base_len"`
	Alphabet int    `json:"alphabet"`
	Period   int    `json:"period"` // > 0: the base repeats a chunk of this length (duplicate blocks)
	Edits    []Edit `json:"edits"`
}

// Build expands the recipe.
func (r *Recipe) Build() (base, target []byte) {
	s := splitmix(r.Seed)
	base = make([]byte, r.BaseLen)
	if r.Period > 0 && r.Period < r.BaseLen {
		s.fill(base[:r.Period], r.Alphabet)
		for i := r.Period; i < len(base); i++ {
			base[i] = base[i-r.Period]
		}
		// A few deviations so that not every block is the same.
		for k := 0; k < 3; k++ {
			i := s.intn(len(base))
			base[i] ^= byte(1 + s.intn(3))
		}
	} else {
		s.fill(base, r.Alphabet)
	}
	target = append([]byte(nil), base...)
	at := func(x, n int) int {
		if n <= 0 {
			return 0
		}
		if x < 0 {
			x = -x
		}
		return x % (n + 1)
	}
	for _, e := range r.Edits {
		n := len(target)
		switch e.Kind {
		case editInsert:
			a := at(e.A, n)
			fresh := make([]byte, e.B)
			s.fill(fresh, r.Alphabet)
			target = append(target[:a:a], append(fresh, target[a:]...)...)
		case editDelete:
			a := at(e.A, n)
			b := min(e.B, n-a)
			target = append(target[:a:a], target[a+b:]...)
		case editDuplicate:
			a, c := at(e.A, n), at(e.C, n)
			b := min(e.B, n-c)
			chunk := append([]byte(nil), target[c:c+b]...)
			target = append(target[:a:a], append(chunk, target[a:]...)...)
		case editMove:
			c := at(e.C, n)
			b := min(e.B, n-c)
			chunk := append([]byte(nil), target[c:c+b]...)
			target = append(target[:c:c], target[c+b:]...)
			a := at(e.A, len(target))
			target = append(target[:a:a], append(chunk, target[a:]...)...)
		case editFlip:
			if n > 0 {
				target[at(e.A, n-1)] ^= byte(1 + e.B%255)
			}
		case editTwin:
			if n >= 3 {
				a := at(e.A, n-3)
				if target[a] < 0xff && target[a+1] >= 2 && target[a+2] < 0xff {
					target[a]++
					target[a+1] -= 2
					target[a+2]++
				}
			}
		case editTruncate:
			target = target[:at(e.A, n)]
		case editAppendBase:
			if len(target)+len(base) <= 3<<20 {
				target = append(target, base...)
			}
		}
	}
	return base, target
}
