package c19_rsync

import (
	"strings"
	"testing"

	"verif/kit/ev"
)

// harnessTrouble reports problems of the harness itself (disk, setup) as an
// inconclusive run instead of a violation.
func harnessTrouble(v string) bool {
	if strings.HasPrefix(v, "harness:") {
		ev.Inconclusive("%s", v)
		return true
	}
	return false
}

// replayC19 judges a saved or fuzzed C19 case through both API variants.
func replayC19(sc *scratch, c *Case) string {
	base, target := c.bytes()
	for _, api := range []bool{false, true} {
		if v, _ := judgeC19(sc, base, target, c.BlockSize, c.MaxDataOp, options{stream: true, bytesAPI: api}); v != "" {
			return v
		}
	}
	return ""
}

func TestReplay(t *testing.T) {
	if ev.ReplayPath() == "" {
		t.Skip("no replay requested")
	}
	p := prop()
	rec := ev.New(t, p, "replay", "replay of a saved case")
	switch p {
	case "C19":
		var c Case
		if _, err := ev.LoadReplay(ev.ReplayPath(), &c); err != nil {
			t.Fatalf("cannot load replay: %v", err)
		}
		rec.Eval()
		if v := replayC19(newScratch(), &c); v != "" {
			ev.FailTB(t, rec, &c, "%s", v)
		}
	case "C20":
		var c FaultCase
		if _, err := ev.LoadReplay(ev.ReplayPath(), &c); err != nil {
			t.Fatalf("cannot load replay: %v", err)
		}
		rec.Eval()
		if v := judgeFaultCase(t, &c); v != "" && !harnessTrouble(v) {
			ev.FailTB(t, rec, &c, "%s", v)
		}
	default:
		t.Fatalf("unknown property %s", p)
	}
}
