// Package c21_remote decides C21: remote endpoints behave exactly like local
// endpoints. Two mirrored roots receive identical edits; one is driven through
// a local endpoint, the other through the real remote client talking to the
// real ServeEndpoint over an in-memory pipe with read fragmentation.
package c21_remote

import (
	"sync/atomic"
	"context"
	"crypto/sha1"
	"crypto/sha256"
	"fmt"
	"io"
	"os"
	"path/filepath"
	"regexp"
	"sort"
	"strings"
	"sync"
	"testing"
	"time"

	"google.golang.org/protobuf/proto"
	"pgregory.net/rapid"

	"github.com/mutagen-io/mutagen/pkg/filesystem"
	"github.com/mutagen-io/mutagen/pkg/identifier"
	"github.com/mutagen-io/mutagen/pkg/logging"
	"github.com/mutagen-io/mutagen/pkg/synchronization"
	"github.com/mutagen-io/mutagen/pkg/synchronization/compression"
	"github.com/mutagen-io/mutagen/pkg/synchronization/core"
	"github.com/mutagen-io/mutagen/pkg/synchronization/endpoint/local"
	"github.com/mutagen-io/mutagen/pkg/synchronization/endpoint/remote"
	"github.com/mutagen-io/mutagen/pkg/synchronization/hashing"
	"github.com/mutagen-io/mutagen/pkg/synchronization/rsync"

	"verif/kit/disk"
	"verif/kit/ev"
	"verif/kit/sess"
	"verif/kit/tree"
)

const prop = "C21"

// ---- in-memory duplex pipe with read fragmentation --------------------------

type halfPipe struct {
	mu     sync.Mutex
	cond   *sync.Cond
	buf    []byte
	closed bool
	frag   int // maximum bytes returned per Read (0: unlimited)
}

func newHalf(frag int) *halfPipe {
	h := &halfPipe{frag: frag}
	h.cond = sync.NewCond(&h.mu)
	return h
}

func (h *halfPipe) Write(p []byte) (int, error) {
	h.mu.Lock()
	defer h.mu.Unlock()
	if h.closed {
		return 0, io.ErrClosedPipe
	}
	h.buf = append(h.buf, p...)
	h.cond.Broadcast()
	return len(p), nil
}

func (h *halfPipe) Read(p []byte) (int, error) {
	h.mu.Lock()
	defer h.mu.Unlock()
	for len(h.buf) == 0 && !h.closed {
		h.cond.Wait()
	}
	if len(h.buf) == 0 {
		return 0, io.EOF
	}
	n := len(p)
	if h.frag > 0 && n > h.frag {
		n = h.frag
	}
	n = copy(p[:n], h.buf)
	h.buf = h.buf[n:]
	return n, nil
}

func (h *halfPipe) close() {
	h.mu.Lock()
	h.closed = true
	h.cond.Broadcast()
	h.mu.Unlock()
}

type conn struct{ r, w *halfPipe }

func (c *conn) Read(p []byte) (int, error)  { return c.r.Read(p) }
func (c *conn) Write(p []byte) (int, error) { return c.w.Write(p) }
func (c *conn) Close() error                { c.r.close(); c.w.close(); return nil }

func pipePair(frag int) (*conn, *conn) {
	a, b := newHalf(frag), newHalf(frag)
	return &conn{r: a, w: b}, &conn{r: b, w: a}
}

// ---- case ---------------------------------------------------------------------

// Op is one step of a sequence.
type Op struct {
	Kind string `json:"kind"` // edit, scan, cycle
	// edit
	Edit string `json:"edit,omitempty"` // write, delete, mkdir, link, chmodx, clear
	Path string `json:"path,omitempty"`
	Arg  int    `json:"arg,omitempty"`
	// scan
	Full bool `json:"full,omitempty"`
	// cycle: plan items resolved against the current snapshot
	Plan []*PlanItem `json:"plan,omitempty"`
	// BadSource makes the supplied data for the i-th staged file corrupt.
	BadSource int `json:"bad_source,omitempty"`
	// CancelMid: the context given to Transition is cancelled when the
	// transition performs its first mutating filesystem operation (which is
	// then held for 2 s, so that the cancellation reaches the endpoint
	// wherever it runs); the sequence ends after this cycle.
	CancelMid bool `json:"cancel_mid_transition,omitempty"`
}

// cancelAtFirstMutation arms the filesystem hook: the first mutating
// operation calls cancel and is held for two seconds.
func cancelAtFirstMutation(cancel func()) (disarm func()) {
	var fired atomic.Bool
	filesystem.VerifSetInjector(func(op, path string) error {
		switch op {
		case "mkdirat", "symlinkat", "renameat", "renameat2", "unlinkat":
			if fired.CompareAndSwap(false, true) {
				cancel()
				time.Sleep(2 * time.Second)
			}
		}
		return nil
	})
	return func() { filesystem.VerifSetInjector(nil) }
}

func cancelledProblems(ps []*core.Problem) int {
	n := 0
	for _, p := range ps {
		if strings.Contains(p.Error, "cancel") {
			n++
		}
	}
	return n
}

// PlanItem is an abstract transition.
type PlanItem struct {
	Action  string `json:"action"` // create-file, create-dir, create-tree, create-link, delete, swap
	Path    string `json:"path"`
	Content int    `json:"content,omitempty"`
	Exec    bool   `json:"exec,omitempty"`
}

// Case is a configuration plus a sequence.
type Case struct {
	Root     *disk.Node `json:"root"`
	Ancestor bool       `json:"ancestor_is_root"` // first scan gets the root's content as ancestor (else nil)
	SHA256   bool       `json:"sha256"`
	Deflate  bool       `json:"deflate"`
	Frag     int        `json:"read_fragment"`
	Ops      []*Op      `json:"ops"`
}

func contentFor(id int) []byte { return disk.Content(byte(80+id), 200+id*53) }

var sessionRe = regexp.MustCompile(`sync_[0-9A-Za-z]{20,}`)
var numberRe = regexp.MustCompile(`[0-9]{6,}`)

func normalise(s string, roots ...string) string {
	for _, r := range roots {
		s = strings.ReplaceAll(s, r, "<root>")
	}
	s = sessionRe.ReplaceAllString(s, "<session>")
	s = numberRe.ReplaceAllString(s, "<n>")
	return s
}

func applyEdit(root string, op *Op, clock int64) {
	full := filepath.Join(root, filepath.FromSlash(op.Path))
	stamp := time.Unix(clock, 0)
	if op.Edit == "rmroot" {
		disk.MakeWritable(root)
		os.RemoveAll(root)
		return
	}
	if op.Edit == "mkroot" {
		os.Mkdir(root, 0o755)
		return
	}
	if op.Edit == "clear" {
		entries, _ := os.ReadDir(root)
		for _, e := range entries {
			disk.MakeWritable(filepath.Join(root, e.Name()))
			os.RemoveAll(filepath.Join(root, e.Name()))
		}
		return
	}
	if p, err := os.Lstat(filepath.Dir(full)); err != nil || !p.IsDir() {
		return
	}
	fi, err := os.Lstat(full)
	switch op.Edit {
	case "write":
		if err == nil && !fi.Mode().IsRegular() {
			return
		}
		os.WriteFile(full, contentFor(op.Arg), 0o644)
		os.Chtimes(full, stamp, stamp)
	case "delete":
		if err == nil {
			disk.MakeWritable(full)
			os.RemoveAll(full)
		}
	case "mkdir":
		if err != nil {
			os.Mkdir(full, 0o755)
		}
	case "link":
		if err != nil {
			os.Symlink("a", full)
		}
	case "chmodx":
		if err == nil && fi.Mode().IsRegular() {
			os.Chmod(full, fi.Mode().Perm()^0o100)
		}
	}
}

func renderProblems(ps []*core.Problem, roots ...string) string {
	var s []string
	for _, p := range ps {
		s = append(s, fmt.Sprintf("%q: %s", p.Path, normalise(p.Error, roots...)))
	}
	sort.Strings(s)
	return "[" + strings.Join(s, "; ") + "]"
}

func snapshotDiff(a, b *core.Snapshot) string {
	if (a == nil) != (b == nil) {
		return "one snapshot is nil"
	}
	if a == nil {
		return ""
	}
	if !tree.DeepEqual(a.Content, b.Content) {
		return fmt.Sprintf("content differs: local %s remote %s", tree.Render(a.Content), tree.Render(b.Content))
	}
	if a.PreservesExecutability != b.PreservesExecutability || a.DecomposesUnicode != b.DecomposesUnicode {
		return "behaviour flags differ"
	}
	if a.Directories != b.Directories || a.Files != b.Files || a.SymbolicLinks != b.SymbolicLinks || a.TotalFileSize != b.TotalFileSize {
		return fmt.Sprintf("counters differ: local %d/%d/%d/%d remote %d/%d/%d/%d", a.Directories, a.Files, a.SymbolicLinks, a.TotalFileSize, b.Directories, b.Files, b.SymbolicLinks, b.TotalFileSize)
	}
	return ""
}

type stats struct {
	scans, cycles, shortFiltered, emptyRootScans, restores, cancelled int
	// cancelComplaint is a timing-dependent complaint (re-executed by the
	// caller before it is reported).
	cancelComplaint string
}

func judge(c *Case, dir string) (violation string, st stats) {
	r1, r2, src := filepath.Join(dir, "local-root"), filepath.Join(dir, "remote-root"), filepath.Join(dir, "source")
	if c.Root != nil {
		if err := disk.Build(r1, c.Root); err != nil {
			return "", st
		}
		if err := disk.Build(r2, c.Root); err != nil {
			return "", st
		}
	}
	defer disk.MakeWritable(dir)
	os.MkdirAll(src, 0o755)
	cfg := sess.ManualConfig(core.SynchronizationMode_SynchronizationModeTwoWaySafe)
	if c.SHA256 {
		cfg.HashingAlgorithm = hashing.Algorithm_AlgorithmSHA256
	}
	cfg.CompressionAlgorithm = compression.Algorithm_AlgorithmNone
	if c.Deflate {
		cfg.CompressionAlgorithm = compression.Algorithm_AlgorithmDeflate
	}
	digest := func(b []byte) []byte {
		if c.SHA256 {
			s := sha256.Sum256(b)
			return s[:]
		}
		s := sha1.Sum(b)
		return s[:]
	}
	logger := logging.NewLogger(logging.LevelDisabled, os.Stderr)
	id1, _ := identifier.New(identifier.PrefixSynchronization)
	id2, _ := identifier.New(identifier.PrefixSynchronization)
	L, err := local.NewEndpoint(logger, r1, id1, synchronization.Version_Version1, cfg, false)
	if err != nil {
		return fmt.Sprintf("cannot create local endpoint: %v", err), st
	}
	defer L.Shutdown()
	clientSide, serverSide := pipePair(c.Frag)
	serverDone := make(chan error, 1)
	go func() { serverDone <- remote.ServeEndpoint(logger, serverSide) }()
	R, err := remote.NewEndpoint(logger, clientSide, r2, id2, synchronization.Version_Version1, cfg, false)
	if err != nil {
		return fmt.Sprintf("cannot create remote endpoint: %v", err), st
	}
	defer func() {
		R.Shutdown()
		select {
		case <-serverDone:
		case <-time.After(10 * time.Second):
		}
	}()
	ctx := context.Background()
	var ancestor *core.Entry
	if c.Ancestor && c.Root != nil {
		obs, _ := disk.Observe(r1)
		ancestor = tree.Sync(disk.Expect(obs, disk.ScanOpts{SymlinkMode: core.SymbolicLinkMode_SymbolicLinkModePortable, PermMode: core.PermissionsMode_PermissionsModePortable, SHA256: c.SHA256}))
	}
	clock := int64(1_700_000_000)
	var snapL *core.Snapshot
	// lastPopulated is the root as it was at the last scan that found content
	// (the "restore" edit puts exactly that back).
	var lastPopulated *disk.Node
	scanBoth := func(full bool) string {
		sl, el, tl := L.Scan(ctx, ancestor, full)
		sr, er, tr := R.Scan(ctx, ancestor, full)
		st.scans++
		if (el == nil) != (er == nil) || tl != tr {
			return fmt.Sprintf("scan: local error %v (retry %v), remote error %v (retry %v)", el, tl, er, tr)
		}
		if el != nil {
			return "end"
		}
		if d := snapshotDiff(sl, sr); d != "" {
			return "scan: " + d
		}
		if sl.Content == nil {
			st.emptyRootScans++
		} else if o, err := disk.Observe(r1); err == nil {
			lastPopulated = o
		}
		snapL = sl
		return ""
	}
	for oi, op := range c.Ops {
		switch op.Kind {
		case "edit":
			clock++
			if op.Edit == "restore" {
				if lastPopulated == nil {
					continue
				}
				for _, r := range []string{r1, r2} {
					disk.MakeWritable(r)
					os.RemoveAll(r)
					disk.Build(r, lastPopulated)
				}
				st.restores++
				continue
			}
			applyEdit(r1, op, clock)
			applyEdit(r2, op, clock)
		case "scan":
			if v := scanBoth(op.Full); v != "" {
				if v == "end" {
					return "", st
				}
				return fmt.Sprintf("op %d: %s", oi, v), st
			}
		case "cycle":
			if v := scanBoth(op.Full); v != "" {
				if v == "end" {
					return "", st
				}
				return fmt.Sprintf("op %d: %s", oi, v), st
			}
			var plan []*core.Change
			want := map[string]int{}
			for _, it := range op.Plan {
				old := tree.At(snapL.Content, it.Path)
				parent := tree.At(snapL.Content, parentOf(it.Path))
				nested := it.Path == ""
				for _, ch := range plan {
					if tree.IsPrefix(ch.Path, it.Path) || tree.IsPrefix(it.Path, ch.Path) {
						nested = true
					}
				}
				if nested || parent == nil || parent.Kind != tree.KDir || (old != nil && tree.HasUnsync(old)) {
					continue
				}
				var nw *core.Entry
				switch it.Action {
				case "create-file", "swap":
					if (it.Action == "create-file") != (old == nil) || (old != nil && old.Kind != tree.KFile) {
						continue
					}
					nw = &core.Entry{Kind: tree.KFile, Digest: digest(contentFor(it.Content)), Executable: it.Exec}
					want[it.Path] = it.Content
				case "create-dir":
					if old != nil {
						continue
					}
					nw = tree.D(map[string]*core.Entry{"inner": tree.L("a")})
				case "create-tree":
					if old != nil {
						continue
					}
					c2 := it.Content%5 + 1
					nw = tree.D(map[string]*core.Entry{
						"f1":    {Kind: tree.KFile, Digest: digest(contentFor(it.Content))},
						"f2":    {Kind: tree.KFile, Digest: digest(contentFor(c2)), Executable: it.Exec},
						"inner": tree.L("a"),
					})
					want[it.Path+"/f1"] = it.Content
					want[it.Path+"/f2"] = c2
				case "create-link":
					if old != nil {
						continue
					}
					nw = tree.L("b/c")
				case "delete":
					if old == nil {
						continue
					}
				}
				plan = append(plan, &core.Change{Path: it.Path, Old: old, New: nw})
			}
			if len(plan) == 0 {
				continue
			}
			st.cycles++
			paths, digests := core.TransitionDependencies(plan)
			request := append([]string{}, paths...)
			fl, sl, rl, el := L.Stage(append([]string{}, paths...), digests)
			fr, sr, rr, er := R.Stage(append([]string{}, paths...), digests)
			if (el == nil) != (er == nil) {
				return fmt.Sprintf("op %d: stage: local error %v, remote error %v", oi, el, er), st
			}
			if el != nil {
				return "", st
			}
			if strings.Join(fl, "\x00") != strings.Join(fr, "\x00") {
				return fmt.Sprintf("op %d: stage: filtered paths differ: local %v remote %v (request %v)", oi, fl, fr, request), st
			}
			if len(sl) != len(sr) {
				return fmt.Sprintf("op %d: stage: %d local signatures, %d remote", oi, len(sl), len(sr)), st
			}
			for i := range sl {
				if !proto.Equal(sl[i], sr[i]) {
					return fmt.Sprintf("op %d: stage: signature %d (%s) differs", oi, i, fl[i]), st
				}
			}
			if len(fl) < len(request) {
				st.shortFiltered++
			}
			if len(fl) > 0 {
				for i, p := range fl {
					data := contentFor(want[p])
					if op.BadSource > 0 && i == (op.BadSource-1)%len(fl) {
						data = append([]byte{}, data...)
						data[0] ^= 0xff
					}
					full := filepath.Join(src, filepath.FromSlash(p))
					os.MkdirAll(filepath.Dir(full), 0o755)
					os.WriteFile(full, data, 0o644)
				}
				e1 := rsync.Transmit(src, fl, sl, rl)
				e2 := rsync.Transmit(src, fr, sr, rr)
				if (e1 == nil) != (e2 == nil) {
					return fmt.Sprintf("op %d: supply: local error %v, remote error %v", oi, e1, e2), st
				}
				if e1 != nil {
					return "", st
				}
			}
			// Each endpoint gets its own copy of the list, as two controllers
			// would hand it over; results are paired with the list as the
			// caller holds it afterwards.
			planL, planR := append([]*core.Change{}, plan...), append([]*core.Change{}, plan...)
			if op.CancelMid && len(plan) >= 2 {
				ctxL, cancelL := context.WithCancel(ctx)
				disarm := cancelAtFirstMutation(cancelL)
				_, probL, _, _ := L.Transition(ctxL, planL)
				disarm()
				cancelL()
				ctxR, cancelR := context.WithCancel(ctx)
				disarm = cancelAtFirstMutation(cancelR)
				_, probR, _, _ := R.Transition(ctxR, planR)
				disarm()
				cancelR()
				st.cancelled++
				if kl, kr := cancelledProblems(probL), cancelledProblems(probR); kl > 0 && kr == 0 {
					st.cancelComplaint = fmt.Sprintf("op %d: the context was cancelled during the first of %d changes (held for 2 s): the local endpoint leaves %d changes unapplied as cancelled, the remote endpoint reports none as cancelled (problems: %s)", oi, len(plan), kl, renderProblems(probR, r1, r2))
				}
				return "", st
			}
			resL, probL, missL, tel := L.Transition(ctx, planL)
			resR, probR, missR, ter := R.Transition(ctx, planR)
			if (tel == nil) != (ter == nil) {
				return fmt.Sprintf("op %d: transition: local error %v, remote error %v", oi, tel, ter), st
			}
			if tel != nil {
				return "", st
			}
			if len(resL) != len(resR) {
				return fmt.Sprintf("op %d: transition: %d local results, %d remote", oi, len(resL), len(resR)), st
			}
			if len(resL) != len(plan) {
				return fmt.Sprintf("op %d: transition: %d results for %d changes", oi, len(resL), len(plan)), st
			}
			byPathL, byPathR := map[string]*core.Entry{}, map[string]*core.Entry{}
			for i := range resL {
				byPathL[planL[i].Path], byPathR[planR[i].Path] = resL[i], resR[i]
			}
			for _, ch := range plan {
				if !tree.DeepEqual(byPathL[ch.Path], byPathR[ch.Path]) {
					return fmt.Sprintf("op %d: the result the caller pairs with the change at %q differs: local %s remote %s (change %s)", oi, ch.Path, tree.Render(byPathL[ch.Path]), tree.Render(byPathR[ch.Path]), tree.RenderChange(ch)), st
				}
			}
			if missL != missR {
				return fmt.Sprintf("op %d: missing-files flag differs: local %v remote %v", oi, missL, missR), st
			}
			if pl, pr := renderProblems(probL, r1, r2), renderProblems(probR, r1, r2); pl != pr {
				return fmt.Sprintf("op %d: problems differ:\n local  %s\n remote %s", oi, pl, pr), st
			}
			o1, _ := disk.Observe(r1)
			o2, _ := disk.Observe(r2)
			if o1.Render(false) != o2.Render(false) {
				return fmt.Sprintf("op %d: roots differ after identical operations:\n local  %s\n remote %s", oi, o1.Render(false), o2.Render(false)), st
			}
		}
	}
	return "", st
}

func parentOf(p string) string {
	if i := strings.LastIndex(p, "/"); i >= 0 {
		return p[:i]
	}
	return ""
}

var names = []string{"a", "b", "c", "sub"}

func drawPath(rt *rapid.T, label string) string {
	p := rapid.SampledFrom(names).Draw(rt, label+".n1")
	if rapid.IntRange(0, 2).Draw(rt, label+".deep") == 0 {
		p += "/" + rapid.SampledFrom(names).Draw(rt, label+".n2")
	}
	return p
}

func drawCase(rt *rapid.T) *Case {
	g := disk.Gen{MaxDepth: 2, MaxFan: 4, Names: names, Links: true}
	c := &Case{
		Ancestor: rapid.Bool().Draw(rt, "ancestor"),
		SHA256:   rapid.IntRange(0, 3).Draw(rt, "sha256") == 0,
		Deflate:  rapid.Bool().Draw(rt, "deflate"),
		Frag:     rapid.SampledFrom([]int{0, 1, 7, 4096}).Draw(rt, "frag"),
	}
	if rapid.IntRange(0, 7).Draw(rt, "noroot") > 0 {
		c.Root = g.Dir(rt, "root", 2)
	}
	// Files whose content equals content the plans ask for (so that staging
	// finds some of it in the root and filters the request).
	for n := rapid.IntRange(0, 3).Draw(rt, "seeded"); n > 0; n-- {
		c.Ops = append(c.Ops, &Op{Kind: "edit", Edit: "write", Path: "seeded" + fmt.Sprint(n), Arg: rapid.IntRange(1, 5).Draw(rt, "seeded.arg")})
	}
	for n := rapid.IntRange(2, 10).Draw(rt, "ops"); n > 0; n-- {
		if rapid.IntRange(0, 11).Draw(rt, "vanish-and-return") == 0 {
			// The root disappears, is scanned, and comes back exactly as it
			// was at the last scan that found content.
			c.Ops = append(c.Ops, &Op{Kind: "scan"}, &Op{Kind: "edit", Edit: rapid.SampledFrom([]string{"rmroot", "rmroot", "clear"}).Draw(rt, "vanish")},
				&Op{Kind: "scan", Full: rapid.Bool().Draw(rt, "vanish.full")}, &Op{Kind: "edit", Edit: "restore"}, &Op{Kind: "scan", Full: rapid.Bool().Draw(rt, "return.full")})
			continue
		}
		switch rapid.IntRange(0, 9).Draw(rt, "op") {
		case 0, 1, 2, 3:
			op := &Op{Kind: "edit", Edit: rapid.SampledFrom([]string{"write", "write", "write", "delete", "mkdir", "link", "chmodx", "clear", "rmroot", "mkroot", "mkroot"}).Draw(rt, "edit"), Path: drawPath(rt, "edit.path"), Arg: rapid.IntRange(1, 5).Draw(rt, "edit.arg")}
			c.Ops = append(c.Ops, op)
		case 4, 5:
			c.Ops = append(c.Ops, &Op{Kind: "scan", Full: rapid.Bool().Draw(rt, "full")})
		default:
			op := &Op{Kind: "cycle", Full: rapid.Bool().Draw(rt, "full")}
			for k := rapid.IntRange(1, 4).Draw(rt, "plan"); k > 0; k-- {
				op.Plan = append(op.Plan, &PlanItem{
					Action:  rapid.SampledFrom([]string{"create-file", "create-file", "swap", "create-dir", "create-tree", "create-tree", "create-link", "delete"}).Draw(rt, "action"),
					Path:    drawPath(rt, "plan.path"),
					Content: rapid.IntRange(1, 5).Draw(rt, "content"),
					Exec:    rapid.IntRange(0, 3).Draw(rt, "exec") == 0,
				})
			}
			if rapid.IntRange(0, 4).Draw(rt, "bad") == 0 {
				op.BadSource = rapid.IntRange(1, 3).Draw(rt, "bad.i")
			}
			c.Ops = append(c.Ops, op)
			if len(op.Plan) >= 2 && rapid.IntRange(0, ev.Pick(24, 99)).Draw(rt, "cancel-mid") == 0 {
				op.CancelMid = true
				return c
			}
		}
	}
	return c
}

func render(c *Case) string {
	var s []string
	for _, op := range c.Ops {
		switch op.Kind {
		case "edit":
			s = append(s, fmt.Sprintf("edit:%s %s", op.Edit, op.Path))
		case "scan":
			s = append(s, fmt.Sprintf("scan(full=%v)", op.Full))
		default:
			var p []string
			for _, it := range op.Plan {
				p = append(p, it.Action+" "+it.Path)
			}
			s = append(s, fmt.Sprintf("cycle(full=%v)[%s]", op.Full, strings.Join(p, ", ")))
		}
	}
	return fmt.Sprintf("root=%s ancestor=%v sha256=%v deflate=%v frag=%d: %s", c.Root.Render(false), c.Ancestor, c.SHA256, c.Deflate, c.Frag, strings.Join(s, "; "))
}

func TestMirroredEndpoints(t *testing.T) {
	if ev.ReplayPath() != "" {
		t.Skip()
	}
	rec := ev.New(t, prop, "mirrored-local-and-remote", "rapid: two identical roots, one behind local.NewEndpoint, one behind remote.NewEndpoint <-> remote.ServeEndpoint over an in-memory pipe (read fragments 1/7/4096/unlimited; none or deflate compression; sha1/sha256; first baseline from a nil or a matching ancestor); 2-10 operations: identical edits on both roots (incl. emptying or removing the root and putting it back exactly as it was at the last scan that found content), scans (full or not), and cycles (scan, stage a generated plan, supply both receivers from the same source with an optionally corrupt file, transition; about one case in ten ends with a cycle whose Transition context is cancelled at its first mutating filesystem operation, held for 2 s: a remote endpoint must then report cancelled changes if the local one does — re-executed three times); after each operation snapshots (content, flags, counters), filtered paths, signatures, results, problems (paths normalised), missing-files flags and both roots must agree, and errors must occur on both or neither; non-trivial: >= 2 scans separated by edits and >= 1 stage whose filtered list is non-empty and shorter than the request")
	base := t.TempDir()
	env, err := sess.NewEnv(filepath.Join(base, "data"))
	if err != nil {
		t.Fatal(err)
	}
	defer env.Close()
	n := 0
	ev.Check(t, rec, 500, 8000, func(rt *rapid.T) {
		c := drawCase(rt)
		n++
		dir := filepath.Join(base, fmt.Sprintf("c%d", n))
		os.Mkdir(dir, 0o700)
		defer os.RemoveAll(dir)
		v, st := judge(c, dir)
		// A complaint about cancellation depends on timing: it is reported
		// only if three executions agree.
		for attempt := 0; v == "" && st.cancelComplaint != "" && attempt < 2; attempt++ {
			n++
			again := filepath.Join(base, fmt.Sprintf("c%d", n))
			os.Mkdir(again, 0o700)
			var st2 stats
			v, st2 = judge(c, again)
			os.RemoveAll(again)
			if v == "" && st2.cancelComplaint == "" {
				st.cancelComplaint = ""
				rec.Class("cancellation-complaint-not-reproduced")
			}
		}
		if v == "" && st.cancelComplaint != "" {
			v = st.cancelComplaint + " (in each of 3 executions)"
		}
		rec.Eval()
		if v != "" {
			ev.Failf(rt, rec, c, "%s", v)
		}
		if st.cancelled > 0 {
			rec.Class("context-cancelled-during-transition")
		}
		if st.scans >= 2 {
			rec.Class("two-or-more-scans")
		}
		if st.emptyRootScans > 0 {
			rec.Class("scan-of-missing-or-empty-root")
		}
		if st.restores > 0 {
			rec.Class("root-restored-exactly-after-vanishing")
		}
		if st.cycles > 0 {
			rec.Class("cycle")
		}
		if st.shortFiltered > 0 {
			rec.Class("stage-found-content-in-root")
		}
		if st.scans >= 2 && st.cycles > 0 {
			rec.NonTrivial(ev.Hash(render(c)))
			if rec.WantSample() {
				rec.Sample(render(c))
			}
		}
	})
}

func TestReplay(t *testing.T) {
	if ev.ReplayPath() == "" {
		t.Skip()
	}
	var c Case
	if _, err := ev.LoadReplay(ev.ReplayPath(), &c); err != nil {
		t.Fatal(err)
	}
	rec := ev.New(t, prop, "replay", "replay of a saved case")
	rec.Eval()
	base := t.TempDir()
	env, err := sess.NewEnv(filepath.Join(base, "data"))
	if err != nil {
		t.Fatal(err)
	}
	defer env.Close()
	if v, _ := judge(&c, base); v != "" {
		ev.FailTB(t, rec, &c, "%s", v)
	}
}
