package c22_framing

import (
	"bufio"
	"bytes"
	"encoding/binary"
	"fmt"
	"io"
	"os"
	"path/filepath"
	"regexp"
	"runtime"
	"runtime/debug"
	"strings"
	"testing"

	"google.golang.org/protobuf/proto"
	"pgregory.net/rapid"

	"github.com/mutagen-io/mutagen/pkg/encoding"
	"github.com/mutagen-io/mutagen/pkg/synchronization/compression"
	"github.com/mutagen-io/mutagen/pkg/synchronization/rsync"

	"verif/kit/ev"
)

func TestMain(m *testing.M) {
	debug.SetGCPercent(200)
	os.Exit(m.Run())
}

const ruleC22 = "non-trivial: at least two flush points and at least one message whose encoding exceeds one 64 KiB buffer"

var algorithms = []compression.Algorithm{compression.Algorithm_AlgorithmNone, compression.Algorithm_AlgorithmDeflate}

// SeqCase is a replayable message-sequence case.
type SeqCase struct {
	Algorithm int    `json:"algorithm"` // compression.Algorithm value: 1 none, 2 deflate
	Msgs      []Msg  `json:"msgs"`
	FragMode  int    `json:"frag_mode"`
	FragSeed  uint64 `json:"frag_seed"`
	YieldMode int    `json:"yield_mode"`
	YieldSeed uint64 `json:"yield_seed"`
}

func (c *SeqCase) String() string {
	var parts []string
	for _, m := range c.Msgs {
		parts = append(parts, m.String())
	}
	return fmt.Sprintf("alg=%s frag=%s yield=%d [%s]", compression.Algorithm(c.Algorithm).Description(), fragNames[c.FragMode], c.YieldMode, strings.Join(parts, " "))
}

// SeqInfo describes a judged sequence.
type SeqInfo struct {
	Flushes    int
	MaxEncoded int
	WireBytes  int
	WireWrites int
	Reads      int
	Reused     int
	NonTrivial bool
}

// judgeSequence sends the messages through the writer stack with the case's
// flush points and decodes them on the other side of a lock-step wire. At every
// flush point everything written so far must have been decoded, equal to what
// was sent, from the bytes that are on the wire.
func judgeSequence(c *SeqCase) (violation string, info SeqInfo) {
	alg := compression.Algorithm(c.Algorithm)
	wire := newLockstepWire(c.FragMode, c.FragSeed, c.YieldMode, c.YieldSeed)
	ws := newWriterStack(wire, alg)
	expected := make([]proto.Message, len(c.Msgs))
	decoded := 0
	var readerProblem string

	go wire.readerLoop(func() {
		defer func() {
			if p := recover(); p != nil {
				readerProblem = fmt.Sprintf("decoding side panicked at message %d: %v\n%s", decoded, p, debug.Stack())
			}
		}()
		rs := newReaderStack(wire, alg)
		for i, m := range c.Msgs {
			got := newEmpty(m.Kind)
			if err := rs.decoder.Decode(got); err != nil {
				if wire.starved {
					readerProblem = fmt.Sprintf("message %d (%v) cannot be decoded from the bytes on the wire: %v", i, m, err)
				} else {
					readerProblem = fmt.Sprintf("decoding message %d (%v) failed: %v", i, m, err)
				}
				return
			}
			if !proto.Equal(got, expected[i]) {
				readerProblem = fmt.Sprintf("message %d (%v) decoded to a different value (sent %d encoded bytes, received %d)", i, m, proto.Size(expected[i]), proto.Size(got))
				return
			}
			decoded++
		}
	})

	written := 0
	lastOfKind := map[int]proto.Message{}
	anyReuse := false
	for _, m := range c.Msgs {
		anyReuse = anyReuse || m.Reuse
	}
	for i, m := range c.Msgs {
		msg := m.Build()
		// What the peer must see is fixed now; the object sent may be an
		// older one overwritten in place.
		expected[i] = msg
		if anyReuse {
			expected[i] = proto.Clone(msg)
		}
		info.MaxEncoded = max(info.MaxEncoded, proto.Size(msg))
		if old := lastOfKind[m.Kind]; m.Reuse && old != nil {
			if overwrite(old, msg) {
				msg = old
				info.Reused++
			}
		}
		lastOfKind[m.Kind] = msg
		if err := ws.encoder.Encode(msg); err != nil {
			violation = fmt.Sprintf("encoding message %d (%v) failed: %v", i, m, err)
			break
		}
		written++
		if readerProblem != "" {
			violation = readerProblem
			break
		}
		if m.Flush || i == len(c.Msgs)-1 {
			if err := ws.flusher.Flush(); err != nil {
				violation = fmt.Sprintf("flush after message %d failed: %v", i, err)
				break
			}
			info.Flushes++
			wire.runReader()
			if readerProblem != "" {
				violation = readerProblem
				break
			}
			if decoded != written {
				violation = fmt.Sprintf("after flush #%d, %d messages were written but only %d could be decoded from the %d bytes put on the wire: message %d (%v) would block the peer",
					info.Flushes, written, decoded, wire.total, decoded, c.Msgs[decoded])
				break
			}
		}
	}
	wire.finish()
	if violation == "" && readerProblem != "" {
		violation = readerProblem
	}
	info.WireBytes, info.WireWrites, info.Reads = wire.total, wire.writes, wire.frag.reads
	info.NonTrivial = info.Flushes >= 2 && info.MaxEncoded > controlStreamUncompressedBufferSize
	return
}

// drawSize draws a payload size around the interesting boundaries: the
// encoder's 32 KiB initial buffer, the 64 KiB stream buffers, the 1 MiB
// persistent-buffer limit of encoder and decoder.
func drawSize(rt *rapid.T, budget int) int {
	var n int
	switch rapid.IntRange(0, 11).Draw(rt, "size.class") {
	case 0:
		n = 0
	case 1, 2:
		n = rapid.IntRange(1, 200).Draw(rt, "size")
	case 3:
		n = 32*1024 + rapid.IntRange(-24, 24).Draw(rt, "size.skew")
	case 4, 5:
		n = 64*1024 + rapid.IntRange(-40, 40).Draw(rt, "size.skew")
	case 6, 7:
		n = rapid.IntRange(65*1024, 300*1024).Draw(rt, "size")
	case 8:
		n = 1024*1024 + rapid.IntRange(-40, 40).Draw(rt, "size.skew")
	case 9:
		n = rapid.IntRange(1024*1024, 3*1024*1024).Draw(rt, "size")
	default:
		n = rapid.IntRange(200, 64*1024).Draw(rt, "size")
	}
	return min(n, max(budget, 0))
}

func drawSeqCase(rt *rapid.T) *SeqCase {
	c := &SeqCase{
		Algorithm: int(rapid.SampledFrom(algorithms).Draw(rt, "algorithm")),
		FragMode:  rapid.IntRange(0, fragModes-1).Draw(rt, "frag.mode"),
		FragSeed:  rapid.Uint64().Draw(rt, "frag.seed"),
		YieldMode: rapid.IntRange(0, 2).Draw(rt, "yield.mode"),
		YieldSeed: rapid.Uint64().Draw(rt, "yield.seed"),
	}
	n := rapid.IntRange(1, 12).Draw(rt, "messages")
	budget := 5 << 20
	total := 0
	for i := 0; i < n; i++ {
		m := Msg{Kind: rapid.IntRange(0, kindCount-1).Draw(rt, "kind"), Seed: rapid.Uint64().Draw(rt, "msg.seed"),
			Compressible: rapid.Bool().Draw(rt, "compressible"), Flush: rapid.Bool().Draw(rt, "flush"), Reuse: rapid.IntRange(0, 2).Draw(rt, "reuse") == 0}
		if i > 0 && rapid.IntRange(0, 2).Draw(rt, "same.kind") == 0 {
			// Streams of one kind (rsync transmissions) are the norm.
			m.Kind = c.Msgs[i-1].Kind
		}
		switch m.Kind {
		case kindEmptyCompletion, kindEmptyResponse:
		case kindTransmissionDone:
			if rapid.IntRange(0, 3).Draw(rt, "done.error") == 0 {
				m.Size = rapid.IntRange(1, 300).Draw(rt, "size")
			}
		default:
			m.Size = drawSize(rt, budget)
		}
		budget -= m.Size
		total += m.Size
		c.Msgs = append(c.Msgs, m)
	}
	if total > 512*1024 && c.FragMode == fragOneByte {
		c.FragMode = fragOneThenAll
	}
	return c
}

func TestC22_Sequences(t *testing.T) {
	if ev.ReplayPath() != "" {
		t.Skip()
	}
	rec := ev.New(t, "C22", "sequences", "rapid: 1..12 control-stream messages (11 kinds incl. zero-length bodies; payload sizes 0, tiny, around 32 KiB / 64 KiB / 1 MiB, up to 3 MiB; compressible or noise; message objects freshly built or an earlier object overwritten in place and sent again) through encoder -> bufio 64K -> compressor (none|deflate) -> bufio 64K with random flush points, decoded through the mirrored inbound stack over a lock-step wire with read fragmentation (whole, 1 byte, 1..64, 1..100000, 1-byte-then-whole) and reader/writer interleaving at none/all/random wire writes; "+ruleC22)
	ev.Check(t, rec, 400, 8000, func(rt *rapid.T) {
		c := drawSeqCase(rt)
		v, info := judgeSequence(c)
		rec.Eval()
		if v != "" {
			ev.Failf(rt, rec, c, "%s | case: %v", v, c)
		}
		rec.Class("alg/" + compression.Algorithm(c.Algorithm).Description())
		rec.Class("frag/" + fragNames[c.FragMode])
		rec.Class(fmt.Sprintf("interleave/%d", c.YieldMode))
		empty, big, huge, unflushed := false, false, false, false
		for i, m := range c.Msgs {
			empty = empty || m.Kind == kindEmptyCompletion || m.Kind == kindEmptyResponse
			big = big || m.Size > 64*1024
			huge = huge || m.Size > 1024*1024
			unflushed = unflushed || (!m.Flush && i < len(c.Msgs)-1)
		}
		if empty {
			rec.Class("has-zero-length-message")
		}
		if big {
			rec.Class("has-message>64KiB")
		}
		if huge {
			rec.Class("has-message>1MiB")
		}
		if unflushed {
			rec.Class("several-messages-per-flush")
		}
		if info.Flushes >= 2 {
			rec.Class("flushes>=2")
		}
		if info.Reused > 0 {
			rec.Class("message-object-overwritten-and-resent")
		}
		if info.NonTrivial {
			rec.Class("nontrivial")
			rec.NonTrivial(ev.Hash(fmt.Sprintf("%+v", *c)))
			if rec.WantSample() {
				rec.Sample(map[string]any{"case": c.String(), "flushes": info.Flushes, "wire_bytes": info.WireBytes, "wire_writes": info.WireWrites, "reads": info.Reads, "largest_encoded_message": info.MaxEncoded})
			}
		}
	})
}

// wireBytes encodes msgs through the writer stack with one final flush (plus
// the listed intermediate flushes) and returns the bytes put on the wire.
func wireBytes(alg compression.Algorithm, msgs []Msg) ([]byte, []proto.Message, error) {
	var buf bytes.Buffer
	ws := newWriterStack(&buf, alg)
	var built []proto.Message
	for _, m := range msgs {
		msg := m.Build()
		built = append(built, msg)
		if err := ws.encoder.Encode(msg); err != nil {
			return nil, nil, err
		}
		if m.Flush {
			if err := ws.flusher.Flush(); err != nil {
				return nil, nil, err
			}
		}
	}
	if err := ws.flusher.Flush(); err != nil {
		return nil, nil, err
	}
	return buf.Bytes(), built, nil
}

// sliceReader serves a byte slice in fragments and then reports end of stream.
type sliceReader struct {
	data []byte
	frag fragmenter
}

func (r *sliceReader) Read(p []byte) (int, error) {
	if len(r.data) == 0 {
		return 0, io.EOF
	}
	if len(p) == 0 {
		return 0, nil
	}
	n := min(len(p), len(r.data), r.frag.limit())
	copy(p, r.data[:n])
	r.data = r.data[n:]
	return n, nil
}

// TruncCase is a replayable truncation case.
type TruncCase struct {
	Algorithm int    `json:"algorithm"`
	Msgs      []Msg  `json:"msgs"`
	Cut       int    `json:"cut"` // bytes of the wire stream that arrive
	FragMode  int    `json:"frag_mode"`
	FragSeed  uint64 `json:"frag_seed"`
}

// judgeTruncation decodes from a stream cut after Cut bytes: what decodes must
// be a prefix of what was sent, and the first message that is not completely
// there must produce an error (never a value, never a panic).
func judgeTruncation(c *TruncCase, wire []byte, built []proto.Message) (violation string, decodedBeforeError int) {
	defer func() {
		if p := recover(); p != nil {
			violation = fmt.Sprintf("decoder panicked on a stream truncated after %d of %d bytes: %v\n%s", c.Cut, len(wire), p, debug.Stack())
		}
	}()
	rs := newReaderStack(&sliceReader{data: wire[:c.Cut], frag: fragmenter{mode: c.FragMode, rng: prng(c.FragSeed)}}, compression.Algorithm(c.Algorithm))
	for i, m := range c.Msgs {
		got := newEmpty(m.Kind)
		if err := rs.decoder.Decode(got); err != nil {
			return "", i
		}
		if !proto.Equal(got, built[i]) {
			return fmt.Sprintf("stream truncated after %d of %d bytes: message %d (%v) decoded without error to a value that was never sent", c.Cut, len(wire), i, m), i
		}
	}
	if c.Cut < len(wire) && compression.Algorithm(c.Algorithm) == compression.Algorithm_AlgorithmNone {
		return fmt.Sprintf("all %d messages decoded although only %d of %d bytes arrived", len(c.Msgs), c.Cut, len(wire)), len(c.Msgs)
	}
	return "", len(c.Msgs)
}

func TestC22_Truncation(t *testing.T) {
	if ev.ReplayPath() != "" {
		t.Skip()
	}
	rec := ev.New(t, "C22", "truncation", "rapid: a short message sequence is put on the wire (none|deflate), the stream ends after every prefix length (all cuts for streams up to 600 bytes, 300 drawn cuts otherwise): decoded messages are a prefix of the sent ones, the incomplete one yields an error, nothing panics; non-trivial: the cut lies strictly inside the stream")
	ev.Check(t, rec, 40, 1200, func(rt *rapid.T) {
		c := &TruncCase{Algorithm: int(rapid.SampledFrom(algorithms).Draw(rt, "algorithm")),
			FragMode: rapid.SampledFrom([]int{fragWhole, fragOneByte, fragSmall}).Draw(rt, "frag.mode"), FragSeed: rapid.Uint64().Draw(rt, "frag.seed")}
		n := rapid.IntRange(1, 5).Draw(rt, "messages")
		for i := 0; i < n; i++ {
			m := Msg{Kind: rapid.IntRange(0, kindCount-1).Draw(rt, "kind"), Seed: rapid.Uint64().Draw(rt, "msg.seed"),
				Compressible: rapid.Bool().Draw(rt, "compressible"), Flush: rapid.Bool().Draw(rt, "flush")}
			if m.Kind != kindEmptyCompletion && m.Kind != kindEmptyResponse {
				m.Size = rapid.SampledFrom([]int{0, 1, 5, 60, 127, 128, 300, 20000}).Draw(rt, "size")
			}
			c.Msgs = append(c.Msgs, m)
		}
		wire, built, err := wireBytes(compression.Algorithm(c.Algorithm), c.Msgs)
		if err != nil {
			ev.Failf(rt, rec, c, "encoding failed: %v", err)
		}
		var cuts []int
		if len(wire) <= 600 {
			for i := 0; i <= len(wire); i++ {
				cuts = append(cuts, i)
			}
		} else {
			cuts = rapid.SliceOfN(rapid.IntRange(0, len(wire)), 300, 300).Draw(rt, "cuts")
			cuts = append(cuts, len(wire), len(wire)-1, 0, 1)
		}
		for _, cut := range cuts {
			c.Cut = cut
			v, k := judgeTruncation(c, wire, built)
			rec.Eval()
			if v != "" {
				ev.Failf(rt, rec, c, "%s", v)
			}
			if cut == len(wire) && k != len(c.Msgs) {
				ev.Failf(rt, rec, c, "complete stream of %d bytes decodes only %d of %d messages", len(wire), k, len(c.Msgs))
			}
			if cut < len(wire) {
				rec.NonTrivial(ev.Hash(fmt.Sprintf("%+v", *c)))
				rec.Class(fmt.Sprintf("decoded-before-error/%d", min(k, 3)))
			}
		}
		rec.Class("alg/" + compression.Algorithm(c.Algorithm).Description())
	})
}

// PrefixCase is a replayable corrupted-length-prefix case.
type PrefixCase struct {
	Prefix []byte `json:"prefix"` // raw bytes of the length prefix as put on the wire
	Body   int    `json:"body"`   // bytes that follow
	Seed   uint64 `json:"seed"`
}

// declared interprets a prefix the way the wire format defines it (base-128
// varint, at most 10 bytes, value < 2^64).
func declared(prefix []byte) (value uint64, valid bool) {
	var shift uint
	for i, b := range prefix {
		if i == 9 && b > 1 {
			return 0, false
		}
		value |= uint64(b&0x7f) << shift
		if b < 0x80 {
			return value, i == len(prefix)-1
		}
		shift += 7
	}
	return 0, false
}

// judgePrefix feeds a length prefix and a short body to a decoder. A declared
// size above the limit (or a malformed prefix) must be refused, without
// allocating anything near the declared size; a declared size within the limit
// with a shorter body must be reported as an error.
func judgePrefix(c *PrefixCase) (violation string, class string) {
	value, valid := declared(c.Prefix)
	r := prng(c.Seed)
	stream := append(append([]byte(nil), c.Prefix...), payload(&r, c.Body, false)...)
	dec := encoding.NewProtobufDecoder(bufio.NewReaderSize(bytes.NewReader(stream), controlStreamUncompressedBufferSize))
	var before, after runtime.MemStats
	runtime.ReadMemStats(&before)
	var err error
	func() {
		defer func() {
			if p := recover(); p != nil {
				violation = fmt.Sprintf("decoder panicked on prefix % x: %v", c.Prefix, p)
			}
		}()
		err = dec.Decode(&rsync.Transmission{})
	}()
	runtime.ReadMemStats(&after)
	if violation != "" {
		return violation, "panic"
	}
	allocated := after.TotalAlloc - before.TotalAlloc
	switch {
	case !valid:
		class = "malformed-varint"
		if err == nil {
			return fmt.Sprintf("malformed length prefix % x accepted", c.Prefix), class
		}
	case value > maxMessageSize:
		class = "declared-size-above-limit"
		if err == nil {
			return fmt.Sprintf("declared message size %d above the %d limit accepted", value, maxMessageSize), class
		}
	case uint64(c.Body) < value:
		class = "declared-size-within-limit/body-truncated"
		if err == nil {
			return fmt.Sprintf("declared size %d, only %d body bytes present, yet Decode reported success", value, c.Body), class
		}
		return "", class
	default:
		return "", "declared-size-within-limit/body-present"
	}
	if allocated > 8<<20 {
		return fmt.Sprintf("refusing prefix % x (declared %d) allocated %d bytes", c.Prefix, value, allocated), class
	}
	return "", class
}

func varint(v uint64) []byte { return binary.AppendUvarint(nil, v) }

func TestC22_LengthPrefixes(t *testing.T) {
	if ev.ReplayPath() != "" {
		t.Skip()
	}
	rec := ev.New(t, "C22", "length-prefixes", "rapid: a length prefix (limit+1, limit+random, >= 2^32, >= 2^63, maximal, over-long or unterminated varints, sizes within the limit with a shorter body) followed by 0..64 body bytes is fed to the decoder; non-trivial: the prefix declares more than the 100 MiB limit or is malformed")
	// Boundary, once: exactly the limit is not refused as too large (the body is
	// missing, so the error must be about reading it).
	{
		dec := encoding.NewProtobufDecoder(bufio.NewReader(bytes.NewReader(varint(maxMessageSize))))
		err := dec.Decode(&rsync.Transmission{})
		rec.Eval()
		if err == nil || strings.Contains(err.Error(), "too large") {
			ev.FailTB(t, rec, &PrefixCase{Prefix: varint(maxMessageSize)}, "declared size equal to the limit: %v", err)
		}
	}
	ev.Check(t, rec, 3000, 100000, func(rt *rapid.T) {
		c := &PrefixCase{Body: rapid.IntRange(0, 64).Draw(rt, "body"), Seed: rapid.Uint64().Draw(rt, "seed")}
		switch rapid.IntRange(0, 8).Draw(rt, "prefix.class") {
		case 0:
			c.Prefix = varint(maxMessageSize + 1)
		case 1:
			c.Prefix = varint(maxMessageSize + 1 + uint64(rapid.IntRange(0, 1<<30).Draw(rt, "over")))
		case 2:
			c.Prefix = varint(1<<32 + rapid.Uint64Range(0, 1<<40).Draw(rt, "over"))
		case 3:
			c.Prefix = varint(1<<63 + rapid.Uint64Range(0, 1<<62).Draw(rt, "over"))
		case 4:
			c.Prefix = varint(^uint64(0))
		case 5:
			// Over-long: 10 continuation bytes and more.
			c.Prefix = bytes.Repeat([]byte{0xff}, rapid.IntRange(10, 14).Draw(rt, "len"))
			c.Prefix = append(c.Prefix, 0x01)
		case 6:
			// Tenth byte with bits beyond 2^64.
			c.Prefix = append(bytes.Repeat([]byte{0x80}, 9), byte(rapid.IntRange(2, 0x7f).Draw(rt, "tenth")))
		case 7:
			// Unterminated: continuation bits until the stream ends.
			c.Prefix = bytes.Repeat([]byte{0x80 | byte(rapid.IntRange(0, 0x7f).Draw(rt, "bits"))}, rapid.IntRange(1, 9).Draw(rt, "len"))
			c.Body = 0
		default:
			c.Prefix = varint(uint64(rapid.IntRange(0, 1<<20).Draw(rt, "size")))
		}
		v, class := judgePrefix(c)
		rec.Eval()
		rec.Class(class)
		if v != "" {
			ev.Failf(rt, rec, c, "%s", v)
		}
		if class == "declared-size-above-limit" || class == "malformed-varint" {
			rec.NonTrivial(ev.Hash(string(c.Prefix), fmt.Sprint(c.Body)))
		}
	})
}

// TestC22_StackReplicaIsCurrent compares the pipeline built in stack.go with
// the source text of client.go and server.go, so that a change of the real
// stack (buffer sizes, layering, flush order) makes this check inconclusive
// instead of silently checking a stale copy. The real client and server stacks
// are exercised directly by TestC22_RealClient and TestC22_RealServer.
func TestC22_StackReplicaIsCurrent(t *testing.T) {
	if ev.ReplayPath() != "" {
		t.Skip()
	}
	repo := os.Getenv("VERIF_REPO_DIR")
	if repo == "" {
		repo = "/repo"
	}
	dir := filepath.Join(repo, "pkg/synchronization/endpoint/remote")
	want := []string{
		`compressedInbound := bufio\.NewReaderSize\(stream, controlStreamCompressedBufferSize\)`,
		`decompressor := compressionAlgorithm\.Decompress\(compressedInbound\)`,
		`inbound := bufio\.NewReaderSize\(decompressor, controlStreamUncompressedBufferSize\)`,
		`compressedOutbound := bufio\.NewWriterSize\(stream, controlStreamCompressedBufferSize\)`,
		`compressor := compressionAlgorithm\.Compress\(compressedOutbound\)`,
		`outbound := bufio\.NewWriterSize\(compressor, controlStreamUncompressedBufferSize\)`,
		`flusher := streampkg\.NewMultiFlusher\(outbound, compressor, compressedOutbound\)`,
		`encoder := encoding\.NewProtobufEncoder\(outbound\)`,
		`decoder := encoding\.NewProtobufDecoder\(inbound\)`,
	}
	for _, name := range []string{"client.go", "server.go"} {
		src, err := os.ReadFile(filepath.Join(dir, name))
		if err != nil {
			ev.Inconclusive("cannot read %s: %v", name, err)
			return
		}
		for _, w := range want {
			if !regexp.MustCompile(w).Match(src) {
				ev.Inconclusive("%s no longer builds the control-stream pipeline the way stack.go mirrors it (missing: %s)", name, w)
				return
			}
		}
	}
	sizes, err := os.ReadFile(filepath.Join(dir, "protocol.go"))
	if err != nil || !regexp.MustCompile(`controlStreamCompressedBufferSize = 64 \* 1024`).Match(sizes) || !regexp.MustCompile(`controlStreamUncompressedBufferSize = 64 \* 1024`).Match(sizes) {
		ev.Inconclusive("protocol.go buffer sizes differ from the 64 KiB mirrored in stack.go")
	}
}
