package c22_framing

import (
	"bytes"
	"encoding/binary"
	"fmt"
	"io"
	"os"
	"runtime/debug"
	"strconv"
	"testing"

	"google.golang.org/protobuf/proto"

	"github.com/mutagen-io/mutagen/pkg/synchronization/compression"
	"github.com/mutagen-io/mutagen/pkg/synchronization/endpoint/remote"
	"github.com/mutagen-io/mutagen/pkg/synchronization/rsync"

	"verif/kit/ev"
)

// fuzzTargets are the message types the decoding side cycles through.
func fuzzTarget(i int) proto.Message {
	switch i % 5 {
	case 0:
		return &rsync.Transmission{}
	case 1:
		return &remote.EndpointRequest{}
	case 2:
		return &remote.StageResponse{}
	case 3:
		return &remote.ScanResponse{}
	}
	return &remote.InitializeSynchronizationRequest{}
}

// decodeAll decodes up to 64 messages from arbitrary wire bytes through the
// inbound stack and returns their canonical encodings and whether decoding
// ended with an error.
func decodeAll(data []byte, alg compression.Algorithm, fragMode int) (msgs [][]byte, failed bool, problem string) {
	defer func() {
		if p := recover(); p != nil {
			problem = fmt.Sprintf("decoding side panicked: %v\n%s", p, debug.Stack())
		}
	}()
	rs := newReaderStack(&sliceReader{data: data, frag: fragmenter{mode: fragMode, rng: 7}}, alg)
	for i := 0; i < 64; i++ {
		m := fuzzTarget(i)
		if err := rs.decoder.Decode(m); err != nil {
			return msgs, true, ""
		}
		enc, err := proto.MarshalOptions{Deterministic: true}.Marshal(m)
		if err != nil {
			return msgs, true, "decoded message cannot be marshalled again: " + err.Error()
		}
		msgs = append(msgs, enc)
	}
	return msgs, false, ""
}

// judgeWireBytes is the oracle of the decoder fuzz target: no panic; the same
// bytes decode to the same messages however they are fragmented; a first
// length prefix above the limit is refused; whatever decodes survives a round
// trip through the writer stack.
func judgeWireBytes(data []byte, alg compression.Algorithm) (violation string, decoded int) {
	whole, wholeFailed, problem := decodeAll(data, alg, fragWhole)
	if problem != "" {
		return problem, 0
	}
	small, smallFailed, problem := decodeAll(data, alg, fragSmall)
	if problem != "" {
		return problem + " (fragmented reads)", 0
	}
	if len(whole) != len(small) || wholeFailed != smallFailed {
		return fmt.Sprintf("the same wire bytes decode to %d messages (error: %v) when read whole and to %d messages (error: %v) when read in fragments of 1..64 bytes", len(whole), wholeFailed, len(small), smallFailed), 0
	}
	for i := range whole {
		if !bytes.Equal(whole[i], small[i]) {
			return fmt.Sprintf("message %d decodes differently under read fragmentation", i), 0
		}
	}
	if alg == compression.Algorithm_AlgorithmNone {
		if v, n := binary.Uvarint(data); n > 0 && v > maxMessageSize && len(whole) > 0 {
			return fmt.Sprintf("first length prefix declares %d bytes (limit %d) but a message was decoded", v, maxMessageSize), 0
		}
	}
	// Round trip of what was decoded.
	if len(whole) > 0 {
		var buf bytes.Buffer
		ws := newWriterStack(&buf, alg)
		var sent []proto.Message
		for i, enc := range whole {
			m := fuzzTarget(i)
			if err := proto.Unmarshal(enc, m); err != nil {
				return "canonical encoding of a decoded message does not unmarshal: " + err.Error(), 0
			}
			sent = append(sent, m)
			if err := ws.encoder.Encode(m); err != nil {
				return "re-encoding a decoded message failed: " + err.Error(), 0
			}
		}
		if err := ws.flusher.Flush(); err != nil {
			return "flush failed: " + err.Error(), 0
		}
		rs := newReaderStack(&sliceReader{data: buf.Bytes(), frag: fragmenter{mode: fragSmall, rng: 11}}, alg)
		for i := range whole {
			got := fuzzTarget(i)
			if err := rs.decoder.Decode(got); err != nil {
				return fmt.Sprintf("round trip: message %d of %d does not decode: %v", i, len(whole), err), 0
			}
			if !proto.Equal(got, sent[i]) {
				return fmt.Sprintf("round trip: message %d differs", i), 0
			}
		}
	}
	return "", len(whole)
}

// expensive tells whether decoding data would make the decoder allocate a
// large (but permitted) buffer only to find the body missing: such inputs are
// legal, uninteresting, and so slow on a loaded machine that the fuzzing
// engine's 10 s per-input watchdog fires. The walk over the frames is the
// harness's own (plain varints over the decompressed bytes).
func expensive(data []byte, alg compression.Algorithm) bool {
	plain := data
	if alg != compression.Algorithm_AlgorithmNone {
		var buf bytes.Buffer
		func() {
			defer func() { recover() }()
			io.Copy(&buf, io.LimitReader(alg.Decompress(bytes.NewReader(data)), 8<<20))
		}()
		plain = buf.Bytes()
	}
	for len(plain) > 0 {
		v, n := binary.Uvarint(plain)
		if n <= 0 || v > maxMessageSize {
			return false
		}
		plain = plain[n:]
		if v > uint64(len(plain)) {
			return v > 4<<20
		}
		plain = plain[v:]
	}
	return false
}

// FuzzC22_Decoder is the native fuzz target of the thorough tier.
func FuzzC22_Decoder(f *testing.F) {
	for _, alg := range algorithms {
		for _, msgs := range [][]Msg{
			{{Kind: kindTransmission, Size: 10, Seed: 1, Flush: true}, {Kind: kindTransmissionDone}},
			{{Kind: kindTransmission, Size: 300, Seed: 2, Compressible: true}, {Kind: kindStageRequest, Size: 100, Seed: 3}, {Kind: kindStageResponse, Size: 60, Seed: 4}},
			{{Kind: kindEmptyResponse, Flush: true}, {Kind: kindEmptyCompletion}},
		} {
			wire, _, err := wireBytes(alg, msgs)
			if err != nil {
				f.Fatal(err)
			}
			f.Add(wire, alg == compression.Algorithm_AlgorithmDeflate)
		}
	}
	f.Add(append(varint(maxMessageSize+1), 1, 2, 3), false)
	f.Add(bytes.Repeat([]byte{0xff}, 12), false)
	f.Add([]byte{}, true)
	os.Setenv("VERIF_SHARD", strconv.Itoa(os.Getpid()))
	rec := ev.New(f, "C22", "native-fuzz-decoder", "go native fuzzing of the inbound stack (bufio -> none|deflate -> bufio -> length-prefixed decoder) over arbitrary wire bytes: no panic, fragmentation-independent result, limit enforced, decoded messages survive a round trip; non-trivial: at least one message decodes")
	f.Fuzz(func(t *testing.T, data []byte, deflate bool) {
		if len(data) > 1<<20 {
			t.Skip()
		}
		alg := compression.Algorithm_AlgorithmNone
		if deflate {
			alg = compression.Algorithm_AlgorithmDeflate
		}
		if expensive(data, alg) {
			t.Skip()
		}
		rec.Eval()
		v, n := judgeWireBytes(data, alg)
		if v != "" {
			t.Fatalf("%s", rec.Violation(map[string]any{"data": data, "deflate": deflate}, "%s", v))
		}
		if n > 0 {
			rec.NonTrivial(ev.Hash(string(data), strconv.FormatBool(deflate)))
		}
	})
}
