package c22_framing

import (
	"fmt"

	"google.golang.org/protobuf/proto"

	"github.com/mutagen-io/mutagen/pkg/synchronization"
	"github.com/mutagen-io/mutagen/pkg/synchronization/core"
	"github.com/mutagen-io/mutagen/pkg/synchronization/endpoint/remote"
	"github.com/mutagen-io/mutagen/pkg/synchronization/rsync"
)

// Message kinds (all are messages that travel on the control stream).
const (
	kindEmptyCompletion  = iota // PollCompletionRequest{}: zero-length body
	kindEmptyResponse           // PollResponse{}: zero-length body
	kindInitResponse            // InitializeSynchronizationResponse with an error text
	kindInitRequest             // InitializeSynchronizationRequest with a configuration
	kindStageRequest            // EndpointRequest{Stage}: many paths and digests
	kindStageResponse           // StageResponse: paths and signatures
	kindSupplyRequest           // EndpointRequest{Supply}
	kindScanResponse            // ScanResponse: snapshot delta operations
	kindTransmission            // rsync.Transmission with one data operation
	kindTransmissionDone        // rsync.Transmission{Done}
	kindTransition              // EndpointRequest{Transition}: entry trees
	kindCount
)

var kindNames = []string{"empty-completion-request", "empty-response", "init-response", "init-request", "stage-request", "stage-response",
	"supply-request", "scan-response", "transmission", "transmission-done", "transition-request"}

// Msg describes one message compactly; Build expands it deterministically.
type Msg struct {
	Kind         int    `json:"kind"`
	Size         int    `json:"size"` // approximate payload size in bytes
	Seed         uint64 `json:"seed"`
	Compressible bool   `json:"compressible"`
	Flush        bool   `json:"flush"` // flush the pipeline after this message
	// Reuse: do not send a fresh object but overwrite, field by field, the
	// object that carried the previous message of the same kind (callers of the
	// encoder re-use and modify message objects between calls, e.g. rsync's
	// Transmission and Operation); sizes cached inside the object are then stale.
	Reuse bool `json:"reuse,omitempty"`
}

func (m Msg) String() string {
	f := ""
	if m.Reuse {
		f = "+reuse"
	}
	if m.Flush {
		f += "+flush"
	}
	return fmt.Sprintf("%s(%d)%s", kindNames[m.Kind], m.Size, f)
}

// payload produces n bytes: incompressible noise, or highly repetitive text.
func payload(r *prng, n int, compressible bool) []byte {
	p := make([]byte, n)
	if compressible {
		phrase := []byte("mutagen/control/stream/")
		shift := r.intn(len(phrase))
		for i := range p {
			p[i] = phrase[(i+shift)%len(phrase)]
		}
		return p
	}
	for i := 0; i < n; i += 8 {
		v := r.next()
		for j := 0; j < 8 && i+j < n; j++ {
			p[i+j] = byte(v >> (8 * j))
		}
	}
	return p
}

func text(r *prng, n int, compressible bool) string {
	p := payload(r, n, compressible)
	for i := range p {
		p[i] = 'a' + p[i]%26
	}
	return string(p)
}

// newEmpty returns an empty message of the kind's type, for decoding into.
func newEmpty(kind int) proto.Message {
	switch kind {
	case kindEmptyCompletion:
		return &remote.PollCompletionRequest{}
	case kindEmptyResponse:
		return &remote.PollResponse{}
	case kindInitResponse:
		return &remote.InitializeSynchronizationResponse{}
	case kindInitRequest:
		return &remote.InitializeSynchronizationRequest{}
	case kindStageRequest, kindSupplyRequest, kindTransition:
		return &remote.EndpointRequest{}
	case kindStageResponse:
		return &remote.StageResponse{}
	case kindScanResponse:
		return &remote.ScanResponse{}
	case kindTransmission, kindTransmissionDone:
		return &rsync.Transmission{}
	}
	panic("unknown message kind")
}

func signatures(r *prng, budget int) []*rsync.Signature {
	var out []*rsync.Signature
	for budget > 0 {
		n := 1 + r.intn(200)
		s := &rsync.Signature{BlockSize: 1 + uint64(r.intn(1<<16)), LastBlockSize: 1}
		for i := 0; i < n && budget > 0; i++ {
			s.Hashes = append(s.Hashes, &rsync.BlockHash{Weak: uint32(r.next()), Strong: payload(r, 20, false)})
			budget -= 28
		}
		out = append(out, s)
	}
	return out
}

func entryTree(r *prng, budget *int, depth int, compressible bool) *core.Entry {
	*budget -= 40
	if depth >= 4 || *budget <= 0 || r.intn(3) == 0 {
		return &core.Entry{Kind: core.EntryKind_File, Digest: payload(r, 20, false), Executable: r.intn(2) == 0}
	}
	e := &core.Entry{Kind: core.EntryKind_Directory, Contents: map[string]*core.Entry{}}
	for i, n := 0, 1+r.intn(6); i < n && *budget > 0; i++ {
		name := text(r, 1+r.intn(24), compressible)
		*budget -= len(name)
		e.Contents[name] = entryTree(r, budget, depth+1, compressible)
	}
	return e
}

// Build expands a message description.
func (m Msg) Build() proto.Message {
	r := prng(m.Seed)
	switch m.Kind {
	case kindEmptyCompletion:
		return &remote.PollCompletionRequest{}
	case kindEmptyResponse:
		return &remote.PollResponse{}
	case kindInitResponse:
		return &remote.InitializeSynchronizationResponse{Error: text(&r, m.Size, m.Compressible)}
	case kindInitRequest:
		cfg := &synchronization.Configuration{}
		for left := m.Size; left > 0; {
			n := 1 + r.intn(min(left, 300))
			cfg.Ignores = append(cfg.Ignores, text(&r, n, m.Compressible))
			left -= n
		}
		return &remote.InitializeSynchronizationRequest{Session: "sync_" + text(&r, 43, false), Version: synchronization.Version_Version1,
			Configuration: cfg, Root: "/" + text(&r, 1+r.intn(40), true), Alpha: r.intn(2) == 0}
	case kindStageRequest:
		req := &remote.StageRequest{}
		for left := m.Size; left > 0; {
			n := 1 + r.intn(min(left, 120))
			req.Paths = append(req.Paths, text(&r, n, m.Compressible))
			req.Digests = append(req.Digests, payload(&r, 20, false))
			left -= n + 20
		}
		return &remote.EndpointRequest{Stage: req}
	case kindStageResponse:
		resp := &remote.StageResponse{Signatures: signatures(&r, m.Size)}
		for i := range resp.Signatures {
			if m.Compressible {
				resp.Paths = append(resp.Paths, text(&r, 1+r.intn(60), true))
			} else if i == 0 {
				break // the "all paths" shorthand: signatures without paths
			}
		}
		return resp
	case kindSupplyRequest:
		req := &remote.SupplyRequest{Signatures: signatures(&r, m.Size)}
		for range req.Signatures {
			req.Paths = append(req.Paths, text(&r, 1+r.intn(60), m.Compressible))
		}
		return &remote.EndpointRequest{Supply: req}
	case kindScanResponse:
		resp := &remote.ScanResponse{TryAgain: r.intn(4) == 0}
		for left := m.Size; left > 0; {
			if r.intn(3) == 0 {
				resp.SnapshotDelta = append(resp.SnapshotDelta, &rsync.Operation{Start: uint64(r.intn(1000)), Count: 1 + uint64(r.intn(50))})
				left -= 4
				continue
			}
			n := 1 + r.intn(min(left, 1<<16))
			resp.SnapshotDelta = append(resp.SnapshotDelta, &rsync.Operation{Data: payload(&r, n, m.Compressible)})
			left -= n
		}
		return resp
	case kindTransmission:
		if m.Size == 0 {
			return &rsync.Transmission{ExpectedSize: r.next() >> 20, Operation: &rsync.Operation{Start: uint64(r.intn(100)), Count: 1 + uint64(r.intn(9))}}
		}
		return &rsync.Transmission{ExpectedSize: r.next() >> 20, Operation: &rsync.Operation{Data: payload(&r, m.Size, m.Compressible)}}
	case kindTransmissionDone:
		t := &rsync.Transmission{Done: true}
		if m.Size > 0 {
			t.Error = text(&r, m.Size, m.Compressible)
		}
		return t
	case kindTransition:
		req := &remote.TransitionRequest{}
		budget := m.Size
		for budget > 0 {
			req.Transitions = append(req.Transitions, &core.Change{Path: text(&r, 1+r.intn(50), m.Compressible),
				Old: entryTree(&r, &budget, 0, m.Compressible), New: entryTree(&r, &budget, 0, m.Compressible)})
		}
		return &remote.EndpointRequest{Transition: req}
	}
	panic("unknown message kind")
}

// overwrite makes old carry the content of fresh by assigning fields, nested
// messages included, without resetting the objects (so whatever they cache
// about their previous content stays behind). It reports false for kinds it
// does not handle.
func overwrite(old, fresh proto.Message) bool {
	switch o := old.(type) {
	case *rsync.Transmission:
		f := fresh.(*rsync.Transmission)
		o.ExpectedSize, o.Done, o.Error = f.ExpectedSize, f.Done, f.Error
		if o.Operation != nil && f.Operation != nil {
			o.Operation.Data, o.Operation.Start, o.Operation.Count = f.Operation.Data, f.Operation.Start, f.Operation.Count
		} else {
			o.Operation = f.Operation
		}
	case *remote.InitializeSynchronizationResponse:
		o.Error = fresh.(*remote.InitializeSynchronizationResponse).Error
	case *remote.ScanResponse:
		f := fresh.(*remote.ScanResponse)
		o.Error, o.TryAgain = f.Error, f.TryAgain
		// Keep the old operation objects where possible.
		for i, op := range f.SnapshotDelta {
			if i < len(o.SnapshotDelta) {
				o.SnapshotDelta[i].Data, o.SnapshotDelta[i].Start, o.SnapshotDelta[i].Count = op.Data, op.Start, op.Count
			} else {
				o.SnapshotDelta = append(o.SnapshotDelta, op)
			}
		}
		if len(o.SnapshotDelta) > len(f.SnapshotDelta) {
			o.SnapshotDelta = o.SnapshotDelta[:len(f.SnapshotDelta)]
		}
	case *remote.StageResponse:
		f := fresh.(*remote.StageResponse)
		o.Paths, o.Error = f.Paths, f.Error
		for i, sig := range f.Signatures {
			if i < len(o.Signatures) {
				o.Signatures[i].BlockSize, o.Signatures[i].LastBlockSize, o.Signatures[i].Hashes = sig.BlockSize, sig.LastBlockSize, sig.Hashes
			} else {
				o.Signatures = append(o.Signatures, sig)
			}
		}
		if len(o.Signatures) > len(f.Signatures) {
			o.Signatures = o.Signatures[:len(f.Signatures)]
		}
	case *remote.EndpointRequest:
		f := fresh.(*remote.EndpointRequest)
		switch {
		case o.Stage != nil && f.Stage != nil:
			o.Stage.Paths, o.Stage.Digests = f.Stage.Paths, f.Stage.Digests
		case o.Supply != nil && f.Supply != nil:
			o.Supply.Paths, o.Supply.Signatures = f.Supply.Paths, f.Supply.Signatures
		case o.Transition != nil && f.Transition != nil:
			o.Transition.Transitions = f.Transition.Transitions
		default:
			o.Poll, o.Scan, o.Stage, o.Supply, o.Transition = f.Poll, f.Scan, f.Stage, f.Supply, f.Transition
		}
	default:
		return false
	}
	return true
}
