package c22_framing

// The real writer stacks: remote.NewEndpoint (client.go) and
// remote.ServeEndpoint (server.go) run on side A of the duplex pipe; the test
// plays the peer on side B with the mirrored stacks of stack.go. Whenever the
// real side waits (blocked reading its next message, or idle between calls),
// everything it sent and flushed so far must be decodable by the peer; a read
// on B that would need more bytes then is a deadlock in the real system.

import (
	"errors"
	"fmt"
	"os"
	"path/filepath"
	"testing"
	"time"

	"google.golang.org/protobuf/proto"
	"pgregory.net/rapid"

	"github.com/mutagen-io/mutagen/pkg/synchronization"
	"github.com/mutagen-io/mutagen/pkg/synchronization/compression"
	"github.com/mutagen-io/mutagen/pkg/synchronization/endpoint/remote"
	"github.com/mutagen-io/mutagen/pkg/synchronization/rsync"

	"verif/kit/ev"
)

// park marks side A idle and waits until the test releases it.
func (d *duplex) park() {
	d.mu.Lock()
	d.aIdle = true
	d.cond.Broadcast()
	for d.aIdle {
		d.cond.Wait()
	}
	d.mu.Unlock()
}

// release waits until side A is parked idle and lets it continue. It returns
// false when A does not get there within the (generous) deadline.
func (d *duplex) release(deadline time.Duration) bool {
	timer := time.AfterFunc(deadline, func() { d.mu.Lock(); d.cond.Broadcast(); d.mu.Unlock() })
	defer timer.Stop()
	end := time.Now().Add(deadline)
	d.mu.Lock()
	defer d.mu.Unlock()
	for !d.aIdle {
		if d.aClosed || time.Now().After(end) {
			return false
		}
		d.cond.Wait()
	}
	d.aIdle = false
	d.cond.Broadcast()
	return true
}

// RealCase is a replayable case for the real client / server checks.
type RealCase struct {
	Server      bool   `json:"server"`    // true: ServeEndpoint is under test, false: NewEndpoint
	Algorithm   int    `json:"algorithm"` // 0: session default (deflate)
	FragA       int    `json:"frag_a"`
	FragB       int    `json:"frag_b"`
	Seed        uint64 `json:"seed"`
	IgnoreBytes int    `json:"ignore_bytes"` // size of the configuration in the initialize request
	StagePaths  int    `json:"stage_paths"`  // number of paths in the stage request (client)
	FileSizes   []int  `json:"file_sizes"`   // files transmitted after staging / supplied
	Noise       bool   `json:"noise"`        // file content incompressible
}

const realDeadline = 120 * time.Second

type realOutcome struct {
	violation    string
	inconclusive string
	messages     int
	wireBytes    int
}

// collectEncoder records what rsync.Transmit emits, as the expected stream.
type collectEncoder struct{ list []*rsync.Transmission }

func (e *collectEncoder) Encode(t *rsync.Transmission) error {
	e.list = append(e.list, proto.Clone(t).(*rsync.Transmission))
	return nil
}
func (e *collectEncoder) Finalize() error { return nil }

// prepareFiles writes the files to transmit and returns paths and base
// signatures (bases are variations of the targets so that deltas mix block and
// data operations).
func prepareFiles(root string, c *RealCase) (paths []string, sigs []*rsync.Signature, err error) {
	r := prng(c.Seed)
	eng := rsync.NewEngine()
	for i, size := range c.FileSizes {
		name := fmt.Sprintf("file%d.bin", i)
		content := payload(&r, size, !c.Noise)
		if err = os.WriteFile(filepath.Join(root, name), content, 0o600); err != nil {
			return
		}
		base := append([]byte(nil), content[:size/2]...)
		paths = append(paths, name)
		sigs = append(sigs, eng.BytesSignature(base, 0))
	}
	return
}

func expectedTransmissions(root string, paths []string, sigs []*rsync.Signature) ([]*rsync.Transmission, error) {
	enc := &collectEncoder{}
	if err := rsync.Transmit(root, paths, sigs, rsync.NewEncodingReceiver(enc)); err != nil {
		return nil, err
	}
	return enc.list, nil
}

func starvedOr(err error, what string) string {
	if errors.Is(err, errStarved) {
		return what + ": the peer waits for input while part of what it sent and flushed never reached the wire (" + err.Error() + ")"
	}
	return what + ": " + err.Error()
}

// receiveTransmissions decodes transmissions until count Done messages arrived
// and compares them with the expected stream.
func receiveTransmissions(rs *readerStack, want []*rsync.Transmission, out *realOutcome, who string) bool {
	for i, w := range want {
		got := &rsync.Transmission{}
		if err := rs.decoder.Decode(got); err != nil {
			out.violation = starvedOr(err, fmt.Sprintf("%s: transmission %d of %d cannot be decoded", who, i, len(want)))
			return false
		}
		if !proto.Equal(got, w) {
			out.violation = fmt.Sprintf("%s: transmission %d of %d decoded to a different value than was sent", who, i, len(want))
			return false
		}
		out.messages++
	}
	return true
}

func configurationOfSize(c *RealCase) *synchronization.Configuration {
	r := prng(c.Seed ^ 0x5bd1e995)
	cfg := &synchronization.Configuration{WatchMode: synchronization.WatchMode_WatchModeNoWatch, CompressionAlgorithm: compression.Algorithm(c.Algorithm)}
	for left := c.IgnoreBytes; left > 0; {
		n := 1 + r.intn(min(left, 200))
		cfg.Ignores = append(cfg.Ignores, text(&r, n, false))
		left -= n
	}
	return cfg
}

// judgeRealClient drives remote.NewEndpoint, Stage and the rsync transmission
// into the returned receiver.
func judgeRealClient(c *RealCase, dir string) (out realOutcome) {
	src := filepath.Join(dir, "src")
	os.RemoveAll(src)
	if err := os.MkdirAll(src, 0o700); err != nil {
		out.inconclusive = err.Error()
		return
	}
	filePaths, fileSigs, err := prepareFiles(src, c)
	if err != nil {
		out.inconclusive = err.Error()
		return
	}
	want, err := expectedTransmissions(src, filePaths, fileSigs)
	if err != nil {
		out.inconclusive = "reference Transmit failed: " + err.Error()
		return
	}
	r := prng(c.Seed ^ 0x9747b28c)
	stagePaths := append([]string(nil), filePaths...)
	var digests [][]byte
	for i := len(stagePaths); i < max(c.StagePaths, len(filePaths)); i++ {
		stagePaths = append(stagePaths, "dir/"+text(&r, 1+r.intn(80), false))
	}
	for range stagePaths {
		digests = append(digests, payload(&r, 20, false))
	}
	cfg := configurationOfSize(c)
	const session = "sync_verifC22realclient"
	const root = "/remote/root"

	d := newDuplex(c.FragA, c.FragB, c.Seed)
	clientErr := make(chan string, 1)
	go func() {
		defer func() {
			if p := recover(); p != nil {
				clientErr <- fmt.Sprintf("client panicked: %v", p)
			}
		}()
		ep, err := remote.NewEndpoint(nil, sideA{d}, root, session, synchronization.Version_Version1, cfg, true)
		if err != nil {
			clientErr <- "NewEndpoint: " + err.Error()
			return
		}
		defer ep.Shutdown()
		d.park()
		gotPaths, gotSigs, receiver, err := ep.Stage(stagePaths, digests)
		if err != nil {
			clientErr <- "Stage: " + err.Error()
			return
		}
		if len(gotPaths) != len(filePaths) || len(gotSigs) != len(fileSigs) || receiver == nil {
			clientErr <- fmt.Sprintf("Stage returned %d paths / %d signatures", len(gotPaths), len(gotSigs))
			return
		}
		if err := rsync.Transmit(src, gotPaths, gotSigs, receiver); err != nil {
			clientErr <- "Transmit into the staging receiver: " + err.Error()
			return
		}
		d.park()
		clientErr <- ""
	}()
	// Whatever happens, let the client goroutine finish before returning.
	finished := false
	defer func() {
		sideB{d}.Close()
		d.mu.Lock()
		d.aIdle = false
		d.cond.Broadcast()
		d.mu.Unlock()
		if !finished {
			select {
			case <-clientErr:
			case <-time.After(realDeadline):
				out.inconclusive = "client goroutine did not finish"
			}
		}
		out.wireBytes = d.bytesAB
	}()

	b := sideB{d}
	alg, err := compression.ServerHandshake(b)
	if err != nil {
		out.violation = starvedOr(err, "compression handshake with the real client")
		return
	}
	wantAlg := compression.Algorithm(c.Algorithm)
	if wantAlg.IsDefault() {
		wantAlg = compression.Algorithm_AlgorithmDeflate
	}
	if alg != wantAlg {
		out.violation = fmt.Sprintf("client announced compression %v, configured %v", alg, wantAlg)
		return
	}
	rs, ws := newReaderStack(b, alg), newWriterStack(b, alg)

	// Initialize request.
	init := &remote.InitializeSynchronizationRequest{}
	if err := rs.decoder.Decode(init); err != nil {
		out.violation = starvedOr(err, "initialize request of the real client cannot be decoded")
		return
	}
	out.messages++
	wantInit := &remote.InitializeSynchronizationRequest{Session: session, Version: synchronization.Version_Version1, Configuration: cfg, Root: root, Alpha: true}
	if !proto.Equal(init, wantInit) {
		out.violation = "initialize request decoded to a different value than the client was given"
		return
	}
	if err := ws.encoder.Encode(&remote.InitializeSynchronizationResponse{}); err == nil {
		err = ws.flusher.Flush()
	}
	if !d.release(realDeadline) {
		select {
		case msg := <-clientErr:
			finished = true
			out.violation = "client failed after a valid initialize response: " + msg
		default:
			out.inconclusive = "client did not return from NewEndpoint"
		}
		return
	}

	// Stage request.
	req := &remote.EndpointRequest{}
	if err := rs.decoder.Decode(req); err != nil {
		out.violation = starvedOr(err, fmt.Sprintf("stage request (%d paths) of the real client cannot be decoded", len(stagePaths)))
		return
	}
	out.messages++
	if !proto.Equal(req, &remote.EndpointRequest{Stage: &remote.StageRequest{Paths: stagePaths, Digests: digests}}) {
		out.violation = "stage request decoded to a different value than the client was given"
		return
	}
	resp := &remote.StageResponse{Paths: filePaths, Signatures: fileSigs}
	if len(stagePaths) == len(filePaths) {
		resp.Paths = nil // shorthand: all paths
	}
	if len(filePaths) == 0 {
		resp = &remote.StageResponse{}
	}
	if err := ws.encoder.Encode(resp); err == nil {
		err = ws.flusher.Flush()
	}
	if len(filePaths) > 0 {
		if !receiveTransmissions(rs, want, &out, "real client") {
			return
		}
	}
	if !d.release(realDeadline) {
		select {
		case msg := <-clientErr:
			finished = true
			out.violation = "client failed: " + msg
		default:
			out.inconclusive = "client did not finish staging"
		}
		return
	}
	select {
	case msg := <-clientErr:
		finished = true
		if msg != "" {
			out.violation = "client failed: " + msg
		}
	case <-time.After(realDeadline):
		out.inconclusive = "client goroutine did not finish"
	}
	return
}

// judgeRealServer drives remote.ServeEndpoint: initialize, then a supply
// request that makes the server stream files and flush once at the end.
func judgeRealServer(c *RealCase, dir string) (out realOutcome) {
	root := filepath.Join(dir, "root")
	data := filepath.Join(dir, "data")
	os.RemoveAll(root)
	if err := os.MkdirAll(root, 0o700); err != nil {
		out.inconclusive = err.Error()
		return
	}
	os.Setenv("MUTAGEN_DATA_DIRECTORY", data)
	filePaths, fileSigs, err := prepareFiles(root, c)
	if err != nil {
		out.inconclusive = err.Error()
		return
	}
	want, err := expectedTransmissions(root, filePaths, fileSigs)
	if err != nil {
		out.inconclusive = "reference Transmit failed: " + err.Error()
		return
	}
	cfg := configurationOfSize(c)
	cfg.CompressionAlgorithm = compression.Algorithm_AlgorithmDefault

	d := newDuplex(c.FragA, c.FragB, c.Seed)
	serverDone := make(chan string, 1)
	go func() {
		defer func() {
			if p := recover(); p != nil {
				serverDone <- fmt.Sprintf("server panicked: %v", p)
			}
		}()
		err := remote.ServeEndpoint(nil, sideA{d})
		if err != nil {
			serverDone <- err.Error()
		} else {
			serverDone <- ""
		}
	}()
	var serverMsg string
	exited := false
	defer func() {
		sideB{d}.Close()
		if !exited {
			select {
			case serverMsg = <-serverDone:
			case <-time.After(realDeadline):
				out.inconclusive = "server goroutine did not finish"
			}
		}
		out.wireBytes = d.bytesAB
	}()
	explain := func(what string, err error) string {
		// If the server has gone away, say why.
		select {
		case serverMsg = <-serverDone:
			exited = true
			return fmt.Sprintf("%s: %v (server exited: %s)", what, err, serverMsg)
		default:
		}
		return starvedOr(err, what)
	}

	b := sideB{d}
	alg := compression.Algorithm(c.Algorithm)
	if alg.IsDefault() {
		alg = compression.Algorithm_AlgorithmDeflate
	}
	if err := compression.ClientHandshake(b, alg); err != nil {
		out.violation = explain("compression handshake with the real server", err)
		return
	}
	rs, ws := newReaderStack(b, alg), newWriterStack(b, alg)
	send := func(m proto.Message) error {
		if err := ws.encoder.Encode(m); err != nil {
			return err
		}
		return ws.flusher.Flush()
	}
	if err := send(&remote.InitializeSynchronizationRequest{Session: "sync_verifC22realserver", Version: synchronization.Version_Version1, Configuration: cfg, Root: root, Alpha: c.Seed&1 == 0}); err != nil {
		out.inconclusive = "cannot send the initialize request: " + err.Error()
		return
	}
	resp := &remote.InitializeSynchronizationResponse{}
	if err := rs.decoder.Decode(resp); err != nil {
		out.violation = explain("initialize response of the real server cannot be decoded", err)
		return
	}
	out.messages++
	if resp.Error != "" {
		out.inconclusive = "server refused the initialize request: " + resp.Error
		return
	}
	if len(filePaths) > 0 {
		if err := send(&remote.EndpointRequest{Supply: &remote.SupplyRequest{Paths: filePaths, Signatures: fileSigs}}); err != nil {
			out.inconclusive = "cannot send the supply request: " + err.Error()
			return
		}
		if !receiveTransmissions(rs, want, &out, "real server") {
			if !exited {
				select {
				case serverMsg = <-serverDone:
					exited = true
					out.violation += " (server exited: " + serverMsg + ")"
				default:
				}
			}
			return
		}
	}
	return
}

func runRealCase(c *RealCase, dir string) realOutcome {
	if c.Server {
		return judgeRealServer(c, dir)
	}
	return judgeRealClient(c, dir)
}

func drawRealCase(rt *rapid.T, server bool) *RealCase {
	c := &RealCase{Server: server,
		Algorithm: int(rapid.SampledFrom([]compression.Algorithm{compression.Algorithm_AlgorithmDefault, compression.Algorithm_AlgorithmNone, compression.Algorithm_AlgorithmDeflate}).Draw(rt, "algorithm")),
		FragA:     rapid.SampledFrom([]int{fragWhole, fragSmall, fragLarge, fragOneThenAll}).Draw(rt, "frag.a"),
		FragB:     rapid.SampledFrom([]int{fragWhole, fragSmall, fragLarge, fragOneThenAll}).Draw(rt, "frag.b"),
		Seed:      rapid.Uint64().Draw(rt, "seed"),
		Noise:     rapid.Bool().Draw(rt, "noise"),
	}
	c.IgnoreBytes = rapid.SampledFrom([]int{0, 100, 30000, 65000, 66000, 200000}).Draw(rt, "ignore.bytes")
	if !server {
		c.StagePaths = rapid.SampledFrom([]int{1, 3, 50, 800, 1600, 30000}).Draw(rt, "stage.paths")
	}
	for i, n := 0, rapid.IntRange(1, 3).Draw(rt, "files"); i < n; i++ {
		c.FileSizes = append(c.FileSizes, rapid.SampledFrom([]int{0, 1, 1000, 65536, 65537, 70000, 131072, 300000, 1200000}).Draw(rt, "file.size"))
	}
	return c
}

func realTest(t *testing.T, server bool) {
	if ev.ReplayPath() != "" {
		t.Skip()
	}
	name, what := "real-client", "remote.NewEndpoint + Stage + rsync.Transmit into the staging receiver"
	if server {
		name, what = "real-server", "remote.ServeEndpoint + initialize + Supply (streams files, one flush at the end)"
	}
	rec := ev.New(t, "C22", name, "rapid: "+what+" over an in-memory duplex pipe with read fragmentation on both sides, algorithms default/none/deflate, configuration of 0..200 KB, 1..3 files of 0..1.2 MB; the peer (mirrored stacks) must be able to decode everything the real side flushed whenever the real side waits; non-trivial: a message or file above 64 KiB is involved")
	dir := t.TempDir()
	ev.Check(t, rec, 40, 1200, func(rt *rapid.T) {
		c := drawRealCase(rt, server)
		out := runRealCase(c, dir)
		rec.Eval()
		if out.inconclusive != "" {
			ev.Inconclusive("%s: %s", name, out.inconclusive)
			rt.Skip()
		}
		if out.violation != "" {
			ev.Failf(rt, rec, c, "%s", out.violation)
		}
		rec.Class("alg/" + compression.Algorithm(c.Algorithm).Description())
		big := c.IgnoreBytes > 65536 || c.StagePaths > 1000
		for _, s := range c.FileSizes {
			big = big || s > 65536
		}
		if big {
			rec.Class("nontrivial")
			rec.NonTrivial(ev.Hash(fmt.Sprintf("%+v", *c)))
			if rec.WantSample() {
				rec.Sample(map[string]any{"case": c, "messages_decoded": out.messages, "bytes_from_real_side": out.wireBytes})
			}
		}
	})
}

func TestC22_RealClient(t *testing.T) { realTest(t, false) }
func TestC22_RealServer(t *testing.T) { realTest(t, true) }
