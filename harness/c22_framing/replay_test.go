package c22_framing

import (
	"testing"

	"github.com/mutagen-io/mutagen/pkg/synchronization/compression"

	"verif/kit/ev"
)

func TestReplay(t *testing.T) {
	if ev.ReplayPath() == "" {
		t.Skip("no replay requested")
	}
	rec := ev.New(t, "C22", "replay", "replay of a saved case")
	rec.Eval()
	switch part := ev.ReplayPart(); part {
	case "sequences":
		var c SeqCase
		if _, err := ev.LoadReplay(ev.ReplayPath(), &c); err != nil {
			t.Fatalf("cannot load replay: %v", err)
		}
		if v, _ := judgeSequence(&c); v != "" {
			ev.FailTB(t, rec, &c, "%s", v)
		}
	case "truncation":
		var c TruncCase
		if _, err := ev.LoadReplay(ev.ReplayPath(), &c); err != nil {
			t.Fatalf("cannot load replay: %v", err)
		}
		wire, built, err := wireBytes(compression.Algorithm(c.Algorithm), c.Msgs)
		if err != nil {
			t.Fatalf("encoding failed: %v", err)
		}
		if v, _ := judgeTruncation(&c, wire, built); v != "" {
			ev.FailTB(t, rec, &c, "%s", v)
		}
	case "length-prefixes":
		var c PrefixCase
		if _, err := ev.LoadReplay(ev.ReplayPath(), &c); err != nil {
			t.Fatalf("cannot load replay: %v", err)
		}
		if v, _ := judgePrefix(&c); v != "" {
			ev.FailTB(t, rec, &c, "%s", v)
		}
	case "real-client", "real-server":
		var c RealCase
		if _, err := ev.LoadReplay(ev.ReplayPath(), &c); err != nil {
			t.Fatalf("cannot load replay: %v", err)
		}
		out := runRealCase(&c, t.TempDir())
		if out.inconclusive != "" {
			ev.Inconclusive("%s", out.inconclusive)
			return
		}
		if out.violation != "" {
			ev.FailTB(t, rec, &c, "%s", out.violation)
		}
	default:
		t.Fatalf("unknown part %q in replay file", part)
	}
}
