// Package c22_framing checks C22: control-stream framing delivers every
// flushed message intact.
//
// stack.go rebuilds the outbound and inbound pipelines of the remote endpoint
// client and server (pkg/synchronization/endpoint/remote/client.go and
// server.go build the same one) from the same public constructors, and
// provides the in-memory transports: a lock-step wire for the synchronous
// checks and a duplex pipe with quiescence detection for the checks that run
// the real client and server.
package c22_framing

import (
	"bufio"
	"errors"
	"io"
	"sync"

	"github.com/mutagen-io/mutagen/pkg/encoding"
	"github.com/mutagen-io/mutagen/pkg/stream"
	"github.com/mutagen-io/mutagen/pkg/synchronization/compression"
)

// Buffer sizes of remote/protocol.go (unexported there; the source guard in
// TestC22_StackReplicaIsCurrent keeps this copy honest).
const (
	controlStreamCompressedBufferSize   = 64 * 1024
	controlStreamUncompressedBufferSize = 64 * 1024
)

// maxMessageSize is the decoder's documented limit ("the maximum message size
// that we'll attempt to read from the wire").
const maxMessageSize = 100 * 1024 * 1024

// writerStack is the outbound pipeline: encoder -> bufio 64K -> compressor ->
// bufio 64K -> stream, flushed top-down by NewMultiFlusher.
type writerStack struct {
	encoder *encoding.ProtobufEncoder
	flusher stream.Flusher
}

func newWriterStack(w io.Writer, alg compression.Algorithm) *writerStack {
	compressedOutbound := bufio.NewWriterSize(w, controlStreamCompressedBufferSize)
	compressor := alg.Compress(compressedOutbound)
	outbound := bufio.NewWriterSize(compressor, controlStreamUncompressedBufferSize)
	return &writerStack{
		encoder: encoding.NewProtobufEncoder(outbound),
		flusher: stream.NewMultiFlusher(outbound, compressor, compressedOutbound),
	}
}

// readerStack is the inbound pipeline: stream -> bufio 64K -> decompressor ->
// bufio 64K -> decoder.
type readerStack struct {
	decoder      *encoding.ProtobufDecoder
	decompressor io.ReadCloser
}

func newReaderStack(r io.Reader, alg compression.Algorithm) *readerStack {
	compressedInbound := bufio.NewReaderSize(r, controlStreamCompressedBufferSize)
	decompressor := alg.Decompress(compressedInbound)
	inbound := bufio.NewReaderSize(decompressor, controlStreamUncompressedBufferSize)
	return &readerStack{decoder: encoding.NewProtobufDecoder(inbound), decompressor: decompressor}
}

// prng is a splitmix64 generator; all schedules are expanded from drawn seeds.
type prng uint64

func (s *prng) next() uint64 {
	*s += 0x9e3779b97f4a7c15
	z := uint64(*s)
	z = (z ^ (z >> 30)) * 0xbf58476d1ce4e5b9
	z = (z ^ (z >> 27)) * 0x94d049bb133111eb
	return z ^ (z >> 31)
}

func (s *prng) intn(n int) int {
	if n <= 1 {
		return 0
	}
	return int(s.next() % uint64(n))
}

// Fragmentation modes of a reading side.
const (
	fragWhole      = iota // as much as the caller asks for
	fragOneByte           // one byte per Read
	fragSmall             // 1..64 bytes
	fragLarge             // 1..100000 bytes
	fragOneThenAll        // one byte per Read for the first 4096 reads, then whole
	fragModes
)

var fragNames = []string{"whole", "one-byte", "1..64", "1..100000", "one-byte-then-whole"}

// fragmenter decides how many bytes a Read may return.
type fragmenter struct {
	mode  int
	rng   prng
	reads int
}

func (f *fragmenter) limit() int {
	f.reads++
	switch f.mode {
	case fragOneByte:
		return 1
	case fragSmall:
		return 1 + f.rng.intn(64)
	case fragLarge:
		return 1 + f.rng.intn(100000)
	case fragOneThenAll:
		if f.reads <= 4096 {
			return 1
		}
	}
	return 1 << 30
}

// errStarved is what a reading side gets when it needs bytes that the peer
// has not put on the wire although the peer has nothing left to do: in the
// real system this read would block forever.
var errStarved = errors.New("verif: read would block forever (no more bytes on the wire)")

// lockstepWire is a one-directional in-memory stream between a writing test
// goroutine and one reading goroutine, of which exactly one runs at a time
// (coroutine hand-off), so every run is deterministic. The writer hands control
// to the reader at chosen Write calls and at every flush point; the reader
// hands it back when it needs bytes that are not there yet.
type lockstepWire struct {
	buf        []byte
	off        int
	total      int
	writes     int
	frag       fragmenter
	yieldMode  int // 0: only at flush points, 1: at every wire write, 2: at random wire writes
	yieldRng   prng
	toReader   chan struct{}
	toWriter   chan struct{}
	readerDone bool
	closed     bool
	starved    bool
}

func newLockstepWire(fragMode int, fragSeed uint64, yieldMode int, yieldSeed uint64) *lockstepWire {
	return &lockstepWire{
		frag:      fragmenter{mode: fragMode, rng: prng(fragSeed)},
		yieldMode: yieldMode, yieldRng: prng(yieldSeed),
		toReader: make(chan struct{}), toWriter: make(chan struct{}),
	}
}

// Write is called by the writer stack (test goroutine).
func (w *lockstepWire) Write(p []byte) (int, error) {
	w.buf = append(w.buf, p...)
	w.total += len(p)
	w.writes++
	if w.yieldMode == 1 || (w.yieldMode == 2 && w.yieldRng.intn(3) == 0) {
		w.runReader()
	}
	return len(p), nil
}

// runReader lets the reader run until it needs more bytes or is done.
func (w *lockstepWire) runReader() {
	if w.readerDone {
		return
	}
	w.toReader <- struct{}{}
	<-w.toWriter
}

// Read is called by the reader stack (reader goroutine).
func (w *lockstepWire) Read(p []byte) (int, error) {
	if len(p) == 0 {
		return 0, nil
	}
	for w.off == len(w.buf) {
		if w.closed {
			w.starved = true
			return 0, errStarved
		}
		// Compact, then give control back until there is something to read.
		w.buf, w.off = w.buf[:0], 0
		w.toWriter <- struct{}{}
		<-w.toReader
	}
	n := min(len(p), len(w.buf)-w.off, w.frag.limit())
	copy(p, w.buf[w.off:w.off+n])
	w.off += n
	return n, nil
}

// readerLoop brackets the body of the reader goroutine.
func (w *lockstepWire) readerLoop(body func()) {
	<-w.toReader
	body()
	w.readerDone = true
	w.toWriter <- struct{}{}
}

// finish ends the run from the writer's side: a reader still waiting for bytes
// is told that none will come.
func (w *lockstepWire) finish() {
	w.closed = true
	w.runReader()
}

// duplex is the in-memory connection used with the real client and server: the
// real endpoint runs on side A in its own goroutine(s), the test drives side B.
// Reads on A block like a real connection. Reads on B block only while A can
// still make progress; when A itself is parked (blocked reading with nothing
// pending, or explicitly idle) or gone, a read on B that finds no bytes returns
// errStarved: in the real system both sides would now wait for each other
// forever. No timing is involved in that verdict.
type duplex struct {
	mu      sync.Mutex
	cond    *sync.Cond
	toA     []byte
	toB     []byte
	aParked bool
	aIdle   bool
	aClosed bool
	bClosed bool
	fragA   fragmenter
	fragB   fragmenter
	bytesAB int
	bytesBA int
}

func newDuplex(fragA, fragB int, seed uint64) *duplex {
	d := &duplex{fragA: fragmenter{mode: fragA, rng: prng(seed)}, fragB: fragmenter{mode: fragB, rng: prng(seed + 1)}}
	d.cond = sync.NewCond(&d.mu)
	return d
}

type sideA struct{ d *duplex }
type sideB struct{ d *duplex }

func (s sideA) Read(p []byte) (int, error) {
	d := s.d
	d.mu.Lock()
	defer d.mu.Unlock()
	if len(p) == 0 {
		return 0, nil
	}
	for len(d.toA) == 0 {
		if d.aClosed {
			return 0, io.ErrClosedPipe
		}
		if d.bClosed {
			return 0, io.EOF
		}
		d.aParked = true
		d.cond.Broadcast()
		d.cond.Wait()
	}
	d.aParked = false
	n := min(len(p), len(d.toA), d.fragA.limit())
	copy(p, d.toA[:n])
	d.toA = d.toA[n:]
	return n, nil
}

func (s sideA) Write(p []byte) (int, error) {
	d := s.d
	d.mu.Lock()
	defer d.mu.Unlock()
	if d.aClosed || d.bClosed {
		return 0, io.ErrClosedPipe
	}
	d.toB = append(d.toB, p...)
	d.bytesAB += len(p)
	d.cond.Broadcast()
	return len(p), nil
}

func (s sideA) Close() error {
	d := s.d
	d.mu.Lock()
	defer d.mu.Unlock()
	d.aClosed = true
	d.cond.Broadcast()
	return nil
}

// setIdle marks A as having nothing more to do until told otherwise (used by
// scripts that drive a real client between calls).
func (d *duplex) setIdle(idle bool) {
	d.mu.Lock()
	d.aIdle = idle
	d.cond.Broadcast()
	d.mu.Unlock()
}

func (s sideB) Read(p []byte) (int, error) {
	d := s.d
	d.mu.Lock()
	defer d.mu.Unlock()
	if len(p) == 0 {
		return 0, nil
	}
	for len(d.toB) == 0 {
		if d.aClosed {
			return 0, io.EOF
		}
		if d.bClosed {
			return 0, io.ErrClosedPipe
		}
		if (d.aParked && len(d.toA) == 0) || d.aIdle {
			return 0, errStarved
		}
		d.cond.Wait()
	}
	n := min(len(p), len(d.toB), d.fragB.limit())
	copy(p, d.toB[:n])
	d.toB = d.toB[n:]
	return n, nil
}

func (s sideB) Write(p []byte) (int, error) {
	d := s.d
	d.mu.Lock()
	defer d.mu.Unlock()
	if d.aClosed || d.bClosed {
		return 0, io.ErrClosedPipe
	}
	d.toA = append(d.toA, p...)
	d.bytesBA += len(p)
	d.cond.Broadcast()
	return len(p), nil
}

func (s sideB) Close() error {
	d := s.d
	d.mu.Lock()
	defer d.mu.Unlock()
	d.bClosed = true
	d.cond.Broadcast()
	return nil
}
