package c22_framing

import (
	"testing"
	"time"

	"github.com/mutagen-io/mutagen/pkg/synchronization/compression"
)

func TestZZTime(t *testing.T) {
	for _, in := range [][]byte{[]byte("\x81\x80\x801\xf9!\a"), []byte("\x81\x80\xaa-7\x93\x8e]\xa6f\x7f\xff\xff\xff\x03")} {
		for i := 0; i < 5; i++ {
			t0 := time.Now()
			v, n := judgeWireBytes(in, compression.Algorithm_AlgorithmNone)
			t.Logf("%q %d took %v", v, n, time.Since(t0))
		}
	}
}
