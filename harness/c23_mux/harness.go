package c23_mux

// harness.go: a pair of real multiplexers over the tapped in-memory link,
// keyed pseudo-random stream content, watchdog helpers.

import (
	"context"
	"errors"
	"fmt"
	"strconv"
	"strings"
	"sync"
	"time"

	"github.com/mutagen-io/mutagen/pkg/multiplexing"
)

// MuxCfg is the generated part of a multiplexer configuration.
type MuxCfg struct {
	Window      int `json:"window"`       // StreamReceiveWindow (<= 0: no inbound data)
	Buffers     int `json:"buffers"`      // WriteBufferCount (<= 0: 1)
	Backlog     int `json:"backlog"`      // AcceptBacklog (<= 0: 1)
	HeartbeatMs int `json:"heartbeat_ms"` // HeartbeatTransmitInterval (0: none)
}

func (c MuxCfg) window() uint64 {
	if c.Window < 0 {
		return 0
	}
	return uint64(c.Window)
}

func (c MuxCfg) backlog() int {
	if c.Backlog <= 0 {
		return 1
	}
	return c.Backlog
}

func (c MuxCfg) buffers() int {
	if c.Buffers <= 0 {
		return 1
	}
	return c.Buffers
}

// Env is the generated environment shared by all case kinds.
type Env struct {
	Cfg     [2]MuxCfg `json:"cfg"`
	Even    int       `json:"even"`     // side using even stream identifiers
	PipeCap int       `json:"pipe_cap"` // carrier buffering per direction, bytes
	Frag    []int     `json:"frag,omitempty"`
}

// Pair is two multiplexers connected by a tapped link.
type Pair struct {
	env  Env
	link *Link
	mux  [2]*multiplexing.Multiplexer
	dec  [2]*decoder // guarded by link.mu
	// closedByTest records that the test itself closed a side (or broke the
	// carrier); after that the connection going down is expected.
	mu           sync.Mutex
	closedByTest bool
}

// NewPair starts two multiplexers. Inbound heartbeats are never required
// (a loaded machine must not be able to tear the connection down), outbound
// heartbeats are sent when configured so that they interleave with traffic.
func NewPair(env Env) *Pair {
	p := &Pair{env: env}
	p.dec[0], p.dec[1] = &decoder{dir: 0}, &decoder{dir: 1}
	p.link = NewLink(env.PipeCap, env.Frag, func(dir int, stamp uint64, b []byte) {
		p.dec[dir].feed(stamp, b)
	})
	for s := 0; s < 2; s++ {
		c := env.Cfg[s]
		conf := &multiplexing.Configuration{
			StreamReceiveWindow:             c.Window,
			WriteBufferCount:                c.Buffers,
			AcceptBacklog:                   c.Backlog,
			HeartbeatTransmitInterval:       time.Duration(c.HeartbeatMs) * time.Millisecond,
			MaximumHeartbeatReceiveInterval: 0,
		}
		carrier := multiplexing.NewCarrierFromStream(p.link.End(s))
		p.mux[s] = multiplexing.Multiplex(carrier, s == env.Even, conf)
	}
	return p
}

// MarkClosedByTest records that the test is about to take the connection down.
func (p *Pair) MarkClosedByTest() {
	p.mu.Lock()
	p.closedByTest = true
	p.mu.Unlock()
}

// Close shuts both multiplexers down.
func (p *Pair) Close() {
	p.MarkClosedByTest()
	p.mux[0].Close()
	p.mux[1].Close()
}

// Down describes why the connection is down although the test did not close
// it ("" while it is up or the test closed it): a multiplexer reports Closed,
// has an internal error, or closed its carrier end.
func (p *Pair) Down() string {
	p.mu.Lock()
	byTest := p.closedByTest
	p.mu.Unlock()
	if byTest {
		return ""
	}
	var parts []string
	for s := 0; s < 2; s++ {
		closed := false
		select {
		case <-p.mux[s].Closed():
			closed = true
		default:
		}
		err := p.mux[s].InternalError()
		if closed || err != nil || p.link.End(s).Closed() {
			parts = append(parts, fmt.Sprintf("side %d: closed=%v carrier-closed=%v internal error=%v", s, closed, p.link.End(s).Closed(), err))
		}
	}
	return strings.Join(parts, "; ")
}

// Msgs returns a snapshot of the decoded messages of both directions and the
// decoders' framing errors.
func (p *Pair) Msgs() (msgs [2][]Msg, errs [2]string) {
	p.link.Locked(func() {
		for d := 0; d < 2; d++ {
			msgs[d] = append([]Msg(nil), p.dec[d].msgs...)
			errs[d] = p.dec[d].err
		}
	})
	return
}

// nonBeat returns the number of non-heartbeat messages decoded so far.
func (p *Pair) nonBeat() int {
	n := 0
	p.link.Locked(func() { n = p.dec[0].nonBeat + p.dec[1].nonBeat })
	return n
}

// sawOpen tells whether side's open message for id has been completely
// written.
func (p *Pair) sawOpen(side int, id uint64) bool {
	found := false
	p.link.Locked(func() { found = p.dec[side].opened[id] })
	return found
}

// Settle waits (bounded) until the traffic has died down: both directions
// idle and no new non-heartbeat message for a few consecutive polls.
func (p *Pair) Settle() {
	last, stable := -1, 0
	deadline := time.Now().Add(3 * time.Second)
	for stable < 4 && time.Now().Before(deadline) {
		n := p.nonBeat()
		if n == last && p.link.Idle(0) && p.link.Idle(1) {
			stable++
		} else {
			stable = 0
		}
		last = n
		time.Sleep(500 * time.Microsecond)
	}
}

// WireVerdict runs the reference model over the tapped traffic.
func (p *Pair) WireVerdict() []string {
	msgs, errs := p.Msgs()
	var out []string
	for d := 0; d < 2; d++ {
		if errs[d] != "" {
			out = append(out, fmt.Sprintf("side %d sent undecodable bytes: %s", d, errs[d]))
		}
	}
	return append(out, CheckWire(msgs, p.env.Even)...)
}

// streamID extracts the identifier of a stream from its local address
// ("local:<id>").
func streamID(s *multiplexing.Stream) uint64 {
	a := s.LocalAddr().String()
	id, _ := strconv.ParseUint(a[strings.IndexByte(a, ':')+1:], 10, 64)
	return id
}

// --- content ---------------------------------------------------------------

func mix(x uint64) uint64 {
	x += 0x9e3779b97f4a7c15
	x = (x ^ x>>30) * 0xbf58476d1ce4e5b9
	x = (x ^ x>>27) * 0x94d049bb133111eb
	return x ^ x>>31
}

// contentKey derives the key of the byte sequence written on stream index i by
// the given writer (0 opener, 1 acceptor).
func contentKey(i, writer int) uint64 { return mix(uint64(i)*2+uint64(writer)+1) | 1 }

// fill writes the bytes [off, off+len(dst)) of the sequence keyed by key.
func fill(dst []byte, key, off uint64) {
	var w uint64
	for i := range dst {
		o := off + uint64(i)
		if i == 0 || o&7 == 0 {
			w = mix(key + (o>>3)*0x9e3779b97f4a7c15)
		}
		dst[i] = byte(w >> ((o & 7) * 8))
	}
}

// mismatch returns the index of the first byte of p that differs from the
// sequence keyed by key at offset off, or -1.
func mismatch(p []byte, key, off uint64) int {
	var w uint64
	for i := range p {
		o := off + uint64(i)
		if i == 0 || o&7 == 0 {
			w = mix(key + (o>>3)*0x9e3779b97f4a7c15)
		}
		if p[i] != byte(w>>((o&7)*8)) {
			return i
		}
	}
	return -1
}

// --- watchdog helpers --------------------------------------------------------

// stallBound is the watchdog for calls that the model says must return
// (C23/C24; nominal latency is microseconds to a few milliseconds).
const stallBound = 20 * time.Second

// within runs f on its own goroutine and reports whether it returned in time.
// On a timeout the goroutine is left behind (it is released when the pair is
// closed).
func within(d time.Duration, f func()) bool {
	done := make(chan struct{})
	go func() {
		defer close(done)
		f()
	}()
	t := time.NewTimer(d)
	defer t.Stop()
	select {
	case <-done:
		return true
	case <-t.C:
		return false
	}
}

// openRes is the outcome of an OpenStream / AcceptStream call.
type openRes struct {
	st  *multiplexing.Stream
	err error
	at  time.Time
}

func asyncOpen(m *multiplexing.Multiplexer, ctx context.Context) chan openRes {
	ch := make(chan openRes, 1)
	go func() {
		st, err := m.OpenStream(ctx)
		ch <- openRes{st, err, time.Now()}
	}()
	return ch
}

func asyncAccept(m *multiplexing.Multiplexer, ctx context.Context) chan openRes {
	ch := make(chan openRes, 1)
	go func() {
		st, err := m.AcceptStream(ctx)
		ch <- openRes{st, err, time.Now()}
	}()
	return ch
}

func awaitOpen(ch chan openRes, d time.Duration) (openRes, bool) {
	t := time.NewTimer(d)
	defer t.Stop()
	select {
	case r := <-ch:
		return r, true
	case <-t.C:
		return openRes{}, false
	}
}

// errName renders an error for histories and messages.
func errName(err error) string {
	if err == nil {
		return "nil"
	}
	return err.Error()
}

var errStall = errors.New("harness: call did not return within the watchdog")
