package c23_mux

import (
	"encoding/json"
	"fmt"
	"os"
	"strings"
	"testing"

	"pgregory.net/rapid"

	"verif/kit/ev"
)

func prop() string {
	if p := os.Getenv("VERIF_PROP"); p != "" {
		return p
	}
	return "C23"
}

// --- generators ------------------------------------------------------------

func genCfg(rt *rapid.T, label string, windows []int, maxBacklog int) MuxCfg {
	return MuxCfg{
		Window:      rapid.SampledFrom(windows).Draw(rt, label+".window"),
		Buffers:     rapid.IntRange(0, 5).Draw(rt, label+".buffers"),
		Backlog:     rapid.IntRange(0, maxBacklog).Draw(rt, label+".backlog"),
		HeartbeatMs: rapid.SampledFrom([]int{0, 0, 1, 5}).Draw(rt, label+".heartbeat"),
	}
}

func genEnv(rt *rapid.T, windows []int, maxBacklog int) Env {
	e := Env{
		Even:    rapid.IntRange(0, 1).Draw(rt, "even"),
		PipeCap: rapid.SampledFrom([]int{1, 7, 64, 4096, 65536, 1 << 20}).Draw(rt, "pipe_cap"),
	}
	e.Cfg[0] = genCfg(rt, "cfg0", windows, maxBacklog)
	e.Cfg[1] = genCfg(rt, "cfg1", windows, maxBacklog)
	if rapid.IntRange(0, 2).Draw(rt, "fragmented") == 0 {
		e.Frag = rapid.SliceOfN(rapid.SampledFrom([]int{1, 2, 3, 5, 17, 100, 4095, 4096, 70000}), 1, 5).Draw(rt, "frag")
	}
	return e
}

var seqWindows = []int{-3, 0, 1, 7, 100, 4096, 65535, 200000}

func genOp(rt *rapid.T) Op {
	kind := rapid.SampledFrom([]string{
		"open", "open", "open", "accept", "accept", "accept", "acceptnone", "cancel",
		"read", "read", "read", "read", "read", "read", "write", "write", "write", "write", "write", "write",
		"kick", "kick", "cw", "close", "rdl", "wdl", "dl", "settle",
	}).Draw(rt, "op")
	op := Op{K: kind, S: rapid.IntRange(0, 1).Draw(rt, "side")}
	switch kind {
	case "read":
		op.I = rapid.IntRange(0, 3).Draw(rt, "stream")
		op.N = rapid.SampledFrom([]int{0, 0, 1, 2, 7, 100, 4096, 65535, 70000}).Draw(rt, "size")
		op.D = rapid.SampledFrom([]int{1, 1, 2, 3, 5, 10}).Draw(rt, "guard")
		op.C = rapid.IntRange(0, 3).Draw(rt, "clear") != 0
	case "write":
		op.I = rapid.IntRange(0, 3).Draw(rt, "stream")
		op.N = rapid.SampledFrom([]int{0, 1, 2, 7, 100, 4096, 65535, 65536, 70000, 200000}).Draw(rt, "size")
		op.D = rapid.SampledFrom([]int{1, 1, 2, 3, 5, 10}).Draw(rt, "guard")
		op.C = rapid.IntRange(0, 3).Draw(rt, "clear") != 0
	case "kick":
		op.I = rapid.IntRange(0, 3).Draw(rt, "stream")
		op.N = rapid.SampledFrom([]int{1, 2, 101, 4097, 65536, 70000, 200001}).Draw(rt, "size")
		op.D = rapid.IntRange(0, 1).Draw(rt, "mode")
		op.C = rapid.IntRange(0, 1).Draw(rt, "both") == 1
	case "cw", "close", "cancel":
		op.I = rapid.IntRange(0, 3).Draw(rt, "stream")
	case "rdl", "wdl", "dl":
		op.I = rapid.IntRange(0, 3).Draw(rt, "stream")
		op.D = rapid.SampledFrom([]int{0, -1, 1, 3, 10, 30}).Draw(rt, "deadline")
	case "settle", "acceptnone":
		op.D = rapid.IntRange(0, 2).Draw(rt, "ms")
	}
	return op
}

// genSeq draws a history: a prefix of open/accept pairs (so that most
// histories have established streams to work on; the pairs are ordinary
// operations and shrink away like any other) followed by free operations.
func genSeq(rt *rapid.T) *SeqCase {
	c := &SeqCase{Env: genEnv(rt, seqWindows, 4)}
	pairs := rapid.IntRange(0, 3).Draw(rt, "established")
	for i := 0; i < pairs; i++ {
		s := rapid.IntRange(0, 1).Draw(rt, "opener")
		c.Ops = append(c.Ops, Op{K: "open", S: s}, Op{K: "accept", S: 1 - s})
	}
	// rapid prefers short slices; draw the minimum length too so that long
	// histories are common (both shrink).
	minOps := rapid.IntRange(1, 24).Draw(rt, "min_ops")
	c.Ops = append(c.Ops, rapid.SliceOfN(rapid.Custom(genOp), minOps, 48).Draw(rt, "ops")...)
	return c
}

func genDir(rt *rapid.T, label string, window int) DirScript {
	limit := min(200000, max(64, window*2000))
	sizes := []int{0, 1, 2, window - 1, window, window + 1, 3 * window, 1000, 65535, 65536, 70000, 200000}
	var ok []int
	for _, s := range sizes {
		if s >= 0 && s <= limit {
			ok = append(ok, s)
		}
	}
	d := DirScript{
		Chunks:    rapid.SliceOfN(rapid.SampledFrom(ok), 0, 6).Draw(rt, label+".chunks"),
		End:       rapid.SampledFrom([]string{"cw", "cw", "cw", "close"}).Draw(rt, label+".end"),
		Bufs:      rapid.SliceOfN(rapid.SampledFrom([]int{1, 2, 7, 100, 4096, 32768, 70000}), 1, 4).Draw(rt, label+".bufs"),
		StopAfter: -1,
	}
	// Bound the number of Read calls a direction needs (about 2000).
	total := 0
	for _, n := range d.Chunks {
		total += n
	}
	for i := range d.Bufs {
		d.Bufs[i] = max(d.Bufs[i], total/2000)
	}
	if rapid.IntRange(0, 3).Draw(rt, label+".pauses") == 0 {
		d.PauseEvery = rapid.IntRange(1, 8).Draw(rt, label+".pause_every")
		d.PauseUs = rapid.SampledFrom([]int{1, 50, 500, 2000}).Draw(rt, label+".pause_us")
	}
	if rapid.IntRange(0, 3).Draw(rt, label+".early_cw") == 0 {
		if rapid.IntRange(0, 1).Draw(rt, label+".early_cw.mode") == 0 {
			d.EarlyCw = "delay"
			d.EarlyCwArg = rapid.SampledFrom([]int{0, 20, 100, 500, 2000}).Draw(rt, label+".early_cw.us")
		} else {
			d.EarlyCw = "read"
			d.EarlyCwArg = rapid.SampledFrom([]int{0, 1, 100, 5000, 70000}).Draw(rt, label+".early_cw.bytes")
		}
	}
	d.ZeroEvery = rapid.SampledFrom([]int{0, 8, 8, 5, 13}).Draw(rt, label+".zero_every")
	if rapid.IntRange(0, 3).Draw(rt, label+".kicked") == 0 {
		d.Kicks = rapid.IntRange(1, 4).Draw(rt, label+".kicks")
		d.KickUs = rapid.SampledFrom([]int{50, 500, 2000}).Draw(rt, label+".kick_us")
	}
	if rapid.IntRange(0, 5).Draw(rt, label+".stops") == 0 {
		d.StopAfter = rapid.SampledFrom([]int{0, 1, 100, 5000, 70000}).Draw(rt, label+".stop_after")
	}
	return d
}

var workWindows = []int{1, 7, 100, 4096, 65535, 200000}

func genWork(rt *rapid.T) *WorkCase {
	c := &WorkCase{Env: genEnv(rt, workWindows, 10)}
	n := rapid.IntRange(1, 8).Draw(rt, "streams")
	for i := 0; i < n; i++ {
		l := fmt.Sprintf("s%d", i)
		sc := StreamScript{
			Opener:  rapid.IntRange(0, 1).Draw(rt, l+".opener"),
			DelayUs: rapid.SampledFrom([]int{0, 0, 0, 50, 1000}).Draw(rt, l+".delay"),
		}
		// Dir[0] flows towards the acceptor: bounded by the acceptor's window.
		sc.Dir[0] = genDir(rt, l+".fwd", c.Cfg[1-sc.Opener].Window)
		sc.Dir[1] = genDir(rt, l+".back", c.Cfg[sc.Opener].Window)
		c.Streams = append(c.Streams, sc)
	}
	return c
}

var timingWindows = []int{0, 1, 100, 4096, 65535}

var timingReleases = map[string][]string{
	"read":       {"deadline-preset", "deadline-future", "deadline-past", "deadline-both", "local-close", "peer-close", "peer-close-write", "local-mux-close", "peer-mux-close", "carrier", "peer-data"},
	"write":      {"deadline-preset", "deadline-future", "deadline-past", "deadline-both", "local-close", "local-close-write", "peer-close", "local-mux-close", "peer-mux-close", "carrier", "peer-reads"},
	"open":       {"ctx-cancel", "ctx-timeout", "local-mux-close", "peer-mux-close", "carrier", "peer-accept"},
	"accept":     {"ctx-cancel", "ctx-timeout", "local-mux-close", "peer-mux-close", "carrier", "peer-open"},
	"stall":      {"fresh-transfer"},
	"backlog":    {"one-more-open"},
	"mass":       {"local-mux-close", "peer-mux-close", "carrier"},
	"expiry":     {"write-after-expiry"},
	"bufwrite":   {"deadline-preset", "deadline-future", "deadline-past", "deadline-both", "local-close", "local-close-write", "peer-close", "local-mux-close", "peer-mux-close", "carrier", "carrier-resumes"},
	"redeadline": {"clear-write", "clear-both", "future-write", "future-both"},
}

func genTiming(rt *rapid.T) *TimingCase {
	c := &TimingCase{Env: genEnv(rt, timingWindows, 10)}
	c.Kind = rapid.SampledFrom([]string{"read", "read", "write", "write", "open", "accept", "stall", "stall", "backlog", "backlog", "mass", "expiry", "redeadline", "redeadline", "bufwrite", "bufwrite"}).Draw(rt, "kind")
	c.Release = rapid.SampledFrom(timingReleases[c.Kind]).Draw(rt, "release")
	c.Side = rapid.IntRange(0, 1).Draw(rt, "side")
	c.Opener = rapid.IntRange(0, 1).Draw(rt, "opener")
	c.PreMs = rapid.IntRange(10, 30).Draw(rt, "pre_ms")
	c.DMs = rapid.IntRange(20, 100).Draw(rt, "d_ms")
	c.N = rapid.SampledFrom([]int{1, 2, 100, 70000}).Draw(rt, "n")
	c.K = rapid.IntRange(0, 6).Draw(rt, "k")
	if c.Kind == "stall" {
		w := rapid.SampledFrom([]int{1, 100, 4096, 65535}).Draw(rt, "stall.window")
		c.Cfg[1-c.Side].Window = w
		c.Bytes = min(1<<20, w*512)
		c.K = max(c.K, 1)
	}
	c.Normalize()
	return c
}

// --- re-execution rule for verdicts that depend on time ---------------------

// stable re-executes a case whose failure is of the "did not return in time"
// kind: it is a violation only if it fails on every one of three executions;
// a failure that does not repeat is reported as inconclusive. run returns the
// failure text of one execution ("" = passed).
func stable(first string, run func() string) (violation string, inconclusive bool) {
	msgs := []string{first}
	for i := 0; i < 2; i++ {
		m := run()
		if m == "" {
			return "", true
		}
		msgs = append(msgs, m)
	}
	return fmt.Sprintf("%s [failed on 3 of 3 executions of the same schedule]", msgs[0]), false
}

// --- C24: sequential state machine ----------------------------------------------

func seqSample(c *SeqCase, r *SeqResult) map[string]any {
	return map[string]any{"env": c.Env, "ops": fmt.Sprint(c.Ops), "history": r.Log}
}

// judgeSeqStable applies the re-execution rule to stalls.
func judgeSeqStable(c *SeqCase, exclude bool) (*SeqResult, bool) {
	r := JudgeSeq(c, exclude)
	if r.Violation == "" || !r.Stall {
		return r, false
	}
	v, inc := stable(r.Violation, func() string {
		r2 := JudgeSeq(c, exclude)
		if r2.Violation != "" && !r2.Stall {
			r = r2 // a definite (not time-dependent) violation showed up
		}
		return r2.Violation
	})
	if inc {
		ev.Inconclusive("C24 sequential history stalled once but not on re-execution: %s", r.Violation)
		r.Violation, r.Stall = "", false
		return r, true
	}
	if r.Stall {
		r.Violation = v
	}
	return r, false
}

// canonicalZeroRead is the minimal history of the known-finding class.
func canonicalZeroRead() *SeqCase {
	c := &SeqCase{}
	c.Cfg[0] = MuxCfg{Window: 65535, Buffers: 5, Backlog: 10}
	c.Cfg[1] = c.Cfg[0]
	c.PipeCap = 65536
	c.Ops = []Op{{K: "open", S: 0}, {K: "accept", S: 1}, {K: "write", S: 0, N: 1}, {K: "read", S: 1, N: 0}}
	return c
}

// minimizeSeq greedily shrinks a failing history on its own (rapid's shrink
// budget is wall-clock bound and the machine may be loaded): drop operations
// one at a time, then simplify the environment and the operations' fields,
// keeping every change after which the history still fails definitely.
func minimizeSeq(c *SeqCase, exclude bool, budget int) (*SeqCase, *SeqResult) {
	fails := func(x *SeqCase) *SeqResult {
		if budget <= 0 {
			return nil
		}
		budget--
		if r := JudgeSeq(x, exclude); r.Violation != "" && !r.Stall {
			return r
		}
		return nil
	}
	clone := func(x *SeqCase) *SeqCase {
		y := *x
		y.Ops = append([]Op(nil), x.Ops...)
		y.Frag = append([]int(nil), x.Frag...)
		return &y
	}
	best := clone(c)
	// A history may fail only under some schedules (e.g. a zero increment is
	// merged with a later one if that arrives before it is flushed): give the
	// starting point a few executions.
	var bestRes *SeqResult
	for i := 0; i < 6 && bestRes == nil; i++ {
		bestRes = fails(best)
	}
	if bestRes == nil {
		return c, nil
	}
	for changed := true; changed && budget > 0; {
		changed = false
		for i := len(best.Ops) - 1; i >= 0 && budget > 0; i-- {
			x := clone(best)
			x.Ops = append(x.Ops[:i:i], x.Ops[i+1:]...)
			if r := fails(x); r != nil {
				best, bestRes, changed = x, r, true
			}
		}
	}
	try := func(edit func(x *SeqCase)) {
		x := clone(best)
		edit(x)
		if r := fails(x); r != nil {
			best, bestRes = x, r
		}
	}
	try(func(x *SeqCase) { x.Frag = nil })
	try(func(x *SeqCase) { x.PipeCap = 65536 })
	try(func(x *SeqCase) { x.Even = 0 })
	for s := 0; s < 2; s++ {
		try(func(x *SeqCase) { x.Cfg[s] = MuxCfg{Window: 65535, Buffers: 5, Backlog: 10} })
	}
	for i := range best.Ops {
		try(func(x *SeqCase) { x.Ops[i].I = 0 })
		try(func(x *SeqCase) { x.Ops[i].C = false })
		try(func(x *SeqCase) { x.Ops[i].D = 0 })
		for _, n := range []int{0, 1} {
			if best.Ops[i].N > n {
				try(func(x *SeqCase) { x.Ops[i].N = n })
			}
		}
	}
	return best, bestRes
}

func TestSeqMachine(t *testing.T) {
	if ev.ReplayPath() != "" {
		t.Skip("replaying")
	}
	if prop() != "C24" {
		t.Skip("sequential state machine belongs to C24")
	}
	rec := ev.New(t, "C24", "seq-machine",
		"rapid: histories of <= 54 public API calls on both multiplexers (open, accept, cancelled open/accept, read incl. empty buffer, write incl. empty, close-write, close, deadlines past/future/cleared, opens beyond the backlog) executed one call at a time under random configurations, carrier buffering and read fragmentation; "+
			"oracle: no teardown unless the test closed a side + wire reference model + per-call data/error statements; "+
			"non-trivial: bytes were transferred and the history contains a zero-length read, an empty write, a deadline expiry, a rejected open or a cancelled open")
	finding, known := ev.KnownClass("C24", knownZeroRead)
	if known {
		// One canonical instance is still executed so that the finding is
		// reported while it reproduces (and noticed when it stops).
		r := JudgeSeq(canonicalZeroRead(), false)
		rec.Eval()
		if r.Violation != "" {
			rec.ReportKnown(finding)
			rec.Note("known_instance", r.Violation)
		} else {
			rec.Note("known_instance", "canonical instance of "+knownZeroRead+" no longer fails")
			fmt.Printf("NOTE: known finding %s no longer reproduces\n", finding.ID)
		}
	}
	var best *SeqCase
	var bestRes *SeqResult
	ev.Check(t, rec, 500, 6000, func(rt *rapid.T) {
		c := genSeq(rt)
		if best != nil {
			// Already minimised by minimizeSeq: do not spend rapid's shrink
			// budget re-running (possibly schedule-dependent) variants.
			ev.Failf(rt, rec, best, "%s\nminimal history found (%d operations): %v\nexecution:\n  %s", bestRes.Violation, len(best.Ops), best.Ops, strings.Join(bestRes.Log, "\n  "))
		}
		r, _ := judgeSeqStable(c, known)
		rec.Eval()
		for i := 0; i < r.Excluded; i++ {
			rec.Excluded(knownZeroRead)
		}
		for _, cl := range r.Classes {
			rec.Class(cl)
		}
		if r.Violation != "" {
			// Keep the smallest failing history seen so far in the replay
			// file (the last one written wins).
			if !r.Stall && (best == nil || len(c.Ops) < len(best.Ops)) {
				if m, mr := minimizeSeq(c, known, 400); mr != nil && (best == nil || len(m.Ops) < len(best.Ops)) {
					best, bestRes = m, mr
				}
			}
			if best != nil {
				ev.Failf(rt, rec, best, "%s\nminimal history found (%d operations): %v\nexecution:\n  %s", bestRes.Violation, len(best.Ops), best.Ops, strings.Join(bestRes.Log, "\n  "))
			}
			if r.Stall {
				// Confirmed on three executions, each costing the whole
				// watchdog: do not let rapid's shrinking repeat that.
				best, bestRes = c, r
			}
			ev.Failf(rt, rec, c, "%s\nhistory:\n  %s", r.Violation, strings.Join(r.Log, "\n  "))
		}
		if r.NonTrivial {
			rec.Class("nontrivial")
			b, _ := json.Marshal(c)
			rec.NonTrivial(ev.Hash(string(b)))
			if rec.WantSample() {
				rec.Sample(seqSample(c, r))
			}
		}
	})
}

// --- C23 / C24: concurrent workload ------------------------------------------------

func judgeWorkStable(c *WorkCase, wire, serial bool, p string) *WorkResult {
	r := JudgeWork(c, wire, serial)
	if r.Violation == "" || !r.Stall {
		return r
	}
	v, inc := stable(r.Violation, func() string {
		r2 := JudgeWork(c, wire, serial)
		if r2.Violation != "" && !r2.Stall {
			r = r2
		}
		return r2.Violation
	})
	if inc {
		ev.Inconclusive("%s workload stalled once but not on re-execution: %s", p, r.Violation)
		r.Violation, r.Stall = "", false
		return r
	}
	if r.Stall {
		r.Violation = v
	}
	return r
}

// minimizeWork greedily shrinks a failing workload: drop streams, then data,
// then simplify the environment. Schedules are not reproducible, so every
// candidate gets several executions and is kept if any of them fails
// definitely.
func minimizeWork(c *WorkCase, wire, serial bool, budget int) (*WorkCase, *WorkResult) {
	fails := func(x *WorkCase) *WorkResult {
		for i := 0; i < 30 && budget > 0; i++ {
			budget--
			if r := JudgeWork(x, wire, serial); r.Violation != "" && !r.Stall {
				return r
			}
		}
		return nil
	}
	clone := func(x *WorkCase) *WorkCase {
		b, _ := json.Marshal(x)
		y := &WorkCase{}
		json.Unmarshal(b, y)
		return y
	}
	best := clone(c)
	bestRes := fails(best)
	if bestRes == nil {
		return c, nil
	}
	try := func(edit func(x *WorkCase)) bool {
		x := clone(best)
		edit(x)
		if r := fails(x); r != nil {
			best, bestRes = x, r
			return true
		}
		return false
	}
	// All data away at once first (makes every further execution cheap).
	try(func(x *WorkCase) {
		for i := range x.Streams {
			x.Streams[i].DelayUs = 0
			for k := 0; k < 2; k++ {
				x.Streams[i].Dir[k] = DirScript{End: "cw", Bufs: []int{100}, StopAfter: -1}
			}
		}
	})
	for i := len(best.Streams) - 1; i >= 0; i-- {
		if len(best.Streams) > 1 && i < len(best.Streams) {
			try(func(x *WorkCase) { x.Streams = append(x.Streams[:i:i], x.Streams[i+1:]...) })
		}
	}
	for i := range best.Streams {
		try(func(x *WorkCase) {
			x.Streams[i].DelayUs = 0
			for k := 0; k < 2; k++ {
				x.Streams[i].Dir[k] = DirScript{End: "cw", Bufs: []int{100}, StopAfter: -1}
			}
		})
	}
	try(func(x *WorkCase) { x.Frag = nil; x.PipeCap = 65536; x.Even = 0 })
	for s := 0; s < 2; s++ {
		try(func(x *WorkCase) { x.Cfg[s] = MuxCfg{Window: 65535, Buffers: 5, Backlog: 10} })
	}
	return best, bestRes
}

// canonicalConcurrentOpen is the minimal workload of the known-finding class:
// eight OpenStream calls started at once on side 0, no data.
func canonicalConcurrentOpen() *WorkCase {
	c := &WorkCase{}
	c.Cfg[0] = MuxCfg{Window: 65535, Buffers: 5, Backlog: 10}
	c.Cfg[1] = c.Cfg[0]
	c.PipeCap = 65536
	for i := 0; i < 8; i++ {
		sc := StreamScript{Opener: 0}
		for k := 0; k < 2; k++ {
			sc.Dir[k] = DirScript{End: "cw", Bufs: []int{100}, StopAfter: -1}
		}
		c.Streams = append(c.Streams, sc)
	}
	return c
}

// genCwWork draws a workload that concentrates on one race: 2-4 streams whose
// writers push several large chunks through a small-to-medium window (so a
// Write is in flight for a long time, cycling through window updates) while
// another goroutine half-closes the writing end after a short delay or once
// the reader has consumed k bytes; plus one bystander stream with ordinary
// traffic that must keep working.
func genCwWork(rt *rapid.T) *WorkCase {
	c := &WorkCase{}
	c.Even = rapid.IntRange(0, 1).Draw(rt, "even")
	c.PipeCap = rapid.SampledFrom([]int{64, 4096, 65536, 1 << 20}).Draw(rt, "pipe_cap")
	for s := 0; s < 2; s++ {
		c.Cfg[s] = MuxCfg{
			Window:  rapid.SampledFrom([]int{1000, 4096, 65535}).Draw(rt, fmt.Sprintf("cfg%d.window", s)),
			Buffers: rapid.IntRange(1, 5).Draw(rt, fmt.Sprintf("cfg%d.buffers", s)),
			Backlog: 10,
		}
	}
	n := rapid.IntRange(2, 4).Draw(rt, "streams")
	for i := 0; i < n; i++ {
		l := fmt.Sprintf("s%d", i)
		sc := StreamScript{Opener: rapid.IntRange(0, 1).Draw(rt, l+".opener")}
		for k := 0; k < 2; k++ {
			d := DirScript{End: "cw", Bufs: []int{rapid.SampledFrom([]int{512, 4096, 32768}).Draw(rt, fmt.Sprintf("%s.%d.buf", l, k))}, StopAfter: -1}
			if k == 0 || rapid.IntRange(0, 1).Draw(rt, l+".both") == 0 {
				d.Chunks = rapid.SliceOfN(rapid.SampledFrom([]int{65536, 100000, 200000}), 2, 5).Draw(rt, fmt.Sprintf("%s.%d.chunks", l, k))
				if rapid.IntRange(0, 1).Draw(rt, fmt.Sprintf("%s.%d.mode", l, k)) == 0 {
					d.EarlyCw = "delay"
					d.EarlyCwArg = rapid.SampledFrom([]int{0, 20, 100, 300, 1000}).Draw(rt, fmt.Sprintf("%s.%d.us", l, k))
				} else {
					d.EarlyCw = "read"
					d.EarlyCwArg = rapid.SampledFrom([]int{1, 1000, 30000, 70000, 150000}).Draw(rt, fmt.Sprintf("%s.%d.bytes", l, k))
				}
			}
			sc.Dir[k] = d
		}
		c.Streams = append(c.Streams, sc)
	}
	by := StreamScript{Opener: rapid.IntRange(0, 1).Draw(rt, "bystander.opener"), DelayUs: 50}
	for k := 0; k < 2; k++ {
		by.Dir[k] = DirScript{Chunks: []int{1000, 70000, 1}, End: "cw", Bufs: []int{4096}, StopAfter: -1, PauseEvery: 3, PauseUs: 200}
	}
	c.Streams = append(c.Streams, by)
	return c
}

// TestConcurrentCloseWrite: CloseWrite from another goroutine while a Write on
// the same stream is in flight (C23: the bytes read before end-of-stream are
// exactly what the Write calls reported; C24: no data after close-write on the
// wire, no teardown, the bystander stream keeps working).
func TestConcurrentCloseWrite(t *testing.T) {
	if ev.ReplayPath() != "" {
		t.Skip("replaying")
	}
	p := prop()
	if p != "C23" && p != "C24" {
		t.Skip("belongs to C23 and C24")
	}
	rule := "rapid: 2-4 streams whose writers push 2-5 chunks of 64-200 kB through windows of 1000..65535 bytes while another goroutine calls CloseWrite on the writing end after 0-1000 us or once the reader consumed 1..150000 bytes, plus a bystander stream with ordinary traffic; "
	if p == "C23" {
		rule += "oracle: the bytes the peer reads before end-of-stream are exactly the concatenation of the counts the Write calls reported (including the short count of the Write cut off with ErrWriteClosed), correct at every offset, the bystander's data is complete, no teardown; "
	} else {
		rule += "oracle: no teardown + wire reference model (in particular no data message after the sender's close-write); "
	}
	rule += "non-trivial: a Write was cut short by the concurrent CloseWrite (returned ErrWriteClosed)"
	rec := ev.New(t, p, "concurrent-close-write", rule)
	_, known := ev.KnownClass(p, knownConcurrentOpen)
	var failed *WorkCase
	var failedMsg string
	ev.Check(t, rec, 120, 1500, func(rt *rapid.T) {
		c := genCwWork(rt)
		if failed != nil {
			ev.Failf(rt, rec, failed, "%s", failedMsg)
		}
		r := judgeWorkStable(c, p == "C24", known, p)
		rec.Eval()
		v := r.Violation
		if p == "C24" && !strings.Contains(v, "torn down") && !strings.Contains(v, "wire protocol") {
			v = ""
		}
		if v != "" {
			// The race needs no shrinking and may not reproduce: keep the
			// first failing case.
			failed, failedMsg = c, v
			ev.Failf(rt, rec, c, "%s", v)
		}
		if r.CutShort > 0 {
			rec.Class("write-cut-short-by-close-write")
			b, _ := json.Marshal(c)
			rec.NonTrivial(ev.Hash(string(b)))
			if rec.WantSample() {
				rec.Sample(map[string]any{"case": c, "writes_cut_short": r.CutShort, "bytes_read": r.Bytes})
			}
		}
	})
}

func TestWorkload(t *testing.T) {
	if ev.ReplayPath() != "" {
		t.Skip("replaying")
	}
	p := prop()
	if p != "C23" && p != "C24" {
		t.Skip("workload belongs to C23 and C24")
	}
	rule := "rapid: 1-8 concurrent streams opened from either side over two real multiplexers (receive windows 1..200000, 1-5 write buffers, backlog 1-10, optional heartbeats, bounded carrier buffering, read fragmentation), per direction a writer script (chunks 0..200 kB, half-close or close at the end, in a quarter of the directions a CloseWrite from another goroutine while the writer is writing) and a reader script (buffers 1..70 kB, about every 8th read with a zero-length buffer, pauses, early close), content keyed by stream and direction; "
	if p == "C23" {
		rule += "oracle: bytes read are a prefix of the bytes written and correct at every offset, end-of-stream only after the writer (half-)closed and everything was read, complete delivery when nothing was closed early, documented errors only, no teardown; "
	} else {
		rule += "oracle: no teardown unless the test closed a side + independent wire decoder and per-direction protocol reference model on the tapped carrier; "
	}
	rule += "non-trivial: >= 3 streams open at the same time and a receive window smaller than the largest write"
	rec := ev.New(t, p, "workload", rule)
	finding, known := ev.KnownClass(p, knownConcurrentOpen)
	if known {
		// Canonical instance of the known class: eight streams opened at once
		// from one side, nothing else. It is a race, so it gets several
		// executions.
		reproduced := ""
		for i := 0; i < 40 && reproduced == ""; i++ {
			r := JudgeWork(canonicalConcurrentOpen(), true, false)
			rec.Eval()
			if strings.Contains(r.Violation, "increasing") {
				reproduced = r.Violation
			}
		}
		if reproduced != "" {
			rec.ReportKnown(finding)
			rec.Note("known_instance", reproduced)
		} else {
			rec.Note("known_instance", "canonical instance of "+knownConcurrentOpen+" did not fail in 40 executions")
			fmt.Printf("NOTE: known finding %s did not reproduce in this run\n", finding.ID)
		}
	}
	var best *WorkCase
	var bestRes *WorkResult
	ev.Check(t, rec, 250, 4000, func(rt *rapid.T) {
		c := genWork(rt)
		if best != nil {
			ev.Failf(rt, rec, best, "%s [smallest failing workload found: %d streams]", bestRes.Violation, len(best.Streams))
		}
		if known && c.OverlappingOpens() {
			rec.Excluded(knownConcurrentOpen)
		}
		r := judgeWorkStable(c, p == "C24", known, p)
		rec.Eval()
		for _, cl := range r.Classes {
			rec.Class(cl)
		}
		rec.Class(fmt.Sprintf("max-open/%d", min(r.MaxOpen, 5)))
		if r.Violation != "" {
			v := r.Violation
			if p == "C24" && !strings.Contains(v, "torn down") && !strings.Contains(v, "wire protocol") {
				// Data-level statements belong to C23; under C24 only the
				// teardown and wire oracles decide.
				v = ""
			}
			if v != "" {
				if !r.Stall {
					if m, mr := minimizeWork(c, p == "C24", known, 1200); mr != nil {
						best, bestRes = m, mr
						ev.Failf(rt, rec, best, "%s [smallest failing workload found: %d streams]", bestRes.Violation, len(best.Streams))
					}
				}
				if r.Stall {
					best, bestRes = c, r
				}
				ev.Failf(rt, rec, c, "%s", v)
			}
		}
		if r.NonTrivial {
			rec.Class("nontrivial")
			b, _ := json.Marshal(c)
			rec.NonTrivial(ev.Hash(string(b)))
			if rec.WantSample() {
				rec.Sample(map[string]any{"case": c, "max_open": r.MaxOpen, "bytes_read": r.Bytes})
			}
		}
	})
}

// --- C25: bounded-time return -------------------------------------------------------

func judgeTimingStable(c *TimingCase) *TimingResult {
	r := JudgeTiming(c)
	if r.Fail == "" {
		return r
	}
	v, inc := stable(r.Fail, func() string { return JudgeTiming(c).Fail })
	if inc {
		ev.Inconclusive("C25 scenario %s/%s failed once but not on re-execution: %s", c.Kind, c.Release, r.Fail)
		r.Fail = ""
		return r
	}
	r.Fail = v
	return r
}

func TestTiming(t *testing.T) {
	if ev.ReplayPath() != "" {
		t.Skip("replaying")
	}
	if prop() != "C25" {
		t.Skip("timing scenarios belong to C25")
	}
	rec := ev.New(t, "C25", "blocked-calls",
		"rapid: scenarios over two real multiplexers under random configurations: a Read / Write / OpenStream / AcceptStream observed pending for 10-30 ms and then released by a deadline (preset, set while blocked, past), Close / CloseWrite of either end, Close of either multiplexer, a carrier failure, peer data / reads / accept / open; "+
			"k stalled streams (writers blocked on a full window) beside which a fresh stream must transfer up to 1 MiB; accept backlog filled (some opens cancelled) and one more open that must be rejected; many blocked calls released at once; a Write parked waiting for a write buffer behind a stalled carrier (send window open) released by the same events; a Write that expired while waiting for a write buffer followed by a Write that must succeed. "+
			"oracle: every call returns within 10 s of its releasing event with the documented error; a failing schedule is re-executed twice and only reported if it fails every time; "+
			"non-trivial: the call was observed still pending after the watch period, before the release")
	// Deterministic sweep first: every (scenario, release, blocking side,
	// opening side) combination under two fixed configurations, so that no
	// combination depends on the luck of the draw.
	sweep := ev.New(t, "C25", "blocked-calls-sweep",
		"every (scenario kind, releasing event, blocking side, opening side) combination under two fixed configurations (window 4096 / 5 buffers / backlog 3, and window 100 / 1 buffer / backlog 1, 7-byte carrier buffering, fragmented reads); oracle and non-trivial rule as in blocked-calls")
	sweep.SetExhaustive("scenario kinds x releasing events (55 pairs) x blocking side x opening side x 2 configurations")
	kinds := []string{"read", "write", "open", "accept", "stall", "backlog", "mass", "expiry", "redeadline", "bufwrite"}
	idx := -1
	for _, kind := range kinds {
		for _, rel := range timingReleases[kind] {
			for combo := 0; combo < 8; combo++ {
				if idx++; idx%ev.Shards() != ev.Shard() {
					continue
				}
				c := &TimingCase{Kind: kind, Release: rel, Side: combo & 1, Opener: combo >> 1 & 1, PreMs: 10, DMs: 20, N: 1, K: 3}
				if combo>>2 == 0 {
					c.Cfg[0] = MuxCfg{Window: 4096, Buffers: 5, Backlog: 3}
					c.Cfg[1] = c.Cfg[0]
					c.PipeCap = 65536
				} else {
					c.Cfg[0] = MuxCfg{Window: 100, Buffers: 1, Backlog: 1, HeartbeatMs: 1}
					c.Cfg[1] = c.Cfg[0]
					c.PipeCap = 7
					c.Frag = []int{1, 3, 4096}
					c.Even = 1
				}
				c.Bytes = c.Cfg[0].Window * 64
				r := judgeTimingStable(c)
				sweep.Eval()
				sweep.Class(kind + "/" + rel)
				if r.Fail != "" {
					ev.FailTB(t, sweep, c, "%s", r.Fail)
				}
				if r.NonTrivial {
					sweep.NonTrivialDistinct(1)
				}
			}
		}
	}
	var failed *TimingCase
	var failedMsg string
	ev.Check(t, rec, 160, 2600, func(rt *rapid.T) {
		c := genTiming(rt)
		if failed != nil {
			// A scenario is a single small case and a confirmed failure
			// costs three times the bound: skip rapid's shrinking.
			ev.Failf(rt, rec, failed, "%s", failedMsg)
		}
		r := judgeTimingStable(c)
		rec.Eval()
		for _, cl := range r.Classes {
			rec.Class(cl)
		}
		if r.Fail != "" {
			failed, failedMsg = c, r.Fail
			ev.Failf(rt, rec, c, "%s", r.Fail)
		}
		if r.NonTrivial {
			rec.Class("nontrivial")
			b, _ := json.Marshal(c)
			rec.NonTrivial(ev.Hash(string(b)))
			if rec.WantSample() {
				rec.Sample(c)
			}
		}
	})
}

// TestWriteRedeadline runs the "blocked Write released by a past deadline, then
// written to again" scenario under C23 and C24 as well (C25 runs it as part of
// its sweep): every combination of blocking side, opening side, deadline
// API / reset mode, repetitions and window.
func TestWriteRedeadline(t *testing.T) {
	if ev.ReplayPath() != "" {
		t.Skip("replaying")
	}
	p := prop()
	if p != "C23" && p != "C24" {
		t.Skip("runs inside TestTiming for C25")
	}
	rec := ev.New(t, p, "write-redeadline",
		"every (blocking side, opening side, SetWriteDeadline|SetDeadline, cleared|moved to the future, 1-3 repetitions, peer window 0/1/100/4096) combination: a Write blocked on an exhausted send window is released by a past deadline set from another goroutine, the deadline is reset and a further non-empty Write is issued while the window is still exhausted, finally the peer reads everything; "+
			"oracle: no teardown, wire reference model (in particular no zero-length data message), every accepted byte arrives in order; non-trivial: every Write was observed pending before its deadline was set")
	rec.SetExhaustive("2 sides x 2 openers x 4 deadline modes x 3 repetition counts x 4 windows")
	idx := -1
	for _, rel := range timingReleases["redeadline"] {
		for _, window := range []int{0, 1, 100, 4096} {
			for reps := 1; reps <= 3; reps++ {
				for combo := 0; combo < 4; combo++ {
					if idx++; idx%ev.Shards() != ev.Shard() {
						continue
					}
					c := &TimingCase{Kind: "redeadline", Release: rel, Side: combo & 1, Opener: combo >> 1, PreMs: 10, N: 1 + 99*(reps%2), K: reps}
					c.Cfg[0] = MuxCfg{Window: window, Buffers: 1 + idx%5, Backlog: 3}
					c.Cfg[1] = c.Cfg[0]
					c.PipeCap = []int{1, 64, 65536}[idx%3]
					r := judgeTimingStable(c)
					rec.Eval()
					rec.Class(rel)
					if r.Fail != "" {
						ev.FailTB(t, rec, c, "%s", r.Fail)
					}
					if r.NonTrivial {
						rec.NonTrivialDistinct(1)
					}
				}
			}
		}
	}
}

// --- the wire model must be able to reject (self-check on synthetic traces) ---

func TestWireModelRejects(t *testing.T) {
	if ev.ReplayPath() != "" {
		t.Skip("replaying")
	}
	mk := func(dir, kind int, id, val, at uint64) Msg {
		return Msg{Dir: dir, Kind: kind, ID: id, Val: val, First: at, Last: at}
	}
	// side 0 odd, side 1 even.
	good := [2][]Msg{
		{mk(0, kOpen, 1, 10, 0), mk(0, kData, 1, 5, 2), mk(0, kData, 1, 4, 5), mk(0, kCloseW, 1, 0, 6), mk(0, kClose, 1, 0, 8)},
		{mk(1, kAccept, 1, 5, 1), mk(1, kIncrement, 1, 4, 4), mk(1, kData, 1, 10, 7)},
	}
	if v := CheckWire(good, 1); len(v) != 0 {
		t.Fatalf("conforming trace rejected: %v", v)
	}
	type tc struct {
		name string
		edit func(m *[2][]Msg)
		want string
	}
	cases := []tc{
		{"zero increment", func(m *[2][]Msg) { m[1][1].Val = 0 }, "zero window increment"},
		{"increment too early to have been seen", func(m *[2][]Msg) { m[1][1].First, m[1][1].Last = 6, 6 }, "exceeds the receive window"},
		{"window exceeded", func(m *[2][]Msg) { m[0][2].Val = 5 }, "exceeds the receive window"},
		{"increment beyond data", func(m *[2][]Msg) { m[1][1].Val = 6 }, "exceed the data received"},
		{"data before accept", func(m *[2][]Msg) { m[1][0].First, m[1][0].Last = 3, 3 }, "not established"},
		{"data after close-write", func(m *[2][]Msg) {
			m[0][3], m[0][2] = m[0][2], m[0][3]
			m[0][2].First, m[0][2].Last, m[0][3].First, m[0][3].Last = 5, 5, 6, 6
		}, "after close-write"},
		{"close twice", func(m *[2][]Msg) { m[0] = append(m[0], mk(0, kClose, 1, 0, 9)) }, "close sent twice"},
		{"accept twice", func(m *[2][]Msg) { m[1] = append(m[1], mk(1, kAccept, 1, 5, 9)) }, "accepted twice"},
		{"open wrong parity", func(m *[2][]Msg) { m[0][0].ID = 2 }, "receiver's parity"},
		{"unopened id", func(m *[2][]Msg) { m[1] = append(m[1], mk(1, kData, 3, 1, 9)) }, "never opened"},
		{"zero-length data", func(m *[2][]Msg) { m[0][1].Val = 0 }, "zero-length data"},
		{"increment after close", func(m *[2][]Msg) { m[0] = append(m[0], mk(0, kIncrement, 1, 1, 9)) }, "increment after close"},
	}
	for _, c := range cases {
		var m [2][]Msg
		m[0] = append([]Msg(nil), good[0]...)
		m[1] = append([]Msg(nil), good[1]...)
		c.edit(&m)
		v := CheckWire(m, 1)
		if len(v) == 0 || !strings.Contains(strings.Join(v, "\n"), c.want) {
			t.Errorf("%s: model said %v, want a violation containing %q", c.name, v, c.want)
		}
	}
	// Decoder: round trip of a hand-encoded byte stream, split at every offset.
	stream := []byte{1, 1, 10, 0, 3, 1, 0, 3, 'a', 'b', 'c', 4, 1, 0x80, 0x01, 5, 1, 6, 1, 2, 0xac, 0x02, 7}
	for cut := 0; cut <= len(stream); cut++ {
		d := &decoder{dir: 0}
		d.feed(0, stream[:cut])
		d.feed(1, stream[cut:])
		var got []string
		for _, m := range d.msgs {
			got = append(got, fmt.Sprintf("%d/%d/%d", m.Kind, m.ID, m.Val))
		}
		want := "1/1/10 0/0/0 3/1/3 4/1/128 5/1/0 6/1/0 2/300/7"
		if d.err != "" || strings.Join(got, " ") != want {
			t.Fatalf("decoder (cut %d): got %q err %q, want %q", cut, strings.Join(got, " "), d.err, want)
		}
	}
	d := &decoder{}
	d.feed(0, []byte{9})
	if d.err == "" {
		t.Fatalf("decoder accepted an unknown message kind")
	}
}

// --- replay ----------------------------------------------------------------------------

func TestReplay(t *testing.T) {
	if ev.ReplayPath() == "" {
		t.Skip("no replay requested")
	}
	p := prop()
	part := ev.ReplayPart()
	rec := ev.New(t, p, "replay", "replay of a saved case")
	rec.Eval()
	switch part {
	case "seq-machine":
		var c SeqCase
		if _, err := ev.LoadReplay(ev.ReplayPath(), &c); err != nil {
			t.Fatalf("cannot load replay: %v", err)
		}
		r, _ := judgeSeqStable(&c, false)
		if os.Getenv("VERIF_DEBUG") != "" {
			fmt.Printf("history:\n  %s\nclasses: %v\n", strings.Join(r.Log, "\n  "), r.Classes)
		}
		if r.Violation != "" {
			ev.FailTB(t, rec, &c, "%s\nhistory:\n  %s", r.Violation, strings.Join(r.Log, "\n  "))
		}
	case "workload", "concurrent-close-write":
		var c WorkCase
		if _, err := ev.LoadReplay(ev.ReplayPath(), &c); err != nil {
			t.Fatalf("cannot load replay: %v", err)
		}
		// Schedules are not reproducible; give the case a few executions.
		for i := 0; i < 5; i++ {
			r := judgeWorkStable(&c, p == "C24", false, p)
			if r.Violation != "" {
				ev.FailTB(t, rec, &c, "%s", r.Violation)
			}
		}
	case "blocked-calls", "blocked-calls-sweep", "write-redeadline":
		var c TimingCase
		if _, err := ev.LoadReplay(ev.ReplayPath(), &c); err != nil {
			t.Fatalf("cannot load replay: %v", err)
		}
		r := judgeTimingStable(&c)
		if r.Fail != "" {
			ev.FailTB(t, rec, &c, "%s", r.Fail)
		}
	default:
		t.Fatalf("replay file names unknown part %q", part)
	}
}
