// Package c23_mux holds the checks for the stream multiplexer (C23, C24, C25).
//
// pipe.go: an in-memory duplex byte carrier. Every Write is stamped with a
// global sequence number and shown to a tap BEFORE its bytes are passed on to
// the reading side, so "the peer can only have reacted to what was stamped
// earlier" is a sound ordering over the two directions. Reads can be
// fragmented (a cyclic list of maximum read sizes), the buffering between the
// two ends is bounded (writers block while it is full), and the pipe can tell
// whether a direction is idle: nothing buffered and the consumer parked in
// Read, i.e. the consumer has fully processed everything that was written.
package c23_mux

import (
	"io"
	"sync"
	"time"
)

// Tap observes one Write call. It runs under the link's stamp lock, before
// the bytes become readable on the other end.
type Tap func(dir int, stamp uint64, p []byte)

// Link is a duplex in-memory connection between side 0 and side 1.
type Link struct {
	mu   sync.Mutex // orders stamps and tap calls
	seq  uint64
	tap  Tap
	half [2]*half // half[d]: bytes flowing from side d to side 1-d
	ends [2]*End
}

type half struct {
	mu      sync.Mutex
	cond    *sync.Cond
	q       []byte
	capa    int
	wclosed bool // writing end closed: reader drains, then io.EOF
	rclosed bool // reading end closed: writer fails
	parked  bool // the reader waits in Read for bytes
	stalled bool // writers block before queueing anything (a congested carrier)
	frag    []int
	fi      int
}

// End is one side's view of the link (an io.ReadWriteCloser whose Close
// unblocks pending reads and writes, as multiplexing.Carrier requires).
type End struct {
	l      *Link
	side   int
	mu     sync.Mutex
	closed bool
}

// NewLink creates a link. capacity bounds the bytes buffered per direction
// (>= 1); frag (may be nil) is a cyclic list of maximum sizes of successive
// reads, per direction.
func NewLink(capacity int, frag []int, tap Tap) *Link {
	if capacity < 1 {
		capacity = 1
	}
	l := &Link{tap: tap}
	for d := 0; d < 2; d++ {
		h := &half{capa: capacity, frag: frag}
		h.cond = sync.NewCond(&h.mu)
		l.half[d] = h
		l.ends[d] = &End{l: l, side: d}
	}
	return l
}

// End returns the io.ReadWriteCloser of a side.
func (l *Link) End(side int) *End { return l.ends[side] }

// Stamp returns the number of Write calls stamped so far.
func (l *Link) Stamp() uint64 {
	l.mu.Lock()
	defer l.mu.Unlock()
	return l.seq
}

// Locked runs f under the stamp lock (no Write is being stamped or tapped
// meanwhile).
func (l *Link) Locked(f func()) {
	l.mu.Lock()
	defer l.mu.Unlock()
	f()
}

// Write stamps and taps p, then queues it for the other side, blocking while
// the direction's buffer is full.
func (e *End) Write(p []byte) (int, error) {
	l := e.l
	l.mu.Lock()
	stamp := l.seq
	l.seq++
	if l.tap != nil {
		l.tap(e.side, stamp, p)
	}
	l.mu.Unlock()

	h := l.half[e.side]
	h.mu.Lock()
	defer h.mu.Unlock()
	n := 0
	for {
		if h.wclosed || h.rclosed {
			return n, io.ErrClosedPipe
		}
		if len(p) == 0 {
			return n, nil
		}
		if h.stalled {
			h.cond.Wait()
			continue
		}
		room := h.capa - len(h.q)
		if room <= 0 {
			h.cond.Wait()
			continue
		}
		k := min(room, len(p))
		h.q = append(h.q, p[:k]...)
		p = p[k:]
		n += k
		h.cond.Broadcast()
	}
}

// Read returns buffered bytes from the other side, at most the current
// fragment size; it blocks while nothing is buffered.
func (e *End) Read(p []byte) (int, error) {
	if len(p) == 0 {
		return 0, nil
	}
	h := e.l.half[1-e.side]
	h.mu.Lock()
	defer h.mu.Unlock()
	for len(h.q) == 0 {
		if h.rclosed {
			h.parked = false
			return 0, io.ErrClosedPipe
		}
		if h.wclosed {
			h.parked = false
			return 0, io.EOF
		}
		h.parked = true
		h.cond.Wait()
	}
	h.parked = false
	if h.rclosed {
		return 0, io.ErrClosedPipe
	}
	k := min(len(p), len(h.q))
	if len(h.frag) > 0 {
		f := h.frag[h.fi%len(h.frag)]
		h.fi++
		if f >= 1 && f < k {
			k = f
		}
	}
	copy(p, h.q[:k])
	rest := len(h.q) - k
	copy(h.q, h.q[k:])
	h.q = h.q[:rest]
	h.cond.Broadcast()
	return k, nil
}

// Close closes this end: its pending and future reads and writes fail, the
// other end reads what is still buffered and then io.EOF, and the other end's
// writes fail.
func (e *End) Close() error {
	e.mu.Lock()
	e.closed = true
	e.mu.Unlock()
	out, in := e.l.half[e.side], e.l.half[1-e.side]
	out.mu.Lock()
	out.wclosed = true
	out.cond.Broadcast()
	out.mu.Unlock()
	in.mu.Lock()
	in.rclosed = true
	in.cond.Broadcast()
	in.mu.Unlock()
	return nil
}

// Closed tells whether Close was called on this end.
func (e *End) Closed() bool {
	e.mu.Lock()
	defer e.mu.Unlock()
	return e.closed
}

// Stall makes Write calls of side d block (after they were stamped and tapped)
// until Resume or until an end is closed: transport-level backpressure.
func (l *Link) Stall(d int) {
	h := l.half[d]
	h.mu.Lock()
	h.stalled = true
	h.mu.Unlock()
}

// Resume ends a Stall.
func (l *Link) Resume(d int) {
	h := l.half[d]
	h.mu.Lock()
	h.stalled = false
	h.cond.Broadcast()
	h.mu.Unlock()
}

// Break closes both ends (a failing carrier).
func (l *Link) Break() {
	l.ends[0].Close()
	l.ends[1].Close()
}

// Idle tells whether direction d (bytes from side d to side 1-d) is idle:
// nothing is buffered and the consumer is parked in Read, which means it has
// completely processed every byte written so far. A closed direction counts
// as idle.
func (l *Link) Idle(d int) bool {
	h := l.half[d]
	h.mu.Lock()
	defer h.mu.Unlock()
	return h.rclosed || (len(h.q) == 0 && (h.parked || h.wclosed))
}

// WaitIdle polls until direction d is idle or the timeout passes.
func (l *Link) WaitIdle(d int, timeout time.Duration) bool {
	return waitFor(timeout, func() bool { return l.Idle(d) })
}

// waitFor polls cond (with short sleeps) until it holds or timeout passes.
func waitFor(timeout time.Duration, cond func() bool) bool {
	if cond() {
		return true
	}
	deadline := time.Now().Add(timeout)
	sleep := 20 * time.Microsecond
	for {
		time.Sleep(sleep)
		if cond() {
			return true
		}
		if time.Now().After(deadline) {
			return false
		}
		if sleep < time.Millisecond {
			sleep *= 2
		}
	}
}
