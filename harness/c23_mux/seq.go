package c23_mux

// seq.go: C24 part 1 - a sequential state machine over the public API of both
// multiplexers. A case is a list of operations that is interpreted totally
// (an operation that does not apply is skipped), one call at a time, so a
// failing history shrinks by dropping operations. A small model of both sides
// (bytes written / read per stream end, deadlines in force, close state,
// accept backlog contents) decides which calls are guaranteed to return and
// guards the others with a short deadline, and states what each call may
// return according to C23/C24.
//
// Oracle: (1) neither multiplexer reports Closed, an internal error or closes
// its carrier unless the test closed it; (2) the tapped wire traffic satisfies
// the reference model of wire.go; plus the per-call statements: bytes read are
// exactly the next bytes the peer wrote, end-of-stream only after the peer
// (half-)closed and everything was read, errors only from the documented set
// and only in states that justify them, a write never exceeds the peer's
// receive window plus what the peer consumed.

import (
	"context"
	"errors"
	"fmt"
	"io"
	"net"
	"os"
	"time"

	"github.com/mutagen-io/mutagen/pkg/multiplexing"
)

// Op is one operation of a sequential history.
type Op struct {
	K string `json:"k"`           // open accept acceptnone cancel read write kick cw close rdl wdl dl settle
	S int    `json:"s"`           // side performing the call
	I int    `json:"i,omitempty"` // selects the stream end / pending open (modulo the number available)
	N int    `json:"n,omitempty"` // buffer / payload size
	D int    `json:"d,omitempty"` // deadline ops: 0 clear, <0 past, >0 now+D ms; read/write: guard in ms; settle: ms
	C bool   `json:"c,omitempty"` // read/write: clear a guard deadline again afterwards
}

func (o Op) String() string {
	switch o.K {
	case "read", "write":
		return fmt.Sprintf("%s(side%d,#%d,n=%d,guard=%dms,clear=%v)", o.K, o.S, o.I, o.N, o.D, o.C)
	case "kick":
		return fmt.Sprintf("kick(side%d,#%d,n=%d,mode=%d,both=%v)", o.S, o.I, o.N, o.D, o.C)
	case "rdl", "wdl", "dl":
		return fmt.Sprintf("%s(side%d,#%d,d=%d)", o.K, o.S, o.I, o.D)
	case "open", "accept", "acceptnone":
		return fmt.Sprintf("%s(side%d)", o.K, o.S)
	case "settle":
		return fmt.Sprintf("settle(%dms)", o.D)
	}
	return fmt.Sprintf("%s(side%d,#%d)", o.K, o.S, o.I)
}

// SeqCase is one sequential history with its environment.
type SeqCase struct {
	Env
	Ops []Op `json:"ops"`
}

// knownZeroRead is the classifier name of the known-finding class "Read with a
// zero-length buffer while the stream holds unread data written by the peer".
const knownZeroRead = "zero-length-read-with-unread-data"

// SeqResult is the verdict on one execution of a history.
type SeqResult struct {
	Violation  string
	Stall      bool // the violation is "a call did not return" (timing rule applies)
	NonTrivial bool
	Classes    []string
	Excluded   int
	Log        []string
}

type sEnd struct {
	st      *multiplexing.Stream
	id      uint64
	side    int
	peer    *sEnd // nil: accepted after the opener had given up ("zombie")
	key     uint64
	closed  bool
	cw      bool
	rdl     bool // a read deadline is in force (set and not cleared)
	wdl     bool
	written uint64
	read    uint64
}

type sOpen struct {
	id        uint64
	side      int
	cancel    context.CancelFunc
	res       chan openRes
	cancelled bool
}

type seqRun struct {
	c        *SeqCase
	p        *Pair
	exclude  bool
	res      *SeqResult
	ends     [2][]*sEnd
	queue    [2][]*sOpen // opens sitting in side's accept backlog, FIFO (incl. cancelled ones)
	pend     [2][]*sOpen // opens started by side that are still pending
	nextID   [2]uint64
	nstreams int
	buf      []byte
	classes  map[string]bool
	moved    uint64
}

func (r *seqRun) class(c string) {
	if !r.classes[c] {
		r.classes[c] = true
		r.res.Classes = append(r.res.Classes, c)
	}
}

func (r *seqRun) logf(format string, args ...any) {
	r.res.Log = append(r.res.Log, fmt.Sprintf(format, args...))
}

func (r *seqRun) fail(format string, args ...any) bool {
	if r.res.Violation == "" {
		r.res.Violation = fmt.Sprintf(format, args...)
	}
	return false
}

func (r *seqRun) stall(what string) bool {
	if r.res.Violation == "" {
		r.res.Stall = true
		r.res.Violation = fmt.Sprintf("%s did not return within %v although the model of the history says it must", what, stallBound)
	}
	return false
}

// JudgeSeq executes the history once against real multiplexers. excludeKnown
// makes the interpreter skip operations of the known-finding class.
func JudgeSeq(c *SeqCase, excludeKnown bool) *SeqResult {
	res := &SeqResult{}
	r := &seqRun{c: c, exclude: excludeKnown, res: res, classes: map[string]bool{}}
	r.p = NewPair(c.Env)
	defer r.cleanup()
	for s := 0; s < 2; s++ {
		if s == c.Even {
			r.nextID[s] = 2
		} else {
			r.nextID[s] = 1
		}
	}
	r.buf = make([]byte, 1<<18)
	for i, op := range c.Ops {
		ok := r.step(op)
		if d := r.p.Down(); d != "" && res.Violation == "" {
			r.fail("connection torn down although the test closed nothing, after op %d %v: %s", i, op, d)
			ok = false
		}
		if !ok || res.Violation != "" {
			break
		}
	}
	if res.Violation == "" {
		r.p.Settle()
		if d := r.p.Down(); d != "" {
			r.fail("connection torn down although the test closed nothing (seen after the history): %s", d)
		}
	}
	if wv := r.p.WireVerdict(); len(wv) > 0 {
		msg := "wire protocol violated: " + wv[0]
		if res.Violation == "" || res.Stall {
			res.Violation, res.Stall = msg, false
		} else {
			res.Violation += " || " + msg
		}
	}
	edge := r.classes["zero-length-read"] || r.classes["empty-write"] || r.classes["deadline-expiry"] ||
		r.classes["open-rejected"] || r.classes["open-cancelled"]
	if r.moved > 0 {
		r.class("bytes-moved")
	}
	res.NonTrivial = r.moved > 0 && edge
	if r.classes["zero-length-read"] && r.classes["deadline-expiry"] && r.classes["open-rejected"] {
		r.class("zero-read+expiry+rejected-open")
	}
	return res
}

func (r *seqRun) cleanup() {
	r.p.Close()
	for s := 0; s < 2; s++ {
		for _, o := range r.pend[s] {
			o.cancel()
			awaitOpen(o.res, 5*time.Second)
		}
	}
}

func (r *seqRun) pickEnd(op Op) *sEnd {
	es := r.ends[op.S&1]
	if len(es) == 0 {
		return nil
	}
	i := op.I % len(es)
	if i < 0 {
		i = -i
	}
	return es[i]
}

// step interprets one operation; it returns false when the history must stop.
func (r *seqRun) step(op Op) bool {
	s := op.S & 1
	switch op.K {
	case "open":
		return r.open(s)
	case "accept":
		return r.accept(s)
	case "acceptnone":
		return r.acceptNone(s, op)
	case "cancel":
		return r.cancelOpen(s, op)
	case "settle":
		d := op.D
		if d < 0 {
			d = 0
		}
		if d > 5 {
			d = 5
		}
		time.Sleep(time.Duration(d) * time.Millisecond)
		r.p.link.WaitIdle(0, 50*time.Millisecond)
		r.p.link.WaitIdle(1, 50*time.Millisecond)
		return true
	}
	e := r.pickEnd(op)
	if e == nil {
		return true
	}
	switch op.K {
	case "read":
		return r.read(e, op)
	case "write":
		return r.write(e, op)
	case "kick":
		return r.kick(e, op)
	case "cw":
		var err error
		if !within(stallBound, func() { err = e.st.CloseWrite() }) {
			return r.stall(fmt.Sprintf("CloseWrite on side %d stream %d", e.side, e.id))
		}
		r.logf("side%d stream%d CloseWrite -> %s", e.side, e.id, errName(err))
		if err != nil {
			return r.fail("CloseWrite on side %d stream %d returned %v", e.side, e.id, err)
		}
		e.cw = true
		r.class("close-write")
	case "close":
		var err error
		if !within(stallBound, func() { err = e.st.Close() }) {
			return r.stall(fmt.Sprintf("Close on side %d stream %d", e.side, e.id))
		}
		r.logf("side%d stream%d Close -> %s", e.side, e.id, errName(err))
		if err != nil {
			return r.fail("Close on side %d stream %d returned %v", e.side, e.id, err)
		}
		e.closed, e.cw = true, true
		r.class("close")
	case "rdl", "wdl", "dl":
		return r.deadline(e, op)
	}
	return true
}

func (r *seqRun) open(s int) bool {
	peer := 1 - s
	id := r.nextID[s]
	r.nextID[s] += 2
	ctx, cancel := context.WithCancel(context.Background())
	o := &sOpen{id: id, side: s, cancel: cancel}
	o.res = asyncOpen(r.p.mux[s], ctx)
	// Barrier: the open message is on the wire and the peer's reader has
	// processed it, so whether it was queued or rejected is decided.
	if !waitFor(stallBound, func() bool { return r.p.sawOpen(s, id) }) {
		cancel()
		return r.stall(fmt.Sprintf("OpenStream on side %d (open message for stream %d never written)", s, id))
	}
	if !r.p.link.WaitIdle(s, stallBound) {
		cancel()
		if d := r.p.Down(); d != "" {
			return r.fail("connection torn down although the test closed nothing: %s", d)
		}
		return r.stall(fmt.Sprintf("delivery of the open message of stream %d", id))
	}
	if len(r.queue[peer]) >= r.c.Cfg[peer].backlog() {
		// Beyond the backlog: must be rejected, not left pending.
		res, ok := awaitOpen(o.res, stallBound)
		cancel()
		if !ok {
			return r.stall(fmt.Sprintf("OpenStream on side %d beyond the peer's accept backlog (%d pending)", s, len(r.queue[peer])))
		}
		r.logf("side%d OpenStream id%d (backlog full) -> %s", s, id, errName(res.err))
		if res.err == multiplexing.ErrMultiplexerClosed {
			return true // judged by Down()
		}
		if res.err != multiplexing.ErrStreamRejected {
			if res.st != nil {
				res.st.Close()
			}
			return r.fail("OpenStream on side %d with %d un-accepted opens in a backlog of %d returned (%v, %v), want ErrStreamRejected",
				s, len(r.queue[peer]), r.c.Cfg[peer].backlog(), res.st != nil, res.err)
		}
		r.class("open-rejected")
		return true
	}
	select {
	case res := <-o.res:
		cancel()
		r.logf("side%d OpenStream id%d -> %s", s, id, errName(res.err))
		if res.err == multiplexing.ErrMultiplexerClosed {
			return true
		}
		return r.fail("OpenStream on side %d returned (%v, %v) before the peer accepted, with %d of %d backlog slots used",
			s, res.st != nil, res.err, len(r.queue[peer]), r.c.Cfg[peer].backlog())
	default:
	}
	r.logf("side%d OpenStream id%d pending", s, id)
	r.queue[peer] = append(r.queue[peer], o)
	r.pend[s] = append(r.pend[s], o)
	r.class("open")
	return true
}

func (r *seqRun) removePending(o *sOpen) {
	ps := r.pend[o.side]
	for i, x := range ps {
		if x == o {
			r.pend[o.side] = append(ps[:i:i], ps[i+1:]...)
			return
		}
	}
}

func (r *seqRun) accept(a int) bool {
	live := false
	for _, o := range r.queue[a] {
		if !o.cancelled {
			live = true
		}
	}
	if !live {
		return true // would wait for an open that nobody sends
	}
	res, ok := awaitOpen(asyncAccept(r.p.mux[a], context.Background()), stallBound)
	if !ok {
		return r.stall(fmt.Sprintf("AcceptStream on side %d with a live open pending", a))
	}
	if res.err != nil {
		r.logf("side%d AcceptStream -> %s", a, errName(res.err))
		if res.err == multiplexing.ErrMultiplexerClosed {
			return true
		}
		return r.fail("AcceptStream on side %d with a live open pending returned %v", a, res.err)
	}
	id := streamID(res.st)
	r.logf("side%d AcceptStream -> stream %d", a, id)
	idx := -1
	for i, o := range r.queue[a] {
		if o.id == id {
			idx = i
			break
		}
		if !o.cancelled {
			res.st.Close()
			return r.fail("AcceptStream on side %d returned stream %d although the older live open %d was still pending", a, id, o.id)
		}
	}
	if idx < 0 {
		res.st.Close()
		return r.fail("AcceptStream on side %d returned stream %d, which is not in the accept backlog", a, id)
	}
	o := r.queue[a][idx]
	r.queue[a] = append([]*sOpen(nil), r.queue[a][idx+1:]...)
	n := r.nstreams
	r.nstreams++
	acc := &sEnd{st: res.st, id: id, side: a, key: contentKey(n, 1)}
	r.ends[a] = append(r.ends[a], acc)
	if o.cancelled {
		// The opener had already given up; the acceptor got a stream whose
		// remote end is closed.
		r.class("accepted-abandoned-open")
		return true
	}
	or, ok := awaitOpen(o.res, stallBound)
	o.cancel()
	r.removePending(o)
	if !ok {
		return r.stall(fmt.Sprintf("OpenStream on side %d after the peer accepted stream %d", o.side, id))
	}
	if or.err != nil {
		if or.err == multiplexing.ErrMultiplexerClosed {
			return true
		}
		return r.fail("OpenStream on side %d returned %v although the peer accepted stream %d", o.side, or.err, id)
	}
	if got := streamID(or.st); got != id {
		return r.fail("OpenStream on side %d returned stream %d, expected %d", o.side, got, id)
	}
	opn := &sEnd{st: or.st, id: id, side: o.side, key: contentKey(n, 0), peer: acc}
	acc.peer = opn
	r.ends[o.side] = append(r.ends[o.side], opn)
	r.class("established")
	return true
}

// acceptNone calls AcceptStream with nothing in the backlog and cancels it.
func (r *seqRun) acceptNone(a int, op Op) bool {
	if len(r.queue[a]) != 0 {
		return true
	}
	ctx, cancel := context.WithCancel(context.Background())
	ch := asyncAccept(r.p.mux[a], ctx)
	if op.D > 0 {
		time.Sleep(time.Duration(min(op.D, 3)) * time.Millisecond)
	}
	cancel()
	res, ok := awaitOpen(ch, stallBound)
	if !ok {
		return r.stall(fmt.Sprintf("cancelled AcceptStream on side %d", a))
	}
	r.logf("side%d AcceptStream(cancelled) -> %s", a, errName(res.err))
	if res.err == multiplexing.ErrMultiplexerClosed {
		return true
	}
	if res.st != nil {
		id := streamID(res.st)
		res.st.Close()
		return r.fail("AcceptStream on side %d returned stream %d although no open was pending", a, id)
	}
	if !isCtxErr(res.err) {
		return r.fail("cancelled AcceptStream on side %d returned %v, want context.Canceled", a, res.err)
	}
	r.class("accept-cancelled")
	return true
}

func (r *seqRun) cancelOpen(s int, op Op) bool {
	if len(r.pend[s]) == 0 {
		return true
	}
	i := op.I % len(r.pend[s])
	if i < 0 {
		i = -i
	}
	o := r.pend[s][i]
	o.cancel()
	res, ok := awaitOpen(o.res, stallBound)
	if !ok {
		return r.stall(fmt.Sprintf("cancelled OpenStream on side %d", s))
	}
	r.logf("side%d cancel OpenStream id%d -> %s", s, o.id, errName(res.err))
	r.removePending(o)
	o.cancelled = true
	if res.err == multiplexing.ErrMultiplexerClosed {
		return true
	}
	if res.st != nil {
		res.st.Close()
		return r.fail("cancelled OpenStream on side %d returned a stream although the peer never accepted", s)
	}
	if !isCtxErr(res.err) {
		return r.fail("cancelled OpenStream on side %d returned %v, want context.Canceled", s, res.err)
	}
	r.class("open-cancelled")
	return true
}

func (r *seqRun) window(side int) uint64 { return r.c.Cfg[side].window() }

// readReturns tells whether a Read on e is guaranteed to return.
func (e *sEnd) readReturns() bool {
	if e.closed || e.rdl || e.peer == nil {
		return true
	}
	return e.peer.written > e.read || e.peer.cw || e.peer.closed
}

func (r *seqRun) read(e *sEnd, op Op) bool {
	n := op.N
	if n < 0 {
		n = 0
	}
	if n > len(r.buf) {
		n = len(r.buf)
	}
	unread := e.peer != nil && e.peer.written > e.read
	if n == 0 && unread && !e.closed {
		// The known-finding class: exactly this call shape (whether a read
		// deadline that is in force has already expired is a matter of timing,
		// so deadlines are not part of the classifier).
		if r.exclude {
			r.res.Excluded++
			return true
		}
		r.class("zero-length-read-with-unread-data")
	}
	guarded := false
	if !e.readReturns() {
		g := time.Duration(1+abs(op.D)%20) * time.Millisecond
		if err := e.st.SetReadDeadline(time.Now().Add(g)); err != nil {
			return r.fail("SetReadDeadline on open stream %d (side %d) returned %v", e.id, e.side, err)
		}
		e.rdl, guarded = true, true
	}
	var got int
	var err error
	if !within(stallBound, func() { got, err = e.st.Read(r.buf[:n]) }) {
		return r.stall(fmt.Sprintf("Read(%d bytes) on side %d stream %d (unread=%v, peer closed=%v)", n, e.side, e.id, unread, e.peer == nil || e.peer.cw || e.peer.closed))
	}
	r.logf("side%d stream%d Read(%d)%s -> %d, %s", e.side, e.id, n, map[bool]string{true: " guarded", false: ""}[guarded], got, errName(err))
	if n == 0 {
		r.class("zero-length-read")
	}
	if err == multiplexing.ErrMultiplexerClosed {
		return true // Down() judges
	}
	if got < 0 || got > n {
		return r.fail("Read(%d bytes) on side %d stream %d returned count %d", n, e.side, e.id, got)
	}
	if got > 0 {
		if e.peer == nil {
			return r.fail("Read on side %d stream %d returned %d bytes although the peer never wrote", e.side, e.id, got)
		}
		if e.read+uint64(got) > e.peer.written {
			return r.fail("Read on side %d stream %d returned %d bytes at offset %d but the peer wrote only %d", e.side, e.id, got, e.read, e.peer.written)
		}
		if i := mismatch(r.buf[:got], e.peer.key, e.read); i >= 0 {
			return r.fail("Read on side %d stream %d: byte at stream offset %d differs from what the peer wrote", e.side, e.id, e.read+uint64(i))
		}
		e.read += uint64(got)
		r.moved += uint64(got)
	}
	switch {
	case err == nil:
	case err == io.EOF:
		if e.closed {
			return r.fail("Read on locally closed stream %d (side %d) returned EOF", e.id, e.side)
		}
		if e.peer != nil {
			if !e.peer.cw && !e.peer.closed {
				return r.fail("Read on side %d stream %d returned EOF although the peer neither half-closed nor closed", e.side, e.id)
			}
			if e.read != e.peer.written {
				return r.fail("Read on side %d stream %d returned EOF after %d bytes although the peer wrote %d before closing", e.side, e.id, e.read, e.peer.written)
			}
		}
		r.class("eof")
	case errors.Is(err, os.ErrDeadlineExceeded):
		if !e.rdl {
			return r.fail("Read on side %d stream %d returned %v with no read deadline set", e.side, e.id, err)
		}
		r.class("deadline-expiry")
	case errors.Is(err, net.ErrClosed):
		if !e.closed {
			return r.fail("Read on side %d stream %d returned %v although the stream was not closed locally", e.side, e.id, err)
		}
	default:
		return r.fail("Read on side %d stream %d returned undocumented error %v", e.side, e.id, err)
	}
	if e.closed && err == nil {
		return r.fail("Read on locally closed stream %d (side %d) succeeded", e.id, e.side)
	}
	if guarded && op.C && !e.closed {
		if err := e.st.SetReadDeadline(time.Time{}); err != nil {
			return r.fail("SetReadDeadline(zero) on open stream %d (side %d) returned %v", e.id, e.side, err)
		}
		e.rdl = false
	}
	return true
}

func abs(x int) int {
	if x < 0 {
		return -x
	}
	return x
}

// writeReturns tells whether a Write of n bytes on e is guaranteed to return.
func (r *seqRun) writeReturns(e *sEnd, n int) bool {
	if e.closed || e.cw || e.wdl || n == 0 || e.peer == nil || e.peer.closed {
		return true
	}
	outstanding := e.written - e.peer.read
	return outstanding+uint64(n) <= r.window(e.peer.side)
}

func (r *seqRun) write(e *sEnd, op Op) bool {
	n := op.N
	if n < 0 {
		n = 0
	}
	if n > len(r.buf) {
		n = len(r.buf)
	}
	guarded := false
	if !r.writeReturns(e, n) {
		g := time.Duration(1+abs(op.D)%20) * time.Millisecond
		if err := e.st.SetWriteDeadline(time.Now().Add(g)); err != nil {
			return r.fail("SetWriteDeadline on stream %d (side %d, open for writing) returned %v", e.id, e.side, err)
		}
		e.wdl, guarded = true, true
	}
	data := r.buf[:n]
	fill(data, e.key, e.written)
	var got int
	var err error
	if !within(stallBound, func() { got, err = e.st.Write(data) }) {
		return r.stall(fmt.Sprintf("Write(%d bytes) on side %d stream %d", n, e.side, e.id))
	}
	r.logf("side%d stream%d Write(%d)%s -> %d, %s", e.side, e.id, n, map[bool]string{true: " guarded", false: ""}[guarded], got, errName(err))
	if n == 0 {
		r.class("empty-write")
	}
	if got < 0 || got > n {
		return r.fail("Write(%d bytes) on side %d stream %d returned count %d", n, e.side, e.id, got)
	}
	if got > 0 && (e.closed || e.cw) {
		return r.fail("Write on side %d stream %d, closed for writing, accepted %d bytes", e.side, e.id, got)
	}
	e.written += uint64(got)
	r.moved += uint64(got)
	if e.peer != nil && got > 0 {
		if w := r.window(e.peer.side); e.written-e.peer.read > w {
			return r.fail("Write on side %d stream %d accepted %d bytes: %d bytes now unconsumed by the peer, its receive window is %d", e.side, e.id, got, e.written-e.peer.read, w)
		}
	}
	if e.peer == nil && got > 0 {
		// Allowed: the peer's close may not have arrived yet and its initial
		// window was advertised with the open. Nothing to check.
		r.class("write-to-abandoned")
	}
	if err == multiplexing.ErrMultiplexerClosed {
		return true
	}
	switch {
	case err == nil:
		if got != n {
			return r.fail("Write(%d bytes) on side %d stream %d returned %d without an error", n, e.side, e.id, got)
		}
		if (e.closed || e.cw) && n > 0 {
			return r.fail("Write on side %d stream %d succeeded although it is closed for writing", e.side, e.id)
		}
	case errors.Is(err, os.ErrDeadlineExceeded):
		if !e.wdl {
			return r.fail("Write on side %d stream %d returned %v with no write deadline set", e.side, e.id, err)
		}
		r.class("deadline-expiry")
	case err == multiplexing.ErrWriteClosed:
		if !e.cw {
			return r.fail("Write on side %d stream %d returned %v although it was not closed for writing", e.side, e.id, err)
		}
	case errors.Is(err, net.ErrClosed):
		if !e.closed && e.peer != nil && !e.peer.closed {
			return r.fail("Write on side %d stream %d returned %v although neither end was closed", e.side, e.id, err)
		}
	default:
		return r.fail("Write on side %d stream %d returned undocumented error %v", e.side, e.id, err)
	}
	if guarded && op.C && !e.cw {
		if err := e.st.SetWriteDeadline(time.Time{}); err != nil {
			return r.fail("SetWriteDeadline(zero) on stream %d (side %d) returned %v", e.id, e.side, err)
		}
		e.wdl = false
	}
	return true
}

// kick: a Write that must block on an exhausted send window (the peer does
// not read) is released by another goroutine setting a past deadline; the
// deadline is then cleared and a further one-byte Write is issued under a short deadline of its own. This is
// the only operation with two overlapping calls; where the Write would not
// block it degenerates to an ordinary write.
func (r *seqRun) kick(e *sEnd, op Op) bool {
	n := max(op.N, 1)
	if n > len(r.buf) {
		n = len(r.buf)
	}
	if e.closed || e.cw || e.wdl || e.peer == nil || e.peer.closed || r.writeReturns(e, n) {
		return r.write(e, op)
	}
	w := r.window(e.peer.side)
	data := make([]byte, n)
	fill(data, e.key, e.written)
	ch := asyncCall(func() (int, error) { return e.st.Write(data) })
	// Let the writer use up the window and park.
	r.p.link.WaitIdle(e.side, 50*time.Millisecond)
	time.Sleep(time.Millisecond)
	past := time.Now().Add(-time.Second)
	var err error
	if !within(stallBound, func() {
		if op.C {
			err = e.st.SetDeadline(past)
		} else {
			err = e.st.SetWriteDeadline(past)
		}
	}) {
		return r.stall(fmt.Sprintf("SetWriteDeadline while a Write is blocked on side %d stream %d", e.side, e.id))
	}
	if err != nil {
		return r.fail("setting a past deadline on open stream %d (side %d) returned %v", e.id, e.side, err)
	}
	e.wdl = true
	if op.C {
		e.rdl = true
	}
	res, ok := awaitCall(ch, stallBound)
	if !ok {
		return r.stall(fmt.Sprintf("Write blocked on an exhausted window on side %d stream %d after a past deadline was set", e.side, e.id))
	}
	r.logf("side%d stream%d Write(%d) blocked, past deadline set concurrently -> %d, %s", e.side, e.id, n, res.n, errName(res.err))
	if res.n < 0 || res.n > n {
		return r.fail("Write(%d bytes) on side %d stream %d returned count %d", n, e.side, e.id, res.n)
	}
	e.written += uint64(res.n)
	r.moved += uint64(res.n)
	if e.written-e.peer.read > w {
		return r.fail("Write on side %d stream %d accepted %d bytes: %d bytes now unconsumed by the peer, its receive window is %d", e.side, e.id, res.n, e.written-e.peer.read, w)
	}
	if res.err == multiplexing.ErrMultiplexerClosed {
		return true
	}
	if !errors.Is(res.err, os.ErrDeadlineExceeded) {
		return r.fail("Write on side %d stream %d, blocked on an exhausted window and given a past deadline, returned (%d, %v)", e.side, e.id, res.n, res.err)
	}
	r.class("deadline-expiry")
	r.class("blocked-write-kicked")
	// Clear, then write again: the window is still exhausted. (Moving the
	// deadline to the future instead is left to the rdl/wdl/dl operations:
	// this implementation keeps an expired deadline expired until the zero
	// time is set, which C23-C25 do not speak about.)
	var t time.Time
	if op.C {
		err = e.st.SetDeadline(t)
	} else {
		err = e.st.SetWriteDeadline(t)
	}
	if err != nil {
		return r.fail("resetting the deadline on open stream %d (side %d) returned %v", e.id, e.side, err)
	}
	e.wdl = false
	if op.C {
		e.rdl = false
	}
	return r.write(e, Op{K: "write", S: op.S, I: op.I, N: 1, D: 2, C: true})
}

func (r *seqRun) deadline(e *sEnd, op Op) bool {
	var t time.Time
	switch {
	case op.D < 0:
		t = time.Now().Add(-time.Second)
	case op.D > 0:
		t = time.Now().Add(time.Duration(min(op.D, 30)) * time.Millisecond)
	}
	var err error
	ok := within(stallBound, func() {
		switch op.K {
		case "rdl":
			err = e.st.SetReadDeadline(t)
		case "wdl":
			err = e.st.SetWriteDeadline(t)
		default:
			err = e.st.SetDeadline(t)
		}
	})
	if !ok {
		return r.stall(fmt.Sprintf("%s on side %d stream %d", op.K, e.side, e.id))
	}
	r.logf("side%d stream%d %s(%d) -> %s", e.side, e.id, op.K, op.D, errName(err))
	r.class("set-deadline")
	inForce := op.D != 0
	switch op.K {
	case "rdl":
		if e.closed != (err != nil) || err != nil && !errors.Is(err, net.ErrClosed) {
			return r.fail("SetReadDeadline on side %d stream %d (closed=%v) returned %v", e.side, e.id, e.closed, err)
		}
		if err == nil {
			e.rdl = inForce
		}
	case "wdl":
		if e.cw != (err != nil) || err != nil && err != multiplexing.ErrWriteClosed {
			return r.fail("SetWriteDeadline on side %d stream %d (closed for writing=%v) returned %v", e.side, e.id, e.cw, err)
		}
		if err == nil {
			e.wdl = inForce
		}
	default:
		if (e.closed || e.cw) != (err != nil) {
			return r.fail("SetDeadline on side %d stream %d (closed=%v, closed for writing=%v) returned %v", e.side, e.id, e.closed, e.cw, err)
		}
		if !e.closed {
			e.rdl = inForce
			if !e.cw {
				e.wdl = inForce
			}
		}
	}
	return true
}
