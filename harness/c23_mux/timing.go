package c23_mux

// timing.go: C25 - blocked multiplexer calls return within a generous bound
// once their releasing event happened; a stalled stream does not block other
// streams; an open beyond the accept backlog is rejected, not left pending.
//
// Timing rules (DESIGN section 2): only "returned within releaseBound after
// the releasing event was issued" is asserted (delays can only make a return
// later, never earlier), with timestamps measured around the calls;
// releaseBound is seconds while the nominal latency is microseconds; a failing
// schedule is re-executed and reported only if it fails every time (see
// judgeStable in the test file).

import (
	"context"
	"errors"
	"fmt"
	"io"
	"net"
	"os"
	"time"

	"github.com/mutagen-io/mutagen/pkg/multiplexing"
)

// releaseBound is how long a blocked call may take to return after its
// releasing event (nominal: well under a millisecond).
const releaseBound = 10 * time.Second

// TimingCase is one generated scenario.
type TimingCase struct {
	Env
	Kind    string `json:"kind"`    // read write open accept stall backlog mass
	Release string `json:"release"` // releasing event
	Side    int    `json:"side"`    // side whose call blocks
	Opener  int    `json:"opener"`  // side that opens the stream(s)
	PreMs   int    `json:"pre_ms"`  // how long the call is watched pending before the release (>= 10)
	DMs     int    `json:"d_ms"`    // deadline length for deadline releases
	N       int    `json:"n"`       // read buffer size / bytes beyond the window
	K       int    `json:"k"`       // stalled streams / cancelled opens / blocked calls
	Bytes   int    `json:"bytes"`   // size of the fresh transfer (stall)
}

// TimingResult is the verdict on one execution.
type TimingResult struct {
	Fail       string
	NonTrivial bool // a call was observed pending for >= PreMs before the release
	Classes    []string
}

type callRes struct {
	n   int
	err error
	at  time.Time
}

func asyncCall(f func() (int, error)) chan callRes {
	ch := make(chan callRes, 1)
	go func() {
		n, err := f()
		ch <- callRes{n, err, time.Now()}
	}()
	return ch
}

// pendingAfter watches ch for d and tells whether the call is still pending;
// a result that arrived meanwhile is put back.
func pendingAfter(ch chan callRes, d time.Duration) bool {
	t := time.NewTimer(d)
	defer t.Stop()
	select {
	case r := <-ch:
		ch <- r
		return false
	case <-t.C:
		return true
	}
}

func pendingOpenAfter(ch chan openRes, d time.Duration) bool {
	t := time.NewTimer(d)
	defer t.Stop()
	select {
	case r := <-ch:
		ch <- r
		return false
	case <-t.C:
		return true
	}
}

func awaitCall(ch chan callRes, d time.Duration) (callRes, bool) {
	t := time.NewTimer(d)
	defer t.Stop()
	select {
	case r := <-ch:
		return r, true
	case <-t.C:
		return callRes{}, false
	}
}

type timingRun struct {
	c   *TimingCase
	p   *Pair
	res *TimingResult
}

func (t *timingRun) failf(format string, args ...any) {
	if t.res.Fail == "" {
		t.res.Fail = fmt.Sprintf(format, args...)
	}
}

// establish opens a stream from side opener and accepts it on the other side.
func (t *timingRun) establish(opener int) (o, a *multiplexing.Stream, ok bool) {
	och := asyncOpen(t.p.mux[opener], context.Background())
	ach := asyncAccept(t.p.mux[1-opener], context.Background())
	or, ok1 := awaitOpen(och, releaseBound)
	ar, ok2 := awaitOpen(ach, releaseBound)
	if !ok1 || !ok2 || or.err != nil || ar.err != nil {
		t.failf("could not establish a stream within %v: open (returned=%v, err=%v), accept (returned=%v, err=%v)", releaseBound, ok1, or.err, ok2, ar.err)
		return nil, nil, false
	}
	return or.st, ar.st, true
}

// bounded runs a releasing action that itself must not hang.
func (t *timingRun) bounded(what string, f func()) bool {
	if !within(releaseBound, f) {
		t.failf("%s did not return within %v", what, releaseBound)
		return false
	}
	return true
}

func isErr(err, target error) bool { return errors.Is(err, target) }

// isCtxErr recognises the error of a call whose context ended (the code
// returns context.Canceled for both cancellation and expiry).
func isCtxErr(err error) bool {
	return errors.Is(err, context.Canceled) || errors.Is(err, context.DeadlineExceeded)
}

// Normalize repairs parameter combinations under which the scenario's own
// releasing event could not work (used by the generator and by replays).
func (c *TimingCase) Normalize() {
	side := c.Side & 1
	if c.Kind == "read" && c.Release == "peer-data" && c.Cfg[side].window() == 0 {
		c.Cfg[side].Window = 1
	}
	if c.Kind == "write" && c.Release == "peer-reads" && c.Cfg[1-side].window() == 0 {
		c.Cfg[1-side].Window = 1
	}
	for s := 0; s < 2; s++ {
		if c.Cfg[s].Window > 1<<16 {
			c.Cfg[s].Window = 1 << 16
		}
	}
	if c.Kind == "bufwrite" && c.Cfg[1-side].Window < 4096 {
		// The send window must stay open: the block is on the buffer pool.
		c.Cfg[1-side].Window = 4096
	}
	if c.Kind == "expiry" {
		// One write buffer behind a one-byte carrier: the buffer is busy for
		// a while after every large write; windows large enough that the
		// small writes never need the peer to read.
		c.Cfg[side].Buffers = 1
		c.PipeCap = 1
		c.Frag = []int{1}
		for s := 0; s < 2; s++ {
			if c.Cfg[s].Window < 4096 {
				c.Cfg[s].Window = 4096
			}
		}
	}
	if c.PreMs < 10 {
		c.PreMs = 10
	}
	if c.PreMs > 50 {
		c.PreMs = 50
	}
	if c.DMs < 1 {
		c.DMs = 1
	}
	if c.DMs > 200 {
		c.DMs = 200
	}
	if c.K > 8 {
		c.K = 8
	}
	if c.Bytes > 1<<20 {
		c.Bytes = 1 << 20
	}
}

// JudgeTiming executes the scenario once.
func JudgeTiming(c *TimingCase) *TimingResult {
	res := &TimingResult{}
	c.Normalize()
	t := &timingRun{c: c, res: res}
	t.p = NewPair(c.Env)
	defer t.p.Close()
	switch c.Kind {
	case "read":
		t.blockedRead()
	case "write":
		t.blockedWrite()
	case "open":
		t.blockedOpen()
	case "accept":
		t.blockedAccept()
	case "stall":
		t.stalled()
	case "backlog":
		t.backlog()
	case "mass":
		t.mass()
	case "expiry":
		t.expiry()
	case "redeadline":
		t.redeadline()
	case "bufwrite":
		t.bufferBlockedWrite()
	default:
		res.Fail = "unknown scenario kind " + c.Kind
	}
	if res.Fail == "" {
		if d := t.p.Down(); d != "" {
			res.Fail = "connection torn down although the test closed nothing: " + d
		}
	}
	if c.Kind == "redeadline" {
		// This scenario also carries the C23/C24 oracles.
		if wv := t.p.WireVerdict(); len(wv) > 0 {
			if res.Fail != "" {
				res.Fail += " || "
			}
			res.Fail += "wire protocol violated: " + wv[0]
		}
	}
	res.Classes = append(res.Classes, c.Kind+"/"+c.Release)
	return res
}

func (t *timingRun) pre() time.Duration { return time.Duration(max(t.c.PreMs, 10)) * time.Millisecond }
func (t *timingRun) dl() time.Duration  { return time.Duration(max(t.c.DMs, 1)) * time.Millisecond }

// streamsFor returns the stream end on the blocking side (x) and its peer (y).
func (t *timingRun) streamsFor() (x, y *multiplexing.Stream, ok bool) {
	o, a, ok := t.establish(t.c.Opener & 1)
	if !ok {
		return nil, nil, false
	}
	if t.c.Opener&1 == t.c.Side&1 {
		return o, a, true
	}
	return a, o, true
}

// release performs the releasing event for a blocked stream call on x (peer
// end y) and returns the extra time the call may legitimately take (deadline
// length) and whether the action completed.
func (t *timingRun) release(x, y *multiplexing.Stream, write bool) (time.Duration, bool) {
	side := t.c.Side & 1
	switch t.c.Release {
	case "deadline-preset":
		return 0, true // set before the call; nothing to do
	case "deadline-future":
		ok := t.bounded("SetDeadline while the call is blocked", func() {
			if write {
				x.SetWriteDeadline(time.Now().Add(t.dl()))
			} else {
				x.SetReadDeadline(time.Now().Add(t.dl()))
			}
		})
		return t.dl(), ok
	case "deadline-past":
		return 0, t.bounded("SetDeadline while the call is blocked", func() {
			if write {
				x.SetWriteDeadline(time.Now().Add(-time.Second))
			} else {
				x.SetReadDeadline(time.Now().Add(-time.Second))
			}
		})
	case "deadline-both":
		return 0, t.bounded("SetDeadline while the call is blocked", func() { x.SetDeadline(time.Now().Add(-time.Second)) })
	case "local-close":
		return 0, t.bounded("Close of the stream with a blocked call", func() { x.Close() })
	case "local-close-write":
		return 0, t.bounded("CloseWrite of the stream with a blocked Write", func() { x.CloseWrite() })
	case "peer-close":
		return 0, t.bounded("Close of the peer's stream end", func() { y.Close() })
	case "peer-close-write":
		return 0, t.bounded("CloseWrite of the peer's stream end", func() { y.CloseWrite() })
	case "local-mux-close":
		t.p.MarkClosedByTest()
		return 0, t.bounded("Close of the multiplexer", func() { t.p.mux[side].Close() })
	case "peer-mux-close":
		t.p.MarkClosedByTest()
		return 0, t.bounded("Close of the peer multiplexer", func() { t.p.mux[1-side].Close() })
	case "carrier":
		t.p.MarkClosedByTest()
		t.p.link.Break()
		return 0, true
	case "peer-data":
		return 0, t.bounded("Write of one byte by the peer", func() { y.Write([]byte{42}) })
	}
	t.failf("unknown release %q", t.c.Release)
	return 0, false
}

func (t *timingRun) blockedRead() {
	x, y, ok := t.streamsFor()
	if !ok {
		return
	}
	c := t.c
	preset := c.Release == "deadline-preset"
	var deadline time.Time
	if preset {
		// Long enough to watch the call pending first.
		deadline = time.Now().Add(t.pre() + t.dl())
		if err := x.SetReadDeadline(deadline); err != nil {
			t.failf("SetReadDeadline on a fresh stream returned %v", err)
			return
		}
	}
	buf := make([]byte, max(c.N, 1))
	ch := asyncCall(func() (int, error) { return x.Read(buf) })
	t.res.NonTrivial = pendingAfter(ch, t.pre())
	issued := time.Now()
	extra, ok := t.release(x, y, false)
	if !ok {
		return
	}
	if preset && deadline.After(issued) {
		extra = deadline.Sub(issued)
	}
	r, ok := awaitCall(ch, extra+releaseBound)
	if !ok {
		t.failf("Read still blocked %v after release %q (issued %v after the call started pending)", extra+releaseBound, c.Release, t.pre())
		return
	}
	var want error
	switch c.Release {
	case "deadline-preset", "deadline-future", "deadline-past", "deadline-both":
		want = os.ErrDeadlineExceeded
	case "local-close":
		want = net.ErrClosed
	case "peer-close", "peer-close-write":
		want = io.EOF
	case "local-mux-close", "peer-mux-close", "carrier":
		want = multiplexing.ErrMultiplexerClosed
	case "peer-data":
		if r.err != nil || r.n != 1 || buf[0] != 42 {
			t.failf("Read released by one byte of peer data returned (%d, %v), first byte %d", r.n, r.err, buf[0])
		}
		return
	}
	if !isErr(r.err, want) || r.n != 0 {
		t.failf("Read released by %q returned (%d, %v), want (0, %v)", c.Release, r.n, r.err, want)
	}
}

func (t *timingRun) blockedWrite() {
	x, y, ok := t.streamsFor()
	if !ok {
		return
	}
	c := t.c
	side := c.Side & 1
	window := int(c.Cfg[1-side].window())
	payload := make([]byte, window+max(c.N, 1))
	fill(payload, 77, 0)
	preset := c.Release == "deadline-preset"
	var deadline time.Time
	if preset {
		deadline = time.Now().Add(t.pre() + t.dl())
		if err := x.SetWriteDeadline(deadline); err != nil {
			t.failf("SetWriteDeadline on a fresh stream returned %v", err)
			return
		}
	}
	ch := asyncCall(func() (int, error) { return x.Write(payload) })
	t.res.NonTrivial = pendingAfter(ch, t.pre())
	issued := time.Now()
	var extra time.Duration
	if c.Release == "peer-reads" {
		// The peer consumes everything: the write must complete.
		got := 0
		rch := asyncCall(func() (int, error) {
			buf := make([]byte, 32<<10)
			for got < len(payload) {
				n, err := y.Read(buf)
				if i := mismatch(buf[:n], 77, uint64(got)); i >= 0 {
					return got, fmt.Errorf("byte %d differs", got+i)
				}
				got += n
				if err != nil {
					return got, err
				}
			}
			return got, nil
		})
		rr, ok := awaitCall(rch, releaseBound+time.Duration(len(payload)/64)*time.Millisecond)
		if !ok {
			t.failf("peer reader did not receive the %d byte payload within the bound (window %d)", len(payload), window)
			return
		}
		if rr.err != nil {
			t.failf("peer reader failed after %d bytes: %v", rr.n, rr.err)
			return
		}
	} else {
		var ok bool
		extra, ok = t.release(x, y, true)
		if !ok {
			return
		}
	}
	if preset && deadline.After(issued) {
		extra = deadline.Sub(issued)
	}
	r, ok := awaitCall(ch, extra+releaseBound)
	if !ok {
		t.failf("Write still blocked %v after release %q (window %d, payload %d)", extra+releaseBound, c.Release, window, len(payload))
		return
	}
	if r.n < 0 || r.n > len(payload) {
		t.failf("Write returned count %d for %d bytes", r.n, len(payload))
		return
	}
	switch c.Release {
	case "peer-reads":
		if r.err != nil || r.n != len(payload) {
			t.failf("Write released by the peer reading everything returned (%d, %v), want (%d, nil)", r.n, r.err, len(payload))
		}
		return
	case "deadline-preset", "deadline-future", "deadline-past", "deadline-both":
		if !isErr(r.err, os.ErrDeadlineExceeded) {
			t.failf("Write released by %q returned (%d, %v), want a deadline error", c.Release, r.n, r.err)
		}
	case "local-close-write":
		if r.err != multiplexing.ErrWriteClosed {
			t.failf("Write released by CloseWrite returned (%d, %v), want ErrWriteClosed", r.n, r.err)
		}
	case "local-close":
		if r.err != multiplexing.ErrWriteClosed && !isErr(r.err, net.ErrClosed) {
			t.failf("Write released by Close returned (%d, %v), want a closed error", r.n, r.err)
		}
	case "peer-close":
		if !isErr(r.err, net.ErrClosed) {
			t.failf("Write released by the peer's Close returned (%d, %v), want a closed error", r.n, r.err)
		}
	case "local-mux-close", "peer-mux-close", "carrier":
		if r.err != multiplexing.ErrMultiplexerClosed {
			t.failf("Write released by %q returned (%d, %v), want ErrMultiplexerClosed", c.Release, r.n, r.err)
		}
	}
	if r.n > window {
		t.failf("Write accepted %d bytes while the peer, which never read, has a receive window of %d", r.n, window)
	}
}

func (t *timingRun) blockedOpen() {
	c := t.c
	side := c.Side & 1
	ctx, cancel := context.WithCancel(context.Background())
	defer cancel()
	var deadline time.Time
	if c.Release == "ctx-timeout" {
		deadline = time.Now().Add(t.pre() + t.dl())
		var cancel2 context.CancelFunc
		ctx, cancel2 = context.WithDeadline(ctx, deadline)
		defer cancel2()
	}
	ch := asyncOpen(t.p.mux[side], ctx)
	t.res.NonTrivial = pendingOpenAfter(ch, t.pre())
	issued := time.Now()
	var extra time.Duration
	var accepted *multiplexing.Stream
	switch c.Release {
	case "ctx-cancel":
		cancel()
	case "ctx-timeout":
		if deadline.After(issued) {
			extra = deadline.Sub(issued)
		}
	case "local-mux-close":
		t.p.MarkClosedByTest()
		if !t.bounded("Close of the multiplexer", func() { t.p.mux[side].Close() }) {
			return
		}
	case "peer-mux-close":
		t.p.MarkClosedByTest()
		if !t.bounded("Close of the peer multiplexer", func() { t.p.mux[1-side].Close() }) {
			return
		}
	case "carrier":
		t.p.MarkClosedByTest()
		t.p.link.Break()
	case "peer-accept":
		ar, ok := awaitOpen(asyncAccept(t.p.mux[1-side], context.Background()), releaseBound)
		if !ok || ar.err != nil {
			t.failf("AcceptStream with an open pending for %v: returned=%v err=%v", t.pre(), ok, ar.err)
			return
		}
		accepted = ar.st
	default:
		t.failf("unknown release %q", c.Release)
		return
	}
	r, ok := awaitOpen(ch, extra+releaseBound)
	if !ok {
		t.failf("OpenStream still blocked %v after release %q", extra+releaseBound, c.Release)
		return
	}
	switch c.Release {
	case "ctx-cancel", "ctx-timeout":
		if !isCtxErr(r.err) || r.st != nil {
			t.failf("OpenStream released by %q returned (%v, %v), want context.Canceled", c.Release, r.st != nil, r.err)
		}
	case "peer-accept":
		if r.err != nil || r.st == nil || streamID(r.st) != streamID(accepted) {
			t.failf("OpenStream released by the peer's accept returned (%v, %v)", r.st != nil, r.err)
		}
	default:
		if r.err != multiplexing.ErrMultiplexerClosed {
			t.failf("OpenStream released by %q returned %v, want ErrMultiplexerClosed", c.Release, r.err)
		}
	}
}

func (t *timingRun) blockedAccept() {
	c := t.c
	side := c.Side & 1
	ctx, cancel := context.WithCancel(context.Background())
	defer cancel()
	var deadline time.Time
	if c.Release == "ctx-timeout" {
		deadline = time.Now().Add(t.pre() + t.dl())
		var cancel2 context.CancelFunc
		ctx, cancel2 = context.WithDeadline(ctx, deadline)
		defer cancel2()
	}
	ch := asyncAccept(t.p.mux[side], ctx)
	t.res.NonTrivial = pendingOpenAfter(ch, t.pre())
	issued := time.Now()
	var extra time.Duration
	var opened chan openRes
	switch c.Release {
	case "ctx-cancel":
		cancel()
	case "ctx-timeout":
		if deadline.After(issued) {
			extra = deadline.Sub(issued)
		}
	case "local-mux-close":
		t.p.MarkClosedByTest()
		if !t.bounded("Close of the multiplexer", func() { t.p.mux[side].Close() }) {
			return
		}
	case "peer-mux-close":
		t.p.MarkClosedByTest()
		if !t.bounded("Close of the peer multiplexer", func() { t.p.mux[1-side].Close() }) {
			return
		}
	case "carrier":
		t.p.MarkClosedByTest()
		t.p.link.Break()
	case "peer-open":
		opened = asyncOpen(t.p.mux[1-side], context.Background())
	default:
		t.failf("unknown release %q", c.Release)
		return
	}
	r, ok := awaitOpen(ch, extra+releaseBound)
	if !ok {
		t.failf("AcceptStream still blocked %v after release %q", extra+releaseBound, c.Release)
		return
	}
	switch c.Release {
	case "ctx-cancel", "ctx-timeout":
		if !isCtxErr(r.err) || r.st != nil {
			t.failf("AcceptStream released by %q returned (%v, %v), want context.Canceled", c.Release, r.st != nil, r.err)
		}
	case "peer-open":
		or, ok := awaitOpen(opened, releaseBound)
		if !ok || or.err != nil || r.err != nil || r.st == nil || streamID(or.st) != streamID(r.st) {
			t.failf("AcceptStream released by the peer's open: accept returned (%v, %v), open returned=%v err=%v", r.st != nil, r.err, ok, or.err)
		}
	default:
		if r.err != multiplexing.ErrMultiplexerClosed {
			t.failf("AcceptStream released by %q returned %v, want ErrMultiplexerClosed", c.Release, r.err)
		}
	}
}

// stalled: K streams whose readers never read while their writers fill the
// window; then a fresh stream must still transfer Bytes within the bound.
func (t *timingRun) stalled() {
	c := t.c
	side := c.Side & 1
	window := int(c.Cfg[1-side].window())
	k := max(c.K, 1)
	type blocked struct {
		ch chan callRes
		x  *multiplexing.Stream
	}
	var bl []blocked
	for i := 0; i < k; i++ {
		// Alternate who opened the stalled stream.
		o, a, ok := t.establish((c.Opener + i) & 1)
		if !ok {
			return
		}
		x := o
		if (c.Opener+i)&1 != side {
			x = a
		}
		payload := make([]byte, window+1+i)
		bl = append(bl, blocked{asyncCall(func() (int, error) { return x.Write(payload) }), x})
	}
	// All writers must be pending (their peers never read).
	time.Sleep(t.pre())
	allPending := true
	for _, b := range bl {
		if !pendingAfter(b.ch, 0) {
			allPending = false
		}
	}
	t.res.NonTrivial = allPending
	// Fresh stream, same direction as the stalled writers.
	start := time.Now()
	och := asyncOpen(t.p.mux[side], context.Background())
	ach := asyncAccept(t.p.mux[1-side], context.Background())
	or, ok1 := awaitOpen(och, releaseBound)
	ar, ok2 := awaitOpen(ach, releaseBound)
	if !ok1 || !ok2 || or.err != nil || ar.err != nil {
		t.failf("with %d stalled streams (write buffers %d), a fresh stream could not be established within %v: open (returned=%v, err=%v), accept (returned=%v, err=%v)",
			k, c.Cfg[side].buffers(), releaseBound, ok1, or.err, ok2, ar.err)
		return
	}
	total := max(c.Bytes, 0)
	if window == 0 {
		total = 0 // nothing can flow towards a zero receive window
	}
	wch := asyncCall(func() (int, error) {
		data := make([]byte, total)
		fill(data, 99, 0)
		n, err := or.st.Write(data)
		if err == nil {
			err = or.st.CloseWrite()
		}
		return n, err
	})
	rch := asyncCall(func() (int, error) {
		buf := make([]byte, 32<<10)
		got := 0
		for {
			n, err := ar.st.Read(buf)
			if i := mismatch(buf[:n], 99, uint64(got)); i >= 0 {
				return got, fmt.Errorf("byte %d differs from what was written", got+i)
			}
			got += n
			if err == io.EOF {
				return got, nil
			}
			if err != nil {
				return got, err
			}
		}
	})
	wr, ok := awaitCall(wch, releaseBound)
	if !ok {
		t.failf("with %d stalled streams, writing %d bytes on a fresh stream did not finish within %v", k, total, releaseBound)
		return
	}
	rr, ok := awaitCall(rch, releaseBound)
	if !ok {
		t.failf("with %d stalled streams, reading %d bytes on a fresh stream did not finish within %v", k, total, releaseBound)
		return
	}
	if wr.err != nil || wr.n != total || rr.err != nil || rr.n != total {
		t.failf("fresh stream transfer of %d bytes beside %d stalled streams: writer (%d, %v), reader (%d, %v)", total, k, wr.n, wr.err, rr.n, rr.err)
		return
	}
	_ = start
	// The stalled writers must still be pending (nobody read) and must be
	// released by closing the multiplexer.
	for i, b := range bl {
		if allPending && !pendingAfter(b.ch, 0) {
			r := <-b.ch
			t.failf("stalled writer %d returned (%d, %v) although its peer never read and nothing was closed (window %d)", i, r.n, r.err, window)
			return
		}
	}
	t.p.MarkClosedByTest()
	if !t.bounded("Close of the multiplexer", func() { t.p.mux[side].Close() }) {
		return
	}
	for i, b := range bl {
		r, ok := awaitCall(b.ch, releaseBound)
		if !ok {
			t.failf("stalled writer %d still blocked %v after its multiplexer was closed", i, releaseBound)
			return
		}
		if r.n > window {
			t.failf("stalled writer %d was accepted %d bytes, receive window %d, peer never read", i, r.n, window)
			return
		}
	}
}

// backlog: fill the peer's accept backlog with un-accepted opens (K of them
// cancelled again, which does not free their slot), then one more open must be
// rejected promptly; afterwards the peer accepts and the pending opens return.
func (t *timingRun) backlog() {
	c := t.c
	side := c.Side & 1
	b := c.Cfg[1-side].backlog()
	type po struct {
		ch     chan openRes
		cancel context.CancelFunc
		dead   bool
	}
	var opens []*po
	defer func() {
		for _, o := range opens {
			o.cancel()
		}
	}()
	nextID := uint64(1)
	if side == c.Even {
		nextID = 2
	}
	firstID := nextID
	for i := 0; i < b; i++ {
		ctx, cancel := context.WithCancel(context.Background())
		o := &po{ch: asyncOpen(t.p.mux[side], ctx), cancel: cancel}
		opens = append(opens, o)
		id := nextID
		nextID += 2
		// Delivered and processed by the peer before the next one is sent.
		if !waitFor(releaseBound, func() bool { return t.p.sawOpen(side, id) }) || !t.p.link.WaitIdle(side, releaseBound) {
			t.failf("open message %d of %d was not delivered within %v", i+1, b, releaseBound)
			return
		}
	}
	// Cancel some of them: a cancelled open keeps its backlog slot until the
	// peer's AcceptStream skips it.
	ncancel := min(max(c.K, 0), b-1)
	for i := 0; i < ncancel; i++ {
		o := opens[(i*2)%b]
		if o.dead {
			continue
		}
		o.cancel()
		r, ok := awaitOpen(o.ch, releaseBound)
		if !ok || !isCtxErr(r.err) {
			t.failf("cancelled OpenStream: returned=%v err=%v", ok, r.err)
			return
		}
		o.dead = true
	}
	time.Sleep(t.pre())
	pending := true
	for _, o := range opens {
		if !o.dead && !pendingOpenAfter(o.ch, 0) {
			pending = false
		}
	}
	t.res.NonTrivial = pending
	if !pending {
		for _, o := range opens {
			if !o.dead && !pendingOpenAfter(o.ch, 0) {
				r := <-o.ch
				t.failf("an open within the backlog of %d returned (%v, %v) before anything was accepted", b, r.st != nil, r.err)
				return
			}
		}
	}
	// One more: must be rejected, not left pending.
	ctx, cancel := context.WithCancel(context.Background())
	defer cancel()
	extra := asyncOpen(t.p.mux[side], ctx)
	r, ok := awaitOpen(extra, releaseBound)
	if !ok {
		t.failf("OpenStream beyond the peer's accept backlog (%d un-accepted opens, %d of them cancelled) was left pending for %v instead of being rejected", b, ncancel, releaseBound)
		return
	}
	if r.err != multiplexing.ErrStreamRejected {
		if r.st != nil {
			r.st.Close()
		}
		t.failf("OpenStream beyond the peer's accept backlog (%d un-accepted opens) returned (%v, %v), want ErrStreamRejected", b, r.st != nil, r.err)
		return
	}
	// The peer accepts: every live pending open returns its stream.
	live := 0
	for _, o := range opens {
		if !o.dead {
			live++
		}
	}
	got := 0
	for got < live {
		ar, ok := awaitOpen(asyncAccept(t.p.mux[1-side], context.Background()), releaseBound)
		if !ok || ar.err != nil {
			t.failf("AcceptStream with %d live opens pending: returned=%v err=%v", live-got, ok, ar.err)
			return
		}
		// A cancelled open may be handed out as an already-closed stream
		// (the acceptor can win the race against the close message); tell
		// the two apart by identifier.
		idx := int(streamID(ar.st)-firstID) / 2
		if idx < 0 || idx >= len(opens) {
			t.failf("AcceptStream returned stream %d, which was never opened", streamID(ar.st))
			return
		}
		if opens[idx].dead {
			continue
		}
		got++
	}
	for _, o := range opens {
		if o.dead {
			continue
		}
		r, ok := awaitOpen(o.ch, releaseBound)
		if !ok || r.err != nil {
			t.failf("OpenStream pending in the backlog did not return its stream after the peer accepted: returned=%v err=%v", ok, r.err)
			return
		}
	}
}

// mass: several calls of every kind blocked at once, released by one event.
func (t *timingRun) mass() {
	c := t.c
	side := c.Side & 1
	k := max(c.K, 1)
	type bc struct {
		what string
		ch   chan callRes
	}
	var calls []bc
	for i := 0; i < k; i++ {
		o, a, ok := t.establish((c.Opener + i) & 1)
		if !ok {
			return
		}
		// Per stream one of: both ends read (nobody writes), both ends write
		// beyond the window (nobody reads), one end reads and writes while
		// the other does nothing. No blocked call can release another.
		ends := [2]*multiplexing.Stream{o, a}
		mode := (i + c.N) % 3
		for j, st := range ends {
			st := st
			endSide := (c.Opener + i + j) & 1
			w := int(c.Cfg[1-endSide].window())
			rd := bc{fmt.Sprintf("Read on side %d", endSide), nil}
			wr := bc{fmt.Sprintf("Write on side %d", endSide), nil}
			switch {
			case mode == 0:
				rd.ch = asyncCall(func() (int, error) { return st.Read(make([]byte, 10)) })
				calls = append(calls, rd)
			case mode == 1:
				wr.ch = asyncCall(func() (int, error) { return st.Write(make([]byte, w+1)) })
				calls = append(calls, wr)
			case j == 0:
				rd.ch = asyncCall(func() (int, error) { return st.Read(make([]byte, 10)) })
				wr.ch = asyncCall(func() (int, error) { return st.Write(make([]byte, w+1)) })
				calls = append(calls, rd, wr)
			}
		}
	}
	// A blocked accept on one side and a blocked open towards the other side
	// would pair up; so block an accept on `side` only, and an open from
	// `side` (nobody accepts on the other side).
	ach := asyncAccept(t.p.mux[side], context.Background())
	och := asyncOpen(t.p.mux[side], context.Background())
	time.Sleep(t.pre())
	pending := pendingOpenAfter(ach, 0) && pendingOpenAfter(och, 0)
	for _, b := range calls {
		if !pendingAfter(b.ch, 0) {
			pending = false
		}
	}
	t.res.NonTrivial = pending
	t.p.MarkClosedByTest()
	switch c.Release {
	case "local-mux-close":
		if !t.bounded("Close of the multiplexer", func() { t.p.mux[side].Close() }) {
			return
		}
	case "peer-mux-close":
		if !t.bounded("Close of the peer multiplexer", func() { t.p.mux[1-side].Close() }) {
			return
		}
	case "carrier":
		t.p.link.Break()
	default:
		t.failf("unknown release %q", c.Release)
		return
	}
	deadline := time.Now().Add(releaseBound)
	for _, b := range calls {
		r, ok := awaitCall(b.ch, time.Until(deadline))
		if !ok {
			t.failf("%s still blocked %v after release %q (%d calls were blocked)", b.what, releaseBound, c.Release, len(calls)+2)
			return
		}
		if r.err != multiplexing.ErrMultiplexerClosed {
			t.failf("%s released by %q returned (%d, %v), want ErrMultiplexerClosed", b.what, c.Release, r.n, r.err)
			return
		}
	}
	for _, x := range []struct {
		what string
		ch   chan openRes
	}{{"AcceptStream", ach}, {"OpenStream", och}} {
		r, ok := awaitOpen(x.ch, time.Until(deadline))
		if !ok {
			t.failf("%s still blocked %v after release %q", x.what, releaseBound, c.Release)
			return
		}
		if r.err != multiplexing.ErrMultiplexerClosed {
			t.failf("%s released by %q returned %v, want ErrMultiplexerClosed", x.what, c.Release, r.err)
			return
		}
	}
}

// expiry: a Write whose deadline passes while it waits for a write buffer
// (it already holds send window) must leave the stream usable: the next Write
// without a deadline, with send window and buffers available, must return.
func (t *timingRun) expiry() {
	c := t.c
	a, ay, ok := t.streamsFor()
	if !ok {
		return
	}
	b, _, ok := t.streamsFor()
	if !ok {
		return
	}
	// The peer drains stream a so that the large writes always complete.
	go func() {
		buf := make([]byte, 32<<10)
		for {
			if _, err := ay.Read(buf); err != nil {
				return
			}
		}
	}()
	rounds := 3 + max(c.K, 0)
	small := make([]byte, 100)
	for i := 0; i < rounds; i++ {
		big := asyncCall(func() (int, error) { return a.Write(make([]byte, 30000)) })
		if err := b.SetWriteDeadline(time.Now().Add(time.Duration(200+400*(i%4)) * time.Microsecond)); err != nil {
			t.failf("SetWriteDeadline on an open stream returned %v", err)
			return
		}
		r, ok := awaitCall(asyncCall(func() (int, error) { return b.Write(small) }), releaseBound)
		if !ok {
			t.failf("Write with a deadline of under 2 ms still blocked after %v", releaseBound)
			return
		}
		if isErr(r.err, os.ErrDeadlineExceeded) {
			t.res.NonTrivial = true
		} else if r.err != nil {
			t.failf("Write with a deadline returned (%d, %v)", r.n, r.err)
			return
		}
		if err := b.SetWriteDeadline(time.Time{}); err != nil {
			t.failf("SetWriteDeadline(zero) on an open stream returned %v", err)
			return
		}
		r, ok = awaitCall(asyncCall(func() (int, error) { return b.Write(small) }), releaseBound)
		if !ok {
			t.failf("Write of %d bytes without a deadline, with send window available (peer window %d, under %d bytes sent), still blocked after %v; it follows a Write on the same stream that expired (round %d)",
				len(small), c.Cfg[1-c.Side&1].window(), 200*(i+1), releaseBound, i)
			return
		}
		if r.err != nil || r.n != len(small) {
			t.failf("Write without a deadline after an expired one returned (%d, %v)", r.n, r.err)
			return
		}
		if br, ok := awaitCall(big, releaseBound); !ok || br.err != nil {
			t.failf("Write of 30000 bytes on a stream whose peer reads continuously: returned=%v err=%v", ok, br.err)
			return
		}
	}
}

// redeadline: the peer does not read, a Write blocks on the exhausted send
// window, another goroutine sets a past deadline (SetWriteDeadline or
// SetDeadline), the Write returns the deadline error, the deadline is cleared
// or moved to the future and a further non-empty Write is issued while the
// window is still exhausted; repeated K times; finally the peer reads
// everything. Nothing may tear the connection down, no zero-length data
// message may appear on the wire, all accepted bytes arrive in order.
// Release: "clear-write", "clear-both", "future-write", "future-both".
func (t *timingRun) redeadline() {
	c := t.c
	x, y, ok := t.streamsFor()
	if !ok {
		return
	}
	side := c.Side & 1
	window := int(c.Cfg[1-side].window())
	both := c.Release == "clear-both" || c.Release == "future-both"
	future := c.Release == "future-write" || c.Release == "future-both"
	set := func(tm time.Time) error {
		if both {
			return x.SetDeadline(tm)
		}
		return x.SetWriteDeadline(tm)
	}
	const key = 4242
	off := 0
	write := func(n int) chan callRes {
		data := make([]byte, n)
		fill(data, key, uint64(off))
		return asyncCall(func() (int, error) { return x.Write(data) })
	}
	reps := min(max(c.K, 1), 3)
	extra := max(c.N, 1)
	allPending, firstPending := true, true
	for i := 0; i < reps; i++ {
		n := extra
		if i == 0 {
			n = window + extra
		}
		ch := write(n)
		if !pendingAfter(ch, t.pre()) {
			allPending = false
		}
		var err error
		if !t.bounded("setting a past deadline while a Write is blocked", func() { err = set(time.Now().Add(-time.Second)) }) {
			return
		}
		if err != nil {
			t.failf("setting a past deadline on an open stream returned %v", err)
			return
		}
		r, ok := awaitCall(ch, releaseBound)
		if !ok {
			t.failf("Write blocked on an exhausted window still blocked %v after a past deadline was set (round %d)", releaseBound, i)
			return
		}
		if r.err == nil && r.n == n && off+r.n <= window {
			// The Write had room after all (a slow carrier had not let the
			// earlier bytes through yet) and finished before the deadline
			// was set: legitimate, just not the interesting schedule.
			allPending = false
		} else if !isErr(r.err, os.ErrDeadlineExceeded) || r.n < 0 || r.n > n {
			t.failf("Write blocked on an exhausted window (peer window %d, %d bytes accepted before) and given a past deadline returned (%d, %v), want a deadline error (round %d)", window, off, r.n, r.err, i)
			return
		}
		off += r.n
		if off > window {
			t.failf("%d bytes accepted although the peer, which never read, has a receive window of %d", off, window)
			return
		}
		var tm time.Time
		if future {
			tm = time.Now().Add(time.Hour)
		}
		if err := set(tm); err != nil {
			t.failf("resetting the deadline on an open stream returned %v", err)
			return
		}
		if i == 0 {
			firstPending = allPending
		}
	}
	if future {
		// Observation, not a violation of C23-C25: in this implementation a
		// deadline that has expired stays expired when it is moved to the
		// future (only the zero time clears it), so the Writes of the later
		// rounds may have failed at once instead of blocking. Clear it for
		// the final transfer either way.
		if !allPending && firstPending {
			t.res.Classes = append(t.res.Classes, "redeadline/expired-deadline-not-refreshed-by-future-deadline")
		}
		allPending = firstPending
		if err := set(time.Time{}); err != nil {
			t.failf("clearing the deadline on an open stream returned %v", err)
			return
		}
	}
	t.res.NonTrivial = allPending
	if window == 0 {
		// Nothing can ever flow: a last non-empty Write under its own short
		// deadline must expire without sending anything.
		x.SetWriteDeadline(time.Now().Add(5 * time.Millisecond))
		r, ok := awaitCall(write(extra), releaseBound)
		if !ok || !isErr(r.err, os.ErrDeadlineExceeded) || r.n != 0 {
			t.failf("Write towards a zero receive window under a 5 ms deadline: returned=%v (%d, %v)", ok, r.n, r.err)
		}
		t.p.Settle()
		return
	}
	// Final write, and the peer reads everything.
	final := write(extra)
	rch := asyncCall(func() (int, error) {
		buf := make([]byte, 32<<10)
		got := 0
		for {
			n, err := y.Read(buf)
			if i := mismatch(buf[:n], key, uint64(got)); i >= 0 {
				return got, fmt.Errorf("byte %d differs from what was written", got+i)
			}
			got += n
			if err == io.EOF {
				return got, nil
			}
			if err != nil {
				return got, err
			}
		}
	})
	r, ok := awaitCall(final, releaseBound)
	if !ok {
		t.failf("Write of %d bytes with the peer reading everything still blocked after %v (it follows %d Writes that expired while blocked on the window)", extra, releaseBound, reps)
		return
	}
	if r.err != nil || r.n != extra {
		t.failf("Write of %d bytes after the deadline was reset, with the peer reading, returned (%d, %v)", extra, r.n, r.err)
		return
	}
	off += r.n
	if err := x.CloseWrite(); err != nil {
		t.failf("CloseWrite returned %v", err)
		return
	}
	rr, ok := awaitCall(rch, releaseBound)
	if !ok {
		t.failf("peer reader did not reach end-of-stream within %v (%d bytes accepted by Write)", releaseBound, off)
		return
	}
	if rr.err != nil || rr.n != off {
		t.failf("peer read %d bytes (error %v), %d were accepted by Write", rr.n, rr.err, off)
		return
	}
	t.p.Settle()
}

// bufferBlockedWrite: the carrier stalls (its Write blocks), small Writes use
// up every write buffer of the multiplexer, and one more Write parks waiting
// for a WRITE BUFFER while its stream still has plenty of send window. It is
// then released like any other blocked Write; a deadline set from another
// goroutine must reach it there too (and SetWriteDeadline itself must return).
// Afterwards, for the deadline releases, the carrier resumes and the stream
// must still carry data: everything accepted arrives in order.
func (t *timingRun) bufferBlockedWrite() {
	c := t.c
	x, y, ok := t.streamsFor()
	if !ok {
		return
	}
	side := c.Side & 1
	window := int(c.Cfg[1-side].window())
	buffers := c.Cfg[side].buffers()
	const block = 256
	const key = 777
	t.p.link.WaitIdle(side, releaseBound)
	t.p.link.Stall(side)
	defer t.p.link.Resume(side)
	off := 0
	chunk := func(n int) []byte {
		b := make([]byte, n)
		fill(b, key, uint64(off))
		return b
	}
	// One Write per write buffer: each is queued behind the stalled carrier.
	for i := 0; i < buffers; i++ {
		r, ok := awaitCall(asyncCall(func() (int, error) { return x.Write(chunk(block)) }), releaseBound)
		if !ok {
			t.failf("Write %d of %d bytes with %d write buffers, stalled carrier and an open send window (%d) did not return within %v", i+1, block, buffers, window, releaseBound)
			return
		}
		if r.err != nil || r.n != block {
			t.failf("Write %d with a free write buffer returned (%d, %v)", i+1, r.n, r.err)
			return
		}
		off += r.n
	}
	preset := c.Release == "deadline-preset"
	var deadline time.Time
	if preset {
		deadline = time.Now().Add(t.pre() + t.dl())
		if err := x.SetWriteDeadline(deadline); err != nil {
			t.failf("SetWriteDeadline on an open stream returned %v", err)
			return
		}
	}
	payload := chunk(block)
	ch := asyncCall(func() (int, error) { return x.Write(payload) })
	t.res.NonTrivial = pendingAfter(ch, t.pre())
	issued := time.Now()
	var extra time.Duration
	if c.Release == "carrier-resumes" {
		t.p.link.Resume(side)
	} else {
		var ok bool
		extra, ok = t.release(x, y, true)
		if !ok {
			return
		}
	}
	if preset && deadline.After(issued) {
		extra = deadline.Sub(issued)
	}
	r, ok := awaitCall(ch, extra+releaseBound)
	if !ok {
		t.failf("Write parked waiting for a write buffer (carrier stalled, %d buffers in flight, send window open) still blocked %v after release %q", buffers, extra+releaseBound, c.Release)
		return
	}
	if r.n < 0 || r.n > block {
		t.failf("Write returned count %d for %d bytes", r.n, block)
		return
	}
	off += r.n
	deadlineRelease := false
	switch c.Release {
	case "carrier-resumes":
		if r.err != nil || r.n != block {
			t.failf("Write released by the carrier resuming returned (%d, %v), want (%d, nil)", r.n, r.err, block)
			return
		}
	case "deadline-preset", "deadline-future", "deadline-past", "deadline-both":
		deadlineRelease = true
		if !isErr(r.err, os.ErrDeadlineExceeded) {
			t.failf("Write parked waiting for a write buffer and released by %q returned (%d, %v), want a deadline error", c.Release, r.n, r.err)
			return
		}
	case "local-close-write":
		if r.err != multiplexing.ErrWriteClosed {
			t.failf("Write released by CloseWrite returned (%d, %v), want ErrWriteClosed", r.n, r.err)
		}
	case "local-close":
		if r.err != multiplexing.ErrWriteClosed && !isErr(r.err, net.ErrClosed) {
			t.failf("Write released by Close returned (%d, %v), want a closed error", r.n, r.err)
		}
	case "peer-close":
		if !isErr(r.err, net.ErrClosed) {
			t.failf("Write released by the peer's Close returned (%d, %v), want a closed error", r.n, r.err)
		}
	case "local-mux-close", "peer-mux-close", "carrier":
		if r.err != multiplexing.ErrMultiplexerClosed {
			t.failf("Write released by %q returned (%d, %v), want ErrMultiplexerClosed", c.Release, r.n, r.err)
		}
	}
	if t.res.Fail != "" || (c.Release != "carrier-resumes" && !deadlineRelease) {
		return
	}
	// The carrier resumes; the stream must still be usable and everything
	// accepted so far must arrive, in order.
	t.p.link.Resume(side)
	if err := x.SetDeadline(time.Time{}); err != nil {
		t.failf("clearing the deadline on an open stream returned %v", err)
		return
	}
	r, ok = awaitCall(asyncCall(func() (int, error) { return x.Write(chunk(100)) }), releaseBound)
	if !ok || r.err != nil || r.n != 100 {
		t.failf("Write of 100 bytes after the carrier resumed and the deadline was cleared: returned=%v (%d, %v)", ok, r.n, r.err)
		return
	}
	off += r.n
	if err := x.CloseWrite(); err != nil {
		t.failf("CloseWrite returned %v", err)
		return
	}
	rr, ok := awaitCall(asyncCall(func() (int, error) {
		buf := make([]byte, 4096)
		got := 0
		for {
			n, err := y.Read(buf)
			if i := mismatch(buf[:n], key, uint64(got)); i >= 0 {
				return got, fmt.Errorf("byte %d differs from what was written", got+i)
			}
			got += n
			if err == io.EOF {
				return got, nil
			}
			if err != nil {
				return got, err
			}
		}
	}), releaseBound)
	if !ok || rr.err != nil || rr.n != off {
		t.failf("after the carrier resumed the peer read %d bytes (returned=%v, error %v), %d were accepted by Write", rr.n, ok, rr.err, off)
	}
}
