package c23_mux

// wire.go: an independent decoder for the multiplexer's wire format (fed by
// the carrier tap) and a sequential, per-direction reference model of the
// protocol. The model restates, from the SENDER's side, the conditions under
// which the receiving multiplexer treats a message as a protocol violation
// (multiplexer.go: read), plus one accounting rule the receiver cannot check
// (a side never acknowledges more bytes than it was sent).
//
// Ordering: every tapped Write carries a global stamp taken before its bytes
// were passed on. A message records the stamp of the Write holding its first
// byte (First) and of the Write holding its last byte (Last). A sender S can
// only have reacted to a message of the peer R if R's message was completely
// written before S started writing its own, i.e. R.Last < S.First. Messages of
// R that do not satisfy this are treated as not (yet) visible to S; since a
// conforming sender only ever reacts to what it actually received, judging it
// against the visible subset is sound.

import (
	"fmt"
)

// Message kinds on the wire (protocol.go).
const (
	kHeartbeat = 0
	kOpen      = 1
	kAccept    = 2
	kData      = 3
	kIncrement = 4
	kCloseW    = 5
	kClose     = 6
)

var kindNames = [...]string{"heartbeat", "open", "accept", "data", "increment", "close-write", "close"}

// Msg is one decoded message.
type Msg struct {
	Dir   int    `json:"dir"`  // sending side
	Kind  int    `json:"kind"` // k*
	ID    uint64 `json:"id"`
	Val   uint64 `json:"val"` // window (open/accept), amount (increment), length (data)
	First uint64 `json:"first"`
	Last  uint64 `json:"last"`
}

func (m Msg) String() string {
	k := "?"
	if m.Kind >= 0 && m.Kind < len(kindNames) {
		k = kindNames[m.Kind]
	}
	switch m.Kind {
	case kHeartbeat:
		return fmt.Sprintf("side%d:%s@%d", m.Dir, k, m.Last)
	case kCloseW, kClose:
		return fmt.Sprintf("side%d:%s(id=%d)@%d-%d", m.Dir, k, m.ID, m.First, m.Last)
	}
	return fmt.Sprintf("side%d:%s(id=%d,%d)@%d-%d", m.Dir, k, m.ID, m.Val, m.First, m.Last)
}

// decoder incrementally parses the byte stream of one direction.
type decoder struct {
	dir     int
	hdr     []byte // header bytes of the message being parsed
	first   uint64 // stamp of the Write holding hdr[0]
	skip    uint64 // payload bytes of cur still to come
	cur     Msg
	msgs    []Msg
	opened  map[uint64]bool // identifiers of completely written open messages
	nonBeat int             // number of non-heartbeat messages
	err     string          // first framing error; decoding stops there
	bytes   uint64
}

// uvarint decodes an unsigned varint from b: (value, length) when complete,
// length 0 when more bytes are needed, length -1 on overflow (more than 64
// bits), mirroring the accepted encodings of encoding/binary without using it.
func uvarint(b []byte) (uint64, int) {
	var x uint64
	var s uint
	for i, c := range b {
		if i == 10 {
			return 0, -1
		}
		if c < 0x80 {
			if i == 9 && c > 1 {
				return 0, -1
			}
			return x | uint64(c)<<s, i + 1
		}
		x |= uint64(c&0x7f) << s
		s += 7
	}
	if len(b) >= 10 {
		return 0, -1
	}
	return 0, 0
}

// feed consumes the bytes of one tapped Write.
func (d *decoder) feed(stamp uint64, p []byte) {
	d.bytes += uint64(len(p))
	for len(p) > 0 && d.err == "" {
		if d.skip > 0 {
			k := uint64(len(p))
			if k > d.skip {
				k = d.skip
			}
			d.skip -= k
			p = p[k:]
			if d.skip == 0 {
				d.cur.Last = stamp
				d.emit(d.cur)
			}
			continue
		}
		if len(d.hdr) == 0 {
			d.first = stamp
		}
		d.hdr = append(d.hdr, p[0])
		p = p[1:]
		d.tryHeader(stamp)
	}
}

func (d *decoder) emit(m Msg) {
	d.msgs = append(d.msgs, m)
	if m.Kind != kHeartbeat {
		d.nonBeat++
	}
	if m.Kind == kOpen {
		if d.opened == nil {
			d.opened = map[uint64]bool{}
		}
		d.opened[m.ID] = true
	}
	d.hdr = d.hdr[:0]
}

// tryHeader attempts to complete the header held in d.hdr.
func (d *decoder) tryHeader(stamp uint64) {
	h := d.hdr
	kind := int(h[0])
	if kind > kClose {
		d.err = fmt.Sprintf("unknown message kind %#02x at byte %d", kind, d.bytes)
		return
	}
	m := Msg{Dir: d.dir, Kind: kind, First: d.first, Last: stamp}
	if kind == kHeartbeat {
		d.emit(m)
		return
	}
	id, n := uvarint(h[1:])
	if n < 0 {
		d.err = "stream identifier varint overflows 64 bits"
		return
	}
	if n == 0 {
		return
	}
	m.ID = id
	rest := h[1+n:]
	switch kind {
	case kCloseW, kClose:
		d.emit(m)
	case kOpen, kAccept, kIncrement:
		v, k := uvarint(rest)
		if k < 0 {
			d.err = fmt.Sprintf("%s value varint overflows 64 bits", kindNames[kind])
			return
		}
		if k == 0 {
			return
		}
		m.Val = v
		d.emit(m)
	case kData:
		if len(rest) < 2 {
			return
		}
		m.Val = uint64(rest[0])<<8 | uint64(rest[1])
		if m.Val == 0 {
			d.emit(m)
			return
		}
		d.cur = m
		d.skip = m.Val
		d.hdr = d.hdr[:0]
	}
}

// sentState is what a sender has sent so far on one stream identifier.
type sentState struct {
	opened, accepted, closedWrite, closed bool
	data, incr                            uint64
}

// seenState is what the peer has sent on one stream identifier and the sender
// can have seen.
type seenState struct {
	opened, accepted   bool
	openWin, acceptWin uint64
	incr, data         uint64
}

// CheckWire judges the decoded traffic of both directions against the
// reference model. evenSide is the side that uses even stream identifiers. It
// returns one description per violated rule instance (at most a few).
func CheckWire(msgs [2][]Msg, evenSide int) []string {
	var out []string
	for s := 0; s < 2; s++ {
		out = append(out, checkSender(s, msgs[s], msgs[1-s], evenSide)...)
	}
	return out
}

func checkSender(s int, own, peer []Msg, evenSide int) []string {
	var out []string
	bad := func(m Msg, format string, args ...any) {
		if len(out) < 5 {
			out = append(out, fmt.Sprintf("%v: ", m)+fmt.Sprintf(format, args...))
		}
	}
	mine := func(id uint64) bool { return (id%2 == 0) == (s == evenSide) }
	sent := map[uint64]*sentState{}
	seen := map[uint64]*seenState{}
	st := func(id uint64) *sentState {
		if sent[id] == nil {
			sent[id] = &sentState{}
		}
		return sent[id]
	}
	sn := func(id uint64) *seenState {
		if seen[id] == nil {
			seen[id] = &seenState{}
		}
		return seen[id]
	}
	var largestOpened uint64
	j := 0
	for _, m := range own {
		// Make visible every peer message completely written before this
		// message was begun.
		for j < len(peer) && peer[j].Last < m.First {
			p := peer[j]
			j++
			if p.Kind == kHeartbeat {
				continue
			}
			v := sn(p.ID)
			switch p.Kind {
			case kOpen:
				v.opened, v.openWin = true, p.Val
			case kAccept:
				v.accepted, v.acceptWin = true, p.Val
			case kIncrement:
				v.incr += p.Val // overflow is judged on the peer's own pass
			case kData:
				v.data += p.Val
			}
		}
		if m.Kind == kHeartbeat {
			continue
		}
		if m.ID == 0 {
			bad(m, "zero stream identifier")
			continue
		}
		isMine := mine(m.ID)
		me, pv := st(m.ID), sn(m.ID)
		// exists: the identifier was introduced by an open message (the
		// sender's own earlier one, or a visible one of the peer).
		exists := isMine && me.opened || !isMine && pv.opened
		switch m.Kind {
		case kOpen:
			if !isMine {
				bad(m, "open uses an identifier of the receiver's parity")
			} else if m.ID <= largestOpened {
				bad(m, "open identifiers not increasing (previous %d)", largestOpened)
			}
			if isMine && m.ID > largestOpened {
				largestOpened = m.ID
			}
			me.opened = true
		case kAccept:
			if isMine {
				bad(m, "accept for an identifier of the sender's own parity")
			} else if !pv.opened {
				bad(m, "accept for a stream the peer had not opened before")
			} else if me.accepted {
				bad(m, "stream accepted twice")
			} else if me.closed {
				bad(m, "stream accepted after the sender closed it")
			}
			me.accepted = true
		case kData:
			established := isMine && pv.accepted || !isMine && me.accepted
			window := pv.acceptWin
			if !isMine {
				window = pv.openWin
			}
			allowed := window + pv.incr
			if allowed < window {
				allowed = ^uint64(0)
			}
			if m.Val == 0 {
				bad(m, "zero-length data")
			} else if !exists {
				bad(m, "data for a stream that was never opened")
			} else if !established {
				bad(m, "data for a stream that is not established")
			} else if me.closedWrite {
				bad(m, "data after close-write")
			} else if me.closed {
				bad(m, "data after close")
			} else if me.data+m.Val > allowed {
				bad(m, "data exceeds the receive window: %d bytes sent before, window %d + increments %d visible", me.data, window, pv.incr)
			}
			me.data += m.Val
		case kIncrement:
			if m.Val == 0 {
				bad(m, "zero window increment")
			} else if !exists {
				bad(m, "increment for a stream that was never opened")
			} else if !isMine && !me.accepted {
				bad(m, "increment for an inbound stream the sender has not accepted")
			} else if me.closed {
				bad(m, "increment after close")
			} else if me.incr+m.Val < me.incr {
				bad(m, "increments overflow 64 bits")
			} else if me.incr+m.Val > pv.data {
				bad(m, "increments (%d) exceed the data received on the stream (%d bytes visible)", me.incr+m.Val, pv.data)
			}
			me.incr += m.Val
		case kCloseW:
			if !exists {
				bad(m, "close-write for a stream that was never opened")
			} else if !isMine && !me.accepted {
				bad(m, "close-write for an inbound stream the sender has not accepted")
			} else if me.closed {
				bad(m, "close-write after close")
			} else if me.closedWrite {
				bad(m, "close-write sent twice")
			}
			me.closedWrite = true
		case kClose:
			if !exists {
				bad(m, "close for a stream that was never opened")
			} else if me.closed {
				bad(m, "close sent twice")
			}
			me.closed = true
		}
	}
	return out
}
