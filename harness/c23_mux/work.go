package c23_mux

// work.go: C23 (and the concurrent half of C24) - a generated concurrent
// workload of many streams over two real multiplexers. Every stream carries,
// in each direction, a pseudo-random byte sequence keyed by the stream's index
// and direction, so loss, duplication, reordering and cross-stream leaks show
// up at the first wrong byte.

import (
	"context"
	"errors"
	"fmt"
	"io"
	"net"
	"os"
	"sync"
	"sync/atomic"
	"time"

	"github.com/mutagen-io/mutagen/pkg/multiplexing"
)

// DirScript drives one direction of one stream: what the writing end writes
// and how the reading end reads.
type DirScript struct {
	Chunks     []int  `json:"chunks"`      // sizes of successive Write calls
	End        string `json:"end"`         // after the chunks: "cw" half-close, "close" full close of the writing end
	Bufs       []int  `json:"bufs"`        // reader buffer sizes (>= 1), cycled
	PauseEvery int    `json:"pause_every"` // reader sleeps PauseUs after every PauseEvery reads (0: never)
	PauseUs    int    `json:"pause_us"`
	StopAfter  int    `json:"stop_after"`             // reader closes its end once it has read this many bytes (< 0: reads to end-of-stream)
	ZeroEvery  int    `json:"zero_every,omitempty"`   // every ZeroEvery-th Read of the reader uses a zero-length buffer (0: never)
	EarlyCw    string `json:"early_cw,omitempty"`     // "delay" | "read": another goroutine half-closes the writing end while the writer may be inside Write
	EarlyCwArg int    `json:"early_cw_arg,omitempty"` // ... after this many microseconds / once the peer's reader has consumed this many bytes
	Kicks      int    `json:"kicks,omitempty"`        // a third goroutine sets a past write deadline on the writing end this many times
	KickUs     int    `json:"kick_us,omitempty"`      // ... this far apart; the writer clears the deadline and carries on
}

// StreamScript is one stream: Dir[0] is written by the opener, Dir[1] by the
// acceptor.
type StreamScript struct {
	Opener  int          `json:"opener"`
	DelayUs int          `json:"delay_us"`
	Dir     [2]DirScript `json:"dir"`
}

// WorkCase is a concurrent workload.
type WorkCase struct {
	Env
	Streams []StreamScript `json:"streams"`
}

// WorkResult is the verdict on one execution.
type WorkResult struct {
	Violation  string
	Stall      bool
	NonTrivial bool
	Classes    []string
	MaxOpen    int
	Bytes      uint64
	CutShort   int // Writes that a concurrent CloseWrite cut short (ErrWriteClosed)
}

// dirState is what was observed on one direction of one stream.
type dirState struct {
	written    atomic.Uint64 // bytes accepted by Write
	wErr       error
	wDone      bool
	read       uint64
	readSoFar  atomic.Uint64 // mirror of read for other goroutines
	rErr       error
	rDone      bool
	badAt      int64 // stream offset of the first wrong byte, -1
	overread   bool
	shortWrite string
}

// endState records which closing calls were started on one end of a stream
// (set before the call, so an effect observed elsewhere is always preceded by
// the flag).
type endState struct {
	st      *multiplexing.Stream
	closing atomic.Bool // Close started
	cwing   atomic.Bool // CloseWrite started
}

type workStream struct {
	idx  int
	sc   *StreamScript
	ends [2]*endState // 0 opener's end, 1 acceptor's end
	dir  [2]*dirState
	id   uint64
}

type workRun struct {
	c        *WorkCase
	p        *Pair
	progress atomic.Uint64
	open     atomic.Int32
	maxOpen  atomic.Int32
	mu       sync.Mutex
	fails    []string
	rv       map[uint64]chan *workStream // rendezvous opener -> acceptor, by (side, id)
}

func (w *workRun) failf(format string, args ...any) {
	w.mu.Lock()
	if len(w.fails) < 8 {
		w.fails = append(w.fails, fmt.Sprintf(format, args...))
	}
	w.mu.Unlock()
}

func (w *workRun) rendezvous(id uint64) chan *workStream {
	w.mu.Lock()
	defer w.mu.Unlock()
	ch := w.rv[id]
	if ch == nil {
		ch = make(chan *workStream, 1)
		w.rv[id] = ch
	}
	return ch
}

// knownConcurrentOpen is the classifier name of the known-finding class "an
// OpenStream call starts on a multiplexer while the open message of another
// OpenStream call on the same multiplexer has not reached the carrier yet".
const knownConcurrentOpen = "concurrent-open-same-side"

// OverlappingOpens tells whether the case belongs to that class: two streams
// opened from the same side with room for both opens to be in flight.
func (c *WorkCase) OverlappingOpens() bool {
	var n [2]int
	for _, s := range c.Streams {
		n[s.Opener&1]++
	}
	for s := 0; s < 2; s++ {
		if n[s] >= 2 && c.Cfg[1-s].backlog() >= 2 {
			return true
		}
	}
	return false
}

// maxReaderPauses bounds the sleeping a reader script can add to a case.
const maxReaderPauses = 20

// JudgeWork executes the workload once. checkWire adds the wire reference
// model (C24) to the verdict. serialOpens excludes the known-finding class
// above by construction: per side, an OpenStream call is only started once the
// open message of the previous one is on the carrier (the calls still overlap
// while they wait for the peer's accept).
func JudgeWork(c *WorkCase, checkWire, serialOpens bool) *WorkResult {
	res := &WorkResult{}
	w := &workRun{c: c, rv: map[uint64]chan *workStream{}}
	w.p = NewPair(c.Env)
	streams := make([]*workStream, len(c.Streams))
	for i := range c.Streams {
		ws := &workStream{idx: i, sc: &c.Streams[i]}
		for k := 0; k < 2; k++ {
			ws.ends[k] = &endState{}
			ws.dir[k] = &dirState{badAt: -1}
		}
		streams[i] = ws
	}

	var wg sync.WaitGroup // every goroutine of the workload
	// Openers: at most "peer backlog" OpenStream calls in flight per side, so
	// no open can legitimately be rejected.
	var sem [2]chan struct{}
	var expect [2]int
	for s := 0; s < 2; s++ {
		sem[s] = make(chan struct{}, c.Cfg[1-s].backlog())
	}
	for _, ws := range streams {
		expect[1-ws.sc.Opener&1]++
	}
	ctx, cancel := context.WithCancel(context.Background())
	defer cancel()
	var openMu [2]sync.Mutex
	var nextID [2]uint64
	for s := 0; s < 2; s++ {
		nextID[s] = 1
		if s == c.Even {
			nextID[s] = 2
		}
	}
	for _, ws := range streams {
		ws := ws
		s := ws.sc.Opener & 1
		wg.Add(1)
		go func() {
			defer wg.Done()
			if ws.sc.DelayUs > 0 {
				time.Sleep(time.Duration(ws.sc.DelayUs) * time.Microsecond)
			}
			sem[s] <- struct{}{}
			var st *multiplexing.Stream
			var err error
			if serialOpens {
				openMu[s].Lock()
				id := nextID[s]
				nextID[s] += 2
				ch := asyncOpen(w.p.mux[s], ctx)
				waitFor(stallBound, func() bool { return w.p.sawOpen(s, id) || ctx.Err() != nil || w.p.Down() != "" })
				openMu[s].Unlock()
				r := <-ch
				st, err = r.st, r.err
			} else {
				st, err = w.p.mux[s].OpenStream(ctx)
			}
			<-sem[s]
			w.progress.Add(1)
			if err != nil {
				if err != multiplexing.ErrMultiplexerClosed && err != context.Canceled {
					w.failf("OpenStream on side %d (stream script %d) returned %v with at most %d opens in flight for a backlog of %d", s, ws.idx, err, cap(sem[s]), cap(sem[s]))
				}
				cancel() // abort: the acceptor would wait for this stream forever
				return
			}
			ws.id = streamID(st)
			ws.ends[0].st = st
			n := w.open.Add(1)
			for {
				m := w.maxOpen.Load()
				if n <= m || w.maxOpen.CompareAndSwap(m, n) {
					break
				}
			}
			w.rendezvous(ws.id) <- ws
			var sg sync.WaitGroup
			sg.Add(2)
			go func() { defer sg.Done(); w.writer(ws, 0) }()
			go func() { defer sg.Done(); w.reader(ws, 0) }()
			sg.Wait()
		}()
	}
	// Acceptors.
	for s := 0; s < 2; s++ {
		s := s
		if expect[s] == 0 {
			continue
		}
		wg.Add(1)
		go func() {
			defer wg.Done()
			for k := 0; k < expect[s]; k++ {
				st, err := w.p.mux[s].AcceptStream(ctx)
				w.progress.Add(1)
				if err != nil {
					if err != multiplexing.ErrMultiplexerClosed && err != context.Canceled {
						w.failf("AcceptStream on side %d returned %v", s, err)
					}
					return
				}
				id := streamID(st)
				wg.Add(1)
				go func() {
					defer wg.Done()
					var ws *workStream
					select {
					case ws = <-w.rendezvous(id):
					case <-ctx.Done():
						return
					}
					ws.ends[1].st = st
					var sg sync.WaitGroup
					sg.Add(2)
					go func() { defer sg.Done(); w.writer(ws, 1) }()
					go func() { defer sg.Done(); w.reader(ws, 1) }()
					sg.Wait()
					w.open.Add(-1)
				}()
			}
		}()
	}

	// Progress watchdog: the workload is stalled when no call returned for
	// stallBound.
	done := make(chan struct{})
	go func() { wg.Wait(); close(done) }()
	last, lastChange := w.progress.Load(), time.Now()
	tick := time.NewTicker(50 * time.Millisecond)
	stalled := false
wait:
	for {
		select {
		case <-done:
			break wait
		case <-tick.C:
			if p := w.progress.Load(); p != last {
				last, lastChange = p, time.Now()
			} else if time.Since(lastChange) > stallBound {
				stalled = true
				break wait
			}
			if w.p.Down() != "" {
				// Torn down: everything returns ErrMultiplexerClosed shortly.
				select {
				case <-done:
				case <-time.After(stallBound):
					stalled = true
				}
				break wait
			}
		}
	}
	tick.Stop()
	if !stalled {
		w.p.Settle()
	}
	down := w.p.Down()
	var wire []string
	if checkWire {
		wire = w.p.WireVerdict()
	}
	cancel()
	w.p.Close()
	if stalled {
		select {
		case <-done:
		case <-time.After(5 * time.Second):
		}
	}

	// Verdict.
	switch {
	case down != "":
		res.Violation = "connection torn down although the test closed nothing: " + down
	case stalled:
		res.Stall = true
		res.Violation = fmt.Sprintf("workload made no progress for %v: %s", stallBound, w.describeStall(streams))
	default:
		for _, ws := range streams {
			if v := w.judgeStream(ws); v != "" {
				res.Violation = v
				break
			}
		}
		if res.Violation == "" && len(w.fails) > 0 {
			res.Violation = w.fails[0]
		}
	}
	if len(wire) > 0 {
		msg := "wire protocol violated: " + wire[0]
		if res.Violation == "" || res.Stall {
			res.Violation, res.Stall = msg, false
		} else {
			res.Violation += " || " + msg
		}
	}
	// Classes / non-trivial rule.
	res.MaxOpen = int(w.maxOpen.Load())
	largest := 0
	for _, ws := range streams {
		for k := 0; k < 2; k++ {
			res.Bytes += ws.dir[k].read
			for _, n := range ws.sc.Dir[k].Chunks {
				largest = max(largest, n)
			}
		}
	}
	for _, ws := range streams {
		for k := 0; k < 2; k++ {
			if ws.sc.Dir[k].EarlyCw != "" && ws.dir[k].wErr == multiplexing.ErrWriteClosed {
				res.CutShort++
			}
		}
	}
	if res.CutShort > 0 {
		res.Classes = append(res.Classes, "write-cut-short-by-close-write")
	}
	minWin := min(c.Cfg[0].window(), c.Cfg[1].window())
	smallWindow := uint64(largest) > minWin
	if res.MaxOpen >= 3 {
		res.Classes = append(res.Classes, "concurrent>=3")
	}
	if smallWindow {
		res.Classes = append(res.Classes, "window<largest-write")
	}
	res.NonTrivial = res.MaxOpen >= 3 && smallWindow && res.Bytes > 0
	return res
}

func (w *workRun) describeStall(streams []*workStream) string {
	out := ""
	for _, ws := range streams {
		for k := 0; k < 2; k++ {
			d := ws.dir[k]
			if !d.wDone || !d.rDone {
				out += fmt.Sprintf("[stream script %d id %d dir %d: written %d read %d writer done=%v reader done=%v] ", ws.idx, ws.id, k, d.written.Load(), d.read, d.wDone, d.rDone)
			}
		}
	}
	if out == "" {
		out = "(open/accept phase)"
	}
	return out
}

// writer runs the writing half of direction k (k = index of the writing end).
func (w *workRun) writer(ws *workStream, k int) {
	sc, d, e := &ws.sc.Dir[k], ws.dir[k], ws.ends[k]
	key := contentKey(ws.idx, k)
	// Deadline kicker: past write deadlines arrive from another goroutine
	// while the writer may be blocked (on send window or on a write buffer).
	stopKicks := make(chan struct{})
	kicksDone := make(chan struct{})
	go func() {
		defer close(kicksDone)
		for i := 0; i < sc.Kicks; i++ {
			select {
			case <-stopKicks:
				return
			case <-time.After(time.Duration(max(sc.KickUs, 1)) * time.Microsecond):
			}
			e.st.SetWriteDeadline(time.Now().Add(-time.Second))
			w.progress.Add(1)
		}
	}()
	// Concurrent half-close: CloseWrite arrives from another goroutine while
	// the writer may be in the middle of a Write (blocked on the window or
	// between two data messages). The Write then returns a short count with
	// ErrWriteClosed; the bytes it reported must all reach the peer before
	// end-of-stream.
	closerDone := make(chan struct{})
	go func() {
		defer close(closerDone)
		switch sc.EarlyCw {
		case "delay":
			select {
			case <-stopKicks:
				return
			case <-time.After(time.Duration(max(sc.EarlyCwArg, 0)) * time.Microsecond):
			}
		case "read":
			for d.readSoFar.Load() < uint64(max(sc.EarlyCwArg, 0)) {
				select {
				case <-stopKicks:
					return
				case <-time.After(50 * time.Microsecond):
				}
			}
		default:
			return
		}
		e.cwing.Store(true)
		e.st.CloseWrite()
		w.progress.Add(1)
	}()
	var buf []byte
	off := uint64(0)
	expiries := 0
chunks:
	for _, n := range sc.Chunks {
		if n < 0 {
			n = 0
		}
		if cap(buf) < n {
			buf = make([]byte, n)
		}
		b := buf[:n]
		fill(b, key, off)
		for {
			got, err := e.st.Write(b)
			w.progress.Add(1)
			if got < 0 || got > len(b) {
				d.shortWrite = fmt.Sprintf("Write(%d bytes) returned count %d", len(b), got)
				got = 0
			}
			if err == nil && got != len(b) {
				d.shortWrite = fmt.Sprintf("Write(%d bytes) returned %d without an error", len(b), got)
			}
			off += uint64(got)
			d.written.Store(off)
			b = b[got:]
			if err == nil {
				break
			}
			// A kick expired the deadline: clear it and carry on with the
			// rest of the chunk. Every kick can cause at most one expiry.
			if errors.Is(err, os.ErrDeadlineExceeded) && expiries < sc.Kicks {
				expiries++
				cerr := e.st.SetWriteDeadline(time.Time{})
				if cerr == nil {
					continue
				}
				// Closed for writing meanwhile (Close of this end by its
				// reader): that is the terminal condition to report.
				err = cerr
			}
			d.wErr = err
			break chunks
		}
	}
	close(stopKicks)
	<-kicksDone
	<-closerDone
	if sc.End == "close" {
		e.closing.Store(true)
		e.st.Close()
	} else {
		e.cwing.Store(true)
		e.st.CloseWrite()
	}
	w.progress.Add(1)
	d.wDone = true
}

// reader runs the reading half of direction 1-k at end k: end k reads what end
// 1-k writes.
func (w *workRun) reader(ws *workStream, k int) {
	dirIdx := 1 - k
	sc, d, e := &ws.sc.Dir[dirIdx], ws.dir[dirIdx], ws.ends[k]
	key := contentKey(ws.idx, dirIdx)
	maxBuf := 1
	for _, b := range sc.Bufs {
		maxBuf = max(maxBuf, b)
	}
	buf := make([]byte, maxBuf)
	reads, pauses := 0, 0
	for {
		n := 1
		if len(sc.Bufs) > 0 {
			n = max(1, sc.Bufs[reads%len(sc.Bufs)])
		}
		if sc.ZeroEvery > 0 && reads%sc.ZeroEvery == sc.ZeroEvery-1 {
			// A zero-length read: returns (0, nil) or a documented error and
			// is judged like any other read (it must not disturb delivery).
			n = 0
		}
		got, err := e.st.Read(buf[:n])
		w.progress.Add(1)
		reads++
		if got < 0 || got > n {
			d.overread = true
			got = 0
		}
		if got > 0 {
			if i := mismatch(buf[:got], key, d.read); i >= 0 && d.badAt < 0 {
				d.badAt = int64(d.read) + int64(i)
			}
			d.read += uint64(got)
			d.readSoFar.Store(d.read)
		}
		if err != nil {
			d.rErr = err
			break
		}
		if sc.StopAfter >= 0 && d.read >= uint64(sc.StopAfter) {
			e.closing.Store(true)
			e.st.Close()
			w.progress.Add(1)
			break
		}
		if sc.PauseEvery > 0 && reads%sc.PauseEvery == 0 && sc.PauseUs > 0 && pauses < maxReaderPauses {
			pauses++
			time.Sleep(time.Duration(sc.PauseUs) * time.Microsecond)
		}
	}
	d.rDone = true
}

// judgeStream states C23 for one finished stream.
func (w *workRun) judgeStream(ws *workStream) string {
	if ws.ends[0].st == nil {
		return "" // open failed; reported separately
	}
	if ws.ends[1].st == nil {
		return fmt.Sprintf("stream script %d (id %d) was opened but never handed to the acceptor", ws.idx, ws.id)
	}
	for k := 0; k < 2; k++ {
		d := ws.dir[k]
		wEnd, rEnd := ws.ends[k], ws.ends[1-k]
		name := fmt.Sprintf("stream script %d (id %d), bytes written by the %s", ws.idx, ws.id, [2]string{"opener", "acceptor"}[k])
		written := d.written.Load()
		if d.shortWrite != "" {
			return name + ": " + d.shortWrite
		}
		if d.overread {
			return name + ": Read returned a count outside its buffer"
		}
		if d.badAt >= 0 {
			return fmt.Sprintf("%s: byte at stream offset %d read by the peer differs from what was written (%d written, %d read)", name, d.badAt, written, d.read)
		}
		if d.read > written {
			return fmt.Sprintf("%s: peer read %d bytes, only %d were written", name, d.read, written)
		}
		wClosed := wEnd.closing.Load()
		wHalf := wEnd.cwing.Load()
		rClosed := rEnd.closing.Load()
		// Reader's outcome.
		switch {
		case d.rErr == nil:
			// stopped by StopAfter
		case d.rErr == io.EOF:
			if !wClosed && !wHalf {
				return name + ": reader saw end-of-stream although the writer neither half-closed nor closed"
			}
			if d.read != written {
				return fmt.Sprintf("%s: reader saw end-of-stream after %d bytes, %d were written before the close", name, d.read, written)
			}
		case errors.Is(d.rErr, net.ErrClosed):
			if !rClosed {
				return fmt.Sprintf("%s: Read returned %v although the reading end was never closed", name, d.rErr)
			}
		default:
			return fmt.Sprintf("%s: Read returned undocumented error %v", name, d.rErr)
		}
		// Writer's outcome.
		total := uint64(0)
		for _, n := range ws.sc.Dir[k].Chunks {
			total += uint64(max(n, 0))
		}
		switch {
		case d.wErr == nil:
			if written != total {
				return fmt.Sprintf("%s: all writes succeeded but only %d of %d bytes were counted", name, written, total)
			}
		case d.wErr == multiplexing.ErrWriteClosed:
			// The writer half-closes only after its last Write; a concurrent
			// Close of the same end (by its reader) closes writing first.
			if !wClosed && ws.sc.Dir[k].EarlyCw == "" {
				return fmt.Sprintf("%s: Write returned %v before the writer half-closed", name, d.wErr)
			}
		case errors.Is(d.wErr, net.ErrClosed):
			if !wClosed && !rClosed {
				return fmt.Sprintf("%s: Write returned %v although neither end was closed", name, d.wErr)
			}
		default:
			return fmt.Sprintf("%s: Write returned undocumented error %v", name, d.wErr)
		}
		// Completeness: every byte a Write call reported as written (also the
		// short count of a Write cut off by a concurrent CloseWrite or Close)
		// precedes the writer's half-close or close on the wire. So if the
		// reading end was never closed, the reader must have received exactly
		// those bytes and then end-of-stream.
		if !rClosed {
			if d.rErr != io.EOF || d.read != written {
				return fmt.Sprintf("%s: the reading end was never closed, yet the reader ended with %v after %d bytes while the Write calls reported %d bytes written (writer's last error: %v)", name, d.rErr, d.read, written, d.wErr)
			}
		}
	}
	return ""
}
