package c26_ring

import (
	"fmt"
	"os"
	"sync/atomic"
	"time"

	"verif/kit/ev"
)

// A buffer operation that loops forever inside the package under test cannot
// be interrupted from outside, so the tests would only ever end in the
// driver's timeout (no verdict). The watchdog below turns such a hang into a
// violation with a replayable case.
//
// It is the only timing-dependent verdict of this check and follows the
// harness rule for those: the bound is generous (one case costs well under a
// millisecond; a slot must show no progress for hangLimit), and the same case
// is re-executed two more times in fresh goroutines; only if every execution
// fails to finish is a violation reported, otherwise the run is inconclusive.
const (
	hangLimit   = 90 * time.Second
	hangConfirm = 45 * time.Second
)

// slot is the progress report of one executing goroutine.
type slot struct {
	beats atomic.Uint64
	cur   atomic.Pointer[Case]
	_     [48]byte // keep slots on separate cache lines
}

func (s *slot) enter(c *Case) { s.cur.Store(c) }
func (s *slot) beat()         { s.beats.Add(1) }
func (s *slot) leave()        { s.cur.Store(nil) }

// watch supervises the slots until the returned function is called.
func watch(rec *ev.Recorder, slots []*slot) (stop func()) {
	done := make(chan struct{})
	go func() {
		last := make([]uint64, len(slots))
		since := make([]time.Time, len(slots))
		now := time.Now()
		for i := range since {
			since[i] = now
		}
		tick := time.NewTicker(time.Second)
		defer tick.Stop()
		for {
			select {
			case <-done:
				return
			case now = <-tick.C:
			}
			for i, s := range slots {
				b, c := s.beats.Load(), s.cur.Load()
				if c == nil || b != last[i] {
					last[i], since[i] = b, now
					continue
				}
				if now.Sub(since[i]) > hangLimit {
					hung(rec, c)
				}
			}
		}
	}()
	return func() { close(done) }
}

// finishes runs the case in a fresh goroutine and tells whether it ended
// within d.
func finishes(c *Case, d time.Duration) bool {
	ended := make(chan struct{})
	go func() {
		defer close(ended)
		var r runner
		r.judge(c)
	}()
	select {
	case <-ended:
		return true
	case <-time.After(d):
		return false
	}
}

// hung is called when a goroutine made no progress on case c for hangLimit.
// It never returns: the stuck goroutine cannot be stopped, so the process
// exits after reporting.
func hung(rec *ev.Recorder, c *Case) {
	// The executing goroutine is stuck, so its case is stable; copy it anyway.
	cp := &Case{Cap: c.Cap, Ops: append([]Op{}, c.Ops...)}
	for i := 0; i < 2; i++ {
		if finishes(cp, hangConfirm) {
			ev.Inconclusive("a case made no progress for %v but finished when re-executed: %s", hangLimit, short(cp))
			os.Stdout.Sync()
			os.Exit(3)
		}
	}
	msg := rec.Violation(cp, "%s | the operation sequence does not terminate (no progress for %v, and for %v in each of two fresh re-executions)", short(cp), hangLimit, hangConfirm)
	fmt.Println("FAIL: " + msg)
	os.Stdout.Sync()
	os.Exit(1)
}
