// Package c26_ring checks C26: pkg/multiplexing/ring.Buffer behaves as a
// bounded FIFO byte queue under every sequence of byte-, slice- and
// reader/writer-based operations.
//
// The oracle is a slice-backed queue (append at the tail, reslice at the
// head) that knows nothing about start indices or modular arithmetic. The
// scripted reader and writer are defined by *stream positions* (error after so
// many bytes, error together with or after the last byte), never by call
// counts, so the expected outcome of ReadNFrom / WriteTo does not depend on
// how the buffer happens to lay out its storage.
package c26_ring

import (
	"bytes"
	"errors"
	"fmt"
	"io"

	"github.com/mutagen-io/mutagen/pkg/multiplexing/ring"
)

// Kind is an operation kind.
type Kind uint8

const (
	KWrite     Kind = iota // Write(N bytes)
	KWriteByte             // WriteByte
	KRead                  // Read(N-byte destination)
	KReadByte              // ReadByte
	KReadNFrom             // ReadNFrom(scripted reader, N)
	KWriteTo               // WriteTo(scripted writer)
	KReset                 // Reset
)

var kindNames = []string{"Write", "WriteByte", "Read", "ReadByte", "ReadNFrom", "WriteTo", "Reset"}

func (k Kind) MarshalText() ([]byte, error) { return []byte(kindNames[k]), nil }
func (k *Kind) UnmarshalText(b []byte) error {
	for i, n := range kindNames {
		if n == string(b) {
			*k = Kind(i)
			return nil
		}
	}
	return fmt.Errorf("unknown op kind %q", b)
}

// Error kinds of the scripted peers.
const (
	ErrEOF    = 0 // io.EOF (reader) / io.ErrShortWrite (writer)
	ErrCustom = 1 // a private sentinel
)

var (
	errSource = errors.New("scripted reader failure")
	errSink   = errors.New("scripted writer failure")
)

// Op is one operation. Fields that a kind does not use are zero.
type Op struct {
	K Kind `json:"op"`
	// N is the byte count: data length (Write), destination length (Read),
	// requested count (ReadNFrom).
	N int `json:"n"`
	// Avail (ReadNFrom) is the number of bytes the reader delivers before it
	// reports its error; negative means the reader never fails. Limit
	// (WriteTo) is the number of bytes the writer accepts before it reports
	// its error; negative means it never fails.
	Avail int `json:"avail,omitempty"`
	Limit int `json:"limit,omitempty"`
	// Err selects the peer's error (ErrEOF / ErrCustom).
	Err int `json:"err,omitempty"`
	// Eager: the peer reports its error together with the call that transfers
	// the last byte before the failure position (reader: (k, err) with k > 0;
	// writer: (len(p), err)) instead of on the following call.
	Eager bool `json:"eager,omitempty"`
	// Chunk (ReadNFrom) bounds the bytes returned per Read call (0 = no
	// bound): a short-reading peer that still always makes progress.
	Chunk int `json:"chunk,omitempty"`
}

func (o Op) String() string {
	switch o.K {
	case KWrite, KRead:
		return fmt.Sprintf("%s(%d)", kindNames[o.K], o.N)
	case KReadNFrom:
		s := fmt.Sprintf("ReadNFrom(n=%d", o.N)
		if o.Avail >= 0 {
			s += fmt.Sprintf(",reader fails after %d bytes err=%d eager=%v", o.Avail, o.Err, o.Eager)
		}
		if o.Chunk > 0 {
			s += fmt.Sprintf(",chunk=%d", o.Chunk)
		}
		return s + ")"
	case KWriteTo:
		if o.Limit < 0 {
			return "WriteTo(all)"
		}
		return fmt.Sprintf("WriteTo(writer fails after %d bytes err=%d eager=%v)", o.Limit, o.Err, o.Eager)
	}
	return kindNames[o.K]
}

// Case is what replay files hold: a capacity and an operation sequence.
type Case struct {
	Cap int  `json:"capacity"`
	Ops []Op `json:"ops"`
}

func (c *Case) Render() string {
	s := fmt.Sprintf("cap=%d:", c.Cap)
	for _, o := range c.Ops {
		s += " " + o.String()
	}
	return s
}

// Info bits describe what a run exercised (classes / non-trivial rule).
const (
	IWrap        uint32 = 1 << iota // data wrapped around the end of storage
	IFull                           // ErrBufferFull was the expected result of some op
	IEmptyEOF                       // io.EOF expected from Read/ReadByte on empty buffer
	IReaderErr                      // the scripted reader's error was expected to surface
	IReaderEOFOK                    // reader EOF coincided with completion (expected nil)
	IReaderShort                    // a chunked (short-reading) reader delivered >= 2 bytes
	IWriterErr                      // the scripted writer's error was expected to surface
	IWriterSplit                    // WriteTo of wrapped data (two segments)
	IResetData                      // Reset of a non-empty buffer
	IPartial                        // a Write / ReadNFrom was cut short by capacity with > 0 bytes stored
	infoBits     = 10
)

var infoNames = []string{"wrap", "buffer-full", "empty-eof", "reader-error", "reader-eof-at-completion",
	"short-reader", "writer-error", "writeto-wrapped", "reset-nonempty", "partial-store"}

// pattern is the source of payload bytes: the byte at stream position p is
// pattern[p%251] (251 is prime, so no power-of-two or small capacity divides
// the period and any shift, duplication or loss of bytes changes the data).
const period = 251

var pattern []byte

func patternFor(n int) []byte {
	if len(pattern) < n+period {
		p := make([]byte, 2*n+2*period)
		for i := range p {
			p[i] = byte(i % period)
		}
		pattern = p
	}
	return pattern
}

func init() { patternFor(1 << 18) }

// payload returns n bytes starting at stream position pos. The result aliases
// the shared pattern and must not be modified.
func payload(pos uint64, n int) []byte {
	off := int(pos % period)
	return pattern[off : off+n]
}

// scriptReader is the io.Reader handed to ReadNFrom. Its behaviour depends on
// the position in its stream only. It always makes progress or returns an
// error.
type scriptReader struct {
	base   uint64 // stream position of its first byte
	pos    int    // bytes delivered
	avail  int    // bytes before the failure; < 0: never fails
	err    error
	eager  bool
	chunk  int
	calls  int
	zero   int // calls with an empty destination
	maxLen int // largest destination seen
}

func (r *scriptReader) Read(p []byte) (int, error) {
	r.calls++
	if r.calls > 1<<20 {
		panic("harness: ReadNFrom made more than 2^20 Read calls in one operation (no progress)")
	}
	if len(p) > r.maxLen {
		r.maxLen = len(p)
	}
	if len(p) == 0 {
		r.zero++
		return 0, nil
	}
	k := len(p)
	if r.chunk > 0 && k > r.chunk {
		k = r.chunk
	}
	if r.avail >= 0 {
		left := r.avail - r.pos
		if left == 0 {
			return 0, r.err
		}
		if k > left {
			k = left
		}
	}
	copy(p, payload(r.base+uint64(r.pos), k))
	r.pos += k
	if r.avail >= 0 && r.pos == r.avail && r.eager {
		return k, r.err
	}
	return k, nil
}

// scriptWriter is the io.Writer handed to WriteTo. It honours io.Writer's
// contract: a short count always comes with an error.
type scriptWriter struct {
	limit int // bytes accepted before the failure; < 0: never fails
	err   error
	eager bool
	got   []byte
	calls int
	empty int // calls with an empty source
}

func (w *scriptWriter) Write(p []byte) (int, error) {
	w.calls++
	if w.calls > 1<<20 {
		panic("harness: WriteTo made more than 2^20 Write calls in one operation (no progress)")
	}
	if len(p) == 0 {
		w.empty++
	}
	if w.limit < 0 {
		w.got = append(w.got, p...)
		return len(p), nil
	}
	left := w.limit - len(w.got)
	if len(p) > left {
		w.got = append(w.got, p[:left]...)
		return left, w.err
	}
	w.got = append(w.got, p...)
	if w.eager && len(w.got) == w.limit {
		return len(p), w.err
	}
	return len(p), nil
}

// runner executes a case step by step against the real buffer and the model.
type runner struct {
	b   *ring.Buffer
	cap int
	// q is the model: the queued bytes, oldest first.
	q []byte
	// src is the stream position of the next payload byte offered to the
	// buffer (through Write, WriteByte or a reader).
	src uint64
	// start is a shadow of where the documented algorithm keeps the oldest
	// byte. It is used for classification (did the data wrap?) only, never
	// for a verdict.
	start int
	info  uint32
	step  int

	store []byte // reusable backing for q
	dst   []byte // reusable Read destination
	rd    scriptReader
	wr    scriptWriter
}

func (r *runner) begin(capacity int) {
	r.b = ring.NewBuffer(capacity)
	r.cap = max(capacity, 0)
	if r.store == nil {
		r.store = make([]byte, 0, 256)
	}
	r.q = r.store[:0]
	r.src, r.start, r.info, r.step = 0, 0, 0, 0
}

func peerErr(kind int, reader bool) error {
	if kind == ErrCustom {
		if reader {
			return errSource
		}
		return errSink
	}
	if reader {
		return io.EOF
	}
	return io.ErrShortWrite
}

func (r *runner) consumed(k int) {
	if r.cap > 0 {
		r.start = (r.start + k) % r.cap
	}
	if len(r.q) == 0 {
		r.start = 0
	}
}

// do executes one operation on both sides and returns a violation message or
// "".
func (r *runner) do(o Op) string {
	r.step++
	free := r.cap - len(r.q)
	switch o.K {
	case KWrite:
		if o.N < 0 {
			return "harness: negative Write length"
		}
		patternFor(o.N)
		data := payload(r.src, o.N)
		r.src += uint64(o.N)
		wantN := min(o.N, free)
		var wantErr error
		if wantN < o.N {
			wantErr = ring.ErrBufferFull
			r.info |= IFull
			if wantN > 0 {
				r.info |= IPartial
			}
		}
		n, err := r.b.Write(data)
		r.q = append(r.q, data[:wantN]...)
		if n != wantN || err != wantErr {
			return fmt.Sprintf("Write(%d bytes) with %d free returned (%d, %v), bounded FIFO gives (%d, %v)", o.N, free, n, err, wantN, wantErr)
		}
	case KWriteByte:
		v := payload(r.src, 1)[0]
		r.src++
		var wantErr error
		if free == 0 {
			wantErr = ring.ErrBufferFull
			r.info |= IFull
		} else {
			r.q = append(r.q, v)
		}
		if err := r.b.WriteByte(v); err != wantErr {
			return fmt.Sprintf("WriteByte with %d free returned %v, bounded FIFO gives %v", free, err, wantErr)
		}
	case KRead:
		if o.N < 0 {
			return "harness: negative Read length"
		}
		if cap(r.dst) < o.N+1 {
			r.dst = make([]byte, 2*o.N+16)
		}
		// (io.Reader allows Read to scribble over all of the destination,
		// so nothing is demanded of dst[n:].)
		dst := r.dst[:o.N+1]
		used := len(r.q)
		wantN := min(o.N, used)
		var wantErr error
		if o.N > 0 && used == 0 {
			wantErr = io.EOF
			r.info |= IEmptyEOF
		}
		n, err := r.b.Read(dst[:o.N:o.N])
		want := r.q[:wantN]
		r.q = r.q[wantN:]
		r.consumed(wantN)
		if n != wantN || err != wantErr {
			return fmt.Sprintf("Read(%d-byte destination) with %d queued returned (%d, %v), bounded FIFO gives (%d, %v)", o.N, used, n, err, wantN, wantErr)
		}
		if !bytes.Equal(dst[:n], want) {
			return fmt.Sprintf("Read(%d) returned bytes %v, the oldest queued bytes are %v", o.N, clip(dst[:n]), clip(want))
		}
	case KReadByte:
		var wantV byte
		var wantErr error
		if len(r.q) == 0 {
			wantErr = io.EOF
			r.info |= IEmptyEOF
		} else {
			wantV = r.q[0]
			r.q = r.q[1:]
			r.consumed(1)
		}
		v, err := r.b.ReadByte()
		if err != wantErr || (err == nil && v != wantV) {
			return fmt.Sprintf("ReadByte returned (%d, %v), bounded FIFO gives (%d, %v)", v, err, wantV, wantErr)
		}
	case KReadNFrom:
		return r.readNFrom(o, free)
	case KWriteTo:
		return r.writeTo(o)
	case KReset:
		if len(r.q) > 0 {
			r.info |= IResetData
		}
		r.b.Reset()
		r.q = r.q[:0]
		r.start = 0
	default:
		return "harness: unknown op"
	}
	return ""
}

func (r *runner) readNFrom(o Op, free int) string {
	if o.N < 0 {
		return "harness: negative ReadNFrom count"
	}
	patternFor(o.N)
	r.rd = scriptReader{base: r.src, avail: o.Avail, err: peerErr(o.Err, true), eager: o.Eager, chunk: o.Chunk}
	if o.Avail < 0 {
		r.rd.avail = -1
	}
	// Expected outcome, from positions only. d bytes are transferred: as many
	// as requested, as fit, and as the reader has before its failure.
	d := min(o.N, free)
	atFailure := false
	if o.Avail >= 0 && o.Avail <= d {
		d = o.Avail
		atFailure = true
	}
	rem := o.N - d           // still requested after d bytes
	full := free-d == 0      // no room after d bytes
	asked := o.N > 0 && free > 0 // the reader is consulted at all
	var wantErr error
	surfaced := false
	if atFailure && asked {
		if o.Eager && d > 0 {
			// The call that delivered the last byte carried the error.
			surfaced = true
		} else {
			// The error is only seen by a further call, which happens only if
			// more is requested and there is room for it.
			surfaced = rem > 0 && !full
		}
	}
	switch {
	case surfaced:
		wantErr = r.rd.err
		if wantErr == io.EOF && rem == 0 {
			wantErr = nil
			r.info |= IReaderEOFOK
		} else {
			r.info |= IReaderErr
		}
	case rem > 0 && full:
		wantErr = ring.ErrBufferFull
		r.info |= IFull
		if d > 0 {
			r.info |= IPartial
		}
	}
	if o.Chunk > 0 && d >= 2 && o.Chunk < d {
		r.info |= IReaderShort
	}
	n, err := r.b.ReadNFrom(&r.rd, o.N)
	r.q = append(r.q, payload(r.src, d)...)
	r.src += uint64(max(d, r.rd.pos))
	if n != d || err != wantErr {
		return fmt.Sprintf("%s with %d free returned (%d, %v), bounded FIFO gives (%d, %v)", o, free, n, err, d, wantErr)
	}
	if r.rd.pos != d {
		return fmt.Sprintf("%s with %d free reported %d bytes but consumed %d from the reader", o, free, n, r.rd.pos)
	}
	return ""
}

func (r *runner) writeTo(o Op) string {
	used := len(r.q)
	r.wr = scriptWriter{limit: o.Limit, err: peerErr(o.Err, false), eager: o.Eager, got: r.wr.got[:0]}
	if o.Limit < 0 {
		r.wr.limit = -1
	}
	acc := used
	var wantErr error
	if o.Limit >= 0 && used > 0 {
		if o.Limit < used {
			acc = o.Limit
			wantErr = r.wr.err
		} else if o.Limit == used && o.Eager {
			wantErr = r.wr.err
		}
	}
	if wantErr != nil {
		r.info |= IWriterErr
	}
	if acc > 0 && r.start+acc > r.cap {
		r.info |= IWriterSplit
	}
	n, err := r.b.WriteTo(&r.wr)
	want := r.q[:acc]
	r.q = r.q[acc:]
	r.consumed(acc)
	if n != int64(acc) || err != wantErr {
		return fmt.Sprintf("%s with %d queued returned (%d, %v), bounded FIFO gives (%d, %v)", o, used, n, err, acc, wantErr)
	}
	if !bytes.Equal(r.wr.got, want) {
		return fmt.Sprintf("%s with %d queued delivered %v to the writer, the oldest queued bytes are %v", o, used, clip(r.wr.got), clip(want))
	}
	return ""
}

// observe compares the accounting accessors with the model and updates the
// classification.
func (r *runner) observe(o Op) string {
	used := len(r.q)
	if r.b.Used() != used || r.b.Free() != r.cap-used || r.b.Size() != r.cap {
		return fmt.Sprintf("after %s: Used/Free/Size = %d/%d/%d, bounded FIFO has %d/%d/%d", o, r.b.Used(), r.b.Free(), r.b.Size(), used, r.cap-used, r.cap)
	}
	if r.start+used > r.cap {
		r.info |= IWrap
	}
	return ""
}

// drain empties the buffer through Read and compares everything that was
// still queued (reveals state that the sequence itself did not look at).
func (r *runner) drain() string {
	used := len(r.q)
	if cap(r.dst) < used+1 {
		r.dst = make([]byte, 2*used+16)
	}
	dst := r.dst[:used+1]
	n, err := r.b.Read(dst)
	var wantErr error
	if used == 0 {
		wantErr = io.EOF
	}
	if n != used || err != wantErr || !bytes.Equal(dst[:n], r.q) {
		return fmt.Sprintf("final drain Read(%d) returned (%d, %v) %v, bounded FIFO still holds %d bytes %v", used+1, n, err, clip(dst[:max(n, 0)]), used, clip(r.q))
	}
	if r.b.Used() != 0 || r.b.Free() != r.cap {
		return fmt.Sprintf("after the final drain Used/Free = %d/%d, want 0/%d", r.b.Used(), r.b.Free(), r.cap)
	}
	return ""
}

func clip(b []byte) string {
	if len(b) <= 24 {
		return fmt.Sprint(b)
	}
	return fmt.Sprintf("%v...(%d bytes)...%v", b[:8], len(b), b[len(b)-8:])
}

// stepSafe runs do+observe, turning a panic in the buffer into a violation.
func (r *runner) stepSafe(o Op) (viol string) {
	defer func() {
		if p := recover(); p != nil {
			viol = fmt.Sprintf("panic in step %d %s: %v", r.step, o, p)
		}
	}()
	if v := r.do(o); v != "" {
		return fmt.Sprintf("step %d: %s", r.step, v)
	}
	if v := r.observe(o); v != "" {
		return fmt.Sprintf("step %d: %s", r.step, v)
	}
	return ""
}

func (r *runner) drainSafe() (viol string) {
	defer func() {
		if p := recover(); p != nil {
			viol = fmt.Sprintf("panic in the final drain: %v", p)
		}
	}()
	return r.drain()
}

// judge runs a whole case. The verdict is a pure function of the case.
func (r *runner) judge(c *Case) (violation string, info uint32) {
	r.begin(c.Cap)
	for _, o := range c.Ops {
		if v := r.stepSafe(o); v != "" {
			return v, r.info
		}
	}
	return r.drainSafe(), r.info
}
