package c26_ring

import (
	"fmt"
	"runtime"
	"sync"
	"testing"

	"pgregory.net/rapid"

	"verif/kit/ev"
)

const prop = "C26"

const ntRule = "non-trivial: at some point of the sequence the queued data wraps around the end of storage (oldest byte's index + bytes queued > capacity)"

// alphabets returns, for capacity c, the core alphabet a1 and the extended
// peer alphabet a2. Byte counts range over 0..c+1 (one more than fits).
//
// a1: Write(n), Read(n), ReadNFrom(n, reader that never fails and fills the
// destination), WriteByte, ReadByte, Reset, WriteTo(writer that never fails),
// WriteTo(writer that accepts k < c bytes, then fails with a short count).
//
// a2: ReadNFrom(n, reader that fails after a <= n bytes with io.EOF or a
// private error, reported with the last byte or on the following call,
// delivering all it can per call or one byte per call), ReadNFrom(n,
// never-failing one-byte-per-call reader), WriteTo(writer that accepts k
// bytes and reports its error together with the call that reaches k).
// Variants that cannot behave differently from another one are left out.
func alphabets(c int) (a1, a2 []Op) {
	for n := 0; n <= c+1; n++ {
		a1 = append(a1, Op{K: KWrite, N: n}, Op{K: KRead, N: n}, Op{K: KReadNFrom, N: n, Avail: -1})
	}
	a1 = append(a1, Op{K: KWriteByte}, Op{K: KReadByte}, Op{K: KReset}, Op{K: KWriteTo, Limit: -1})
	for k := 0; k < c; k++ {
		a1 = append(a1, Op{K: KWriteTo, Limit: k, Err: ErrCustom})
	}
	for n := 0; n <= c+1; n++ {
		for a := 0; a <= n; a++ {
			for _, kind := range []int{ErrEOF, ErrCustom} {
				for _, eager := range []bool{false, true} {
					if eager && a == 0 {
						continue // nothing to report the error with
					}
					for _, chunk := range []int{0, 1} {
						if chunk == 1 && a < 2 {
							continue // at most one byte moves anyway
						}
						a2 = append(a2, Op{K: KReadNFrom, N: n, Avail: a, Err: kind, Eager: eager, Chunk: chunk})
					}
				}
			}
		}
		if n >= 2 {
			a2 = append(a2, Op{K: KReadNFrom, N: n, Avail: -1, Chunk: 1})
		}
	}
	for k := 1; k <= c; k++ {
		a2 = append(a2, Op{K: KWriteTo, Limit: k, Err: ErrEOF, Eager: true})
	}
	return
}

// tally accumulates the evidence of one worker.
type tally struct {
	evals, nts uint64
	bits       [infoBits]uint64
	sample     *Case
	failure    *Case
	failMsg    string
}

// enumerate runs every sequence of exactly `length` operations over a1 ∪ a2
// for capacity c that contains exactly `ext` (0 or 1) operations of a2. Every
// prefix is judged on the way (accessors after every step), and the buffer is
// drained at the end, so shorter sequences are covered too.
func enumerate(rec *ev.Recorder, c, length, ext int, out *tally, mu *sync.Mutex, stop *bool) {
	a1, a2 := alphabets(c)
	slots := make([]*slot, runtime.GOMAXPROCS(0))
	for i := range slots {
		slots[i] = new(slot)
	}
	defer watch(rec, slots)()
	all := append(append([]Op{}, a1...), a2...)
	type item struct{ i, j int }
	work := make(chan item, 64)
	var wg sync.WaitGroup
	for w := 0; w < len(slots); w++ {
		wg.Add(1)
		sl := slots[w]
		go func() {
			defer wg.Done()
			var r runner
			var local tally
			seq := make([]Op, length)
			cs := Case{Cap: c, Ops: seq}
			var walk func(pos, used int)
			walk = func(pos, used int) {
				if local.failure != nil {
					return
				}
				if pos == length {
					if used != ext {
						return
					}
					v, info := r.judge(&cs)
					sl.beat()
					local.evals++
					if info&IWrap != 0 {
						local.nts++
						if local.sample == nil && used == ext && info&(IFull|IReaderErr|IWriterErr) != 0 {
							local.sample = &Case{Cap: c, Ops: append([]Op{}, seq...)}
						}
					}
					for b := 0; b < infoBits; b++ {
						if info&(1<<b) != 0 {
							local.bits[b]++
						}
					}
					if v != "" {
						n := length
						if r.step < n && r.step > 0 {
							// The violation is in step r.step: the prefix suffices.
							var r2 runner
							short := &Case{Cap: c, Ops: append([]Op{}, seq[:r.step]...)}
							if v2, _ := r2.judge(short); v2 != "" {
								local.failure, local.failMsg = short, v2
								return
							}
						}
						local.failure, local.failMsg = &Case{Cap: c, Ops: append([]Op{}, seq...)}, v
					}
					return
				}
				// Prune: a sequence that can no longer reach the required
				// number of extended operations.
				if used+(length-pos) < ext {
					return
				}
				for _, o := range a1 {
					seq[pos] = o
					walk(pos+1, used)
				}
				if used < ext {
					for _, o := range a2 {
						seq[pos] = o
						walk(pos+1, used+1)
					}
				}
			}
			for it := range work {
				mu.Lock()
				halted := *stop
				mu.Unlock()
				if halted {
					continue
				}
				used := 0
				seq[0] = all[it.i]
				if it.i >= len(a1) {
					used++
				}
				seq[1] = all[it.j]
				if it.j >= len(a1) {
					used++
				}
				if used > ext {
					continue
				}
				sl.enter(&cs)
				walk(2, used)
				sl.leave()
				if local.failure != nil {
					mu.Lock()
					*stop = true
					mu.Unlock()
				}
			}
			mu.Lock()
			out.evals += local.evals
			out.nts += local.nts
			for b := range local.bits {
				out.bits[b] += local.bits[b]
			}
			if out.sample == nil {
				out.sample = local.sample
			}
			if local.failure != nil && (out.failure == nil || len(local.failure.Ops) < len(out.failure.Ops)) {
				out.failure, out.failMsg = local.failure, local.failMsg
			}
			mu.Unlock()
		}()
	}
	shard, shards := ev.Shard(), ev.Shards()
	k := 0
	for i := range all {
		for j := range all {
			k++
			if k%shards != shard {
				continue
			}
			work <- item{i, j}
		}
	}
	close(work)
	wg.Wait()
}

func runExhaustive(t *testing.T, part string, ext int, length int, what string) {
	rec := ev.New(t, prop, part, what+"; "+ntRule)
	sizes := map[string]any{}
	for c := 0; c <= 4; c++ {
		a1, a2 := alphabets(c)
		sizes[fmt.Sprintf("cap%d", c)] = fmt.Sprintf("|core|=%d |extended|=%d", len(a1), len(a2))
	}
	rec.SetExhaustive(fmt.Sprintf("capacities 0..4; byte counts 0..capacity+1; every sequence of %d operations (hence every shorter one, each prefix is checked) %s; buffer drained and compared at the end", length, what))
	rec.Note("alphabet_sizes", sizes)
	var mu sync.Mutex
	for c := 0; c <= 4; c++ {
		var tl tally
		stop := false
		enumerate(rec, c, length, ext, &tl, &mu, &stop)
		rec.EvalN(tl.evals)
		rec.NonTrivialDistinct(tl.nts)
		rec.ClassN(fmt.Sprintf("cap/%d", c), tl.evals)
		for b, n := range tl.bits {
			if n > 0 {
				rec.ClassN(infoNames[b], n)
			}
		}
		if tl.sample != nil {
			rec.Sample(map[string]any{"case": tl.sample.Render()})
		}
		if tl.failure != nil {
			ev.FailTB(t, rec, tl.failure, "%s | %s", tl.failure.Render(), tl.failMsg)
		}
	}
}

// TestExhaustiveCore: all sequences over the core alphabet.
func TestExhaustiveCore(t *testing.T) {
	if ev.ReplayPath() != "" {
		t.Skip("replaying")
	}
	runExhaustive(t, "exhaustive-core", 0, ev.Pick(5, 6),
		"over the core alphabet {Write(n), WriteByte, Read(n), ReadByte, ReadNFrom(n, never-failing reader), WriteTo(never-failing writer), WriteTo(writer failing short after k < capacity bytes), Reset}")
}

// TestExhaustivePeers: all sequences with exactly one operation of the
// extended reader/writer alphabet at any position.
func TestExhaustivePeers(t *testing.T) {
	if ev.ReplayPath() != "" {
		t.Skip("replaying")
	}
	runExhaustive(t, "exhaustive-peers", 1, ev.Pick(4, 5),
		"over the core alphabet with exactly one operation, at any position, from the extended alphabet {ReadNFrom(n, reader failing after a <= n bytes with io.EOF or another error, reported with the last byte or on the next call, filling the destination or returning one byte per call), ReadNFrom(n, one-byte-per-call reader), WriteTo(writer reporting its error together with the call that reaches its limit)}")
}

// drawOp draws the next operation of a random run. Byte counts are drawn
// relative to the model's current free / used counts so that the boundaries
// (exactly full, one more than fits, exactly drained) are hit often.
func drawOp(rt *rapid.T, capacity, used int) Op {
	free := capacity - used
	count := func(label string) int {
		var v int
		switch rapid.IntRange(0, 9).Draw(rt, label+".mode") {
		case 0:
			v = 0
		case 1:
			v = 1
		case 2:
			v = rapid.IntRange(2, 16).Draw(rt, label+".small")
		case 3:
			v = free + rapid.IntRange(-1, 1).Draw(rt, label+".free")
		case 4:
			v = used + rapid.IntRange(-1, 1).Draw(rt, label+".used")
		case 5:
			v = capacity + rapid.IntRange(-1, 2).Draw(rt, label+".cap")
		case 6, 7:
			v = rapid.IntRange(0, capacity/2+1).Draw(rt, label+".half")
		default:
			v = rapid.IntRange(0, 2*capacity+2).Draw(rt, label+".any")
		}
		return max(v, 0)
	}
	switch rapid.IntRange(0, 15).Draw(rt, "op") {
	case 0, 1, 2:
		return Op{K: KWrite, N: count("write")}
	case 3:
		return Op{K: KWriteByte}
	case 4, 5, 6:
		return Op{K: KRead, N: count("read")}
	case 7:
		return Op{K: KReadByte}
	case 8, 9, 10, 11:
		o := Op{K: KReadNFrom, N: count("readn"), Avail: -1}
		if rapid.IntRange(0, 2).Draw(rt, "reader.fails") > 0 {
			// Fail somewhere around the requested count / free space.
			switch rapid.IntRange(0, 3).Draw(rt, "reader.where") {
			case 0:
				o.Avail = max(0, o.N+rapid.IntRange(-2, 1).Draw(rt, "reader.at.n"))
			case 1:
				o.Avail = max(0, free+rapid.IntRange(-1, 1).Draw(rt, "reader.at.free"))
			default:
				o.Avail = rapid.IntRange(0, o.N+1).Draw(rt, "reader.at")
			}
			o.Err = rapid.IntRange(0, 1).Draw(rt, "reader.err")
			o.Eager = rapid.Bool().Draw(rt, "reader.eager")
		}
		switch rapid.IntRange(0, 3).Draw(rt, "reader.chunk") {
		case 0:
			o.Chunk = 1
		case 1:
			o.Chunk = rapid.IntRange(1, max(2, o.N)).Draw(rt, "reader.chunk.n")
			if o.N > 4096 && o.Chunk < o.N/64 {
				o.Chunk = o.N / 64 // keep the call count of huge transfers bounded
			}
		}
		if o.Chunk == 1 && o.N > 4096 {
			o.Chunk = o.N / 64
		}
		return o
	case 12, 13, 14:
		o := Op{K: KWriteTo, Limit: -1}
		if rapid.IntRange(0, 2).Draw(rt, "writer.fails") > 0 {
			switch rapid.IntRange(0, 2).Draw(rt, "writer.where") {
			case 0:
				o.Limit = max(0, used+rapid.IntRange(-2, 1).Draw(rt, "writer.at.used"))
			default:
				o.Limit = rapid.IntRange(0, used+1).Draw(rt, "writer.at")
			}
			o.Err = rapid.IntRange(0, 1).Draw(rt, "writer.err")
			o.Eager = rapid.Bool().Draw(rt, "writer.eager")
		}
		return o
	}
	return Op{K: KReset}
}

func drawCapacity(rt *rapid.T) (int, string) {
	switch rapid.IntRange(0, 11).Draw(rt, "cap.class") {
	case 0, 1, 2, 3:
		return rapid.IntRange(-1, 8).Draw(rt, "cap.tiny"), "cap/<=8"
	case 4, 5, 6, 7:
		return rapid.IntRange(9, 300).Draw(rt, "cap.small"), "cap/9..300"
	case 8, 9:
		return rapid.IntRange(301, 5000).Draw(rt, "cap.medium"), "cap/301..5000"
	case 10:
		return rapid.SampledFrom([]int{4096, 32768, 65535, 65536, 65537}).Draw(rt, "cap.pow2"), "cap/around-2^16"
	}
	return rapid.IntRange(5001, 70000).Draw(rt, "cap.large"), "cap/5001..70000"
}

// TestRandom: long random runs (state-machine style: each operation is drawn
// knowing the model's fill level) with capacities up to 70 000.
func TestRandom(t *testing.T) {
	if ev.ReplayPath() != "" {
		t.Skip("replaying")
	}
	rec := ev.New(t, prop, "random-runs", "rapid: capacity -1..70000, up to 200 operations drawn relative to the current free/used counts, readers that fail at / around the requested count and return short counts, writers that fail short at / around the queued amount; "+ntRule)
	sl := new(slot)
	defer watch(rec, []*slot{sl})()
	ev.Check(t, rec, 20000, 200000, func(rt *rapid.T) {
		capacity, class := drawCapacity(rt)
		steps := rapid.IntRange(1, 200).Draw(rt, "steps")
		if capacity > 5000 {
			steps = min(steps, 80)
		}
		var r runner
		r.begin(capacity)
		c := &Case{Cap: capacity}
		sl.enter(c)
		defer sl.leave()
		rec.Eval()
		rec.Class(class)
		for i := 0; i < steps; i++ {
			o := drawOp(rt, r.cap, len(r.q))
			c.Ops = append(c.Ops, o)
			sl.beat()
			if v := r.stepSafe(o); v != "" {
				ev.Failf(rt, rec, c, "%s | %s", short(c), v)
			}
		}
		if v := r.drainSafe(); v != "" {
			ev.Failf(rt, rec, c, "%s | %s", short(c), v)
		}
		for b := 0; b < infoBits; b++ {
			if r.info&(1<<b) != 0 {
				rec.Class(infoNames[b])
			}
		}
		if r.info&IWrap != 0 {
			rec.NonTrivial(ev.Hash(c.Render()))
			if rec.WantSample() && len(c.Ops) <= 12 {
				rec.Sample(map[string]any{"case": c.Render()})
			}
		}
	})
}

func short(c *Case) string {
	s := c.Render()
	if len(s) > 600 {
		return s[:300] + " ... " + s[len(s)-250:]
	}
	return s
}

func TestReplay(t *testing.T) {
	if ev.ReplayPath() == "" {
		t.Skip("no replay requested")
	}
	var c Case
	if _, err := ev.LoadReplay(ev.ReplayPath(), &c); err != nil {
		t.Fatalf("cannot load replay: %v", err)
	}
	rec := ev.New(t, prop, "replay", "replay of a saved case")
	rec.Eval()
	if !finishes(&c, hangLimit) {
		ev.FailTB(t, rec, &c, "%s | the operation sequence does not terminate (no result within %v)", short(&c), hangLimit)
	}
	var r runner
	v, _ := r.judge(&c)
	if v != "" {
		ev.FailTB(t, rec, &c, "%s | %s", short(&c), v)
	}
}
