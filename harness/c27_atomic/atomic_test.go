package c27_atomic

import (
	"encoding/json"
	"fmt"
	"os"
	"os/exec"
	"path/filepath"
	"strings"
	"syscall"
	"testing"

	"pgregory.net/rapid"

	"github.com/mutagen-io/mutagen/pkg/filesystem"

	"verif/kit/ev"
)

const prop = "C27"

// errnosFor lists, per system call, the error numbers injected: only values
// the call can return for environmental reasons.
var errnosFor = map[string][]string{
	"openat":    {"EACCES", "ENOSPC", "EMFILE", "EROFS"},
	"open":      {"EACCES", "ENOSPC", "EMFILE", "EROFS"},
	"write":     {"ENOSPC", "EIO", "EDQUOT"},
	"pwrite64":  {"ENOSPC", "EIO"},
	"close":     {"EIO", "ENOSPC"},
	"fchmodat":  {"EPERM", "EIO", "EROFS"},
	"fchmod":    {"EPERM", "EIO", "EROFS"},
	"chmod":     {"EPERM", "EIO", "EROFS"},
	"renameat":  {"EACCES", "ENOSPC", "EIO", "EXDEV", "EROFS"},
	"renameat2": {"EACCES", "ENOSPC", "EIO", "EXDEV", "EROFS"},
	"rename":    {"EACCES", "ENOSPC", "EIO", "EXDEV", "EROFS"},
	"fsync":     {"EIO", "ENOSPC"},
	"fdatasync": {"EIO", "ENOSPC"},
}

var hookErrnos = map[string]syscall.Errno{
	"EXDEV": syscall.EXDEV, "EACCES": syscall.EACCES, "ENOSPC": syscall.ENOSPC,
	"EIO": syscall.EIO, "EROFS": syscall.EROFS, "EPERM": syscall.EPERM,
}

// drawLen draws a content length with the interesting sizes over-represented.
func drawLen(rt *rapid.T, label string, maxLen int) int {
	switch rapid.IntRange(0, 9).Draw(rt, label+".class") {
	case 0:
		return 0
	case 1, 2:
		return rapid.IntRange(1, 64).Draw(rt, label)
	case 3:
		return rapid.SampledFrom([]int{4095, 4096, 4097, 8192, 65536}).Draw(rt, label)
	case 4, 5, 6:
		return rapid.IntRange(65, 8192).Draw(rt, label)
	case 7, 8:
		return rapid.IntRange(8193, min(maxLen, 256<<10)).Draw(rt, label)
	default:
		return rapid.IntRange(1, maxLen).Draw(rt, label)
	}
}

// drawCase draws everything of a case except the injection.
func drawCase(rt *rapid.T, maxLen int) *Case {
	c := &Case{}
	c.Mode = rapid.SampledFrom([]string{ModeWriteFileAtomic, ModeWriteFileAtomic, ModeMarshalAndSave, ModeProtobuf}).Draw(rt, "mode")
	c.Perm = 0o600
	if c.Mode == ModeWriteFileAtomic {
		c.Perm = rapid.SampledFrom([]uint32{0o600, 0o644, 0o640}).Draw(rt, "perm")
	}
	c.OldPresent = rapid.IntRange(0, 5).Draw(rt, "old.present") != 0
	c.OldPerm = 0o600
	if c.OldPresent {
		c.OldSeed = rapid.Uint64().Draw(rt, "old.seed")
		c.OldLen = drawLen(rt, "old.len", maxLen)
		c.OldPerm = rapid.SampledFrom([]uint32{0o600, 0o600, 0o644}).Draw(rt, "old.perm")
		c.Relation = rapid.SampledFrom([]string{"", "", "", "", "", "equal", "new-prefix-of-old", "old-prefix-of-new"}).Draw(rt, "relation")
	}
	c.NewSeed = rapid.Uint64().Draw(rt, "new.seed")
	c.NewLen = drawLen(rt, "new.len", maxLen)
	return c
}

func classify(rec *ev.Recorder, c *Case) {
	rec.Class("mode/" + c.Mode)
	if !c.OldPresent {
		rec.Class("old/absent")
	} else {
		rec.Class("old/present")
	}
	if c.Relation != "" {
		rec.Class("relation/" + c.Relation)
	}
	old, _, want := c.Contents()
	switch {
	case len(want) == 0:
		rec.Class("new/empty")
	case len(want) > 65536:
		rec.Class("new/>64KiB")
	}
	if c.OldPresent && string(old) == string(want) {
		rec.Class("new==old")
	}
}

// differs tells whether the complete new file differs from the previous state.
func differs(c *Case) bool {
	old, _, want := c.Contents()
	return !c.OldPresent || string(old) != string(want)
}

var scratchCounter int

// aborted is set after harness trouble: the run is reported as inconclusive
// (driver exit 2) and the remaining cases are not executed.
var aborted bool

func abort(format string, args ...any) {
	if !aborted {
		ev.Inconclusive("C27 harness trouble: "+format, args...)
	}
	aborted = true
}

func scratch(t testing.TB, base string) string {
	scratchCounter++
	d := filepath.Join(base, fmt.Sprintf("case-%d", scratchCounter))
	if err := os.MkdirAll(d, 0o700); err != nil {
		t.Fatalf("scratch: %v", err)
	}
	return d
}

// ---------------------------------------------------------------------------
// Part 1: in-process, rename step failing through the verif hook.
// ---------------------------------------------------------------------------

// runHookCase executes one in-process case and returns the violation (if any),
// whether the injection was hit and whether the case is non-trivial.
func runHookCase(c *Case, root string) (violation string, hit bool) {
	a, err := NewArena(root, c, -1, false)
	if err != nil {
		return "harness: " + err.Error(), false
	}
	_, payload, _ := c.Contents()
	hits := 0
	if c.Inject.Kind == InjHookError {
		errno := hookErrnos[c.Inject.Errno]
		filesystem.VerifSetInjector(func(op, path string) error {
			if (op == "renameat" || op == "renameat2") && path == a.Target {
				hits++
				return errno
			}
			return nil
		})
	}
	callErr := performWrite(c.Mode, a.Target, payload, os.FileMode(c.Perm))
	filesystem.VerifSetInjector(nil)
	out := OutcomeOK
	if callErr != nil {
		out = OutcomeError
	}
	return Judge(c, a.Dir, a.Target, out, hits > 0), hits > 0
}

func TestHookRenameFailure(t *testing.T) {
	if ev.ReplayPath() != "" {
		t.Skip("replaying")
	}
	rec := ev.New(t, prop, "inprocess-rename-fault",
		"rapid: random old/new contents (0..256 KiB, absent old, equal/prefix relations), modes WriteFileAtomic/MarshalAndSave/MarshalAndSaveProtobuf; the rename helper fails with a drawn errno through the verif hook (or no fault); oracle on the directory afterwards. Non-trivial: the rename fault was hit and new content differs from old")
	base := t.TempDir()
	ev.Check(t, rec, 1500, 20000, func(rt *rapid.T) {
		c := drawCase(rt, 256<<10)
		if rapid.IntRange(0, 4).Draw(rt, "fault") == 0 {
			c.Inject = Inject{Kind: InjNone}
		} else {
			c.Inject = Inject{Kind: InjHookError, Errno: rapid.SampledFrom([]string{"EXDEV", "EACCES", "ENOSPC", "EIO", "EROFS", "EPERM"}).Draw(rt, "errno")}
		}
		if aborted {
			return
		}
		root := scratch(t, base)
		defer os.RemoveAll(root)
		violation, hit := runHookCase(c, root)
		if strings.HasPrefix(violation, "harness: ") {
			abort("%s", violation)
			return
		}
		rec.Eval()
		if violation != "" {
			ev.Failf(rt, rec, c, "%s", violation)
		}
		classify(rec, c)
		rec.Class("inject/" + c.Inject.Kind)
		if c.Inject.Kind == InjHookError && !hit {
			rec.Class("not-hit")
		}
		if hit && differs(c) {
			rec.NonTrivial(ev.Hash(c.String()))
			if rec.WantSample() {
				rec.Sample(c)
			}
		}
	})
}

// ---------------------------------------------------------------------------
// Part 2: RLIMIT_FSIZE: genuine partial writes, ending in a crash or EFBIG.
// ---------------------------------------------------------------------------

func runChild(specPath string) (exitErr error) {
	exe, err := os.Executable()
	if err != nil {
		return err
	}
	cmd := exec.Command(exe)
	cmd.Env = append(os.Environ(), specEnv+"="+specPath)
	// The runtime's crash report of the SIGXFSZ variant is of no interest.
	cmd.Stdout, cmd.Stderr = nil, nil
	return cmd.Run()
}

func runFsizeCase(c *Case, root string) (violation string, hit bool) {
	a, err := NewArena(root, c, c.Inject.Limit, c.Inject.Kind == InjFsizeError)
	if err != nil {
		return "harness: " + err.Error(), false
	}
	runErr := runChild(a.SpecPath)
	out, _ := a.ReadResult()
	if ee, ok := runErr.(*exec.ExitError); ok && ee.ExitCode() == 3 {
		return "harness: child could not start", false
	}
	_, _, want := c.Contents()
	limited := c.Inject.Limit < int64(len(want))
	switch c.Inject.Kind {
	case InjFsizeKill:
		hit = out == OutcomeCrashed && runErr != nil
	case InjFsizeError:
		hit = out == OutcomeError
	}
	mustFail := c.Inject.Kind == InjFsizeError && limited && differs(c) && out != OutcomeCrashed
	if v := Judge(c, a.Dir, a.Target, out, mustFail); v != "" {
		return v, hit
	}
	if out != OutcomeOK {
		if v := followUpWrite(a, c); v != "" {
			return fmt.Sprintf("%s after a partial write, then a second write without any fault: %s", out, v), hit
		}
	}
	return "", hit
}

func TestFsizeLimit(t *testing.T) {
	if ev.ReplayPath() != "" {
		t.Skip("replaying")
	}
	rec := ev.New(t, prop, "partial-write-rlimit",
		"rapid: random contents; the child runs with RLIMIT_FSIZE = L < len(new) so the kernel performs a partial write of L bytes and then either kills the process (SIGXFSZ, crash in mid-write) or fails the write with EFBIG (SIGXFSZ ignored). Non-trivial: the limit took effect (crash or error observed), 0 < L, and new differs from old")
	base := t.TempDir()
	ev.Check(t, rec, 40, 800, func(rt *rapid.T) {
		c := drawCase(rt, 1<<20)
		_, _, want := c.Contents()
		if len(want) == 0 {
			c.Relation = ""
			c.NewLen = rapid.IntRange(1, 5000).Draw(rt, "new.len.nonempty")
			_, _, want = c.Contents()
		}
		var limit int
		switch rapid.IntRange(0, 5).Draw(rt, "limit.class") {
		case 0:
			limit = 0
		case 1:
			limit = len(want) - 1
		case 2:
			limit = min(len(want)-1, rapid.SampledFrom([]int{1, 4095, 4096, 4097}).Draw(rt, "limit"))
		default:
			limit = rapid.IntRange(0, len(want)-1).Draw(rt, "limit")
		}
		c.Inject = Inject{Kind: rapid.SampledFrom([]string{InjFsizeKill, InjFsizeError}).Draw(rt, "kind"), Limit: int64(limit)}
		if aborted {
			return
		}
		root := scratch(t, base)
		defer os.RemoveAll(root)
		violation, hit := runFsizeCase(c, root)
		if strings.HasPrefix(violation, "harness: ") {
			abort("%s", violation)
			return
		}
		rec.Eval()
		if violation != "" {
			ev.Failf(rt, rec, c, "%s", violation)
		}
		classify(rec, c)
		rec.Class("inject/" + c.Inject.Kind)
		if !hit {
			rec.Class("not-hit")
		}
		if c.OldPresent && c.OldLen > limit {
			rec.Class("old-larger-than-limit")
		}
		if hit && limit > 0 && differs(c) {
			rec.NonTrivial(ev.Hash(c.String()))
			if rec.WantSample() {
				rec.Sample(c)
			}
		}
	})
}

// ---------------------------------------------------------------------------
// Part 3: strace: crash on entering every step, failure of every step.
// ---------------------------------------------------------------------------

// stepRef designates an injection site learned from an uninjected run.
type stepRef struct {
	relBefore int // number of target-directory calls before it
	name      string
	nth       int  // occurrence number of name on the main thread
	relevant  bool // false: the first call after the last relevant one
}

func (s stepRef) String() string {
	if !s.relevant {
		return fmt.Sprintf("after-last:%s", s.name)
	}
	return fmt.Sprintf("%d:%s", s.relBefore, s.name)
}

// learnSteps runs the child once without injection and extracts the steps.
func learnSteps(a *Arena, c *Case) (steps []stepRef, violation string, err error) {
	tr, err := straceRun(a.SpecPath, a.LogPath, a.Marker())
	if err != nil {
		return nil, "", err
	}
	out, _ := a.ReadResult()
	if !tr.Exited || tr.ExitCode != 0 || out == OutcomeCrashed {
		return nil, "", fmt.Errorf("uninjected child did not complete (exit %d, killed %q)", tr.ExitCode, tr.KilledBy)
	}
	if v := Judge(c, a.Dir, a.Target, out, false); v != "" {
		return nil, "uninjected run: " + v, nil
	}
	if out != OutcomeOK {
		return nil, "uninjected run: the call returned an error", nil
	}
	rel := tr.Relevant()
	if len(rel) == 0 {
		return nil, "", fmt.Errorf("no system call touching the target directory found in the strace log")
	}
	for k, i := range rel {
		steps = append(steps, stepRef{relBefore: k, name: tr.Calls[i].Name, nth: tr.Calls[i].Nth, relevant: true})
	}
	if last := rel[len(rel)-1]; last+1 < len(tr.Calls) {
		n := tr.Calls[last+1]
		steps = append(steps, stepRef{relBefore: len(rel), name: n.Name, nth: n.Nth, relevant: false})
	}
	return steps, "", nil
}

// locate finds the injected (or fatal) call of an injected run and tells
// whether it is the intended step.
func locate(tr *Trace, s stepRef, kill bool) bool {
	idx := -1
	for i, c := range tr.Calls {
		if (kill && c.Killed) || (!kill && c.Injected) {
			if idx >= 0 {
				return false
			}
			idx = i
		}
	}
	if idx < 0 {
		return false
	}
	if kill && (tr.KilledBy != "SIGKILL" || idx != len(tr.Calls)-1) {
		return false
	}
	relBefore := 0
	for _, c := range tr.Calls[:idx] {
		if c.Relevant {
			relBefore++
		}
	}
	x := tr.Calls[idx]
	if x.Name != s.name || x.Relevant != s.relevant || relBefore != s.relBefore {
		return false
	}
	if !s.relevant && (idx == 0 || !tr.Calls[idx-1].Relevant) {
		return false
	}
	return true
}

// runStraceInjection performs one injected run on a reset arena.
func runStraceInjection(a *Arena, c *Case, s stepRef, kill bool, errno string) (violation string, hit bool, err error) {
	if err := a.Reset(c); err != nil {
		return "", false, err
	}
	expr := fmt.Sprintf("%s:error=%s:when=%d", s.name, errno, s.nth)
	if kill {
		expr = fmt.Sprintf("%s:signal=KILL:when=%d", s.name, s.nth)
	}
	tr, err := straceRun(a.SpecPath, a.LogPath, a.Marker(), expr)
	if err != nil {
		return "", false, err
	}
	hit = locate(tr, s, kill)
	out, _ := a.ReadResult()
	if tr.Exited && tr.ExitCode == 3 {
		return "", false, nil
	}
	if !hit {
		// Not the intended call: no verdict drawn from this run.
		return "", false, nil
	}
	if kill && out != OutcomeCrashed {
		return "", false, fmt.Errorf("child killed at %v but a result file exists", s)
	}
	// A failure injected into a step of the write must surface as an error.
	mustFail := !kill && s.relevant
	if v := Judge(c, a.Dir, a.Target, out, mustFail); v != "" {
		return v, true, nil
	}
	// The history goes on: after a crashed or failed write, a later write
	// (shorter content, no fault) must leave exactly its own content.
	if out != OutcomeOK {
		if v := followUpWrite(a, c); v != "" {
			return fmt.Sprintf("%s, then a second write without any fault: %s", out, v), true, nil
		}
	}
	return "", true, nil
}

// followUpWrite performs a second, uninjected write of shorter independent
// content into the arena as the previous run left it and judges the result.
func followUpWrite(a *Arena, c *Case) string {
	c2 := &Case{Mode: c.Mode, Perm: c.Perm, NewSeed: c.NewSeed ^ 0x5bd1e995, NewLen: c.NewLen / 3}
	_, payload, _ := c2.Contents()
	newFile, result, specPath := filepath.Join(a.Root, "payload2"), filepath.Join(a.Root, "result2"), filepath.Join(a.Root, "spec2.json")
	os.Remove(result)
	if err := os.WriteFile(newFile, payload, 0o600); err != nil {
		return ""
	}
	raw, _ := json.Marshal(ChildSpec{Mode: c2.Mode, Target: a.Target, NewFile: newFile, Perm: c2.Perm, ResultPath: result, FsizeLimit: -1})
	if err := os.WriteFile(specPath, raw, 0o600); err != nil {
		return ""
	}
	if err := runChild(specPath); err != nil {
		return ""
	}
	out := OutcomeCrashed
	if rawResult, err := os.ReadFile(result); err == nil {
		out = OutcomeError
		if strings.TrimSpace(string(rawResult)) == "OK" {
			out = OutcomeOK
		}
	}
	if out != OutcomeOK {
		// A later write may fail for reasons of its own; only a write that
		// reports success is judged.
		return ""
	}
	return Judge(c2, a.Dir, a.Target, OutcomeOK, false)
}

func TestStraceSteps(t *testing.T) {
	if ev.ReplayPath() != "" {
		t.Skip("replaying")
	}
	if _, err := exec.LookPath("strace"); err != nil {
		ev.Inconclusive("strace not available: %v", err)
		t.Skip("strace not available")
	}
	rec := ev.New(t, prop, "strace-crash-and-fault-steps",
		"rapid: random old/new contents and mode; an uninjected strace run of the child finds every system call that touches the target directory (by path or by descriptor); then, for EVERY such call and for the first call after them, the child is SIGKILLed on entering it, and every such call is made to fail with errno values fit for it (one per step in the quick tier, all in the thorough tier); a run counts only if its strace log shows that the injection hit the intended call; after every crashed or failed run a second, uninjected write of shorter independent content is made into the directory as it was left and must leave exactly its own content. Non-trivial: the hit call lies after the creation of the temporary file and not after the rename, and new differs from old")
	base := t.TempDir()
	ev.Check(t, rec, 6, 30, func(rt *rapid.T) {
		c := drawCase(rt, 1<<20)
		pick := rapid.IntRange(0, 59).Draw(rt, "errno.pick")
		if aborted {
			return
		}
		root := scratch(t, base)
		defer os.RemoveAll(root)
		a, err := NewArena(root, c, -1, false)
		if err != nil {
			abort("%v", err)
			return
		}
		steps, violation, err := learnSteps(a, c)
		if err != nil {
			abort("strace learning run failed: %v", err)
			return
		}
		rec.Eval()
		if violation != "" {
			ev.Failf(rt, rec, c, "%s", violation)
		}
		classify(rec, c)
		rec.Class(fmt.Sprintf("steps/%d", len(steps)))
		for k, s := range steps {
			type inj struct {
				kill  bool
				errno string
			}
			todo := []inj{{kill: true}}
			if s.relevant {
				list := errnosFor[s.name]
				if len(list) == 0 {
					list = []string{"EIO"}
				}
				if ev.Thorough() {
					for _, e := range list {
						todo = append(todo, inj{errno: e})
					}
				} else {
					todo = append(todo, inj{errno: list[(pick+k)%len(list)]})
				}
			}
			for _, in := range todo {
				cc := *c
				if in.kill {
					cc.Inject = Inject{Kind: InjStraceKill, Step: k}
				} else {
					cc.Inject = Inject{Kind: InjStraceError, Step: k, Errno: in.errno}
				}
				violation, hit, err := runStraceInjection(a, &cc, s, in.kill, in.errno)
				if err != nil {
					abort("strace run failed: %v", err)
					return
				}
				rec.Eval()
				label := "kill/" + s.String()
				if !in.kill {
					label = "error/" + s.String() + "/" + in.errno
				}
				if !hit {
					rec.Class("not-hit")
					rec.Class("not-hit/" + label)
					continue
				}
				rec.Class(label)
				if violation != "" {
					ev.Failf(rt, rec, &cc, "%s at step %v: %s", cc.Inject.Kind, s, violation)
				}
				if k >= 1 && s.relevant && differs(c) {
					rec.NonTrivial(ev.Hash(cc.String()))
					if rec.WantSample() && k == 2 {
						rec.Sample(&cc)
					}
				}
			}
		}
	})
}

// ---------------------------------------------------------------------------
// Replay.
// ---------------------------------------------------------------------------

func TestReplay(t *testing.T) {
	if ev.ReplayPath() == "" {
		t.Skip("no replay requested")
	}
	var c Case
	if _, err := ev.LoadReplay(ev.ReplayPath(), &c); err != nil {
		t.Fatalf("cannot load replay: %v", err)
	}
	rec := ev.New(t, prop, "replay", "replay of a saved case")
	root := scratch(t, t.TempDir())
	rec.Eval()
	var violation string
	switch c.Inject.Kind {
	case InjNone, InjHookError, "":
		violation, _ = runHookCase(&c, root)
	case InjFsizeKill, InjFsizeError:
		violation, _ = runFsizeCase(&c, root)
	case InjStraceKill, InjStraceError:
		a, err := NewArena(root, &c, -1, false)
		if err != nil {
			t.Fatalf("harness: %v", err)
		}
		steps, v, err := learnSteps(a, &c)
		if err != nil {
			ev.Inconclusive("C27 strace learning run failed: %v", err)
			t.Skip()
		}
		if v != "" {
			violation = v
			break
		}
		if c.Inject.Step >= len(steps) {
			t.Fatalf("replay names step %d, the write has %d", c.Inject.Step, len(steps))
		}
		var hit bool
		// The temporary name is random; retry a few times if the injection
		// does not land on the intended call.
		for try := 0; try < 3 && !hit; try++ {
			violation, hit, err = runStraceInjection(a, &c, steps[c.Inject.Step], c.Inject.Kind == InjStraceKill, c.Inject.Errno)
			if err != nil {
				ev.Inconclusive("C27 strace run failed: %v", err)
				t.Skip()
			}
		}
		if !hit {
			ev.Inconclusive("C27 replay: injection did not hit the intended call")
			t.Skip()
		}
	default:
		t.Fatalf("unknown injection kind %q", c.Inject.Kind)
	}
	if violation != "" {
		ev.FailTB(t, rec, &c, "%s", violation)
	}
}
