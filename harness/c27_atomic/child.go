// Package c27_atomic checks C27: persistent session files are replaced
// atomically (filesystem.WriteFileAtomic, encoding.MarshalAndSave*).
//
// The test binary re-executes itself as a child (environment variable
// VERIF_C27_SPEC selects the child role in TestMain). The child performs one
// atomic write as described by a JSON spec file and records the outcome of the
// call in a result file. The parent crashes the child (strace signal
// injection, RLIMIT_FSIZE) or makes one of its system calls fail (strace fault
// injection, RLIMIT_FSIZE with SIGXFSZ ignored, the verif rename hook) and
// then judges what is left on disk.
package c27_atomic

import (
	"encoding/json"
	"fmt"
	"os"
	"os/signal"
	"runtime"
	"syscall"
	"unsafe"

	"github.com/mutagen-io/mutagen/pkg/encoding"
	"github.com/mutagen-io/mutagen/pkg/filesystem"
	"github.com/mutagen-io/mutagen/pkg/synchronization/core"
)

// specEnv names the environment variable that selects the child role; its
// value is the path of the JSON spec file.
const specEnv = "VERIF_C27_SPEC"

// Write modes.
const (
	ModeWriteFileAtomic = "WriteFileAtomic"        // filesystem.WriteFileAtomic(path, data, perm)
	ModeMarshalAndSave  = "MarshalAndSave"         // encoding.MarshalAndSave(path, func -> data)
	ModeProtobuf        = "MarshalAndSaveProtobuf" // encoding.MarshalAndSaveProtobuf(path, archive(data))
)

// ChildSpec tells the child what to do.
type ChildSpec struct {
	Mode       string `json:"mode"`
	Target     string `json:"target"`
	NewFile    string `json:"new_file"` // file holding the payload
	Perm       uint32 `json:"perm"`
	ResultPath string `json:"result_path"`
	// FsizeLimit >= 0 sets RLIMIT_FSIZE (soft) to that many bytes around the
	// call. With IgnoreXFSZ the resulting SIGXFSZ is ignored, so that the
	// write fails with EFBIG after a genuine partial write; otherwise the
	// signal terminates the process in the middle of the write.
	FsizeLimit int64 `json:"fsize_limit"`
	IgnoreXFSZ bool  `json:"ignore_xfsz"`
}

func init() {
	// Keep the main goroutine on the main thread so that the system calls of
	// the atomic write all come from one thread (strace counts injection
	// occurrences per thread).
	if os.Getenv(specEnv) != "" {
		runtime.LockOSThread()
	}
}

// archiveFor is the message saved in ModeProtobuf: an archive whose root is a
// file entry carrying the payload as digest. Parent and child both use it.
func archiveFor(payload []byte) *core.Archive {
	return &core.Archive{Content: &core.Entry{Kind: core.EntryKind_File, Digest: payload}}
}

// performWrite executes the operation under test.
func performWrite(mode, target string, payload []byte, perm os.FileMode) error {
	switch mode {
	case ModeWriteFileAtomic:
		return filesystem.WriteFileAtomic(target, payload, perm)
	case ModeMarshalAndSave:
		return encoding.MarshalAndSave(target, func() ([]byte, error) { return payload, nil })
	case ModeProtobuf:
		return encoding.MarshalAndSaveProtobuf(target, archiveFor(payload))
	}
	return fmt.Errorf("unknown mode %q", mode)
}

// childMain is the child role. Exit status 0 means the call was made and its
// outcome recorded (whatever it was); 3 means the child could not even start.
func childMain(specPath string) int {
	raw, err := os.ReadFile(specPath)
	if err != nil {
		fmt.Fprintln(os.Stderr, "c27 child: cannot read spec:", err)
		return 3
	}
	var spec ChildSpec
	if err := json.Unmarshal(raw, &spec); err != nil {
		fmt.Fprintln(os.Stderr, "c27 child: bad spec:", err)
		return 3
	}
	payload, err := os.ReadFile(spec.NewFile)
	if err != nil {
		fmt.Fprintln(os.Stderr, "c27 child: cannot read payload:", err)
		return 3
	}
	var saved syscall.Rlimit
	if spec.FsizeLimit >= 0 {
		if spec.IgnoreXFSZ {
			signal.Ignore(syscall.SIGXFSZ)
		} else if err := resetToDefault(syscall.SIGXFSZ); err != nil {
			// The Go runtime installs a handler that swallows SIGXFSZ; with
			// the default disposition restored the kernel terminates the
			// process inside the write system call that hits the limit.
			fmt.Fprintln(os.Stderr, "c27 child: rt_sigaction:", err)
			return 3
		} else {
			// SIGXFSZ's default action dumps core; do not litter.
			syscall.Setrlimit(syscall.RLIMIT_CORE, &syscall.Rlimit{})
		}
		if err := syscall.Getrlimit(syscall.RLIMIT_FSIZE, &saved); err != nil {
			return 3
		}
		lim := saved
		lim.Cur = uint64(spec.FsizeLimit)
		if err := syscall.Setrlimit(syscall.RLIMIT_FSIZE, &lim); err != nil {
			fmt.Fprintln(os.Stderr, "c27 child: setrlimit:", err)
			return 3
		}
	}
	callErr := performWrite(spec.Mode, spec.Target, payload, os.FileMode(spec.Perm))
	if spec.FsizeLimit >= 0 {
		syscall.Setrlimit(syscall.RLIMIT_FSIZE, &saved)
	}
	result := "OK\n"
	if callErr != nil {
		result = "ERR " + callErr.Error() + "\n"
	}
	if err := os.WriteFile(spec.ResultPath, []byte(result), 0o600); err != nil {
		fmt.Fprintln(os.Stderr, "c27 child: cannot write result:", err)
		return 3
	}
	return 0
}

// resetToDefault gives sig its default disposition (SIG_DFL) with a raw
// rt_sigaction call; the os/signal package offers no way to do that.
func resetToDefault(sig syscall.Signal) error {
	var act struct {
		handler  uintptr
		flags    uint64
		restorer uintptr
		mask     uint64
	}
	if _, _, e := syscall.RawSyscall6(syscall.SYS_RT_SIGACTION, uintptr(sig), uintptr(unsafe.Pointer(&act)), 0, 8, 0, 0); e != 0 {
		return e
	}
	return nil
}
