package c27_atomic

import (
	"os"
	"testing"
)

func TestMain(m *testing.M) {
	if spec := os.Getenv(specEnv); spec != "" {
		os.Exit(childMain(spec))
	}
	os.Exit(m.Run())
}
