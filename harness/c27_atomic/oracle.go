package c27_atomic

import (
	"bytes"
	"encoding/json"
	"fmt"
	"os"
	"path/filepath"
	"sort"
	"strings"

	"google.golang.org/protobuf/proto"
)

// Injection kinds.
const (
	InjNone        = "none"         // plain successful write (in-process)
	InjHookError   = "hook-error"   // in-process: the rename helper returns Errno
	InjStraceKill  = "strace-kill"  // child SIGKILLed on entering relevant step Step
	InjStraceError = "strace-error" // relevant step Step of the child fails with Errno
	InjFsizeKill   = "fsize-kill"   // child dies of SIGXFSZ after a partial write of Limit bytes
	InjFsizeError  = "fsize-error"  // write fails with EFBIG after a partial write of Limit bytes
)

// Inject describes the fault of a case.
type Inject struct {
	Kind string `json:"kind"`
	// Step is the index into the list of the child's system calls that touch
	// the target directory (learned from an uninjected strace run); Step ==
	// number of such calls designates the first traced call after them
	// (opening the result file), i.e. "after the rename".
	Step  int    `json:"step,omitempty"`
	Errno string `json:"errno,omitempty"`
	Limit int64  `json:"limit,omitempty"`
}

// Case is one C27 case; it is what replay files hold.
type Case struct {
	Mode       string `json:"mode"`
	Perm       uint32 `json:"perm"`
	OldPresent bool   `json:"old_present"`
	OldSeed    uint64 `json:"old_seed"`
	OldLen     int    `json:"old_len"`
	OldPerm    uint32 `json:"old_perm"`
	NewSeed    uint64 `json:"new_seed"`
	NewLen     int    `json:"new_len"`
	// Relation: "" independent contents, "equal", "new-prefix-of-old",
	// "old-prefix-of-new".
	Relation string `json:"relation,omitempty"`
	Inject   Inject `json:"inject"`
}

// gen produces n deterministic pseudo-random bytes from seed (splitmix64).
func gen(seed uint64, n int) []byte {
	out := make([]byte, n)
	x := seed
	for i := 0; i < n; i += 8 {
		x += 0x9e3779b97f4a7c15
		z := x
		z = (z ^ (z >> 30)) * 0xbf58476d1ce4e5b9
		z = (z ^ (z >> 27)) * 0x94d049bb133111eb
		z ^= z >> 31
		for j := 0; j < 8 && i+j < n; j++ {
			out[i+j] = byte(z >> (8 * j))
		}
	}
	return out
}

// Contents returns the old target bytes (nil when absent), the payload handed
// to the operation, and the bytes a complete new target file must hold.
func (c *Case) Contents() (old, payload, want []byte) {
	if c.OldPresent {
		old = gen(c.OldSeed, c.OldLen)
	}
	switch c.Relation {
	case "equal":
		payload = append([]byte{}, old...)
	case "new-prefix-of-old":
		payload = append([]byte{}, old[:min(c.NewLen, len(old))]...)
	case "old-prefix-of-new":
		payload = append(append([]byte{}, old...), gen(c.NewSeed, c.NewLen)...)
	default:
		payload = gen(c.NewSeed, c.NewLen)
	}
	want = payload
	if c.Mode == ModeProtobuf {
		var err error
		// Independent of the code under test: the protobuf library's own
		// encoding of the same message.
		want, err = proto.Marshal(archiveFor(payload))
		if err != nil {
			panic(err)
		}
	}
	return
}

// WantPerm is the mode a complete new file must have.
func (c *Case) WantPerm() os.FileMode {
	if c.Mode == ModeWriteFileAtomic {
		return os.FileMode(c.Perm)
	}
	return 0o600
}

func (c *Case) String() string {
	b, _ := json.Marshal(c)
	return string(b)
}

// Arena is the on-disk layout of one run.
type Arena struct {
	Root     string // scratch root
	Dir      string // target directory (only the target lives here)
	Target   string
	NewFile  string
	Result   string
	SpecPath string
	LogPath  string
}

// NewArena lays out a fresh run under root: the old target (if any), the
// payload file and the child spec.
func NewArena(root string, c *Case, fsizeLimit int64, ignoreXFSZ bool) (*Arena, error) {
	a := &Arena{Root: root}
	a.Dir = filepath.Join(root, "c27-target-dir")
	a.Target = filepath.Join(a.Dir, "session-file")
	a.NewFile = filepath.Join(root, "payload")
	a.Result = filepath.Join(root, "result")
	a.SpecPath = filepath.Join(root, "spec.json")
	a.LogPath = filepath.Join(root, "strace.log")
	if err := os.MkdirAll(a.Dir, 0o700); err != nil {
		return nil, err
	}
	old, payload, _ := c.Contents()
	if c.OldPresent {
		if err := os.WriteFile(a.Target, old, 0o600); err != nil {
			return nil, err
		}
		if err := os.Chmod(a.Target, os.FileMode(c.OldPerm)); err != nil {
			return nil, err
		}
	}
	if err := os.WriteFile(a.NewFile, payload, 0o600); err != nil {
		return nil, err
	}
	spec := ChildSpec{Mode: c.Mode, Target: a.Target, NewFile: a.NewFile, Perm: c.Perm, ResultPath: a.Result,
		FsizeLimit: fsizeLimit, IgnoreXFSZ: ignoreXFSZ}
	raw, _ := json.Marshal(spec)
	if err := os.WriteFile(a.SpecPath, raw, 0o600); err != nil {
		return nil, err
	}
	return a, nil
}

// Marker is the substring identifying the target directory in strace logs.
func (a *Arena) Marker() string { return a.Dir + "/" }

// Reset restores the pre-run state of the target directory (between runs on
// the same arena) and removes result and log.
func (a *Arena) Reset(c *Case) error {
	os.RemoveAll(a.Dir)
	os.Remove(a.Result)
	os.Remove(a.LogPath)
	if err := os.MkdirAll(a.Dir, 0o700); err != nil {
		return err
	}
	if c.OldPresent {
		old, _, _ := c.Contents()
		if err := os.WriteFile(a.Target, old, 0o600); err != nil {
			return err
		}
		return os.Chmod(a.Target, os.FileMode(c.OldPerm))
	}
	return nil
}

// Outcome is how the operation ended, as far as the harness can know.
type Outcome int

const (
	OutcomeOK      Outcome = iota // the call returned nil
	OutcomeError                  // the call returned an error
	OutcomeCrashed                // the process died before reporting
)

func (o Outcome) String() string { return [...]string{"returned-nil", "returned-error", "crashed"}[o] }

// ReadResult interprets the child's result file.
func (a *Arena) ReadResult() (Outcome, string) {
	raw, err := os.ReadFile(a.Result)
	if err != nil {
		return OutcomeCrashed, ""
	}
	s := strings.TrimSpace(string(raw))
	if s == "OK" {
		return OutcomeOK, ""
	}
	return OutcomeError, strings.TrimPrefix(s, "ERR ")
}

// Judge is the oracle: it looks only at the disk and at how the call ended.
// mustFail says that a fault was verifiably injected into the operation, so
// returning nil is itself a violation.
func Judge(c *Case, dir, target string, out Outcome, mustFail bool) string {
	old, _, want := c.Contents()
	entries, err := os.ReadDir(dir)
	if err != nil {
		return fmt.Sprintf("cannot list target directory: %v", err)
	}
	var others []string
	present := false
	for _, e := range entries {
		if e.Name() == filepath.Base(target) {
			present = true
		} else {
			others = append(others, e.Name())
		}
	}
	sort.Strings(others)
	var got []byte
	var mode os.FileMode
	if present {
		info, err := os.Lstat(target)
		if err != nil {
			return fmt.Sprintf("cannot lstat target: %v", err)
		}
		if !info.Mode().IsRegular() {
			return fmt.Sprintf("target is not a regular file any more (mode %v)", info.Mode())
		}
		mode = info.Mode().Perm()
		if got, err = os.ReadFile(target); err != nil {
			return fmt.Sprintf("cannot read target: %v", err)
		}
	}
	isOld := present == c.OldPresent && (!present || bytes.Equal(got, old))
	isNew := present && bytes.Equal(got, want)
	describe := func() string {
		if !present {
			return "target missing"
		}
		n := 0
		for n < len(got) && n < len(want) && got[n] == want[n] {
			n++
		}
		return fmt.Sprintf("target holds %d bytes (old %d, new %d, common prefix with new %d)", len(got), len(old), len(want), n)
	}
	// Stray files: only Mutagen temporaries may ever be left behind.
	for _, o := range others {
		if !strings.HasPrefix(o, ".mutagen-temporary-") {
			return fmt.Sprintf("stray file %q left in the target directory (call %v)", o, out)
		}
	}
	switch out {
	case OutcomeOK:
		if mustFail {
			return "a failure was injected into the write but the call returned nil"
		}
		if !isNew {
			return "call returned nil but " + describe()
		}
		if mode != c.WantPerm() {
			return fmt.Sprintf("call returned nil, target mode %04o, want %04o", mode, c.WantPerm())
		}
	case OutcomeError:
		if !isOld {
			return "call returned an error but the previous content is not intact: " + describe()
		}
		if present && mode != os.FileMode(c.OldPerm) {
			return fmt.Sprintf("call returned an error, mode of the previous file changed to %04o", mode)
		}
	case OutcomeCrashed:
		if !isOld && !isNew {
			return "after the crash the target is neither the old nor the new content: " + describe()
		}
		if isNew && !isOld && mode != c.WantPerm() {
			return fmt.Sprintf("after the crash the target holds the new content with mode %04o, want %04o", mode, c.WantPerm())
		}
		if isOld && !isNew && present && mode != os.FileMode(c.OldPerm) {
			return fmt.Sprintf("after the crash the target holds the old content but its mode changed to %04o", mode)
		}
	}
	return ""
}
