package c27_atomic

import (
	"bufio"
	"errors"
	"fmt"
	"os"
	"os/exec"
	"regexp"
	"strconv"
	"strings"
)

// tracedSyscalls is the set of system calls logged (and countable for
// injection) in strace runs: everything that creates, fills, publishes or
// removes a file by path or descriptor.
const tracedSyscalls = "open,openat,creat,write,pwrite64,writev,close,fchmodat,fchmod,chmod,renameat,renameat2,rename,unlinkat,unlink,linkat,link,fsync,fdatasync,ftruncate,truncate"

// Call is one system call of the child's main thread as logged by strace.
type Call struct {
	Name     string // system call name
	Line     string // the (merged) log line without the pid
	Nth      int    // 1-based occurrence number of Name on the main thread
	Relevant bool   // mentions the target directory (by path or by -y descriptor annotation)
	Injected bool   // strace reports a fault injected into this call
	Killed   bool   // the call never returned ("= ?"): the process died in it
	Ret      string
}

// Trace is a parsed strace log.
type Trace struct {
	MainPID   int
	Calls     []Call // main thread only, in order
	KilledBy  string // signal that killed the main thread ("" if it exited)
	ExitCode  int    // valid when KilledBy == ""
	Exited    bool
	RawSample string
}

// Relevant returns the indices (into Calls) of the calls touching the target
// directory.
func (t *Trace) Relevant() []int {
	var out []int
	for i, c := range t.Calls {
		if c.Relevant {
			out = append(out, i)
		}
	}
	return out
}

var (
	reLine       = regexp.MustCompile(`^(\d+)\s+(.*)$`)
	reCall       = regexp.MustCompile(`^([a-z_0-9]+)\(`)
	reResumed    = regexp.MustCompile(`^<\.\.\. ([a-z_0-9]+) resumed>(.*)$`)
	reKilled     = regexp.MustCompile(`^\+\+\+ killed by (SIG[A-Z0-9]+)`)
	reExited     = regexp.MustCompile(`^\+\+\+ exited with (\d+) \+\+\+`)
	reUnfinished = regexp.MustCompile(`\s*<unfinished \.\.\.>\s*$`)
	reRet        = regexp.MustCompile(`\)\s+= (\S+)`)
)

// parseTrace parses the log written by "strace -f -y -o". mainPID is the pid
// of the first traced process (the first pid appearing in the log); marker is
// the target directory path followed by a slash.
func parseTrace(path, marker string) (*Trace, error) {
	f, err := os.Open(path)
	if err != nil {
		return nil, err
	}
	defer f.Close()
	tr := &Trace{}
	counts := map[string]int{}
	pending := "" // unfinished call of the main thread
	sc := bufio.NewScanner(f)
	sc.Buffer(make([]byte, 1<<20), 1<<24)
	add := func(line string) {
		m := reCall.FindStringSubmatch(line)
		if m == nil {
			return
		}
		name := m[1]
		counts[name]++
		c := Call{Name: name, Line: line, Nth: counts[name]}
		c.Relevant = strings.Contains(line, `"`+marker) || strings.Contains(line, "<"+marker)
		c.Injected = strings.Contains(line, "(INJECTED)")
		if r := reRet.FindStringSubmatch(line); r != nil {
			c.Ret = r[1]
		}
		c.Killed = c.Ret == "?"
		tr.Calls = append(tr.Calls, c)
	}
	for sc.Scan() {
		m := reLine.FindStringSubmatch(sc.Text())
		if m == nil {
			continue
		}
		pid, _ := strconv.Atoi(m[1])
		if tr.MainPID == 0 {
			tr.MainPID = pid
		}
		if pid != tr.MainPID {
			continue
		}
		rest := m[2]
		switch {
		case strings.HasPrefix(rest, "---"):
			// signal delivery notice
		case strings.HasPrefix(rest, "+++"):
			if pending != "" {
				add(pending + ") = ?")
				pending = ""
			}
			if k := reKilled.FindStringSubmatch(rest); k != nil {
				tr.KilledBy = k[1]
			} else if e := reExited.FindStringSubmatch(rest); e != nil {
				tr.Exited = true
				tr.ExitCode, _ = strconv.Atoi(e[1])
			}
		case reUnfinished.MatchString(rest):
			pending = reUnfinished.ReplaceAllString(rest, "")
		default:
			if r := reResumed.FindStringSubmatch(rest); r != nil {
				if pending != "" {
					add(pending + r[2])
					pending = ""
				}
				continue
			}
			add(rest)
		}
	}
	if pending != "" {
		add(pending + ") = ?")
	}
	if err := sc.Err(); err != nil {
		return nil, err
	}
	if tr.MainPID == 0 {
		return nil, errors.New("empty strace log")
	}
	return tr, nil
}

// straceRun runs the child (this test binary with the spec) under strace with
// the given extra arguments (injection expressions) and returns the parsed
// log. The error is non-nil only for infrastructure trouble.
func straceRun(specPath, logPath, marker string, inject ...string) (*Trace, error) {
	exe, err := os.Executable()
	if err != nil {
		return nil, err
	}
	args := []string{"-f", "-y", "-s", "0", "-o", logPath, "-e", "trace=" + tracedSyscalls}
	for _, i := range inject {
		args = append(args, "-e", "inject="+i)
	}
	args = append(args, exe)
	cmd := exec.Command("strace", args...)
	cmd.Env = append(os.Environ(), specEnv+"="+specPath)
	var stderr strings.Builder
	cmd.Stderr = &stderr
	cmd.Stdout = &stderr
	// strace -f waits for every tracee, and terminates itself with the
	// tracee's signal when the tracee is killed.
	runErr := cmd.Run()
	tr, err := parseTrace(logPath, marker)
	if err != nil {
		return nil, fmt.Errorf("strace run unusable (%v; run error %v; output %q)", err, runErr, stderr.String())
	}
	if !tr.Exited && tr.KilledBy == "" {
		return nil, fmt.Errorf("strace log has no termination record for the main thread (run error %v; output %q)", runErr, stderr.String())
	}
	return tr, nil
}
