// Package c28_lock checks C28: at most one process holds the daemon lock, and
// the lock becomes available again as soon as its holder releases it or
// terminates (including by SIGKILL).
//
// The test binary re-executes itself as child processes (environment variable
// VERIF_C28_ROLE): "worker" children obey acquire/release commands of the
// parent (model-based part, no timing involved), "racer" children fight for the
// lock on their own and journal their definite-hold intervals.
package c28_lock

import (
	"bufio"
	"fmt"
	"os"
	"runtime"
	"strconv"
	"strings"
	"sync/atomic"
	"time"

	"golang.org/x/sys/unix"

	"github.com/mutagen-io/mutagen/pkg/daemon"
)

const (
	roleEnv    = "VERIF_C28_ROLE"
	journalEnv = "VERIF_C28_JOURNAL"
	seedEnv    = "VERIF_C28_SEED"
	holdEnv    = "VERIF_C28_MAXHOLD_US"
)

// mono reads CLOCK_MONOTONIC (system-wide, comparable across processes) in
// nanoseconds.
func mono() int64 {
	var ts unix.Timespec
	if err := unix.ClockGettime(unix.CLOCK_MONOTONIC, &ts); err != nil {
		panic(err)
	}
	return ts.Sec*1e9 + ts.Nsec
}

// journal appends one line with a single write to an O_APPEND descriptor.
func journalLine(f *os.File, kind string, pid int, t int64) {
	line := fmt.Sprintf("%s %d %d\n", kind, pid, t)
	if _, err := f.Write([]byte(line)); err != nil {
		fmt.Fprintln(os.Stderr, "c28: journal write failed:", err)
		os.Exit(4)
	}
}

func childMain(role string) int {
	switch role {
	case "worker":
		return workerMain()
	case "racer":
		return racerMain()
	}
	fmt.Fprintln(os.Stderr, "c28: unknown role", role)
	return 3
}

// workerMain obeys commands: "acquire", "release", "exit". Every command is
// answered with one line.
func workerMain() int {
	in := bufio.NewScanner(os.Stdin)
	var lock *daemon.Lock
	fmt.Println("ready")
	for in.Scan() {
		line := strings.TrimSpace(in.Text())
		if dir, ok := strings.CutPrefix(line, "data "); ok {
			// A new case: its own data directory.
			if lock != nil {
				fmt.Println("error still holding")
				continue
			}
			os.Setenv("MUTAGEN_DATA_DIRECTORY", dir)
			fmt.Println("ok")
			continue
		}
		switch line {
		case "acquire":
			if lock != nil {
				fmt.Println("error already holding")
				continue
			}
			l, err := daemon.AcquireLock()
			if err != nil {
				fmt.Println("fail " + strings.ReplaceAll(err.Error(), "\n", " "))
			} else {
				lock = l
				// A long-running holder goes through garbage collections
				// while it holds the lock; do so before reporting.
				runtime.GC()
				time.Sleep(2 * time.Millisecond)
				runtime.GC()
				fmt.Println("ok")
			}
		case "release":
			if lock == nil {
				fmt.Println("error not holding")
				continue
			}
			err := lock.Release()
			lock = nil
			if err != nil {
				fmt.Println("fail " + strings.ReplaceAll(err.Error(), "\n", " "))
			} else {
				fmt.Println("ok")
			}
		case "exit":
			// Terminate without releasing.
			return 0
		}
	}
	return 0
}

// racerMain loops: try to acquire; when successful, journal BEGIN (clock read
// after acquiring), hold, journal END (clock read before releasing), release.
// It stops after the current iteration once its standard input is closed.
func racerMain() int {
	jf, err := os.OpenFile(os.Getenv(journalEnv), os.O_WRONLY|os.O_APPEND, 0)
	if err != nil {
		fmt.Fprintln(os.Stderr, "c28 racer:", err)
		return 3
	}
	seed, _ := strconv.ParseUint(os.Getenv(seedEnv), 10, 64)
	maxHold, _ := strconv.ParseInt(os.Getenv(holdEnv), 10, 64)
	var stop atomic.Bool
	go func() {
		buf := make([]byte, 16)
		for {
			if _, err := os.Stdin.Read(buf); err != nil {
				stop.Store(true)
				return
			}
		}
	}()
	x := seed | 1
	next := func(n int64) int64 {
		x ^= x << 13
		x ^= x >> 7
		x ^= x << 17
		if n <= 0 {
			return 0
		}
		return int64(x % uint64(n))
	}
	pid := os.Getpid()
	journalLine(jf, "START", pid, mono())
	for !stop.Load() {
		lock, err := daemon.AcquireLock()
		if err != nil {
			time.Sleep(time.Duration(next(1500)) * time.Microsecond)
			continue
		}
		journalLine(jf, "BEGIN", pid, mono())
		if next(4) == 0 {
			runtime.GC()
		}
		if h := next(maxHold + 1); h > 0 {
			time.Sleep(time.Duration(h) * time.Microsecond)
		}
		journalLine(jf, "END", pid, mono())
		if err := lock.Release(); err != nil {
			journalLine(jf, "RELEASE-ERROR", pid, mono())
		}
		time.Sleep(time.Duration(next(800)) * time.Microsecond)
	}
	journalLine(jf, "STOP", pid, mono())
	return 0
}
