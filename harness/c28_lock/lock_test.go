package c28_lock

import (
	"bufio"
	"encoding/json"
	"fmt"
	"io"
	"os"
	"os/exec"
	"path/filepath"
	"sort"
	"strconv"
	"strings"
	"syscall"
	"testing"
	"time"

	"pgregory.net/rapid"

	"github.com/mutagen-io/mutagen/pkg/daemon"

	"verif/kit/ev"
)

const prop = "C28"

// Generous bounds (the machine is shared and heavily loaded).
const (
	answerTimeout   = 120 * time.Second // a worker answering one command
	handoverTimeout = 30 * time.Second  // another racer acquiring after a holder died
	stopTimeout     = 120 * time.Second // racers exiting after being told to stop
)

func TestMain(m *testing.M) {
	if role := os.Getenv(roleEnv); role != "" {
		os.Exit(childMain(role))
	}
	os.Exit(m.Run())
}

// ---------------------------------------------------------------------------
// Part 1: model-based, command-driven workers (no timing in the oracle).
// ---------------------------------------------------------------------------

// Op is one step of a model-based case.
type Op struct {
	Kind   string `json:"kind"` // "acquire", "release", "kill", "exit"
	Worker int    `json:"worker"`
}

// ModelCase is a command sequence for a set of worker processes.
type ModelCase struct {
	Workers int  `json:"workers"`
	Ops     []Op `json:"ops"`
}

type worker struct {
	cmd   *exec.Cmd
	in    io.WriteCloser
	out   *bufio.Reader
	lines chan string
}

// pool holds idle worker processes that are reused from case to case (a
// worker that holds nothing carries no state besides its data directory).
var pool []*worker

func takeWorker(data string) (*worker, error) {
	for len(pool) > 0 {
		w := pool[len(pool)-1]
		pool = pool[:len(pool)-1]
		if ans, err := w.command("data " + data); err == nil && ans == "ok" {
			return w, nil
		}
		w.destroy()
	}
	return spawnWorker(data)
}

func drainPool() {
	for _, w := range pool {
		w.destroy()
	}
	pool = nil
}

// deepName makes the data directory path long (well beyond the length limit
// of Unix socket paths), as data directories below deep home directories are.
const deepName = "a-rather-long-directory-name-of-sixty-four-characters-in-total-x"

// privateTemp creates a fresh directory to serve as one contender's TMPDIR.
func privateTemp() string {
	dir, err := os.MkdirTemp("", "c28-contender-tmp-")
	if err != nil {
		return os.TempDir()
	}
	return dir
}

func spawnWorker(data string) (*worker, error) {
	exe, err := os.Executable()
	if err != nil {
		return nil, err
	}
	cmd := exec.Command(exe)
	// Every contender has its own temporary directory, as processes started
	// from different environments (login shell, cron, ssh) have.
	cmd.Env = append(os.Environ(), roleEnv+"=worker", "MUTAGEN_DATA_DIRECTORY="+data, "TMPDIR="+privateTemp())
	in, err := cmd.StdinPipe()
	if err != nil {
		return nil, err
	}
	out, err := cmd.StdoutPipe()
	if err != nil {
		return nil, err
	}
	cmd.Stderr = os.Stderr
	if err := cmd.Start(); err != nil {
		return nil, err
	}
	w := &worker{cmd: cmd, in: in, out: bufio.NewReader(out), lines: make(chan string, 4)}
	go func() {
		for {
			line, err := w.out.ReadString('\n')
			if err != nil {
				close(w.lines)
				return
			}
			w.lines <- strings.TrimSpace(line)
		}
	}()
	if line, err := w.read(); err != nil || line != "ready" {
		w.destroy()
		return nil, fmt.Errorf("worker did not start: %q %v", line, err)
	}
	return w, nil
}

func (w *worker) read() (string, error) {
	select {
	case line, ok := <-w.lines:
		if !ok {
			return "", fmt.Errorf("worker closed its output")
		}
		return line, nil
	case <-time.After(answerTimeout):
		return "", fmt.Errorf("no answer within %v", answerTimeout)
	}
}

func (w *worker) command(c string) (string, error) {
	if _, err := io.WriteString(w.in, c+"\n"); err != nil {
		return "", err
	}
	return w.read()
}

func (w *worker) destroy() {
	if w == nil || w.cmd.Process == nil {
		return
	}
	w.cmd.Process.Kill()
	w.in.Close()
	w.cmd.Wait()
}

// runModel executes the case and compares every answer with the model "one
// holder or none". It returns a violation text, or an error for harness
// trouble (including timeouts, which are not verdicts).
func runModel(c *ModelCase, root string) (violation string, killsOfHolder int, err error) {
	data := filepath.Join(root, "data", deepName, deepName)
	if err := os.MkdirAll(data, 0o700); err != nil {
		return "", 0, err
	}
	workers := make([]*worker, c.Workers)
	holder := -1
	defer func() {
		// Workers that hold nothing go back to the pool, unless the case
		// ended in any kind of trouble.
		for i, w := range workers {
			if w == nil {
				continue
			}
			if err == nil && violation == "" && i != holder {
				pool = append(pool, w)
			} else {
				w.destroy()
			}
		}
	}()
	for i := range workers {
		if workers[i], err = takeWorker(data); err != nil {
			return "", 0, err
		}
	}
	for step, op := range c.Ops {
		w := workers[op.Worker]
		where := fmt.Sprintf("step %d (%s by worker %d, model holder %d)", step, op.Kind, op.Worker, holder)
		switch op.Kind {
		case "acquire":
			if holder == op.Worker {
				continue // a daemon acquires once; not a caller behaviour
			}
			ans, err := w.command("acquire")
			if err != nil {
				return "", 0, fmt.Errorf("%s: %w", where, err)
			}
			got := ans == "ok"
			if !got && !strings.HasPrefix(ans, "fail") {
				return "", 0, fmt.Errorf("%s: unexpected answer %q", where, ans)
			}
			if holder == -1 && !got {
				return fmt.Sprintf("%s: nobody holds the lock but acquisition failed: %s", where, ans), killsOfHolder, nil
			}
			if holder != -1 && got {
				return fmt.Sprintf("%s: acquisition succeeded while worker %d (another live process) holds the lock", where, holder), killsOfHolder, nil
			}
			if got {
				holder = op.Worker
			}
		case "release":
			if holder != op.Worker {
				continue
			}
			ans, err := w.command("release")
			if err != nil {
				return "", 0, fmt.Errorf("%s: %w", where, err)
			}
			if ans != "ok" {
				return fmt.Sprintf("%s: release failed: %s", where, ans), killsOfHolder, nil
			}
			holder = -1
		case "kill", "exit":
			if op.Kind == "kill" {
				w.cmd.Process.Signal(syscall.SIGKILL)
			} else {
				io.WriteString(w.in, "exit\n")
			}
			done := make(chan struct{})
			go func() { w.cmd.Wait(); close(done) }()
			select {
			case <-done:
			case <-time.After(answerTimeout):
				return "", 0, fmt.Errorf("%s: process did not terminate", where)
			}
			w.in.Close()
			if holder == op.Worker {
				holder = -1
				killsOfHolder++
			}
			// The process is reaped: from here on its lock must be gone.
			workers[op.Worker] = nil
			if workers[op.Worker], err = takeWorker(data); err != nil {
				return "", 0, err
			}
		}
	}
	return "", killsOfHolder, nil
}

func drawModelCase(rt *rapid.T) *ModelCase {
	c := &ModelCase{Workers: rapid.IntRange(2, 4).Draw(rt, "workers")}
	n := rapid.IntRange(4, 24).Draw(rt, "ops")
	holder := -1
	for i := 0; i < n; i++ {
		w := rapid.IntRange(0, c.Workers-1).Draw(rt, fmt.Sprintf("op%d.worker", i))
		kinds := []string{"acquire", "acquire", "acquire", "release", "kill", "exit"}
		if holder >= 0 && rapid.IntRange(0, 2).Draw(rt, fmt.Sprintf("op%d.aim", i)) == 0 {
			// Aim at the holder: release it, kill it, or let it exit.
			w = holder
			kinds = []string{"release", "release", "kill", "kill", "exit"}
		}
		k := rapid.SampledFrom(kinds).Draw(rt, fmt.Sprintf("op%d.kind", i))
		if k == "acquire" && w == holder {
			k = "release"
		}
		if k == "release" && w != holder {
			k = "acquire"
		}
		c.Ops = append(c.Ops, Op{Kind: k, Worker: w})
		switch k {
		case "acquire":
			if holder == -1 {
				holder = w
			}
		case "release":
			holder = -1
		case "kill", "exit":
			if holder == w {
				holder = -1
			}
		}
	}
	return c
}

// modelClasses counts what a sequence exercises (by the model).
func modelClasses(c *ModelCase) (contended, afterRelease, afterDeath int) {
	holder, last := -1, ""
	for _, op := range c.Ops {
		switch op.Kind {
		case "acquire":
			if holder == -1 {
				switch last {
				case "release":
					afterRelease++
				case "death":
					afterDeath++
				}
				holder, last = op.Worker, ""
			} else if holder != op.Worker {
				contended++
			}
		case "release":
			if holder == op.Worker {
				holder, last = -1, "release"
			}
		default:
			if holder == op.Worker {
				holder, last = -1, "death"
			}
		}
	}
	return
}

var caseCounter int

// aborted is set after harness trouble (including timeouts, which are no
// verdicts): the run is reported as inconclusive (driver exit 2) and the
// remaining cases are not executed.
var aborted bool

func abort(format string, args ...any) {
	if !aborted {
		ev.Inconclusive("C28 harness trouble: "+format, args...)
	}
	aborted = true
}

func caseRoot(base string) string {
	caseCounter++
	return filepath.Join(base, fmt.Sprintf("case-%d", caseCounter))
}

func TestModelWorkers(t *testing.T) {
	if ev.ReplayPath() != "" {
		t.Skip("replaying")
	}
	rec := ev.New(t, prop, "command-driven-workers",
		"rapid: 2..4 worker processes sharing one data directory obey a drawn sequence of 4..24 commands (acquire / release / SIGKILL+respawn / exit-without-release+respawn, biased towards the current holder); every answer is compared with the model 'one holder or none' (acquire succeeds iff nobody holds; after release, kill+reap or exit+reap the lock is free); no timing in the verdict. Non-trivial: the sequence has a contended acquire (must fail) and an acquire right after the holder released or died (must succeed)")
	base := t.TempDir()
	defer drainPool()
	ev.Check(t, rec, 25, 300, func(rt *rapid.T) {
		c := drawModelCase(rt)
		if aborted {
			return
		}
		root := caseRoot(base)
		defer os.RemoveAll(root)
		violation, _, err := runModel(c, root)
		if err != nil {
			abort("%v", err)
			return
		}
		rec.Eval()
		if violation != "" {
			ev.Failf(rt, rec, c, "%s", violation)
		}
		contended, afterRelease, afterDeath := modelClasses(c)
		if contended > 0 {
			rec.Class("contended-acquire")
		}
		if afterRelease > 0 {
			rec.Class("acquire-after-release")
		}
		if afterDeath > 0 {
			rec.Class("acquire-after-holder-death")
		}
		if contended > 0 && afterRelease+afterDeath > 0 {
			raw, _ := json.Marshal(c)
			rec.NonTrivial(ev.Hash(string(raw)))
			if rec.WantSample() && len(c.Ops) < 10 {
				rec.Sample(c)
			}
		}
	})
}

// ---------------------------------------------------------------------------
// Part 2: racing processes, journal oracle.
// ---------------------------------------------------------------------------

// Kill is one scheduled SIGKILL.
type Kill struct {
	AfterMS int `json:"after_ms"` // pause before this kill
	// Aim: "holder" (the process whose BEGIN is the last open one in the
	// journal at that moment, else a random live one) or "random".
	Aim  string `json:"aim"`
	Pick int    `json:"pick"` // selects the random victim
}

// RaceCase is one racing round.
type RaceCase struct {
	Racers    int      `json:"racers"`
	Seeds     []uint64 `json:"seeds"`
	MaxHoldUS int      `json:"max_hold_us"`
	Kills     []Kill   `json:"kills"`
	TailMS    int      `json:"tail_ms"`
}

type racer struct {
	cmd   *exec.Cmd
	in    io.WriteCloser
	alive bool
	done  chan struct{}
}

type jline struct {
	kind string
	pid  int
	t    int64
}

func readJournal(path string) ([]jline, error) {
	raw, err := os.ReadFile(path)
	if err != nil {
		return nil, err
	}
	var out []jline
	for _, l := range strings.Split(strings.TrimSpace(string(raw)), "\n") {
		f := strings.Fields(l)
		if len(f) != 3 {
			if l == "" {
				continue
			}
			return nil, fmt.Errorf("malformed journal line %q", l)
		}
		pid, err1 := strconv.Atoi(f[1])
		t, err2 := strconv.ParseInt(f[2], 10, 64)
		if err1 != nil || err2 != nil {
			return nil, fmt.Errorf("malformed journal line %q", l)
		}
		out = append(out, jline{f[0], pid, t})
	}
	return out, nil
}

// openHolder returns the pid whose BEGIN is not yet followed by its END (0 if
// none).
func openHolder(lines []jline) int {
	open := map[int]bool{}
	last := 0
	for _, l := range lines {
		switch l.kind {
		case "BEGIN":
			open[l.pid] = true
			last = l.pid
		case "END":
			delete(open, l.pid)
		}
	}
	if open[last] {
		return last
	}
	return 0
}

// RaceStats describes a round.
type RaceStats struct {
	Acquisitions      int
	HolderKills       int // killed while definitely holding
	HolderKillsWaited int // ... with another live racer present
	MaxHandoverMS     int64
	Overlap           string
}

// interval is a definite-hold interval.
type interval struct {
	pid  int
	b, e int64
	how  string
}

// judgeJournal applies the safety oracle: definite-hold intervals are
// pairwise disjoint.
func judgeJournal(lines []jline) (violation string, intervals []interval, err error) {
	begin := map[int]int64{}
	killSent := map[int]int64{}
	for _, l := range lines {
		if l.kind == "KILL" {
			killSent[l.pid] = l.t
		}
	}
	for _, l := range lines {
		switch l.kind {
		case "BEGIN":
			if _, ok := begin[l.pid]; ok {
				return "", nil, fmt.Errorf("journal: pid %d BEGIN twice without END", l.pid)
			}
			begin[l.pid] = l.t
		case "END":
			b, ok := begin[l.pid]
			if !ok {
				return "", nil, fmt.Errorf("journal: pid %d END without BEGIN", l.pid)
			}
			delete(begin, l.pid)
			intervals = append(intervals, interval{l.pid, b, l.t, "BEGIN..END"})
		case "RELEASE-ERROR":
			return fmt.Sprintf("pid %d: releasing the lock returned an error", l.pid), nil, nil
		}
	}
	for pid, b := range begin {
		k, killed := killSent[pid]
		if !killed {
			return "", nil, fmt.Errorf("journal: pid %d has an open BEGIN but was never killed", pid)
		}
		// The process had not written END when it died, so it had not
		// released: it held the lock at least until the signal was sent.
		if k > b {
			intervals = append(intervals, interval{pid, b, k, "BEGIN..KILL-sent"})
		}
	}
	sort.Slice(intervals, func(i, j int) bool { return intervals[i].b < intervals[j].b })
	if len(intervals) > 0 {
		// Compare every interval with the one reaching furthest among its
		// predecessors.
		p := intervals[0]
		for _, q := range intervals[1:] {
			if q.b < p.e {
				return fmt.Sprintf("two processes held the lock at the same time: pid %d [%d, %d] (%s) and pid %d [%d, %d] (%s), overlap %d ns",
					p.pid, p.b, p.e, p.how, q.pid, q.b, q.e, q.how, min(p.e, q.e)-q.b), intervals, nil
			}
			if q.e > p.e {
				p = q
			}
		}
	}
	return "", intervals, nil
}

// runRace executes one round. timing is a non-empty text when the only
// complaint is a timing one (handover took longer than the bound).
func runRace(c *RaceCase, root string) (violation, timing string, st RaceStats, err error) {
	data := filepath.Join(root, "data", deepName, deepName)
	if err = os.MkdirAll(data, 0o700); err != nil {
		return
	}
	journalPath := filepath.Join(root, "journal")
	jf, err := os.OpenFile(journalPath, os.O_WRONLY|os.O_CREATE|os.O_APPEND, 0o600)
	if err != nil {
		return
	}
	defer jf.Close()
	exe, err := os.Executable()
	if err != nil {
		return
	}
	racers := make([]*racer, c.Racers)
	defer func() {
		for _, r := range racers {
			if r != nil && r.alive {
				r.cmd.Process.Kill()
				r.in.Close()
				<-r.done
			}
		}
	}()
	for i := range racers {
		cmd := exec.Command(exe)
		cmd.Env = append(os.Environ(), roleEnv+"=racer", "MUTAGEN_DATA_DIRECTORY="+data, "TMPDIR="+privateTemp(),
			journalEnv+"="+journalPath, fmt.Sprintf("%s=%d", seedEnv, c.Seeds[i]), fmt.Sprintf("%s=%d", holdEnv, c.MaxHoldUS))
		cmd.Stderr = os.Stderr
		in, perr := cmd.StdinPipe()
		if perr != nil {
			err = perr
			return
		}
		if err = cmd.Start(); err != nil {
			return
		}
		r := &racer{cmd: cmd, in: in, alive: true, done: make(chan struct{})}
		go func() { cmd.Wait(); close(r.done) }()
		racers[i] = r
	}
	// Wait until every racer has started (first journal line), so that kills
	// land in the middle of the fight.
	deadline := time.Now().Add(stopTimeout)
	for {
		lines, _ := readJournal(journalPath)
		started := 0
		for _, l := range lines {
			if l.kind == "START" {
				started++
			}
		}
		if started == c.Racers {
			break
		}
		if time.Now().After(deadline) {
			err = fmt.Errorf("racers did not start within %v", stopTimeout)
			return
		}
		time.Sleep(2 * time.Millisecond)
	}
	liveCount := func() int {
		n := 0
		for _, r := range racers {
			if r.alive {
				n++
			}
		}
		return n
	}
	for _, k := range c.Kills {
		time.Sleep(time.Duration(k.AfterMS) * time.Millisecond)
		if liveCount() <= 1 {
			break
		}
		var victim *racer
		if k.Aim == "holder" {
			lines, _ := readJournal(journalPath)
			if pid := openHolder(lines); pid != 0 {
				for _, r := range racers {
					if r.alive && r.cmd.Process.Pid == pid {
						victim = r
					}
				}
			}
		}
		if victim == nil {
			var live []*racer
			for _, r := range racers {
				if r.alive {
					live = append(live, r)
				}
			}
			victim = live[k.Pick%len(live)]
		}
		pid := victim.cmd.Process.Pid
		journalLine(jf, "KILL", pid, mono())
		victim.cmd.Process.Signal(syscall.SIGKILL)
		<-victim.done
		victim.alive = false
		victim.in.Close()
		reaped := mono()
		journalLine(jf, "REAP", pid, reaped)
		// Liveness: with the holder dead (or whoever it was), the survivors
		// must get the lock again.
		linesAtReap, _ := readJournal(journalPath)
		wasHolder := false
		{
			open := map[int]bool{}
			for _, l := range linesAtReap {
				if l.kind == "BEGIN" {
					open[l.pid] = true
				} else if l.kind == "END" {
					delete(open, l.pid)
				}
			}
			wasHolder = open[pid]
		}
		if wasHolder {
			st.HolderKills++
			if liveCount() >= 1 {
				st.HolderKillsWaited++
			}
			start := time.Now()
			for {
				lines, _ := readJournal(journalPath)
				got := false
				for _, l := range lines {
					if l.kind == "BEGIN" && l.pid != pid && l.t >= reaped {
						got = true
					}
				}
				if got {
					st.MaxHandoverMS = max(st.MaxHandoverMS, time.Since(start).Milliseconds())
					break
				}
				if time.Since(start) > handoverTimeout {
					timing = fmt.Sprintf("pid %d was killed while holding the lock and reaped, but none of the %d live racers acquired it within %v", pid, liveCount(), handoverTimeout)
					break
				}
				time.Sleep(2 * time.Millisecond)
			}
			if timing != "" {
				break
			}
		}
	}
	time.Sleep(time.Duration(c.TailMS) * time.Millisecond)
	// Stop the survivors and wait for them.
	for _, r := range racers {
		if r.alive {
			r.in.Close()
		}
	}
	for _, r := range racers {
		if !r.alive {
			continue
		}
		select {
		case <-r.done:
			r.alive = false
		case <-time.After(stopTimeout):
			err = fmt.Errorf("racer %d did not stop within %v", r.cmd.Process.Pid, stopTimeout)
			return
		}
	}
	lines, jerr := readJournal(journalPath)
	if jerr != nil {
		err = jerr
		return
	}
	v, intervals, jerr := judgeJournal(lines)
	if jerr != nil {
		err = jerr
		return
	}
	st.Acquisitions = len(intervals)
	if v != "" {
		violation = v
		return
	}
	if timing != "" {
		return
	}
	if st.Acquisitions == 0 {
		violation = "no racer ever acquired the lock during the round"
		return
	}
	// Everybody is dead and reaped: the lock must be free now (no timing).
	os.Setenv("MUTAGEN_DATA_DIRECTORY", data)
	lock, aerr := daemon.AcquireLock()
	os.Unsetenv("MUTAGEN_DATA_DIRECTORY")
	if aerr != nil {
		violation = fmt.Sprintf("all racers terminated and reaped (some killed while holding), yet the lock cannot be acquired: %v", aerr)
		return
	}
	lock.Release()
	return
}

func drawRaceCase(rt *rapid.T) *RaceCase {
	c := &RaceCase{Racers: rapid.IntRange(4, 12).Draw(rt, "racers")}
	for i := 0; i < c.Racers; i++ {
		c.Seeds = append(c.Seeds, rapid.Uint64Range(1, 1<<40).Draw(rt, fmt.Sprintf("seed%d", i)))
	}
	c.MaxHoldUS = rapid.SampledFrom([]int{0, 200, 2000, 10000, 30000, 30000}).Draw(rt, "maxhold")
	n := min(rapid.SampledFrom([]int{0, 1, 1, 2, 2, 3, 4}).Draw(rt, "kills"), c.Racers-2)
	for i := 0; i < n; i++ {
		c.Kills = append(c.Kills, Kill{
			AfterMS: rapid.IntRange(2, 60).Draw(rt, fmt.Sprintf("kill%d.after", i)),
			Aim:     rapid.SampledFrom([]string{"holder", "holder", "random"}).Draw(rt, fmt.Sprintf("kill%d.aim", i)),
			Pick:    rapid.IntRange(0, 11).Draw(rt, fmt.Sprintf("kill%d.pick", i)),
		})
	}
	c.TailMS = rapid.IntRange(10, 80).Draw(rt, "tail")
	return c
}

// raceVerdict runs a round; a timing complaint is re-executed up to three
// times and only reported if it shows every time.
func raceVerdict(c *RaceCase, base string) (violation string, st RaceStats, inconclusive string, err error) {
	for attempt := 0; attempt < 3; attempt++ {
		root := caseRoot(base)
		v, timing, s, e := runRace(c, root)
		os.RemoveAll(root)
		if e != nil {
			return "", s, "", e
		}
		if v != "" {
			return v, s, "", nil
		}
		st = s
		if timing == "" {
			if attempt > 0 {
				return "", st, "handover exceeded the bound once but not on re-execution", nil
			}
			return "", st, "", nil
		}
		violation = timing
	}
	return violation, st, "", nil
}

func TestRacingProcesses(t *testing.T) {
	if ev.ReplayPath() != "" {
		t.Skip("replaying")
	}
	rec := ev.New(t, prop, "racing-processes-journal",
		"rapid: 4..12 racer processes share one data directory and loop acquire / journal BEGIN (CLOCK_MONOTONIC read after acquiring) / hold 0..30 ms / journal END (clock read before releasing) / release; the parent SIGKILLs 0..4 of them (aimed at the current holder or random), journaling KILL before the signal and REAP after wait; oracle: definite-hold intervals [BEGIN,END] and [BEGIN,KILL-sent] pairwise disjoint, after a holder is killed and reaped a survivor acquires within 30 s (re-executed 3 times before reporting), after all are reaped the parent acquires immediately. Non-trivial: a racer was killed while definitely holding and other racers were alive to take over")
	base := t.TempDir()
	ev.Check(t, rec, 8, 80, func(rt *rapid.T) {
		c := drawRaceCase(rt)
		if aborted {
			return
		}
		violation, st, inconclusive, err := raceVerdict(c, base)
		if err != nil {
			abort("%v", err)
			return
		}
		rec.Eval()
		if inconclusive != "" {
			ev.Inconclusive("C28: %s", inconclusive)
		}
		if violation != "" {
			ev.Failf(rt, rec, c, "%s", violation)
		}
		rec.ClassN("acquisitions", uint64(st.Acquisitions))
		rec.ClassN("holder-kills", uint64(st.HolderKills))
		if len(c.Kills) == 0 {
			rec.Class("round/no-kill")
		}
		if st.HolderKillsWaited > 0 {
			rec.Class("round/holder-killed-with-waiters")
			raw, _ := json.Marshal(c)
			rec.NonTrivial(ev.Hash(string(raw)))
			if rec.WantSample() {
				rec.Sample(map[string]any{"case": c, "acquisitions": st.Acquisitions, "holder_kills": st.HolderKills, "max_handover_ms": st.MaxHandoverMS})
			}
		}
		if st.MaxHandoverMS > 1000 {
			rec.Class("handover>1s")
		}
	})
}

// ---------------------------------------------------------------------------
// Replay.
// ---------------------------------------------------------------------------

func TestReplay(t *testing.T) {
	if ev.ReplayPath() == "" {
		t.Skip("no replay requested")
	}
	rec := ev.New(t, prop, "replay", "replay of a saved case")
	base := t.TempDir()
	switch ev.ReplayPart() {
	case "command-driven-workers":
		var c ModelCase
		if _, err := ev.LoadReplay(ev.ReplayPath(), &c); err != nil {
			t.Fatalf("cannot load replay: %v", err)
		}
		violation, _, err := runModel(&c, caseRoot(base))
		drainPool()
		rec.Eval()
		if err != nil {
			ev.Inconclusive("C28 worker harness trouble: %v", err)
			t.Skip()
		}
		if violation != "" {
			ev.FailTB(t, rec, &c, "%s", violation)
		}
	default:
		var c RaceCase
		if _, err := ev.LoadReplay(ev.ReplayPath(), &c); err != nil {
			t.Fatalf("cannot load replay: %v", err)
		}
		// Schedules are not reproducible exactly: try the round a few times.
		for i := 0; i < 5; i++ {
			violation, _, _, err := raceVerdict(&c, base)
			rec.Eval()
			if err != nil {
				ev.Inconclusive("C28 race harness trouble: %v", err)
				t.Skip()
			}
			if violation != "" {
				ev.FailTB(t, rec, &c, "%s", violation)
			}
		}
	}
}
