// Package c29_lifecycle decides C29: session lifecycle commands take effect
// exactly as documented. A real Manager is driven with generated command
// sequences; the oracle judges the journal of endpoint calls (stamped with a
// global sequence), the persisted files and both roots.
package c29_lifecycle

import (
	"context"
	"fmt"
	"os"
	"path/filepath"
	"strings"
	"sync"
	"sync/atomic"
	"testing"
	"time"

	"pgregory.net/rapid"

	"github.com/mutagen-io/mutagen/pkg/encoding"
	"github.com/mutagen-io/mutagen/pkg/synchronization/core"

	"verif/kit/ev"
	"verif/kit/sess"
)

const prop = "C29"

// Cmd is one step of a lifecycle history.
type Cmd struct {
	Op   string `json:"op"` // edit-alpha, edit-beta, pause, resume, flush, flush-nowait, reset, terminate, restart, flush||pause, settle
	Name string `json:"name,omitempty"`
}

// Case is a command sequence.
type Case struct {
	CreatePaused bool   `json:"create_paused"`
	Cmds         []*Cmd `json:"cmds"`
}

var working = map[string]bool{"scan": true, "stage": true, "supply": true, "transition": true}

type model struct {
	exists bool
	paused bool
}

func readFiles(root string) map[string]string {
	out := map[string]string{}
	entries, _ := os.ReadDir(root)
	for _, e := range entries {
		if e.Type().IsRegular() {
			b, _ := os.ReadFile(filepath.Join(root, e.Name()))
			out[e.Name()] = string(b)
		}
	}
	return out
}

func run(c *Case, base string) (violation string, nontrivial bool, classes []string) {
	data := filepath.Join(base, "data")
	aRoot, bRoot := filepath.Join(base, "alpha"), filepath.Join(base, "beta")
	os.MkdirAll(aRoot, 0o755)
	os.MkdirAll(bRoot, 0o755)
	j := &sess.Journal{}
	var slow, hold atomic.Bool
	held := make(chan struct{}, 16)
	sess.Install(j, &sess.Hooks{Scan: func(session string, alpha bool, ancestor *core.Entry, full bool) (bool, *core.Snapshot, error, bool) {
		if slow.Load() {
			time.Sleep(40 * time.Millisecond)
		}
		// What history the cycle starts from is recorded in the journal.
		if ancestor == nil {
			j.Mark(session, "scan-without-history")
		} else {
			j.Mark(session, "scan-with-history")
		}
		return false, nil, nil, false
	}, OnTransition: func(ctx context.Context, session string, alpha bool) {
		// Hold beta's transition until the controller's context is cancelled.
		if !alpha && hold.CompareAndSwap(true, false) {
			held <- struct{}{}
			select {
			case <-ctx.Done():
			case <-time.After(10 * time.Second):
			}
		}
	}})
	defer sess.Install(nil, nil)
	env, err := sess.NewEnv(data)
	if err != nil {
		return "", false, nil
	}
	defer func() { env.Close() }()
	id, err := env.Create(aRoot, bRoot, sess.ManualConfig(core.SynchronizationMode_SynchronizationModeTwoWaySafe), nil, nil, "", nil, c.CreatePaused)
	if err != nil {
		return fmt.Sprintf("session creation fails: %v", err), false, nil
	}
	m := &model{exists: true, paused: c.CreatePaused}
	// quiet is the sequence number after which no work call may begin until
	// released (0: not in a quiet period).
	var quietSince int64
	var quietWhy string
	if c.CreatePaused {
		quietSince, quietWhy = j.Mark(id, "created-paused"), "the session was created paused"
	}
	checkQuiet := func(upTo int64) string {
		if quietSince == 0 {
			return ""
		}
		for _, e := range j.Events() {
			if e.Session == id && e.Phase == "begin" && working[e.Call] && e.Seq > quietSince && e.Seq < upTo {
				return fmt.Sprintf("endpoint call %q (alpha=%v) began at journal position %d although %s at position %d and nothing released it before %d", e.Call, e.Alpha, e.Seq, quietWhy, quietSince, upTo)
			}
		}
		return ""
	}
	var pendingEdits []struct{ side, name, content string }
	var sawPauseRestartResume, sawRace bool
	var restartedWhilePaused bool
	counter := 0
	for ci, cmd := range c.Cmds {
		begin := j.Mark(id, cmd.Op+".begin")
		switch cmd.Op {
		case "edit-alpha", "edit-beta":
			counter++
			root, side := aRoot, "alpha"
			if cmd.Op == "edit-beta" {
				root, side = bRoot, "beta"
			}
			name := fmt.Sprintf("f%d-%s", counter, side)
			content := fmt.Sprintf("content %d", counter)
			os.WriteFile(filepath.Join(root, name), []byte(content), 0o644)
			pendingEdits = append(pendingEdits, struct{ side, name, content string }{side, name, content})
		case "pause":
			err := env.Pause(id)
			end := j.Mark(id, "pause.end")
			if m.exists {
				if err != nil {
					return fmt.Sprintf("step %d: pause fails: %v", ci, err), false, classes
				}
				if !m.paused {
					quietSince, quietWhy = end, "pause returned"
				}
				m.paused = true
			}
		case "resume":
			if v := checkQuiet(begin); v != "" {
				return fmt.Sprintf("step %d: %s", ci, v), true, classes
			}
			err := env.Resume(id)
			if m.exists {
				if err != nil {
					return fmt.Sprintf("step %d: resume fails: %v", ci, err), false, classes
				}
				if m.paused && restartedWhilePaused {
					sawPauseRestartResume = true
				}
				m.paused, quietSince, restartedWhilePaused = false, 0, false
			}
		case "flush":
			err := env.Flush(id, 5*time.Second)
			end := j.Mark(id, "flush.end")
			if err == nil {
				if !m.exists || m.paused {
					return fmt.Sprintf("step %d: waiting flush reports success for a %s session", ci, map[bool]string{true: "paused", false: "terminated"}[m.exists]), true, classes
				}
				if v := cycleWithin(j, id, begin, end); v != "" {
					return fmt.Sprintf("step %d: %s", ci, v), true, classes
				}
				// Everything written before the flush must have crossed over.
				for _, e := range pendingEdits {
					other := bRoot
					if e.side == "beta" {
						other = aRoot
					}
					got, rerr := os.ReadFile(filepath.Join(other, e.name))
					if rerr != nil || string(got) != e.content {
						return fmt.Sprintf("step %d: waiting flush returned success but %q written on %s before the flush is not on the other root (%v)", ci, e.name, e.side, rerr), true, classes
					}
				}
				pendingEdits = nil
			}
		case "flush-nowait":
			env.FlushNoWait(id)
		case "flush-behind-running-cycle":
			// A waiting flush issued while a cycle triggered by an earlier
			// (non-waiting) flush is still scanning; an edit made in between
			// must be delivered when the waiting flush returns.
			if !m.exists || m.paused {
				break
			}
			slow.Store(true)
			env.FlushNoWait(id)
			time.Sleep(15 * time.Millisecond)
			counter++
			name := fmt.Sprintf("f%d-alpha", counter)
			content := fmt.Sprintf("content %d", counter)
			os.WriteFile(filepath.Join(aRoot, name), []byte(content), 0o644)
			pendingEdits = append(pendingEdits, struct{ side, name, content string }{"alpha", name, content})
			begin2 := j.Mark(id, "flush.begin")
			err := env.Flush(id, 5*time.Second)
			end := j.Mark(id, "flush.end")
			slow.Store(false)
			sawRace = true
			if err == nil {
				if v := cycleWithin(j, id, begin2, end); v != "" {
					return fmt.Sprintf("step %d (waiting flush behind a running cycle): %s", ci, v), true, classes
				}
				for _, e := range pendingEdits {
					other := bRoot
					if e.side == "beta" {
						other = aRoot
					}
					got, rerr := os.ReadFile(filepath.Join(other, e.name))
					if rerr != nil || string(got) != e.content {
						return fmt.Sprintf("step %d: waiting flush (issued behind a running cycle) returned success but %q written on %s before it is not on the other root (%v)", ci, e.name, e.side, rerr), true, classes
					}
				}
				pendingEdits = nil
			}
		case "flush||pause":
			// A waiting flush racing with a pause.
			if !m.exists || m.paused {
				break
			}
			sawRace = true
			var wg sync.WaitGroup
			var ferr error
			var fend int64
			wg.Add(1)
			go func() {
				defer wg.Done()
				ferr = env.Flush(id, 0)
				fend = j.Mark(id, "flush.end")
			}()
			perr := env.Pause(id)
			pend := j.Mark(id, "pause.end")
			wg.Wait()
			if perr != nil {
				return fmt.Sprintf("step %d: pause (racing with flush) fails: %v", ci, perr), false, classes
			}
			m.paused = true
			quietSince, quietWhy = pend, "pause returned"
			if ferr == nil {
				if v := cycleWithin(j, id, begin, fend); v != "" {
					return fmt.Sprintf("step %d (flush racing with pause): %s", ci, v), true, classes
				}
			}
		case "reset":
			if v := checkQuiet(begin); v != "" {
				return fmt.Sprintf("step %d: %s", ci, v), true, classes
			}
			beforeA, beforeB := readFiles(aRoot), readFiles(bRoot)
			err := env.Reset(id)
			end := j.Mark(id, "reset.end")
			if !m.exists {
				break
			}
			if err != nil {
				return fmt.Sprintf("step %d: reset fails: %v", ci, err), false, classes
			}
			classes = append(classes, "reset")
			a := &core.Archive{}
			if lerr := encoding.LoadAndUnmarshalProtobuf(env.ArchivePath(id), a); lerr != nil || a.Content != nil {
				// A running session may already have completed a cycle
				// after the reset; only a paused one must show it empty.
				if m.paused {
					return fmt.Sprintf("step %d: archive after reset of a paused session is not empty (%v)", ci, lerr), true, classes
				}
			}
			if m.paused {
				quietSince, quietWhy = end, "the paused session was reset"
			}
			// The next completed cycle must keep every file both roots held.
			if !m.paused {
				if ferr := env.Flush(id, 5*time.Second); ferr == nil {
					for name, content := range beforeA {
						if got, _ := os.ReadFile(filepath.Join(aRoot, name)); string(got) != content {
							return fmt.Sprintf("step %d: %q on alpha was lost or changed by the cycle after a reset", ci, name), true, classes
						}
					}
					for name, content := range beforeB {
						if got, _ := os.ReadFile(filepath.Join(bRoot, name)); string(got) != content {
							return fmt.Sprintf("step %d: %q on beta was lost or changed by the cycle after a reset", ci, name), true, classes
						}
					}
					pendingEdits = nil
				}
			}
		case "pause-after-failed-save":
			// The first pause cannot save the session (its directory is
			// briefly unavailable); the retried pause succeeds; the paused
			// state must then survive a manager restart.
			if !m.exists || m.paused {
				break
			}
			sessionsDir := filepath.Dir(env.SessionPath(id))
			away := sessionsDir + ".away"
			if err := os.Rename(sessionsDir, away); err != nil {
				break
			}
			firstErr := env.Pause(id)
			os.Rename(away, sessionsDir)
			if err := env.Pause(id); err != nil {
				return fmt.Sprintf("step %d: pause fails although the session directory is available again (the first attempt had failed: %v): %v", ci, firstErr, err), false, classes
			}
			end := j.Mark(id, "pause.end")
			m.paused = true
			quietSince, quietWhy = end, "pause returned (after a first attempt that could not save the session)"
			classes = append(classes, "pause-after-failed-save")
			if firstErr != nil {
				classes = append(classes, "pause-after-failed-save/first-attempt-failed")
			}
			if err := env.Restart(); err != nil {
				return fmt.Sprintf("step %d: manager restart fails: %v", ci, err), false, classes
			}
			restartedWhilePaused = true
			if st := env.State(id); st == nil || !st.Session.Paused {
				return fmt.Sprintf("step %d: the session was paused (second attempt, after the first could not save the session file: %v) but is not paused after a manager restart", ci, firstErr), true, classes
			}
		case "reset-during-transition":
			// A reset that arrives while a cycle is in the middle of its
			// transition phase: history must still be cleared (the first scan
			// after the reset starts without history) and content that only
			// one root holds at that moment must survive the next cycle.
			if !m.exists || m.paused {
				break
			}
			if env.Flush(id, 5*time.Second) != nil {
				break
			}
			pendingEdits = nil
			both := ""
			for name := range readFiles(aRoot) {
				if _, err := os.Lstat(filepath.Join(bRoot, name)); err == nil {
					both = name
				}
			}
			if both == "" {
				break
			}
			counter++
			fresh := fmt.Sprintf("f%d-alpha", counter)
			os.WriteFile(filepath.Join(aRoot, fresh), []byte(fmt.Sprintf("content %d", counter)), 0o644)
			for len(held) > 0 {
				<-held
			}
			hold.Store(true)
			env.FlushNoWait(id)
			select {
			case <-held:
			case <-time.After(5 * time.Second):
				hold.Store(false)
			}
			os.Remove(filepath.Join(aRoot, both))
			beforeA, beforeB := readFiles(aRoot), readFiles(bRoot)
			err := env.Reset(id)
			hold.Store(false)
			end := j.Mark(id, "reset.end")
			if err != nil {
				return fmt.Sprintf("step %d: reset (during a transition) fails: %v", ci, err), false, classes
			}
			classes = append(classes, "reset-during-transition")
			ferr := env.Flush(id, 5*time.Second)
			for _, e := range j.Events() {
				if e.Session == id && e.Phase == "mark" && e.Seq > end && strings.HasPrefix(e.Call, "scan-with") {
					if e.Call == "scan-with-history" {
						return fmt.Sprintf("step %d: the first scan after a reset (issued while a transition was running) was given the old history", ci), true, classes
					}
					break
				}
			}
			if ferr == nil {
				for name, content := range beforeA {
					if got, _ := os.ReadFile(filepath.Join(aRoot, name)); string(got) != content {
						return fmt.Sprintf("step %d: %q on alpha was lost or changed by the cycle after a reset issued during a transition", ci, name), true, classes
					}
				}
				for name, content := range beforeB {
					if got, _ := os.ReadFile(filepath.Join(bRoot, name)); string(got) != content {
						return fmt.Sprintf("step %d: %q on beta was lost or changed by the cycle after a reset issued during a transition (it had been deleted on alpha after that cycle's scan)", ci, name), true, classes
					}
				}
			}
		case "terminate":
			err := env.Terminate(id)
			end := j.Mark(id, "terminate.end")
			if m.exists {
				if err != nil {
					return fmt.Sprintf("step %d: terminate fails: %v", ci, err), false, classes
				}
				m.exists = false
				quietSince, quietWhy = end, "terminate returned"
				classes = append(classes, "terminate")
				for _, p := range []string{env.SessionPath(id), env.ArchivePath(id)} {
					if _, serr := os.Lstat(p); serr == nil {
						return fmt.Sprintf("step %d: %s still exists after terminate", ci, p), true, classes
					}
				}
			}
		case "restart":
			if err := env.Restart(); err != nil {
				return fmt.Sprintf("step %d: manager restart fails: %v", ci, err), false, classes
			}
			classes = append(classes, "restart")
			st := env.State(id)
			if m.exists {
				if st == nil {
					return fmt.Sprintf("step %d: session is not listed after a manager restart", ci), true, classes
				}
				if st.Session.Paused != m.paused {
					return fmt.Sprintf("step %d: after a manager restart the session is paused=%v, expected %v", ci, st.Session.Paused, m.paused), true, classes
				}
				if m.paused {
					restartedWhilePaused = true
				}
			} else if st != nil {
				return fmt.Sprintf("step %d: terminated session is listed again after a manager restart", ci), true, classes
			}
		case "settle":
			time.Sleep(30 * time.Millisecond)
		}
	}
	// Give stray activity a chance to show, then judge the last quiet period.
	time.Sleep(50 * time.Millisecond)
	last := j.Mark(id, "end-of-history")
	if v := checkQuiet(last); v != "" {
		return "end of history: " + v, true, classes
	}
	return "", sawPauseRestartResume || sawRace, classes
}

// cycleWithin checks that a complete scan of both endpoints began after
// position begin and ended before position end.
func cycleWithin(j *sess.Journal, id string, begin, end int64) string {
	var aBegin, bBegin, aEnd, bEnd int64
	for _, e := range j.Events() {
		if e.Session != id || e.Call != "scan" || e.Seq <= begin || e.Seq >= end {
			continue
		}
		switch {
		case e.Phase == "begin" && e.Alpha && aBegin == 0:
			aBegin = e.Seq
		case e.Phase == "begin" && !e.Alpha && bBegin == 0:
			bBegin = e.Seq
		case e.Phase == "end" && e.Alpha && aBegin != 0 && e.Err == "":
			aEnd = e.Seq
		case e.Phase == "end" && !e.Alpha && bBegin != 0 && e.Err == "":
			bEnd = e.Seq
		}
	}
	if aBegin == 0 || bBegin == 0 || aEnd == 0 || bEnd == 0 {
		return fmt.Sprintf("waiting flush returned success but no complete scan of both endpoints lies between the request (position %d) and its return (position %d)", begin, end)
	}
	return ""
}

func render(c *Case) string {
	var s []string
	if c.CreatePaused {
		s = append(s, "create-paused")
	}
	for _, cmd := range c.Cmds {
		s = append(s, cmd.Op)
	}
	return strings.Join(s, " ")
}

func TestLifecycleHistories(t *testing.T) {
	if ev.ReplayPath() != "" {
		t.Skip()
	}
	rec := ev.New(t, prop, "lifecycle-histories", "rapid: command sequences (5-25 of: edit alpha/beta, pause, resume, waiting flush, non-waiting flush, reset, terminate, manager restart on the same data directory, a waiting flush racing with a pause, a waiting flush issued behind a cycle that is still scanning, a pause whose first attempt cannot save the session file (directory moved away) retried and followed by a manager restart, a reset issued while beta's transition is held in flight and a file both roots hold is deleted on alpha) on a real Manager session between two real roots, endpoint calls journaled with a global sequence; non-trivial: the history contains pause -> restart -> resume or a flush racing with a pause")
	base := t.TempDir()
	n := 0
	ev.Check(t, rec, 150, 5000, func(rt *rapid.T) {
		c := &Case{CreatePaused: rapid.IntRange(0, 4).Draw(rt, "create-paused") == 0}
		ops := []string{"edit-alpha", "edit-beta", "edit-alpha", "pause", "resume", "resume", "flush", "flush", "flush-nowait", "flush-behind-running-cycle", "reset", "reset-during-transition", "pause-after-failed-save", "terminate", "restart", "restart", "flush||pause", "settle"}
		for k := rapid.IntRange(5, 25).Draw(rt, "len"); k > 0; k-- {
			op := rapid.SampledFrom(ops).Draw(rt, "op")
			if op == "terminate" && rapid.IntRange(0, 2).Draw(rt, "really-terminate") > 0 {
				op = "flush"
			}
			c.Cmds = append(c.Cmds, &Cmd{Op: op})
		}
		n++
		dir := filepath.Join(base, fmt.Sprintf("c%d", n))
		os.Mkdir(dir, 0o700)
		defer os.RemoveAll(dir)
		v, nt, classes := run(c, dir)
		rec.Eval()
		if v != "" {
			ev.Failf(rt, rec, c, "%s", v)
		}
		for _, cl := range classes {
			rec.Class(cl)
		}
		if nt {
			rec.Class("nontrivial")
			rec.NonTrivial(ev.Hash(render(c)))
			if rec.WantSample() {
				rec.Sample(render(c))
			}
		}
	})
}

func TestReplay(t *testing.T) {
	if ev.ReplayPath() == "" {
		t.Skip()
	}
	var c Case
	if _, err := ev.LoadReplay(ev.ReplayPath(), &c); err != nil {
		t.Fatal(err)
	}
	rec := ev.New(t, prop, "replay", "replay of a saved case")
	rec.Eval()
	if v, _, _ := run(&c, t.TempDir()); v != "" {
		ev.FailTB(t, rec, &c, "%s", v)
	}
}
