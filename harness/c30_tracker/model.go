// Package c30_tracker checks C30: state-change long-polls (state.Tracker and
// state.TrackingLock) never miss an update.
//
// A generated script (who notifies, who waits with which previous index, who
// cancels, who terminates, with which yields and sleeps) is executed with real
// goroutines against the real tracker. Every call is recorded together with
// counters the harness maintains itself, and the recorded history is judged by
// rules that hold under any scheduling delay (see judge).
package c30_tracker

import (
	"fmt"
	"time"
)

// Step is one scripted action of a goroutine.
type Step struct {
	// Op is one of: notify, unlock, unlock-quiet, wait, terminate, yield, sleep.
	Op string `json:"op"`
	// Prev selects the previous index of a wait: zero, current (read right
	// before), last (last index this goroutine saw), stale (last - Back, at
	// least 1), future (last + 1e6 + Back).
	Prev string `json:"prev,omitempty"`
	Back int    `json:"back,omitempty"`
	// CancelUs of a wait: -1 no planned cancellation, 0 context cancelled
	// before the call, > 0 cancelled that many microseconds after the call
	// started.
	CancelUs int `json:"cancel_us,omitempty"`
	// N of a notify step: number of back-to-back NotifyOfChange calls (0: one).
	N int `json:"n,omitempty"`
	// SleepUs of a sleep step.
	SleepUs int `json:"sleep_us,omitempty"`
}

// Case is a complete schedule: scripts of the goroutines and the actions the
// closer performs whenever every unfinished goroutine is parked in a wait that
// nothing is going to release ("notify" entries; a final Terminate is
// implicit).
type Case struct {
	Routines [][]Step `json:"routines"`
	Closer   []string `json:"closer"`
}

// Timing bounds. A waiter that is obliged to return (see obligation below) and
// has not done so after rescueAfter plus a grace period in which it is
// re-checked every few milliseconds is cancelled by the harness ("rescued").
// The history is a timing failure only if the obligation had existed for at
// least bound before the rescue, by measured times.
const (
	bound        = 2 * time.Second
	rescueAfter  = 4 * time.Second
	graceSteps   = 50
	graceStep    = 20 * time.Millisecond
	caseDeadline = 25 * time.Second
)

// WaitRec is the record of one WaitForChange call.
type WaitRec struct {
	G, I int
	Prev uint64
	// Planned is the step's CancelUs.
	Planned int
	// SeqStart/SeqEnd are draws from one global atomic counter taken right
	// before the call and right after its return.
	SeqStart, SeqEnd uint64
	// Lo is 1 + the number of notifying calls that had returned, with
	// Terminate not yet invoked, when read before the call. Hi is 1 + the
	// number of notifying calls that had been invoked (before any Terminate
	// had returned) when read after the return.
	Lo, Hi uint64
	// TermDoneBefore: some Terminate had returned before the call.
	// TermStartedAfter: some Terminate had been invoked when the call returned.
	TermDoneBefore, TermStartedAfter bool
	// CancelInvoked: the context's cancel function had been invoked (by plan
	// or by the rescue) when the call returned.
	CancelInvoked bool
	// T0/T1 are measured right before the call / right after the return,
	// CancelAt after the planned cancel function returned (0: not invoked),
	// RescueAt when the rescue cancelled the context (0: not rescued); all in
	// nanoseconds on the monotonic clock since the start of the case.
	T0, T1, CancelAt, RescueAt int64
	R                          uint64
	Err                        string // "", "terminated", "canceled" or other text
	Returned                   bool
}

// History is everything recorded while executing a case.
type History struct {
	Waits []WaitRec
	// CountedAt[k-1] is a time at which at least k notifying calls had
	// returned with Terminate not yet invoked (so the index was >= 1+k from
	// then on); 0 when that count was never reached.
	CountedAt []int64
	// TermDoneAt: time after the first Terminate returned (0: none did).
	TermDoneAt int64
	// Started/Counted: final values of the two counters.
	Started, Counted uint64
	// Final index read after everything finished and Terminate returned.
	Final    uint64
	FinalErr string
	// BeforeFinalTerminate is the index read after all goroutines finished and
	// before the harness' last Terminate.
	BeforeFinalTerminate uint64
	// Hang: the case did not finish within caseDeadline.
	Hang bool
	// Inline are violations detected while running (mutual exclusion).
	Inline []string
	// TermMid: a scripted Terminate ran.
	TermMid bool
}

// Verdict is the result of judging a history.
type Verdict struct {
	// Safety violations do not depend on timing.
	Safety []string
	// Timing failures (a call that had to return did not within the bound).
	Timing     []string
	NonTrivial bool
	Classes    []string
}

// obligation returns the earliest measured time from which the wait was
// obliged to return, or 0 when no such time is known.
func obligation(h *History, w *WaitRec) int64 {
	var cands []int64
	if w.Prev == 0 {
		cands = append(cands, w.T0)
	} else {
		// The index was >= Lo > Prev before the call and never decreases.
		if w.Prev < w.Lo {
			cands = append(cands, w.T0)
		}
		// The index never exceeded 1 + Started during the whole run.
		if w.Prev > 1+h.Started {
			cands = append(cands, w.T0)
		}
		// From CountedAt[Prev-1] on the index was >= Prev+1.
		if w.Prev >= 1 && w.Prev-1 < uint64(len(h.CountedAt)) {
			if t := h.CountedAt[w.Prev-1]; t != 0 {
				cands = append(cands, t)
			}
		}
		if w.CancelAt != 0 {
			cands = append(cands, w.CancelAt)
		}
	}
	if h.TermDoneAt != 0 {
		cands = append(cands, h.TermDoneAt)
	}
	if len(cands) == 0 {
		return 0
	}
	m := cands[0]
	for _, c := range cands[1:] {
		m = min(m, c)
	}
	return max(m, w.T0)
}

// judge applies the oracle to a recorded history. Soundness argument for each
// rule is given next to it; all rules only use values measured by the harness
// in an order that makes the stated inequality hold under arbitrary delays.
func judge(c *Case, h *History) Verdict {
	var v Verdict
	bad := func(f string, a ...any) { v.Safety = append(v.Safety, fmt.Sprintf(f, a...)) }
	slow := func(f string, a ...any) { v.Timing = append(v.Timing, fmt.Sprintf(f, a...)) }
	cls := map[string]bool{}
	v.Safety = append(v.Safety, h.Inline...)

	if h.Hang {
		slow("case did not finish within %v (some call never returned)", caseDeadline)
	}
	for i := range h.Waits {
		w := &h.Waits[i]
		id := fmt.Sprintf("wait g%d#%d prev=%d", w.G, w.I, w.Prev)
		if !w.Returned {
			slow("%s never returned", id)
			continue
		}
		// S1: only the three documented outcomes.
		if w.Err != "" && w.Err != "terminated" && w.Err != "canceled" {
			bad("%s returned unexpected error %q", id, w.Err)
		}
		// S8: indices are always greater than 0.
		if w.R == 0 {
			bad("%s returned index 0", id)
		}
		// S2: a successful long-poll reports a change.
		if w.Err == "" && w.Prev != 0 && w.R == w.Prev {
			bad("%s returned without error but with the unchanged index %d", id, w.R)
		}
		// S3: the returned index is the tracker's index at some moment during
		// the call; Lo notifications had completed before it, at most Hi-1
		// had started after it.
		if w.R < w.Lo {
			bad("%s returned index %d although %d notifications had completed before the call (index >= %d)", id, w.R, w.Lo-1, w.Lo)
		}
		if w.R > w.Hi {
			bad("%s returned index %d although only %d notifying calls had been started when it returned (index <= %d)", id, w.R, w.Hi-1, w.Hi)
		}
		// S4: termination is only reported once somebody invoked Terminate.
		if w.Err == "terminated" && !w.TermStartedAfter {
			bad("%s reported termination but Terminate had not been invoked", id)
		}
		// S5: cancellation is only reported for a cancelled context, and never
		// for an immediate read.
		if w.Err == "canceled" && (!w.CancelInvoked || w.Prev == 0) {
			bad("%s reported cancellation (cancel invoked: %v)", id, w.CancelInvoked)
		}
		// S6: after Terminate has returned every call reports termination and
		// the frozen index.
		if w.TermDoneBefore && !h.Hang {
			if w.Err != "terminated" {
				bad("%s started after Terminate returned but reported %q", id, w.Err)
			}
			if w.R != h.Final {
				bad("%s started after Terminate returned and saw index %d, final index is %d", id, w.R, h.Final)
			}
		}
		// L1: rescued although obliged to return for at least bound.
		if w.RescueAt != 0 {
			cls["wait/rescued"] = true
			if ob := obligation(h, w); ob != 0 && w.RescueAt-ob >= int64(bound) {
				slow("%s had to return from t=%v on (stale/future index, completed notification, cancellation or termination) but was still blocked at t=%v", id, time.Duration(ob), time.Duration(w.RescueAt))
			}
		}
		// Classes (scripted calls only, not the harness' own closing reads).
		if w.G < 0 {
			continue
		}
		switch {
		case w.Prev == 0:
			cls["wait/immediate-read"] = true
		case w.Err == "terminated":
			cls["wait/ended-by-terminate"] = true
		case w.Err == "canceled":
			cls["wait/ended-by-cancel"] = true
		case w.Prev < w.Lo:
			cls["wait/stale-index"] = true
		case w.Prev > w.Hi:
			cls["wait/future-index"] = true
		default:
			cls["wait/possibly-current-released-by-change"] = true
			v.NonTrivial = true
		}
		if w.Lo == w.Hi {
			cls["wait/exact-bounds"] = true
		}
	}
	// S7: real-time order. If call A returned before call B was invoked then
	// A's index was read no later than B's, and the index never decreases.
	for i := range h.Waits {
		a := &h.Waits[i]
		if !a.Returned {
			continue
		}
		for j := range h.Waits {
			b := &h.Waits[j]
			if !b.Returned || a.SeqEnd >= b.SeqStart {
				continue
			}
			if a.R > b.R {
				bad("index moved backwards: wait g%d#%d returned %d before wait g%d#%d was invoked, which returned %d", a.G, a.I, a.R, b.G, b.I, b.R)
			}
		}
	}
	// S9: accounting over the whole run. Every notifying call that returned
	// before Terminate was invoked advanced the index by one; nothing else did.
	if !h.Hang {
		if h.Final < 1+h.Counted || h.Final > 1+h.Started {
			bad("final index %d outside [%d, %d] (1 + notifying calls completed before / started before termination)", h.Final, 1+h.Counted, 1+h.Started)
		}
		if h.Counted == h.Started {
			cls["final/exact"] = true
		}
		if h.FinalErr != "terminated" {
			bad("immediate read after Terminate reported %q", h.FinalErr)
		}
		if h.BeforeFinalTerminate != h.Final {
			bad("Terminate changed the index from %d to %d", h.BeforeFinalTerminate, h.Final)
		}
	}
	if h.TermMid {
		cls["terminate/scripted"] = true
	}
	switch n := len(c.Routines); {
	case n == 1:
		cls["routines/1"] = true
	case n <= 4:
		cls["routines/2-4"] = true
	default:
		cls["routines/5+"] = true
	}
	if len(c.Routines) < 2 {
		v.NonTrivial = false
	}
	for k := range cls {
		v.Classes = append(v.Classes, k)
	}
	return v
}
