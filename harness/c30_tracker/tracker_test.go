package c30_tracker

import (
	"context"
	"encoding/json"
	"errors"
	"fmt"
	"runtime"
	"strings"
	"sync"
	"sync/atomic"
	"testing"
	"time"

	"pgregory.net/rapid"

	"github.com/mutagen-io/mutagen/pkg/state"

	"verif/kit/ev"
)

const propID = "C30"

// world is the shared state of one executing case.
type world struct {
	tr   *state.Tracker
	lk   *state.TrackingLock
	base time.Time

	seq              atomic.Uint64
	started, counted atomic.Uint64
	termStarted      atomic.Bool
	termDone         atomic.Bool
	termDoneAt       atomic.Int64
	countedAt        []atomic.Int64
	inCS             atomic.Int32
	termMid          atomic.Bool

	mu     sync.Mutex
	waits  []*WaitRec
	inline []string
}

func (w *world) now() int64 { return int64(time.Since(w.base)) + 1 }

// notifying wraps a call that must advance the index by exactly one unless
// tracking was terminated.
func (w *world) notifying(f func()) {
	// If a Terminate has already returned the call is a no-op and is not
	// counted in the upper bound.
	if !w.termDone.Load() {
		w.started.Add(1)
	}
	f()
	// If no Terminate has been invoked yet (checked after the return) the
	// call found the tracker live and is counted in the lower bound.
	if !w.termStarted.Load() {
		k := w.counted.Add(1)
		if int(k) <= len(w.countedAt) {
			w.countedAt[k-1].Store(w.now())
		}
	}
}

func (w *world) terminate() {
	w.termStarted.Store(true)
	w.tr.Terminate()
	w.termDoneAt.CompareAndSwap(0, w.now())
	w.termDone.Store(true)
}

func errName(err error) string {
	switch {
	case err == nil:
		return ""
	case errors.Is(err, state.ErrTrackingTerminated):
		return "terminated"
	case errors.Is(err, context.Canceled):
		return "canceled"
	}
	return "other: " + err.Error()
}

// wait performs and records one WaitForChange call. blockP, when non-nil, is
// set to prev while a call without planned cancellation is in flight.
func (w *world) wait(g, i int, prev uint64, planned int, blockP *atomic.Uint64) *WaitRec {
	rec := &WaitRec{G: g, I: i, Prev: prev, Planned: planned}
	w.mu.Lock()
	w.waits = append(w.waits, rec)
	w.mu.Unlock()

	ctx, cancel := context.WithCancel(context.Background())
	defer cancel()
	var cancelInvoked, returned atomic.Bool
	var cancelAt, rescueAt atomic.Int64
	var planTimer *time.Timer
	doCancel := func() {
		cancelInvoked.Store(true)
		cancel()
		cancelAt.CompareAndSwap(0, w.now())
	}
	rescueStop := make(chan struct{})
	rescue := time.AfterFunc(rescueAfter, func() {
		for s := 0; s < graceSteps; s++ {
			select {
			case <-rescueStop:
				return
			case <-time.After(graceStep):
			}
			runtime.Gosched()
		}
		if returned.Load() {
			return
		}
		cancelInvoked.Store(true)
		rescueAt.Store(w.now())
		cancel()
	})

	rec.Lo = 1 + w.counted.Load()
	rec.TermDoneBefore = w.termDone.Load()
	if planned == 0 {
		doCancel()
	}
	if blockP != nil && planned < 0 && prev != 0 {
		blockP.Store(prev)
	}
	rec.T0 = w.now()
	if planned > 0 {
		planTimer = time.AfterFunc(time.Duration(planned)*time.Microsecond, doCancel)
	}
	rec.SeqStart = w.seq.Add(1)
	r, err := w.tr.WaitForChange(ctx, prev)
	seqEnd, t1 := w.seq.Add(1), w.now()
	returned.Store(true)
	close(rescueStop)
	rescue.Stop()
	if planTimer != nil {
		planTimer.Stop()
	}
	if blockP != nil {
		blockP.Store(0)
	}
	w.mu.Lock()
	rec.TermStartedAfter = w.termStarted.Load()
	rec.CancelInvoked = cancelInvoked.Load()
	rec.Hi = 1 + w.started.Load()
	rec.SeqEnd, rec.T1 = seqEnd, t1
	rec.R, rec.Err = r, errName(err)
	rec.RescueAt = rescueAt.Load()
	// A planned cancellation only creates an obligation if it was invoked
	// before the call returned; the value is read after the return, and a
	// cancel that raced with the return is at worst a later time.
	rec.CancelAt = cancelAt.Load()
	rec.Returned = true
	w.mu.Unlock()
	return rec
}

type routine struct {
	done   atomic.Bool
	blockP atomic.Uint64
}

func (w *world) runRoutine(g int, steps []Step, rs *routine) {
	defer rs.done.Store(true)
	last := uint64(1) // documented initial index
	see := func(r *WaitRec) {
		if r.R != 0 {
			last = r.R
		}
	}
	for i, s := range steps {
		switch s.Op {
		case "notify":
			for k := 0; k < max(s.N, 1); k++ {
				w.notifying(w.tr.NotifyOfChange)
			}
		case "unlock", "unlock-quiet":
			w.lk.Lock()
			if n := w.inCS.Add(1); n != 1 {
				w.mu.Lock()
				w.inline = append(w.inline, fmt.Sprintf("g%d#%d: %d goroutines inside the tracking lock", g, i, n))
				w.mu.Unlock()
			}
			runtime.Gosched()
			w.inCS.Add(-1)
			if s.Op == "unlock" {
				w.notifying(w.lk.Unlock)
			} else {
				w.lk.UnlockWithoutNotify()
			}
		case "terminate":
			w.termMid.Store(true)
			w.terminate()
		case "yield":
			runtime.Gosched()
		case "sleep":
			time.Sleep(time.Duration(s.SleepUs) * time.Microsecond)
		case "wait":
			var prev uint64
			switch s.Prev {
			case "zero":
				prev = 0
			case "current":
				r := w.wait(g, i, 0, -1, nil)
				see(r)
				prev = last
			case "last":
				prev = last
			case "stale":
				prev = 1
				if back := uint64(max(s.Back, 1)); last > back {
					prev = last - back
				}
			case "future":
				prev = last + 1000000 + uint64(max(s.Back, 0))
			}
			see(w.wait(g, i, prev, s.CancelUs, &rs.blockP))
		}
	}
}

// runCase executes a case once and returns the recorded history.
func runCase(c *Case) *History {
	w := &world{base: time.Now()}
	w.tr = state.NewTracker()
	w.lk = state.NewTrackingLock(w.tr)
	notifies := len(c.Closer)
	for _, r := range c.Routines {
		for _, s := range r {
			if s.Op == "notify" || s.Op == "unlock" {
				notifies += max(s.N, 1)
			}
		}
	}
	w.countedAt = make([]atomic.Int64, notifies+1)

	rs := make([]*routine, len(c.Routines))
	for g := range c.Routines {
		rs[g] = &routine{}
	}
	for g := range c.Routines {
		go w.runRoutine(g, c.Routines[g], rs[g])
	}

	// Closer: whenever every unfinished goroutine sits in a wait that has no
	// planned cancellation and whose previous index may still be current by
	// the harness' counters (so nothing obliges it to return), perform the
	// next closing action. Waits that are obliged to return are never helped:
	// they have to come back on their own (or be rescued and judged).
	closer := append([]string{}, c.Closer...)
	hang := false
	var lastSeq uint64
	stable := 0
	for {
		allDone, quiescent := true, true
		for _, r := range rs {
			if r.done.Load() {
				continue
			}
			allDone = false
			p := r.blockP.Load()
			if p == 0 || w.termDone.Load() || p < 1+w.counted.Load() || p > 1+w.started.Load() {
				quiescent = false
			}
		}
		if allDone {
			break
		}
		if time.Since(w.base) > caseDeadline {
			hang = true
			break
		}
		if quiescent {
			if s := w.seq.Load(); s == lastSeq {
				stable++
			} else {
				lastSeq, stable = s, 0
			}
			if stable >= 2 {
				stable = 0
				if len(closer) > 0 {
					closer = closer[1:]
					w.notifying(w.tr.NotifyOfChange)
				} else {
					w.terminate()
				}
			}
		} else {
			stable = 0
		}
		time.Sleep(100 * time.Microsecond)
	}

	h := &History{Hang: hang}
	if !hang {
		r := w.wait(-1, 0, 0, -1, nil)
		h.BeforeFinalTerminate = r.R
		w.terminate()
		w.tr.Terminate() // idempotent
		r = w.wait(-1, 1, 0, -1, nil)
		h.Final, h.FinalErr = r.R, r.Err
		// After termination notifications are no-ops.
		w.tr.NotifyOfChange()
		w.lk.Lock()
		w.lk.Unlock()
		r = w.wait(-1, 2, 7, -1, nil)
		if r.R != h.Final || r.Err != "terminated" {
			w.inline = append(w.inline, fmt.Sprintf("after Terminate: wait(7) = (%d, %q), final index %d", r.R, r.Err, h.Final))
		}
	}
	w.mu.Lock()
	for _, r := range w.waits {
		h.Waits = append(h.Waits, *r)
	}
	h.Inline = append(h.Inline, w.inline...)
	w.mu.Unlock()
	for i := range w.countedAt {
		h.CountedAt = append(h.CountedAt, w.countedAt[i].Load())
	}
	h.TermDoneAt = w.termDoneAt.Load()
	h.Started, h.Counted = w.started.Load(), w.counted.Load()
	h.TermMid = w.termMid.Load()
	return h
}

// Failure is what is written to the replay file: the schedule plus the history
// of the failing execution (the scheduler is not owned by the harness, so a
// replay may need several executions to hit the same interleaving).
type Failure struct {
	Case    *Case    `json:"case"`
	Problem []string `json:"problem"`
	History *History `json:"history,omitempty"`
}

var reported atomic.Bool

// execute runs a case, re-executing on timing failures as GUIDE.md demands.
// It returns the verdict of the last execution and a non-nil failure when a
// violation is to be reported.
func execute(c *Case) (Verdict, *Failure) {
	var v Verdict
	timingFails := 0
	var firstTiming *Failure
	for attempt := 0; attempt < 3; attempt++ {
		h := runCase(c)
		v = judge(c, h)
		if len(v.Safety) > 0 {
			return v, &Failure{Case: c, Problem: v.Safety, History: trim(h)}
		}
		if len(v.Timing) == 0 {
			break
		}
		timingFails++
		if firstTiming == nil {
			firstTiming = &Failure{Case: c, Problem: v.Timing, History: trim(h)}
		}
	}
	if timingFails == 3 {
		return v, firstTiming
	}
	if timingFails > 0 && !reported.Load() {
		ev.Inconclusive("C30 timing failure in %d of 3 executions of one schedule: %s", timingFails, strings.Join(firstTiming.Problem, "; "))
	}
	return v, nil
}

func trim(h *History) *History {
	c := *h
	if len(c.Waits) > 64 {
		c.Waits = c.Waits[:64]
	}
	return &c
}

func genStep(rt *rapid.T) Step {
	switch k := rapid.IntRange(0, 99).Draw(rt, "op"); {
	case k < 14:
		return Step{Op: "notify"}
	case k < 20:
		return Step{Op: "notify", N: rapid.IntRange(2, 40).Draw(rt, "n")}
	case k < 32:
		return Step{Op: "unlock"}
	case k < 38:
		return Step{Op: "unlock-quiet"}
	case k < 73:
		s := Step{Op: "wait"}
		s.Prev = rapid.SampledFrom([]string{"zero", "current", "current", "current", "last", "last", "last", "stale", "stale", "future"}).Draw(rt, "prev")
		if s.Prev == "stale" || s.Prev == "future" {
			s.Back = rapid.IntRange(1, 3).Draw(rt, "back")
		}
		switch c := rapid.IntRange(0, 9).Draw(rt, "cancel"); {
		case c < 5:
			s.CancelUs = -1
		case c < 6:
			s.CancelUs = 0
		case c < 9:
			s.CancelUs = rapid.IntRange(1, 300).Draw(rt, "cancel_us")
		default:
			s.CancelUs = rapid.IntRange(300, 3000).Draw(rt, "cancel_us")
		}
		return s
	case k < 75:
		return Step{Op: "terminate"}
	case k < 90:
		return Step{Op: "yield"}
	default:
		return Step{Op: "sleep", SleepUs: rapid.IntRange(1, 400).Draw(rt, "sleep_us")}
	}
}

func genCase(rt *rapid.T) *Case {
	c := &Case{}
	n := rapid.IntRange(1, 12).Draw(rt, "routines")
	for g := 0; g < n; g++ {
		k := rapid.IntRange(1, 8).Draw(rt, "steps")
		var steps []Step
		for i := 0; i < k; i++ {
			steps = append(steps, genStep(rt))
		}
		c.Routines = append(c.Routines, steps)
	}
	for i, k := 0, rapid.IntRange(0, 3).Draw(rt, "closer"); i < k; i++ {
		c.Closer = append(c.Closer, "notify")
	}
	return c
}

func fingerprint(c *Case) uint64 {
	b, _ := json.Marshal(c)
	return ev.Hash(string(b))
}

func TestC30_Schedules(t *testing.T) {
	if ev.ReplayPath() != "" {
		t.Skip("replaying")
	}
	rec := ev.New(t, propID, "schedules",
		"rapid: 1-12 goroutines x 1-8 steps (notify / lock+unlock / lock+unlock-without-notify / wait with previous index zero|current|last|stale|future and no|pre|timed cancellation / terminate / yield / sleep) run against the real tracker; "+
			"non-trivial: >= 2 goroutines and at least one long-poll whose previous index could still be current when it was issued and that was released by a later change")
	rec.Note("timing_bound", bound.String())
	ev.Check(t, rec, 3000, 40000, func(rt *rapid.T) {
		c := genCase(rt)
		v, fail := execute(c)
		rec.Eval()
		if fail != nil {
			reported.Store(true)
			ev.Failf(rt, rec, fail, "%s", strings.Join(fail.Problem, "; "))
		}
		for _, k := range v.Classes {
			rec.Class(k)
		}
		if v.NonTrivial {
			rec.Class("nontrivial")
			rec.NonTrivial(fingerprint(c))
			if rec.WantSample() {
				rec.Sample(c)
			}
		}
	})
}

// TestC30_Sequential runs single-goroutine scripts, where the harness'
// bounds coincide and every index is determined exactly.
func TestC30_Sequential(t *testing.T) {
	if ev.ReplayPath() != "" {
		t.Skip("replaying")
	}
	rec := ev.New(t, propID, "sequential",
		"rapid: one goroutine, 1-24 steps; every returned index is determined exactly (lower bound = upper bound); "+
			"non-trivial: the script has a notifying call, a non-notifying unlock and a wait with a non-zero previous index")
	ev.Check(t, rec, 1000, 15000, func(rt *rapid.T) {
		c := &Case{}
		var steps []Step
		for i, k := 0, rapid.IntRange(1, 24).Draw(rt, "steps"); i < k; i++ {
			s := genStep(rt)
			if s.Op == "wait" && s.CancelUs < 0 {
				// Nobody else could release it; keep the closer out of the
				// picture so that every index is exact.
				s.CancelUs = rapid.IntRange(0, 200).Draw(rt, "cancel_us")
			}
			steps = append(steps, s)
		}
		c.Routines = [][]Step{steps}
		v, fail := execute(c)
		rec.Eval()
		if fail != nil {
			reported.Store(true)
			ev.Failf(rt, rec, fail, "%s", strings.Join(fail.Problem, "; "))
		}
		for _, k := range v.Classes {
			rec.Class(k)
		}
		var n, q, wt bool
		for _, s := range steps {
			n = n || s.Op == "notify" || s.Op == "unlock"
			q = q || s.Op == "unlock-quiet"
			wt = wt || (s.Op == "wait" && s.Prev != "zero")
		}
		if n && q && wt {
			rec.Class("nontrivial")
			rec.NonTrivial(fingerprint(c))
			if rec.WantSample() {
				rec.Sample(c)
			}
		}
	})
}

func TestReplay(t *testing.T) {
	if ev.ReplayPath() == "" {
		t.Skip("no replay requested")
	}
	var f Failure
	if _, err := ev.LoadReplay(ev.ReplayPath(), &f); err != nil || f.Case == nil {
		t.Fatalf("cannot load replay: %v", err)
	}
	rec := ev.New(t, propID, "replay", "replay of a saved schedule (re-executed up to 200 times; the interleaving is not owned by the harness)")
	for i := 0; i < 200; i++ {
		_, fail := execute(f.Case)
		rec.Eval()
		if fail != nil {
			ev.FailTB(t, rec, fail, "%s", strings.Join(fail.Problem, "; "))
		}
	}
}
