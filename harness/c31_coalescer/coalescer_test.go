package c31_coalescer

import (
	"encoding/json"
	"fmt"
	"strings"
	"sync"
	"sync/atomic"
	"testing"
	"time"

	"pgregory.net/rapid"

	"github.com/mutagen-io/mutagen/pkg/state"

	"verif/kit/ev"
)

const propID = "C31"

type world struct {
	c    *state.Coalescer
	sig  <-chan struct{}
	base time.Time
	w    int64

	mu      sync.Mutex
	strobes []*StrobeRec
	signals []SigRec
	awaits  []AwaitRec
	inline  []string

	lastStart  atomic.Int64 // start of the latest strobe (any strober)
	termCallAt atomic.Int64
	termRet    atomic.Int64
	hasConsumr bool
}

func (w *world) now() int64 { return int64(time.Since(w.base)) + 1 }

func (w *world) strobe(g int) {
	rec := &StrobeRec{G: g}
	w.mu.Lock()
	w.strobes = append(w.strobes, rec)
	w.mu.Unlock()
	start := w.now()
	for {
		old := w.lastStart.Load()
		if old >= start || w.lastStart.CompareAndSwap(old, start) {
			break
		}
	}
	w.c.Strobe()
	ret := w.now()
	w.mu.Lock()
	rec.Start, rec.Ret = start, ret
	w.mu.Unlock()
}

// receive performs one receive with a timeout and records a signal.
func (w *world) receive(timeout time.Duration) bool {
	before := w.now()
	t := time.NewTimer(timeout)
	defer t.Stop()
	select {
	case <-w.sig:
		at := w.now()
		w.mu.Lock()
		w.signals = append(w.signals, SigRec{Before: before, At: at})
		w.mu.Unlock()
		return true
	case <-t.C:
		return false
	}
}

func (w *world) peek(where string) {
	if l, c := len(w.sig), cap(w.sig); l > 1 || c != 1 {
		w.mu.Lock()
		w.inline = append(w.inline, fmt.Sprintf("%s: len(Signals()) = %d, cap = %d (at most one signal may ever be buffered)", where, l, c))
		w.mu.Unlock()
	}
}

// have tells whether a signal received at or after minAt has been recorded.
func (w *world) have(minAt int64) bool {
	w.mu.Lock()
	defer w.mu.Unlock()
	for _, s := range w.signals {
		if s.At >= minAt {
			return true
		}
	}
	return false
}

// await waits until a signal received at or after lastStart+window has been
// recorded. Without a consumer goroutine it receives itself.
func (w *world) await(final bool) {
	rec := AwaitRec{Final: final, MinAt: w.lastStart.Load() + w.w, From: w.now()}
	deadline := rec.From + w.w + int64(bound)
	grace := 0
	for {
		if w.have(rec.MinAt) {
			rec.Satisfied = true
			break
		}
		if w.now() > deadline {
			// Keep going for a while in small observed steps: a stalled
			// process must not produce a verdict by itself.
			grace++
			if grace > graceSteps {
				rec.GaveUpAt = w.now()
				break
			}
			if w.hasConsumr {
				time.Sleep(graceStep)
			} else {
				w.receive(graceStep)
			}
			continue
		}
		if w.hasConsumr {
			time.Sleep(200 * time.Microsecond)
		} else {
			w.receive(500 * time.Microsecond)
		}
	}
	w.mu.Lock()
	w.awaits = append(w.awaits, rec)
	w.mu.Unlock()
}

func (w *world) terminate(scripted bool) {
	if scripted {
		w.termCallAt.CompareAndSwap(0, w.now())
	}
	w.c.Terminate()
	if scripted {
		w.termRet.CompareAndSwap(0, w.now())
	}
}

func runScript(s *Script) *History {
	w := &world{base: time.Now(), w: int64(s.WindowMs) * int64(time.Millisecond)}
	w.c = state.NewCoalescer(time.Duration(w.w))
	w.sig = w.c.Signals()
	w.hasConsumr = s.Consumer != "none"
	h := &History{Window: w.w}

	stop := make(chan struct{})
	var consumerDone sync.WaitGroup
	if w.hasConsumr {
		consumerDone.Add(1)
		go func() {
			defer consumerDone.Done()
			for {
				select {
				case <-stop:
					return
				default:
				}
				if w.receive(300*time.Microsecond) && s.Consumer == "slow" {
					time.Sleep(time.Duration(s.SlowUs) * time.Microsecond)
				}
			}
		}()
	}

	done := make(chan struct{})
	go func() {
		defer close(done)
		var wg sync.WaitGroup
		for g, ops := range s.Extra {
			wg.Add(1)
			go func() {
				defer wg.Done()
				for _, op := range ops {
					switch op.Kind {
					case "strobe":
						w.strobe(g + 1)
					case "sleep":
						time.Sleep(time.Duration(op.Us) * time.Microsecond)
					}
				}
			}()
		}
		// pending: a strobe was issued and no await has been satisfied since.
		pending := false
		for _, ops := range s.Extra {
			for _, op := range ops {
				pending = pending || op.Kind == "strobe"
			}
		}
		for i, op := range s.Main {
			switch op.Kind {
			case "strobe":
				w.strobe(0)
				pending = true
			case "sleep":
				time.Sleep(time.Duration(op.Us) * time.Microsecond)
			case "peek":
				w.peek(fmt.Sprintf("main#%d", i))
			case "await":
				if pending && len(s.Extra) == 0 && w.termCallAt.Load() == 0 {
					w.await(false)
					pending = false
				}
			case "terminate":
				w.terminate(true)
			}
		}
		wg.Wait()
		// Closing phase. Unless the script terminated the coalescer, the
		// latest strobe must still be followed by a signal.
		if pending && w.termCallAt.Load() == 0 {
			w.await(true)
		}
		// Give duplicates and late extras a chance to show up (any signal
		// observed here is judged by the upper bound; observing fewer is
		// never a problem).
		settle := time.Duration(w.w)/2 + 2*time.Millisecond
		if w.hasConsumr {
			time.Sleep(settle)
		} else {
			for end := time.Now().Add(settle); time.Now().Before(end); {
				w.receive(time.Millisecond)
			}
		}
		w.peek("before closing Terminate")
		w.mu.Lock()
		h.CloseCallAt = w.now()
		w.mu.Unlock()
		w.c.Terminate()
		w.c.Terminate() // idempotent
		w.mu.Lock()
		h.CloseRet = w.now()
		w.mu.Unlock()
		// Strobe must return and must have no effect after termination.
		w.strobe(0)
		w.strobe(0)
		time.Sleep(time.Duration(w.w) + 500*time.Microsecond)
		w.peek("after Terminate")
		if !w.hasConsumr {
			for w.receive(200 * time.Microsecond) {
			}
		}
	}()

	select {
	case <-done:
	case <-time.After(caseDeadline):
		// Re-check in small steps before declaring a hang.
		finished := false
		for i := 0; i < graceSteps && !finished; i++ {
			select {
			case <-done:
				finished = true
			case <-time.After(graceStep):
			}
		}
		h.Hang = !finished
	}
	if !h.Hang && w.hasConsumr {
		// Let the consumer pick up what is still buffered, then stop it.
		time.Sleep(time.Millisecond)
		close(stop)
		consumerDone.Wait()
		w.peek("end")
	} else if w.hasConsumr {
		close(stop)
	}

	w.mu.Lock()
	defer w.mu.Unlock()
	for _, r := range w.strobes {
		h.Strobes = append(h.Strobes, *r)
	}
	h.Signals = append(h.Signals, w.signals...)
	h.Awaits = append(h.Awaits, w.awaits...)
	h.Inline = append(h.Inline, w.inline...)
	h.TermCallAt, h.TermRet = w.termCallAt.Load(), w.termRet.Load()
	return h
}

// Failure is the replay value: the script and the failing history.
type Failure struct {
	Script  *Script  `json:"script"`
	Problem []string `json:"problem"`
	History *History `json:"history,omitempty"`
}

var reported atomic.Bool

// execute runs a script; timing failures are re-executed (three failing
// executions of the same schedule are required for a violation).
func execute(s *Script) (Verdict, *Failure) {
	var v Verdict
	fails := 0
	var first *Failure
	for attempt := 0; attempt < 3; attempt++ {
		h := runScript(s)
		v = judge(s, h)
		if len(v.Safety) > 0 {
			return v, &Failure{Script: s, Problem: v.Safety, History: h}
		}
		if len(v.Timing) == 0 {
			break
		}
		fails++
		if first == nil {
			first = &Failure{Script: s, Problem: v.Timing, History: h}
		}
	}
	if fails == 3 {
		return v, first
	}
	if fails > 0 && !reported.Load() {
		ev.Inconclusive("C31 timing failure in %d of 3 executions of one schedule: %s", fails, strings.Join(first.Problem, "; "))
	}
	return v, nil
}

// genGap draws a sleep relative to the window w (microseconds).
func genGap(rt *rapid.T, wUs int) int {
	if wUs == 0 {
		return rapid.SampledFrom([]int{0, 20, 100, 500, 1500}).Draw(rt, "gap0")
	}
	switch rapid.IntRange(0, 9).Draw(rt, "gapkind") {
	case 0, 1, 2:
		return rapid.IntRange(0, wUs/10).Draw(rt, "tiny")
	case 3, 4:
		return rapid.IntRange(wUs/4, wUs/2).Draw(rt, "mid")
	case 5, 6:
		return rapid.IntRange(wUs*8/10, wUs*12/10).Draw(rt, "near")
	default:
		return rapid.IntRange(wUs*2, wUs*4).Draw(rt, "long")
	}
}

func genOps(rt *rapid.T, wUs int, main, allowAwait bool, n int) []Op {
	var ops []Op
	for i := 0; i < n; i++ {
		k := rapid.IntRange(0, 99).Draw(rt, "op")
		switch {
		case k < 50:
			ops = append(ops, Op{Kind: "strobe"})
		case k < 80:
			ops = append(ops, Op{Kind: "sleep", Us: genGap(rt, wUs)})
		case k < 92 && main && allowAwait:
			ops = append(ops, Op{Kind: "await"})
		case k < 95 && main:
			ops = append(ops, Op{Kind: "peek"})
		case k < 97 && main:
			ops = append(ops, Op{Kind: "terminate"})
		default:
			ops = append(ops, Op{Kind: "strobe"})
		}
	}
	return ops
}

func genScript(rt *rapid.T) *Script {
	s := &Script{}
	s.WindowMs = rapid.SampledFrom([]int{0, 5, 5, 20, 20}).Draw(rt, "window_ms")
	s.Consumer = rapid.SampledFrom([]string{"drain", "drain", "slow", "none", "none"}).Draw(rt, "consumer")
	if s.Consumer == "slow" {
		s.SlowUs = rapid.IntRange(100, 30000).Draw(rt, "slow_us")
	}
	wUs := s.WindowMs * 1000
	extra := 0
	if rapid.IntRange(0, 3).Draw(rt, "concurrent") == 0 {
		extra = rapid.IntRange(1, 3).Draw(rt, "extra")
	}
	s.Main = genOps(rt, wUs, true, extra == 0, rapid.IntRange(1, 14).Draw(rt, "n"))
	for g := 0; g < extra; g++ {
		s.Extra = append(s.Extra, genOps(rt, wUs, false, false, rapid.IntRange(1, 10).Draw(rt, "n")))
	}
	return s
}

func fingerprint(s *Script) uint64 {
	b, _ := json.Marshal(s)
	return ev.Hash(string(b))
}

func TestC31_Schedules(t *testing.T) {
	if ev.ReplayPath() != "" {
		t.Skip("replaying")
	}
	rec := ev.New(t, propID, "schedules",
		"rapid: window 0/5/20 ms, main strober with 1-14 ops (strobe, sleep with gap << window / ~window/2 / around the window / 2-4 windows, await, peek, terminate), 0-3 concurrent extra strobers, consumer draining / slow / absent; 1-6 scripts run concurrently per rapid case; "+
			"non-trivial: at least two signals were received, at least two strobes could each have produced one, and at least one strobe was provably coalesced into a later one")
	rec.Note("timing_bound", bound.String())
	ev.Check(t, rec, 150, 3000, func(rt *rapid.T) {
		k := rapid.IntRange(1, 6).Draw(rt, "scripts")
		scripts := make([]*Script, k)
		for i := range scripts {
			scripts[i] = genScript(rt)
		}
		verdicts := make([]Verdict, k)
		fails := make([]*Failure, k)
		var wg sync.WaitGroup
		for i := range scripts {
			wg.Add(1)
			go func() {
				defer wg.Done()
				verdicts[i], fails[i] = execute(scripts[i])
			}()
		}
		wg.Wait()
		for i := range scripts {
			rec.Eval()
			if fails[i] != nil {
				reported.Store(true)
				ev.Failf(rt, rec, fails[i], "%s", strings.Join(fails[i].Problem, "; "))
			}
			for _, c := range verdicts[i].Classes {
				rec.Class(c)
			}
			if verdicts[i].NonTrivial {
				rec.Class("nontrivial")
				rec.NonTrivial(fingerprint(scripts[i]))
				if rec.WantSample() {
					rec.Sample(scripts[i])
				}
			}
		}
	})
}

func TestReplay(t *testing.T) {
	if ev.ReplayPath() == "" {
		t.Skip("no replay requested")
	}
	var f Failure
	if _, err := ev.LoadReplay(ev.ReplayPath(), &f); err != nil || f.Script == nil {
		t.Fatalf("cannot load replay: %v", err)
	}
	rec := ev.New(t, propID, "replay", "replay of a saved schedule (re-executed up to 20 times; the interleaving is not owned by the harness)")
	for i := 0; i < 20; i++ {
		_, fail := execute(f.Script)
		rec.Eval()
		if fail != nil {
			ev.FailTB(t, rec, fail, "%s", strings.Join(fail.Problem, "; "))
		}
	}
}
