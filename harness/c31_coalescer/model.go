// Package c31_coalescer checks C31: coalesced signals (state.Coalescer) are
// never lost, never early, never duplicated.
//
// A generated script (strobe bursts with gaps around the window, extra
// concurrent strobers, a draining / slow / absent consumer, awaits, Terminate
// at a random point) is run with real goroutines against the real coalescer.
// Start and return times of every Strobe and the times around every receive
// are measured on the monotonic clock; the recorded history is judged with
// rules that only assert what scheduling delays cannot fake.
package c31_coalescer

import (
	"fmt"
	"sort"
	"time"
)

// Op is one scripted action of a strober.
type Op struct {
	// Kind: strobe | sleep | await | terminate | peek.
	// await (main strober only, and only when there are no extra strobers)
	// blocks until a signal has been received that was received at least one
	// window after the start of the latest strobe.
	Kind string `json:"kind"`
	// Us is the duration of a sleep in microseconds.
	Us int `json:"us,omitempty"`
}

// Script is one schedule.
type Script struct {
	WindowMs int `json:"window_ms"`
	// Consumer: drain (a goroutine receives continuously), slow (same, but
	// sleeps SlowUs after each receive), none (signals are only received by
	// awaits and at the end).
	Consumer string `json:"consumer"`
	SlowUs   int    `json:"slow_us,omitempty"`
	Main     []Op   `json:"main"`
	Extra    [][]Op `json:"extra,omitempty"`
}

const (
	// bound is the slack granted on top of the window before a missing signal
	// counts as lost; after it expires the waiter keeps polling for another
	// graceSteps x graceStep so that a stall of the whole process cannot turn
	// into a verdict.
	bound      = 2 * time.Second
	graceSteps = 50
	graceStep  = 10 * time.Millisecond
	// caseDeadline bounds a whole script (a Strobe or Terminate that hangs).
	caseDeadline = 10 * time.Second
)

// StrobeRec records one Strobe call (times in ns since the start of the run).
type StrobeRec struct {
	G          int   // 0 = main strober
	Start, Ret int64 // measured right before the call / right after the return
}

// SigRec records one received signal: Before is measured before the receive
// operation was started, At right after it completed.
type SigRec struct {
	Before, At int64
}

// AwaitRec records one await (or the final liveness wait, Final = true).
type AwaitRec struct {
	Final     bool
	MinAt     int64 // latest strobe start + window
	From      int64 // when the wait began (after the latest strobe returned)
	Satisfied bool
	GaveUpAt  int64
}

// History is the record of one execution.
type History struct {
	Window              int64 // ns
	Strobes             []StrobeRec
	Signals             []SigRec
	Awaits              []AwaitRec
	TermCallAt, TermRet int64 // 0: the script had no Terminate before the closing phase
	CloseCallAt         int64 // closing Terminate invoked (always present unless hang)
	CloseRet            int64
	Inline              []string
	Hang                bool
}

// Verdict of the oracle.
type Verdict struct {
	Safety     []string
	Timing     []string
	NonTrivial bool
	Classes    []string
	Eligible   int
}

// judge applies the oracle.
//
// Upper bound (sound under any delay). The run loop arms its timer only when
// it receives a strobe, at a time s in [Start, Ret] of that Strobe call, and a
// timer armed at s does not fire before s + window on the monotonic clock.
// Every timer fire is therefore attributable to a distinct strobe a (the last
// one received before it), it happens no earlier than Start(a) + window, and
// no other strobe was received in between. A strobe j that started after a
// returned (so it was received later) and returned less than one window after
// a started (so it was received before a's timer could fire), and that
// returned before any Terminate was invoked (so it was really received, not
// released by termination), re-arms the timer and makes a ineligible. Every
// received signal comes from a fire that happened before the measured receive
// time. Hence, sorting received signals by time, the k-th one needs at least k
// eligible strobes with Start + window <= its receive time (Hall's condition
// for nested sets). This covers "at most one signal per burst", "no signal
// earlier than one window after the strobe" and "no more signals than strobes".
func judge(s *Script, h *History) Verdict {
	var v Verdict
	bad := func(f string, a ...any) { v.Safety = append(v.Safety, fmt.Sprintf(f, a...)) }
	slow := func(f string, a ...any) { v.Timing = append(v.Timing, fmt.Sprintf(f, a...)) }
	v.Safety = append(v.Safety, h.Inline...)
	w := h.Window
	if h.Hang {
		slow("script did not finish within %v (a Strobe, Terminate or receive never returned)", caseDeadline)
	}

	firstTermCall := h.CloseCallAt
	if h.TermCallAt != 0 {
		firstTermCall = h.TermCallAt
	}
	firstTermRet := h.CloseRet
	if h.TermRet != 0 {
		firstTermRet = h.TermRet
	}
	var eligible []int64
	coalesced := 0
	for i, a := range h.Strobes {
		if a.Ret == 0 {
			continue // never returned (hang)
		}
		if firstTermRet != 0 && a.Start >= firstTermRet {
			continue // invoked after Terminate returned: cannot be received
		}
		killed := false
		for j, b := range h.Strobes {
			if i == j || b.Ret == 0 {
				continue
			}
			if b.Start >= a.Ret && b.Ret-a.Start < w && (firstTermCall == 0 || b.Ret <= firstTermCall) {
				killed = true
				break
			}
		}
		if killed {
			coalesced++
		} else {
			eligible = append(eligible, a.Start)
		}
	}
	sort.Slice(eligible, func(i, j int) bool { return eligible[i] < eligible[j] })
	v.Eligible = len(eligible)
	sigs := append([]SigRec{}, h.Signals...)
	sort.Slice(sigs, func(i, j int) bool { return sigs[i].At < sigs[j].At })
	for k, sg := range sigs {
		n := 0
		for _, st := range eligible {
			if st+w <= sg.At {
				n++
			}
		}
		if n < k+1 {
			bad("signal #%d was received at t=%v, but only %d strobe(s) could have produced a signal by then (a strobe can if it started at least the window %v earlier and was not followed within the window by a later strobe); %d strobes, %d of them provably coalesced",
				k+1, time.Duration(sg.At), n, time.Duration(w), len(h.Strobes), coalesced)
			break
		}
	}
	// After Terminate has returned the run loop is gone: at most the one
	// buffered signal can still be received.
	if firstTermRet != 0 {
		n := 0
		for _, sg := range h.Signals {
			if sg.Before >= firstTermRet {
				n++
			}
		}
		if n > 1 {
			bad("%d signals were received by receive operations started after Terminate had returned", n)
		}
	}
	// Lower bound: awaited signals (timing rule).
	for _, a := range h.Awaits {
		if !a.Satisfied {
			what := "await"
			if a.Final {
				what = "final wait"
			}
			slow("%s: no signal received at or after t=%v (latest strobe start + window) although strobing had stopped at t=%v and the receiver kept receiving until t=%v",
				what, time.Duration(a.MinAt), time.Duration(a.From), time.Duration(a.GaveUpAt))
		}
	}

	cls := map[string]bool{}
	cls[fmt.Sprintf("window/%dms", s.WindowMs)] = true
	cls["consumer/"+s.Consumer] = true
	if len(s.Extra) > 0 {
		cls["strobers/concurrent"] = true
	} else {
		cls["strobers/single"] = true
	}
	if h.TermCallAt != 0 {
		cls["terminate/scripted"] = true
	}
	if coalesced > 0 {
		cls["burst/provably-coalesced-strobes"] = true
	}
	switch {
	case len(sigs) == len(eligible):
		cls["signals/equal-to-upper-bound"] = true
	case len(sigs) < len(eligible):
		cls["signals/below-upper-bound"] = true
	}
	if len(sigs) >= 2 {
		cls["signals/2+"] = true
	}
	if len(sigs) == 0 {
		cls["signals/0"] = true
	}
	na := 0
	for _, a := range h.Awaits {
		if !a.Final {
			na++
		}
	}
	if na > 0 {
		cls["await/scripted"] = true
	}
	// Non-trivial: at least two separate bursts each produced its own signal
	// and at least one strobe was provably coalesced into a later one.
	v.NonTrivial = len(sigs) >= 2 && len(eligible) >= 2 && coalesced > 0
	for k := range cls {
		v.Classes = append(v.Classes, k)
	}
	return v
}
