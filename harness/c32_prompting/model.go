// Package c32_prompting checks C32: the global prompter registry serialises
// the invocations of a prompter, never invokes it after its unregistration has
// returned, and prompt responses are only echoed for the four known OpenSSH
// yes/no prompts.
package c32_prompting

import (
	"fmt"
)

// Call is one registry call issued by a caller goroutine.
type Call struct {
	// Kind: message | prompt.
	Kind string `json:"kind"`
	// Target: index of the prompter, -1 the empty identifier, -2 an identifier
	// that was never registered.
	Target int `json:"target"`
	// PreUs: sleep before the call in microseconds (0 none, -1 yield).
	PreUs int `json:"pre_us,omitempty"`
}

// PrompterSpec describes one registered prompter and when it is unregistered.
type PrompterSpec struct {
	// AutoID: register with RegisterPrompter (generated identifier) instead of
	// RegisterPrompterWithIdentifier.
	AutoID bool `json:"auto_id,omitempty"`
	// SleepUs: durations of successive invocations (cycled); -1 yields.
	SleepUs []int `json:"sleep_us"`
	// FailEvery: every n-th invocation returns an error (0: never).
	FailEvery int `json:"fail_every,omitempty"`
	// UnregAfter: the prompter is unregistered once it has been entered this
	// many times (0: right at the start); if that never happens, when all
	// callers have finished. UnregDelayUs is an extra delay after the trigger.
	UnregAfter   int `json:"unreg_after"`
	UnregDelayUs int `json:"unreg_delay_us,omitempty"`
	// Reregister: after the unregistration returned, a second-generation
	// prompter is registered under the same identifier (not with AutoID).
	Reregister bool `json:"reregister,omitempty"`
}

// Case is one schedule.
type Case struct {
	Prompters []PrompterSpec `json:"prompters"`
	Callers   [][]Call       `json:"callers"`
}

// Inv is one recorded invocation of a prompter.
type Inv struct {
	Prompter, Gen int
	Kind, Text    string
	// Enter/Exit are draws from one global atomic counter at the first / last
	// statement of the prompter method.
	Enter, Exit uint64
	// InFlight is the number of invocations of the same prompter in progress
	// right after entering (including this one).
	InFlight int
	// AfterUnreg: the prompter's UnregisterPrompter call had already returned
	// when the method was entered.
	AfterUnreg bool
	Failed     bool // the scripted prompter returned an error
}

// CallRec is one recorded registry call.
type CallRec struct {
	G, I   int
	Kind   string
	Target int
	Text   string
	// UnregDoneBefore: the target's (first generation) unregistration had
	// returned before the call. ReregDoneBefore: its second generation had been
	// registered before the call. UnregStartedAfter: the target's
	// unregistration had been invoked when the call returned.
	// FinalUnregStartedAfter: same for the closing unregistration of whatever
	// generation was still registered.
	UnregDoneBefore, ReregDoneBefore, UnregStartedAfter, FinalUnregStartedAfter bool
	Response                                                                    string
	Err                                                                         string // "" or error text
	ErrIsScripted                                                               bool   // errors.Is(err, the prompter's own error)
}

// UnregRec is the record of one UnregisterPrompter call.
type UnregRec struct {
	Prompter, Gen int
	// Returned is drawn from the global counter right after the call returned,
	// InFlightAtReturn is the prompter's in-progress count read at that point.
	Returned         uint64
	InFlightAtReturn int
}

// History of one execution.
type History struct {
	Invs   []Inv
	Calls  []CallRec
	Unregs []UnregRec
	Inline []string
	Hang   bool
}

// Verdict of the oracle.
type Verdict struct {
	Safety     []string
	Timing     []string
	NonTrivial bool
	Classes    []string
}

func judge(c *Case, h *History) Verdict {
	var v Verdict
	bad := func(f string, a ...any) { v.Safety = append(v.Safety, fmt.Sprintf(f, a...)) }
	v.Safety = append(v.Safety, h.Inline...)
	cls := map[string]bool{}
	if h.Hang {
		v.Timing = append(v.Timing, fmt.Sprintf("schedule did not finish within %v (a registry call never returned)", caseDeadline))
	}

	// Serialisation: invocations of one prompter (one generation is one
	// prompter object) never overlap. Both the in-progress counter and the
	// enter/exit stamps are checked; an overlap of stamp intervals is a real
	// overlap because the stamps are taken inside the method.
	for i := range h.Invs {
		a := &h.Invs[i]
		if a.InFlight != 1 {
			bad("prompter %d.%d: %d invocations in progress at once (entering %q)", a.Prompter, a.Gen, a.InFlight, a.Text)
		}
		if a.AfterUnreg {
			bad("prompter %d.%d was invoked (%q) after its UnregisterPrompter call had returned", a.Prompter, a.Gen, a.Text)
		}
		for j := i + 1; j < len(h.Invs); j++ {
			b := &h.Invs[j]
			if a.Prompter == b.Prompter && a.Gen == b.Gen && a.Enter < b.Exit && b.Enter < a.Exit {
				bad("prompter %d.%d: invocations %q [%d,%d] and %q [%d,%d] overlap", a.Prompter, a.Gen, a.Text, a.Enter, a.Exit, b.Text, b.Enter, b.Exit)
			}
		}
	}
	for _, u := range h.Unregs {
		if u.InFlightAtReturn != 0 {
			bad("UnregisterPrompter of prompter %d.%d returned while an invocation was in progress", u.Prompter, u.Gen)
		}
		for i := range h.Invs {
			a := &h.Invs[i]
			if a.Prompter == u.Prompter && a.Gen == u.Gen && a.Exit > u.Returned {
				bad("prompter %d.%d: invocation %q [%d,%d] was still running or started after UnregisterPrompter returned (stamp %d)", a.Prompter, a.Gen, a.Text, a.Enter, a.Exit, u.Returned)
			}
		}
	}

	// Routing and exactly-once: every call text is unique.
	byText := map[string][]*Inv{}
	for i := range h.Invs {
		byText[h.Invs[i].Text] = append(byText[h.Invs[i].Text], &h.Invs[i])
	}
	calls := map[string]*CallRec{}
	served, refused, duringUnreg := 0, 0, 0
	for i := range h.Calls {
		cr := &h.Calls[i]
		calls[cr.Text] = cr
		invs := byText[cr.Text]
		id := fmt.Sprintf("call g%d#%d %s(%d)", cr.G, cr.I, cr.Kind, cr.Target)
		if len(invs) > 1 {
			bad("%s reached a prompter %d times", id, len(invs))
			continue
		}
		var inv *Inv
		if len(invs) == 1 {
			inv = invs[0]
			if inv.Prompter != cr.Target || inv.Kind != cr.Kind {
				bad("%s was delivered to prompter %d as %s", id, inv.Prompter, inv.Kind)
			}
		}
		switch {
		case cr.Err == "":
			if cr.Target == -1 && cr.Kind == "message" {
				// Documented no-op.
				if inv != nil {
					bad("%s with an empty identifier reached a prompter", id)
				}
				break
			}
			if inv == nil || inv.Failed {
				bad("%s succeeded but no successful invocation of the prompter was recorded", id)
			} else if cr.Kind == "prompt" && cr.Response != "re:"+cr.Text {
				bad("%s returned response %q, the prompter answered %q", id, cr.Response, "re:"+cr.Text)
			}
			served++
		case cr.ErrIsScripted:
			if inv == nil || !inv.Failed {
				bad("%s returned the prompter's error but the prompter did not fail that invocation", id)
			}
			served++
		default:
			// Registry error (not found / unable to acquire).
			if inv != nil {
				bad("%s returned %q although the prompter was invoked", id, cr.Err)
			}
			if cr.Response != "" {
				bad("%s returned an error together with response %q", id, cr.Response)
			}
			refused++
		}
		if cr.Target < 0 {
			if cr.Err == "" && !(cr.Target == -1 && cr.Kind == "message") {
				bad("%s succeeded without a registered prompter", id)
			}
			continue
		}
		spec := c.Prompters[cr.Target]
		registryErr := cr.Err != "" && !cr.ErrIsScripted
		// A call issued after the unregistration returned is refused (unless a
		// new generation may have been registered under the identifier).
		if cr.UnregDoneBefore && !(spec.Reregister && !spec.AutoID) && !registryErr {
			bad("%s was issued after UnregisterPrompter had returned and was not refused (err=%q)", id, cr.Err)
		}
		// A call that returned before any unregistration of its target was
		// invoked found a registered prompter and must have been served.
		if !cr.UnregStartedAfter && !cr.FinalUnregStartedAfter && registryErr {
			bad("%s was refused (%q) although the prompter was registered during the whole call", id, cr.Err)
		}
		// Same for calls issued after the second generation was registered.
		if cr.ReregDoneBefore && !cr.FinalUnregStartedAfter && registryErr {
			bad("%s was refused (%q) although the re-registered prompter was registered during the whole call", id, cr.Err)
		}
		if cr.UnregStartedAfter && !cr.UnregDoneBefore {
			duringUnreg++
		}
	}
	for text, invs := range byText {
		if calls[text] == nil {
			bad("prompter %d was invoked with %q which no caller sent", invs[0].Prompter, text)
		}
	}

	if served > 0 {
		cls["calls/served"] = true
	}
	if refused > 0 {
		cls["calls/refused"] = true
	}
	if duringUnreg > 0 {
		cls["calls/overlapping-unregistration"] = true
	}
	for _, p := range c.Prompters {
		if p.Reregister && !p.AutoID {
			cls["prompter/reregistered"] = true
		}
		if p.AutoID {
			cls["prompter/generated-id"] = true
		}
	}
	if len(c.Prompters) > 1 {
		cls["prompters/2+"] = true
	}
	// Non-trivial: some calls were served, some were refused and at least one
	// call overlapped the unregistration of its target.
	v.NonTrivial = served > 0 && refused > 0 && duringUnreg > 0
	for k := range cls {
		v.Classes = append(v.Classes, k)
	}
	return v
}

// The four prompt endings for which OpenSSH expects a visible yes/no (or
// fingerprint) answer, as documented in pkg/prompting/response_mode.go.
var echoSuffixes = []string{
	"(yes/no)? ",
	"(yes/no): ",
	"(yes/no/[fingerprint])? ",
	"Please type 'yes', 'no' or the fingerprint: ",
}

// wantEcho is the reference: the prompt ends, byte for byte, in one of the
// four endings.
func wantEcho(prompt string) bool {
	for _, s := range echoSuffixes {
		if len(prompt) < len(s) {
			continue
		}
		tail := prompt[len(prompt)-len(s):]
		same := true
		for i := 0; i < len(s); i++ {
			if tail[i] != s[i] {
				same = false
				break
			}
		}
		if same {
			return true
		}
	}
	return false
}
