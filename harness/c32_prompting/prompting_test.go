package c32_prompting

import (
	"encoding/json"
	"errors"
	"fmt"
	"runtime"
	"strings"
	"sync"
	"sync/atomic"
	"testing"
	"time"
	"unicode"

	"pgregory.net/rapid"

	"github.com/mutagen-io/mutagen/pkg/prompting"

	"verif/kit/ev"
)

const (
	propID = "C32"
	// caseDeadline bounds one schedule (sum of all scripted sleeps is a few
	// tens of milliseconds); exceeding it three times in a row is a hang.
	caseDeadline = 15 * time.Second
)

var errScripted = errors.New("scripted prompter failure")

var caseCounter atomic.Uint64

type world struct {
	seq    atomic.Uint64
	mu     sync.Mutex
	invs   []Inv
	calls  []CallRec
	unregs []UnregRec
	inline []string
}

func (w *world) note(f string, a ...any) {
	w.mu.Lock()
	w.inline = append(w.inline, fmt.Sprintf(f, a...))
	w.mu.Unlock()
}

// recPrompter is the instrumented prompter.
type recPrompter struct {
	w         *world
	idx, gen  int
	spec      PrompterSpec
	inFlight  atomic.Int32
	entered   atomic.Int32
	unregDone atomic.Bool
	trigger   chan struct{} // closed when entered reaches spec.UnregAfter
	trigOnce  sync.Once
}

func (p *recPrompter) invoke(kind, text string) error {
	n := p.inFlight.Add(1)
	enter := p.w.seq.Add(1)
	after := p.unregDone.Load()
	k := int(p.entered.Add(1))
	if p.gen == 1 && k >= p.spec.UnregAfter {
		p.trigOnce.Do(func() { close(p.trigger) })
	}
	if len(p.spec.SleepUs) > 0 {
		switch d := p.spec.SleepUs[(k-1)%len(p.spec.SleepUs)]; {
		case d < 0:
			runtime.Gosched()
		case d > 0:
			time.Sleep(time.Duration(d) * time.Microsecond)
		}
	}
	failed := p.spec.FailEvery > 0 && k%p.spec.FailEvery == 0
	exit := p.w.seq.Add(1)
	p.w.mu.Lock()
	p.w.invs = append(p.w.invs, Inv{Prompter: p.idx, Gen: p.gen, Kind: kind, Text: text, Enter: enter, Exit: exit, InFlight: int(n), AfterUnreg: after, Failed: failed})
	p.w.mu.Unlock()
	p.inFlight.Add(-1)
	if failed {
		return errScripted
	}
	return nil
}

func (p *recPrompter) Message(m string) error { return p.invoke("message", m) }
func (p *recPrompter) Prompt(m string) (string, error) {
	if err := p.invoke("prompt", m); err != nil {
		return "should-not-be-returned", err
	}
	return "re:" + m, nil
}

// slot is the harness' view of one registered identifier.
type slot struct {
	id                                 string
	gen1, gen2                         *recPrompter
	unregStarted, unregDone, reregDone atomic.Bool
	finalUnregStarted                  atomic.Bool
}

func runCase(c *Case) *History {
	w := &world{}
	tag := caseCounter.Add(1)
	slots := make([]*slot, len(c.Prompters))
	for i, spec := range c.Prompters {
		s := &slot{}
		s.gen1 = &recPrompter{w: w, idx: i, gen: 1, spec: spec, trigger: make(chan struct{})}
		if spec.UnregAfter <= 0 {
			s.gen1.trigOnce.Do(func() { close(s.gen1.trigger) })
		}
		if spec.AutoID {
			id, err := prompting.RegisterPrompter(s.gen1)
			if err != nil || id == "" {
				w.note("RegisterPrompter failed: %v", err)
				return &History{Inline: w.inline}
			}
			s.id = id
		} else {
			s.id = fmt.Sprintf("verif-c32-%d-%d", tag, i)
			if err := prompting.RegisterPrompterWithIdentifier(s.id, s.gen1); err != nil {
				w.note("RegisterPrompterWithIdentifier failed: %v", err)
				return &History{Inline: w.inline}
			}
			// A second registration under the same identifier is refused and
			// the intruder is never invoked.
			intruder := &recPrompter{w: w, idx: 1000 + i, gen: 1, spec: PrompterSpec{UnregAfter: 1 << 30}, trigger: make(chan struct{})}
			if err := prompting.RegisterPrompterWithIdentifier(s.id, intruder); err == nil {
				w.note("a second prompter could be registered under identifier %q", s.id)
			}
		}
		slots[i] = s
	}
	if err := prompting.RegisterPrompterWithIdentifier("", &recPrompter{w: w, idx: 2000, gen: 1, trigger: make(chan struct{})}); err == nil {
		w.note("a prompter could be registered under the empty identifier")
	}

	done := make(chan struct{})
	go func() {
		defer close(done)
		callersDone := make(chan struct{})
		var unregWG, callWG sync.WaitGroup
		for i, s := range slots {
			unregWG.Add(1)
			go func() {
				defer unregWG.Done()
				select {
				case <-s.gen1.trigger:
				case <-callersDone:
				}
				if d := s.gen1.spec.UnregDelayUs; d > 0 {
					time.Sleep(time.Duration(d) * time.Microsecond)
				}
				s.unregStarted.Store(true)
				prompting.UnregisterPrompter(s.id)
				inflight := s.gen1.inFlight.Load()
				s.gen1.unregDone.Store(true)
				s.unregDone.Store(true)
				stamp := w.seq.Add(1)
				w.mu.Lock()
				w.unregs = append(w.unregs, UnregRec{Prompter: i, Gen: 1, Returned: stamp, InFlightAtReturn: int(inflight)})
				w.mu.Unlock()
				if s.gen1.spec.Reregister && !s.gen1.spec.AutoID {
					spec2 := s.gen1.spec
					s.gen2 = &recPrompter{w: w, idx: i, gen: 2, spec: spec2, trigger: make(chan struct{})}
					if err := prompting.RegisterPrompterWithIdentifier(s.id, s.gen2); err != nil {
						w.note("re-registration under a freed identifier failed: %v", err)
						s.gen2 = nil
					} else {
						s.reregDone.Store(true)
					}
				}
			}()
		}
		for g, script := range c.Callers {
			callWG.Add(1)
			go func() {
				defer callWG.Done()
				for i, call := range script {
					switch {
					case call.PreUs < 0:
						runtime.Gosched()
					case call.PreUs > 0:
						time.Sleep(time.Duration(call.PreUs) * time.Microsecond)
					}
					rec := CallRec{G: g, I: i, Kind: call.Kind, Target: call.Target}
					rec.Text = fmt.Sprintf("t%d/g%d/i%d", call.Target, g, i)
					id := ""
					var s *slot
					switch {
					case call.Target == -2:
						id = fmt.Sprintf("verif-c32-%d-unknown", tag)
					case call.Target >= 0:
						s = slots[call.Target]
						id = s.id
						rec.UnregDoneBefore = s.unregDone.Load()
						rec.ReregDoneBefore = s.reregDone.Load()
					}
					var err error
					if call.Kind == "message" {
						err = prompting.Message(id, rec.Text)
					} else {
						rec.Response, err = prompting.Prompt(id, rec.Text)
					}
					if s != nil {
						rec.UnregStartedAfter = s.unregStarted.Load()
						rec.FinalUnregStartedAfter = s.finalUnregStarted.Load()
					}
					if err != nil {
						rec.Err = err.Error()
						rec.ErrIsScripted = errors.Is(err, errScripted)
					}
					w.mu.Lock()
					w.calls = append(w.calls, rec)
					w.mu.Unlock()
				}
			}()
		}
		callWG.Wait()
		close(callersDone)
		unregWG.Wait()
		// Closing: unregister second generations and check that the
		// identifiers are gone.
		for i, s := range slots {
			if s.gen2 != nil {
				s.finalUnregStarted.Store(true)
				prompting.UnregisterPrompter(s.id)
				inflight := s.gen2.inFlight.Load()
				s.gen2.unregDone.Store(true)
				stamp := w.seq.Add(1)
				w.mu.Lock()
				w.unregs = append(w.unregs, UnregRec{Prompter: i, Gen: 2, Returned: stamp, InFlightAtReturn: int(inflight)})
				w.mu.Unlock()
			}
			if err := prompting.Message(s.id, "closing"); err == nil {
				w.note("Message to unregistered identifier %q succeeded", s.id)
			}
			if _, err := prompting.Prompt(s.id, "closing"); err == nil {
				w.note("Prompt to unregistered identifier %q succeeded", s.id)
			}
		}
	}()

	h := &History{}
	select {
	case <-done:
	case <-time.After(caseDeadline):
		finished := false
		for i := 0; i < 50 && !finished; i++ {
			select {
			case <-done:
				finished = true
			case <-time.After(10 * time.Millisecond):
			}
		}
		h.Hang = !finished
	}
	w.mu.Lock()
	defer w.mu.Unlock()
	h.Invs = append(h.Invs, w.invs...)
	h.Calls = append(h.Calls, w.calls...)
	h.Unregs = append(h.Unregs, w.unregs...)
	h.Inline = append(h.Inline, w.inline...)
	return h
}

// Failure is the replay value.
type Failure struct {
	Case    *Case    `json:"case"`
	Problem []string `json:"problem"`
	History *History `json:"history,omitempty"`
}

var reported atomic.Bool

func execute(c *Case) (Verdict, *Failure) {
	var v Verdict
	fails := 0
	var first *Failure
	for attempt := 0; attempt < 3; attempt++ {
		h := runCase(c)
		v = judge(c, h)
		if len(v.Safety) > 0 {
			if len(v.Safety) > 8 {
				v.Safety = v.Safety[:8]
			}
			return v, &Failure{Case: c, Problem: v.Safety, History: h}
		}
		if len(v.Timing) == 0 {
			break
		}
		fails++
		if first == nil {
			first = &Failure{Case: c, Problem: v.Timing, History: h}
		}
	}
	if fails == 3 {
		return v, first
	}
	if fails > 0 && !reported.Load() {
		ev.Inconclusive("C32 schedule did not finish in %d of 3 executions: %s", fails, strings.Join(first.Problem, "; "))
	}
	return v, nil
}

func genCase(rt *rapid.T) *Case {
	c := &Case{}
	np := rapid.SampledFrom([]int{1, 1, 1, 2, 2, 3}).Draw(rt, "prompters")
	sleeps := []int{0, 0, -1, -1, 20, 100, 500, 2000}
	for i := 0; i < np; i++ {
		p := PrompterSpec{}
		p.AutoID = rapid.IntRange(0, 3).Draw(rt, "auto_id") == 0
		for j, k := 0, rapid.IntRange(1, 4).Draw(rt, "nsleeps"); j < k; j++ {
			p.SleepUs = append(p.SleepUs, rapid.SampledFrom(sleeps).Draw(rt, "sleep_us"))
		}
		if rapid.IntRange(0, 3).Draw(rt, "fails") == 0 {
			p.FailEvery = rapid.IntRange(1, 4).Draw(rt, "fail_every")
		}
		p.UnregAfter = rapid.IntRange(0, 12).Draw(rt, "unreg_after")
		if rapid.Bool().Draw(rt, "delayed") {
			p.UnregDelayUs = rapid.IntRange(1, 1500).Draw(rt, "unreg_delay_us")
		}
		p.Reregister = !p.AutoID && rapid.IntRange(0, 2).Draw(rt, "reregister") == 0
		c.Prompters = append(c.Prompters, p)
	}
	ng := rapid.IntRange(2, 16).Draw(rt, "callers")
	for g := 0; g < ng; g++ {
		var script []Call
		for i, k := 0, rapid.IntRange(1, 6).Draw(rt, "ncalls"); i < k; i++ {
			call := Call{Kind: rapid.SampledFrom([]string{"message", "prompt"}).Draw(rt, "kind")}
			call.Target = rapid.IntRange(0, np-1).Draw(rt, "target")
			if rapid.IntRange(0, 19).Draw(rt, "odd") == 0 {
				call.Target = rapid.SampledFrom([]int{-1, -2}).Draw(rt, "odd_target")
			}
			call.PreUs = rapid.SampledFrom([]int{0, 0, 0, -1, -1, 10, 100, 400}).Draw(rt, "pre_us")
			script = append(script, call)
		}
		c.Callers = append(c.Callers, script)
	}
	return c
}

func fingerprint(v any) uint64 {
	b, _ := json.Marshal(v)
	return ev.Hash(string(b))
}

func TestC32_Registry(t *testing.T) {
	if ev.ReplayPath() != "" {
		t.Skip("replaying")
	}
	rec := ev.New(t, propID, "registry-schedules",
		"rapid: 1-3 recording prompters (invocation lengths 0 / yield / 20us-2ms, optional failures), 2-16 caller goroutines x 1-6 Message/Prompt calls, each prompter unregistered when it has been entered k times (k in 0..12) plus a delay, optionally re-registered under the same identifier; "+
			"non-trivial: some calls were served, some were refused, and at least one call overlapped the unregistration of its target")
	ev.Check(t, rec, 1500, 25000, func(rt *rapid.T) {
		c := genCase(rt)
		v, fail := execute(c)
		rec.Eval()
		if fail != nil {
			reported.Store(true)
			ev.Failf(rt, rec, fail, "%s", strings.Join(fail.Problem, "; "))
		}
		for _, k := range v.Classes {
			rec.Class(k)
		}
		if v.NonTrivial {
			rec.Class("nontrivial")
			rec.NonTrivial(fingerprint(c))
			if rec.WantSample() {
				rec.Sample(c)
			}
		}
	})
}

// ---- response mode ----

// ModeCase is a prompt handed to determineResponseMode.
type ModeCase struct {
	Prompt string `json:"prompt"`
	How    string `json:"how,omitempty"`
}

func judgeMode(mc *ModeCase) string {
	got := prompting.VerifDetermineResponseMode(mc.Prompt)
	want := prompting.ResponseModeSecret
	if wantEcho(mc.Prompt) {
		want = prompting.ResponseModeEcho
	}
	if got != want {
		return fmt.Sprintf("response mode of %q (%s) is %d, expected %d (0 secret, 1 masked, 2 echo)", mc.Prompt, mc.How, got, want)
	}
	return ""
}

func flipCase(s string, i int) string {
	r := []rune(s)
	switch {
	case unicode.IsUpper(r[i]):
		r[i] = unicode.ToLower(r[i])
	case unicode.IsLower(r[i]):
		r[i] = unicode.ToUpper(r[i])
	}
	return string(r)
}

// TestC32_ResponseModeNearMisses enumerates every single-character edit of the
// four echo endings, alone and behind a question text, with and without
// trailing additions.
func TestC32_ResponseModeNearMisses(t *testing.T) {
	if ev.ReplayPath() != "" {
		t.Skip("replaying")
	}
	rec := ev.New(t, propID, "response-mode-near-misses",
		"every single-character deletion / case flip / insertion (of one of 8 characters) / substitution in each of the four echo endings, x 3 prefixes x 6 trailers; non-trivial: every case (each is a distinct prompt)")
	rec.SetExhaustive("4 endings x all positions x {delete, flip case, insert one of 8 chars, substitute one of 8 chars, unchanged} x prefixes {empty, question text, text containing another full ending} x trailers {none, newline, space, tab, 'x', the ending repeated}")
	prefixes := []string{"", "Are you sure you want to continue connecting ", "The (yes/no)? question: "}
	inserts := []string{" ", "\n", "?", ":", ")", "x", "\t", " "}
	seen := map[string]bool{}
	echo, secret := 0, 0
	run := func(p, how string) {
		if seen[p] {
			return
		}
		seen[p] = true
		mc := &ModeCase{Prompt: p, How: how}
		rec.Eval()
		if msg := judgeMode(mc); msg != "" {
			ev.FailTB(t, rec, mc, "%s", msg)
		}
		if wantEcho(p) {
			echo++
		} else {
			secret++
		}
		if rec.WantSample() && how != "unchanged" && len(seen)%97 == 0 {
			rec.Sample(mc)
		}
	}
	for _, suffix := range echoSuffixes {
		variants := map[string]string{suffix: "unchanged"}
		r := []rune(suffix)
		for i := range r {
			variants[string(r[:i])+string(r[i+1:])] = "one character deleted"
			variants[flipCase(suffix, i)] = "case of one character flipped"
			for _, ins := range inserts {
				variants[string(r[:i])+ins+string(r[i:])] = "one character inserted"
				variants[string(r[:i])+ins+string(r[i+1:])] = "one character substituted"
			}
		}
		for v, how := range variants {
			for _, pre := range prefixes {
				for _, tr := range []string{"", "\n", " ", "\t", "x", suffix} {
					run(pre+v+tr, how)
				}
			}
		}
	}
	rec.NonTrivialDistinct(uint64(len(seen)))
	rec.ClassN("expected/echo", uint64(echo))
	rec.ClassN("expected/secret", uint64(secret))
}

func TestC32_ResponseModeRandom(t *testing.T) {
	if ev.ReplayPath() != "" {
		t.Skip("replaying")
	}
	rec := ev.New(t, propID, "response-mode-random",
		"rapid: arbitrary text, optionally followed by an echo ending (possibly edited: truncated, case-folded, trimmed, doubled) and an arbitrary trailer; non-trivial: the prompt contains at least 6 bytes of one of the endings' tails or heads")
	ev.Check(t, rec, 20000, 300000, func(rt *rapid.T) {
		var b strings.Builder
		b.WriteString(rapid.StringN(0, 30, 60).Draw(rt, "text"))
		how := "arbitrary"
		if rapid.IntRange(0, 9).Draw(rt, "with_ending") < 8 {
			s := rapid.SampledFrom(echoSuffixes).Draw(rt, "ending")
			how = rapid.SampledFrom([]string{"exact", "exact", "truncated-end", "truncated-start", "upper", "lower", "trimmed", "doubled", "then-text"}).Draw(rt, "edit")
			switch how {
			case "truncated-end":
				s = s[:rapid.IntRange(1, len(s)-1).Draw(rt, "cut")]
			case "truncated-start":
				s = s[rapid.IntRange(1, len(s)-1).Draw(rt, "cut"):]
			case "upper":
				s = strings.ToUpper(s)
			case "lower":
				s = strings.ToLower(s)
			case "trimmed":
				s = strings.TrimSpace(s)
			case "doubled":
				s = s + s
			case "then-text":
				s = s + rapid.StringN(0, 3, 6).Draw(rt, "trailer")
			}
			b.WriteString(s)
		}
		mc := &ModeCase{Prompt: b.String(), How: how}
		rec.Eval()
		if msg := judgeMode(mc); msg != "" {
			ev.Failf(rt, rec, mc, "%s", msg)
		}
		rec.Class("edit/" + how)
		if wantEcho(mc.Prompt) {
			rec.Class("expected/echo")
		} else {
			rec.Class("expected/secret")
		}
		if how != "arbitrary" {
			rec.NonTrivial(ev.Hash(mc.Prompt))
			if rec.WantSample() {
				rec.Sample(mc)
			}
		}
	})
}

func TestReplay(t *testing.T) {
	if ev.ReplayPath() == "" || ev.ReplayPart() == "rpc-cancellation" {
		t.Skip("no replay requested")
	}
	part := ev.ReplayPart()
	rec := ev.New(t, propID, "replay", "replay of a saved case")
	if strings.HasPrefix(part, "response-mode") {
		var mc ModeCase
		if _, err := ev.LoadReplay(ev.ReplayPath(), &mc); err != nil {
			t.Fatalf("cannot load replay: %v", err)
		}
		rec.Eval()
		if msg := judgeMode(&mc); msg != "" {
			ev.FailTB(t, rec, &mc, "%s", msg)
		}
		return
	}
	var f Failure
	if _, err := ev.LoadReplay(ev.ReplayPath(), &f); err != nil || f.Case == nil {
		t.Fatalf("cannot load replay: %v", err)
	}
	// The interleaving is not owned by the harness: re-execute many times.
	for i := 0; i < 300; i++ {
		_, fail := execute(f.Case)
		rec.Eval()
		if fail != nil {
			ev.FailTB(t, rec, fail, "%s", strings.Join(fail.Problem, "; "))
		}
	}
}
