package c32_prompting

// The prompting service's Prompt RPC is the one caller of the registry that
// can abandon a prompt (its context is cancelled while the prompter is still
// answering). An abandoned prompt must keep the prompter occupied: no other
// invocation may overlap it and UnregisterPrompter must wait for it.

import (
	"context"
	"fmt"
	"sync"
	"sync/atomic"
	"testing"
	"time"

	"pgregory.net/rapid"

	"github.com/mutagen-io/mutagen/pkg/prompting"
	promptingsvc "github.com/mutagen-io/mutagen/pkg/service/prompting"

	"verif/kit/ev"
)

// RPCCall is one call against the prompter.
type RPCCall struct {
	// Kind: rpc-prompt (service RPC, context cancelled after CancelUs
	// microseconds; -1 never), prompt, message (registry functions).
	Kind     string `json:"kind"`
	CancelUs int    `json:"cancel_us,omitempty"`
	PreUs    int    `json:"pre_us,omitempty"`
}

// RPCCase is one schedule against a single prompter.
type RPCCase struct {
	// WorkUs: how long successive invocations of the prompter take (cycled).
	WorkUs  []int       `json:"work_us"`
	Callers [][]RPCCall `json:"callers"`
	// UnregAfterUs: UnregisterPrompter is called this long after the start.
	UnregAfterUs int `json:"unreg_after_us"`
}

type rpcPrompter struct {
	workUs     []int
	n          atomic.Int64
	inFlight   atomic.Int64
	unregDone  atomic.Bool
	mu         sync.Mutex
	violations []string
	entered    atomic.Int64
}

func (p *rpcPrompter) invoke(kind, text string) {
	if k := p.inFlight.Add(1); k != 1 {
		p.mu.Lock()
		p.violations = append(p.violations, fmt.Sprintf("%d invocations of the prompter in progress at once (entering %s %q)", k, kind, text))
		p.mu.Unlock()
	}
	if p.unregDone.Load() {
		p.mu.Lock()
		p.violations = append(p.violations, fmt.Sprintf("the prompter was invoked (%s %q) after UnregisterPrompter had returned", kind, text))
		p.mu.Unlock()
	}
	p.entered.Add(1)
	i := int(p.n.Add(1)-1) % len(p.workUs)
	if d := p.workUs[i]; d > 0 {
		time.Sleep(time.Duration(d) * time.Microsecond)
	}
	p.inFlight.Add(-1)
}

func (p *rpcPrompter) Message(m string) error { p.invoke("message", m); return nil }
func (p *rpcPrompter) Prompt(m string) (string, error) {
	p.invoke("prompt", m)
	return "re:" + m, nil
}

var rpcCounter atomic.Int64

func runRPCCase(c *RPCCase) (violations []string, abandoned int, hang bool) {
	p := &rpcPrompter{workUs: c.WorkUs}
	id := fmt.Sprintf("verif-c32-rpc-%d", rpcCounter.Add(1))
	if err := prompting.RegisterPrompterWithIdentifier(id, p); err != nil {
		return []string{"registration failed: " + err.Error()}, 0, false
	}
	server := promptingsvc.NewServer()
	var abandonedCount atomic.Int64
	done := make(chan struct{})
	go func() {
		defer close(done)
		var wg sync.WaitGroup
		for g, script := range c.Callers {
			wg.Add(1)
			go func() {
				defer wg.Done()
				for i, call := range script {
					if call.PreUs > 0 {
						time.Sleep(time.Duration(call.PreUs) * time.Microsecond)
					}
					text := fmt.Sprintf("g%d/i%d", g, i)
					switch call.Kind {
					case "message":
						prompting.Message(id, text)
					case "prompt":
						prompting.Prompt(id, text)
					default:
						ctx, cancel := context.WithCancel(context.Background())
						if call.CancelUs >= 0 {
							t := time.AfterFunc(time.Duration(call.CancelUs)*time.Microsecond, cancel)
							defer t.Stop()
						}
						before := p.entered.Load()
						_, err := server.Prompt(ctx, &promptingsvc.PromptRequest{Prompter: id, Prompt: text})
						if err != nil && ctx.Err() != nil && p.inFlight.Load() > 0 && p.entered.Load() >= before {
							abandonedCount.Add(1)
						}
						cancel()
					}
				}
			}()
		}
		wg.Add(1)
		go func() {
			defer wg.Done()
			time.Sleep(time.Duration(c.UnregAfterUs) * time.Microsecond)
			prompting.UnregisterPrompter(id)
			if k := p.inFlight.Load(); k != 0 {
				p.mu.Lock()
				p.violations = append(p.violations, fmt.Sprintf("UnregisterPrompter returned while %d invocation(s) of the prompter were in progress", k))
				p.mu.Unlock()
			}
			p.unregDone.Store(true)
		}()
		wg.Wait()
		// Abandoned prompts may still be running; let them finish.
		for i := 0; i < 2000 && p.inFlight.Load() > 0; i++ {
			time.Sleep(time.Millisecond)
		}
		time.Sleep(2 * time.Millisecond)
	}()
	select {
	case <-done:
	case <-time.After(caseDeadline):
		hang = true
	}
	p.mu.Lock()
	defer p.mu.Unlock()
	return append([]string{}, p.violations...), int(abandonedCount.Load()), hang
}

func genRPCCase(rt *rapid.T) *RPCCase {
	c := &RPCCase{}
	for i, k := 0, rapid.IntRange(1, 4).Draw(rt, "nwork"); i < k; i++ {
		c.WorkUs = append(c.WorkUs, rapid.SampledFrom([]int{0, 50, 300, 1000, 3000}).Draw(rt, "work_us"))
	}
	for g, ng := 0, rapid.IntRange(2, 8).Draw(rt, "callers"); g < ng; g++ {
		var script []RPCCall
		for i, k := 0, rapid.IntRange(1, 5).Draw(rt, "ncalls"); i < k; i++ {
			call := RPCCall{Kind: rapid.SampledFrom([]string{"rpc-prompt", "rpc-prompt", "rpc-prompt", "prompt", "message"}).Draw(rt, "kind")}
			if call.Kind == "rpc-prompt" {
				call.CancelUs = rapid.SampledFrom([]int{-1, 0, 20, 100, 400, 1500}).Draw(rt, "cancel_us")
			}
			call.PreUs = rapid.SampledFrom([]int{0, 0, 10, 100, 500}).Draw(rt, "pre_us")
			script = append(script, call)
		}
		c.Callers = append(c.Callers, script)
	}
	c.UnregAfterUs = rapid.SampledFrom([]int{0, 100, 500, 2000, 6000, 20000}).Draw(rt, "unreg_after_us")
	return c
}

func TestC32_RPCCancellation(t *testing.T) {
	if ev.ReplayPath() != "" {
		t.Skip("replaying")
	}
	rec := ev.New(t, propID, "rpc-cancellation",
		"rapid: one registered prompter whose invocations take 0-3 ms; 2-8 concurrent callers issue 1-5 calls each: the prompting service's Prompt RPC with a context cancelled after 0-1.5 ms (or never), or the registry's Prompt / Message; UnregisterPrompter is called 0-20 ms after the start. Oracle (counters inside the prompter): never two invocations in progress at once, none entered after UnregisterPrompter returned, UnregisterPrompter returns with none in progress. Non-trivial: at least one RPC returned on cancellation while its prompt was still being answered")
	ev.Check(t, rec, 300, 6000, func(rt *rapid.T) {
		c := genRPCCase(rt)
		var violations []string
		var abandoned int
		for attempt := 0; attempt < 3; attempt++ {
			var hang bool
			violations, abandoned, hang = runRPCCase(c)
			if len(violations) > 0 || !hang {
				break
			}
			if attempt == 2 {
				ev.Inconclusive("C32 rpc schedule did not finish within %v in 3 executions", caseDeadline)
			}
		}
		rec.Eval()
		if len(violations) > 0 {
			if len(violations) > 6 {
				violations = violations[:6]
			}
			ev.Failf(rt, rec, c, "%s", fmt.Sprint(violations))
		}
		if abandoned > 0 {
			rec.Class("rpc-returned-on-cancellation-while-the-prompt-was-running")
			rec.NonTrivial(fingerprint(c))
			if rec.WantSample() {
				rec.Sample(c)
			}
		}
	})
}

func TestReplayRPC(t *testing.T) {
	if ev.ReplayPath() == "" || ev.ReplayPart() != "rpc-cancellation" {
		t.Skip()
	}
	var c RPCCase
	if _, err := ev.LoadReplay(ev.ReplayPath(), &c); err != nil {
		t.Fatal(err)
	}
	rec := ev.New(t, propID, "replay", "replay of a saved case")
	for i := 0; i < 20; i++ {
		rec.Eval()
		if v, _, _ := runRPCCase(&c); len(v) > 0 {
			ev.FailTB(t, rec, &c, "%s", fmt.Sprint(v))
		}
	}
}
