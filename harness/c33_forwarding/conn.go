// Package c33_forwarding checks C33: a forwarded connection delivers, in each
// direction, exactly the bytes sent by the other side followed by a half-close
// when that side half-closed; both connections are closed once both
// directions finished, either failed, or forwarding was cancelled; session
// statistics count every connection and forwarded byte and the
// open-connection count returns to zero.
//
// This file holds what both parts share: the scripted behaviour of the two
// application ends of a connection and the oracle over what they observed.
package c33_forwarding

import (
	"bytes"
	"errors"
	"fmt"
	"io"
	"net"
	"os"
	"sync"
	"syscall"
	"time"
)

// Side scripts one application end of a forwarded connection.
type Side struct {
	// Send is the payload length.
	Send int `json:"send"`
	// Chunk is the size of the individual writes.
	Chunk int `json:"chunk"`
	// Start: "now", or "after-peer-eof" (send only once the other side's
	// half-close has arrived: the request/response pattern).
	Start string `json:"start"`
	// End: "halfclose" (half-close after sending, read to EOF, close), "hold"
	// (send, read to EOF, then close: never half-closes), "abort" (close right
	// after sending AbortAt bytes, without reading).
	End     string `json:"end"`
	AbortAt int    `json:"abort_at,omitempty"`
}

// planned is the number of bytes the side sends if nothing stops it.
func (s *Side) planned() int {
	if s.End == "abort" {
		return s.AbortAt
	}
	return s.Send
}

// Conn scripts one forwarded connection: Src is the end that connected to
// the forwarding source, Dst the end the forwarder connected to.
type Conn struct {
	Src  Side   `json:"src"`
	Dst  Side   `json:"dst"`
	Seed uint64 `json:"seed"`
}

// Trigger names the moment at which forwarding is cancelled (or the session
// paused / terminated): as soon as the given end has received AfterBytes
// bytes.
type Trigger struct {
	Conn       int    `json:"conn"`
	Side       string `json:"side"` // "src" or "dst"
	AfterBytes int    `json:"after_bytes"`
}

// payload derives a side's payload from the connection's seed.
func payload(seed uint64, side int, n int) []byte {
	x := seed*0x9E3779B97F4A7C15 + uint64(side+1)*0xD1B54A32D192ED03 + 1
	out := make([]byte, n)
	for i := 0; i < n; i += 8 {
		x ^= x << 13
		x ^= x >> 7
		x ^= x << 17
		v := x
		for j := i; j < i+8 && j < n; j++ {
			out[j] = byte(v)
			v >>= 8
		}
	}
	return out
}

// SideResult is what an end observed.
type SideResult struct {
	Received []byte
	// ReadErr is empty when the stream ended with a clean EOF.
	ReadErr      string
	ReadTimedOut bool
	// ReadToEnd: the end read until EOF or an error of the connection (it did
	// not stop reading by closing its own end).
	ReadToEnd     bool
	Sent          int
	WriteErr      string
	WriteTimedOut bool
}

func isTimeout(err error) bool {
	var ne net.Error
	return errors.As(err, &ne) && ne.Timeout()
}

// runSide plays the script on conn. progress, if non-nil, is called with the
// number of bytes received so far.
func runSide(conn *net.UnixConn, s *Side, data []byte, deadline time.Time, progress func(int)) *SideResult {
	conn.SetDeadline(deadline)
	r := &SideResult{}
	var closedByUs sync.Mutex
	closed := false
	readerDone := make(chan struct{})
	go func() {
		defer close(readerDone)
		buf := make([]byte, 32<<10)
		for {
			n, err := conn.Read(buf)
			r.Received = append(r.Received, buf[:n]...)
			if n > 0 && progress != nil {
				progress(len(r.Received))
			}
			if err != nil {
				closedByUs.Lock()
				r.ReadToEnd = !closed
				closedByUs.Unlock()
				if err != io.EOF {
					r.ReadErr = err.Error()
					r.ReadTimedOut = isTimeout(err)
				}
				return
			}
		}
	}()
	if s.Start == "after-peer-eof" {
		<-readerDone
	}
	limit := s.planned()
	chunk := max(s.Chunk, 1)
	for off := 0; off < limit; {
		n, err := conn.Write(data[off:min(off+chunk, limit)])
		off += n
		r.Sent = off
		if err != nil {
			r.WriteErr = err.Error()
			r.WriteTimedOut = isTimeout(err)
			break
		}
	}
	switch s.End {
	case "halfclose":
		if r.WriteErr == "" {
			conn.CloseWrite()
		}
		<-readerDone
	case "hold":
		<-readerDone
	}
	closedByUs.Lock()
	closed = true
	closedByUs.Unlock()
	conn.Close()
	<-readerDone
	return r
}

// firstDifference returns the first offset at which a and b differ (or the
// shorter length).
func firstDifference(a, b []byte) int {
	n := min(len(a), len(b))
	for i := 0; i < n; i++ {
		if a[i] != b[i] {
			return i
		}
	}
	return n
}

// judgeConn applies the per-connection oracle. interrupted tells that
// forwarding was cancelled (or the session paused / terminated) at some point
// of the connection's life, in which case only prefix delivery and
// termination are demanded.
func judgeConn(index int, c *Conn, src, dst *SideResult, interrupted bool) (violation, timing string) {
	type view struct {
		name      string
		me        *Side
		got       *SideResult
		peer      *Side
		peerData  []byte
		peerSent  int
		peerAbort bool
	}
	views := []view{
		{"source end", &c.Src, src, &c.Dst, payload(c.Seed, 1, c.Dst.planned()), dst.Sent, c.Dst.End == "abort"},
		{"destination end", &c.Dst, dst, &c.Src, payload(c.Seed, 0, c.Src.planned()), src.Sent, c.Src.End == "abort"},
	}
	for _, v := range views {
		if v.got.ReadTimedOut || v.got.WriteTimedOut {
			timing = fmt.Sprintf("connection %d: the %s was still blocked when the deadline expired (read error %q, write error %q, received %d, sent %d)", index, v.name, v.got.ReadErr, v.got.WriteErr, len(v.got.Received), v.got.Sent)
			continue
		}
		if !bytes.HasPrefix(v.peerData, v.got.Received) {
			at := firstDifference(v.peerData, v.got.Received)
			return fmt.Sprintf("connection %d: the %s received %d bytes that are not a prefix of the %d bytes the other end sent (first difference at offset %d)", index, v.name, len(v.got.Received), len(v.peerData), at), ""
		}
		if len(v.got.Received) > v.peerSent {
			return fmt.Sprintf("connection %d: the %s received %d bytes but the other end had only written %d", index, v.name, len(v.got.Received), v.peerSent), ""
		}
	}
	if timing != "" || interrupted {
		return "", timing
	}
	for _, v := range views {
		if v.me.End == "abort" {
			continue
		}
		exact := !v.peerAbort && c.Src.End != "abort" && c.Dst.End != "abort"
		// An end that sends nothing cannot make the forwarder fail towards
		// the aborting end, so it must get everything the aborting end wrote.
		strictAbort := v.peerAbort && v.me.Send == 0
		if !exact && !strictAbort {
			continue
		}
		if len(v.got.Received) != len(v.peerData) {
			return fmt.Sprintf("connection %d: the %s received only %d of the %d bytes the other end sent before the stream ended (read error %q)", index, v.name, len(v.got.Received), len(v.peerData), v.got.ReadErr), ""
		}
		if v.got.ReadErr != "" {
			return fmt.Sprintf("connection %d: the %s received all %d bytes but then an error instead of the forwarded half-close: %s", index, v.name, len(v.peerData), v.got.ReadErr), ""
		}
	}
	return "", ""
}

// socketPair returns two connected Unix stream sockets.
func socketPair() (*net.UnixConn, *net.UnixConn, error) {
	fds, err := syscall.Socketpair(syscall.AF_UNIX, syscall.SOCK_STREAM|syscall.SOCK_CLOEXEC, 0)
	if err != nil {
		return nil, nil, err
	}
	var conns [2]*net.UnixConn
	for i, fd := range fds {
		f := os.NewFile(uintptr(fd), "socketpair")
		c, err := net.FileConn(f)
		f.Close()
		if err != nil {
			if conns[0] != nil {
				conns[0].Close()
			}
			return nil, nil, err
		}
		conns[i] = c.(*net.UnixConn)
	}
	return conns[0], conns[1], nil
}
