package c33_forwarding

import (
	"context"
	"encoding/json"
	"errors"
	"fmt"
	"net"
	"os"
	"path/filepath"
	"sync"
	"sync/atomic"
	"testing"
	"time"

	"pgregory.net/rapid"

	"github.com/mutagen-io/mutagen/pkg/forwarding"
	"github.com/mutagen-io/mutagen/pkg/logging"
	"github.com/mutagen-io/mutagen/pkg/selection"
	urlpkg "github.com/mutagen-io/mutagen/pkg/url"

	// Registers the real local protocol handler (listener / dialer endpoints).
	_ "github.com/mutagen-io/mutagen/pkg/forwarding/protocols/local"

	"verif/kit/ev"
)

const prop = "C33"

// Bounds (the machine is shared and can be heavily loaded; a case normally
// takes milliseconds).
const (
	// ioBound is the deadline set on every application end: an end that is
	// still blocked then is a timing complaint.
	ioBound = 30 * time.Second
	// settleBound limits waiting for things that happen right after the ends
	// finished: ForwardAndClose returning, counters reaching their final
	// values, Pause / Terminate returning.
	settleBound = 30 * time.Second
	attempts    = 3
)

// ---------------------------------------------------------------------------
// Generators.
// ---------------------------------------------------------------------------

var sizes = []int{0, 0, 1, 2, 100, 4096, 65536, 65537, 200000, 200000, 1 << 20}

func drawSide(rt *rapid.T, label string, allowHold bool) Side {
	s := Side{Send: rapid.SampledFrom(sizes).Draw(rt, label+".send")}
	chunks := []int{1024, 32768, 1 << 20}
	if s.Send <= 65537 {
		chunks = append(chunks, 7)
	}
	if s.Send <= 4096 {
		chunks = append(chunks, 1)
	}
	s.Chunk = rapid.SampledFrom(chunks).Draw(rt, label+".chunk")
	ends := []string{"halfclose", "halfclose", "halfclose", "halfclose", "halfclose", "abort"}
	if allowHold {
		ends = append(ends, "hold", "hold")
	}
	s.End = rapid.SampledFrom(ends).Draw(rt, label+".end")
	s.Start = "now"
	if s.End == "abort" {
		s.AbortAt = rapid.IntRange(0, s.Send).Draw(rt, label+".abort_at")
		if rapid.Bool().Draw(rt, label+".abort_full") {
			s.AbortAt = s.Send
		}
	}
	return s
}

// drawConn draws a connection script. Without interruption the script must
// terminate by itself: at most one end holds, and an end may wait for the
// other's half-close only if the other end sends it unconditionally.
func drawConn(rt *rapid.T, label string, interrupted bool) Conn {
	c := Conn{Seed: rapid.Uint64Range(1, 1<<40).Draw(rt, label+".seed")}
	c.Src = drawSide(rt, label+".src", true)
	c.Dst = drawSide(rt, label+".dst", interrupted || c.Src.End != "hold")
	// Request / response: one end starts sending only after the other's
	// half-close arrived.
	switch rapid.SampledFrom([]string{"none", "none", "dst-waits", "dst-waits", "src-waits"}).Draw(rt, label+".pattern") {
	case "dst-waits":
		if c.Src.End != "hold" || interrupted {
			c.Dst.Start = "after-peer-eof"
		}
	case "src-waits":
		if c.Dst.End != "hold" || interrupted {
			c.Src.Start = "after-peer-eof"
		}
	}
	return c
}

func drawConns(rt *rapid.T, interrupted bool, maxConns int) []Conn {
	n := rapid.IntRange(1, maxConns).Draw(rt, "conns")
	var out []Conn
	for i := 0; i < n; i++ {
		out = append(out, drawConn(rt, fmt.Sprintf("c%d", i), interrupted))
	}
	return out
}

// drawTrigger draws a reachable trigger: the watched end certainly receives
// that many bytes.
func drawTrigger(rt *rapid.T, conns []Conn) *Trigger {
	t := &Trigger{Conn: rapid.IntRange(0, len(conns)-1).Draw(rt, "trigger.conn"), Side: rapid.SampledFrom([]string{"src", "dst"}).Draw(rt, "trigger.side")}
	sends := func(t *Trigger) int {
		peer := conns[t.Conn].Dst
		if t.Side == "dst" {
			peer = conns[t.Conn].Src
		}
		if peer.Start == "now" {
			return peer.planned()
		}
		return 0
	}
	if sends(t) == 0 && rapid.IntRange(0, 3).Draw(rt, "trigger.retarget") > 0 {
		// Prefer an end that certainly receives data.
		for i := range conns {
			for _, side := range []string{"src", "dst"} {
				if alt := (&Trigger{Conn: i, Side: side}); sends(t) == 0 && sends(alt) > 0 {
					t = alt
				}
			}
		}
	}
	if n := sends(t); n > 0 {
		t.AfterBytes = rapid.IntRange(0, n).Draw(rt, "trigger.after")
		if rapid.IntRange(0, 4).Draw(rt, "trigger.early") == 0 {
			t.AfterBytes = min(t.AfterBytes, 1)
		}
	}
	return t
}

// drawFault draws a write fault on the forwarder's connection towards one
// end. In half of the cases the script of that connection is rewritten so
// that the faulted direction is the only one carrying data (see exactFault).
func drawFault(rt *rapid.T, conns []Conn) *Trigger {
	f := &Trigger{Conn: rapid.IntRange(0, len(conns)-1).Draw(rt, "fault.conn"), Side: rapid.SampledFrom([]string{"src", "dst"}).Draw(rt, "fault.side")}
	c := &conns[f.Conn]
	to, from := &c.Dst, &c.Src
	if f.Side == "src" {
		to, from = &c.Src, &c.Dst
	}
	if rapid.Bool().Draw(rt, "fault.oneway") {
		*to = Side{Send: 0, Chunk: 1024, Start: "now", End: "halfclose"}
		from.Start = "now"
		if from.planned() < 2 {
			from.Send, from.End, from.AbortAt = rapid.SampledFrom([]int{100, 65537, 200000, 1 << 20}).Draw(rt, "fault.send"), "halfclose", 0
		}
	}
	if n := from.planned(); n > 0 {
		f.AfterBytes = rapid.IntRange(0, n).Draw(rt, "fault.after")
	}
	return f
}

// classes describes what a set of connection scripts exercises.
func classes(conns []Conn, trig *Trigger) (out []string, nontrivial bool) {
	seen := map[string]bool{}
	add := func(s string) {
		if !seen[s] {
			seen[s] = true
			out = append(out, s)
		}
	}
	for _, c := range conns {
		if c.Src.planned() > 0 && c.Dst.planned() > 0 {
			add("data-in-both-directions")
		}
		if c.Src.planned() == 0 && c.Dst.planned() == 0 {
			add("no-data")
		}
		if max(c.Src.Send, c.Dst.Send) > 65536 {
			add("payload-beyond-socket-buffer")
		}
		for _, s := range []Side{c.Src, c.Dst} {
			if s.Start == "after-peer-eof" && s.planned() > 0 {
				add("response-after-forwarded-half-close")
				nontrivial = true
			}
			add("end/" + s.End)
		}
	}
	if len(conns) > 1 {
		add("concurrent-connections")
	}
	if trig == nil && !seen["end/abort"] {
		add("exact-delivery-demanded-on-every-connection")
	}
	if trig != nil {
		if trig.AfterBytes > 0 {
			add("interrupted-mid-transfer")
			nontrivial = true
		} else {
			add("interrupted-at-start")
		}
	}
	return
}

// ---------------------------------------------------------------------------
// Part 1: ForwardAndClose between socket pairs.
// ---------------------------------------------------------------------------

// FwdCase is a set of concurrent ForwardAndClose calls sharing one context.
type FwdCase struct {
	Conns  []Conn   `json:"conns"`
	Cancel *Trigger `json:"cancel,omitempty"`
	// Fault makes the forwarder's own connection towards one end fail in the
	// middle of a write: the write that would take the total past AfterBytes
	// delivers the bytes up to that total and returns them with an error.
	Fault *Trigger `json:"write_fault,omitempty"`
}

type fwdStats struct {
	bytes        int
	faultFired   bool
	faultPartial bool
}

var errInjected = errors.New("injected write failure")

// faultConn is the forwarder's connection towards an end, failing as
// described at FwdCase.Fault.
type faultConn struct {
	*net.UnixConn
	after   int
	written int
	fired   atomic.Bool
	partial atomic.Bool
}

func (f *faultConn) Write(p []byte) (int, error) {
	if f.written+len(p) > f.after {
		n, _ := f.UnixConn.Write(p[:f.after-f.written])
		f.written += n
		if n > 0 {
			f.partial.Store(true)
		}
		f.fired.Store(true)
		return n, errInjected
	}
	n, err := f.UnixConn.Write(p)
	f.written += n
	return n, err
}

// exactFault tells that the write fault of the case is the only thing that
// can make its ForwardAndClose call return early: no cancellation, and the
// end towards which the fault is injected sends nothing and reads its stream
// to the end. The auditor total of that direction is then final when
// ForwardAndClose returns.
func exactFault(c *FwdCase) bool {
	if c.Fault == nil || c.Cancel != nil {
		return false
	}
	end := c.Conns[c.Fault.Conn].Dst
	if c.Fault.Side == "src" {
		end = c.Conns[c.Fault.Conn].Src
	}
	return end.planned() == 0 && end.End != "abort"
}

// runFwd executes the case once.
func runFwd(c *FwdCase) (violation, timing, trouble string, st fwdStats) {
	type link struct {
		srcOuter, srcInner, dstOuter, dstInner *net.UnixConn
		toSrc, toDst                           atomic.Uint64
		returned                               chan struct{}
		src, dst                               *SideResult
	}
	links := make([]*link, len(c.Conns))
	defer func() {
		for _, l := range links {
			if l != nil {
				for _, x := range []*net.UnixConn{l.srcOuter, l.srcInner, l.dstOuter, l.dstInner} {
					if x != nil {
						x.Close()
					}
				}
			}
		}
	}()
	for i := range links {
		l := &link{returned: make(chan struct{})}
		links[i] = l
		var err error
		if l.srcOuter, l.srcInner, err = socketPair(); err != nil {
			return "", "", err.Error(), st
		}
		if l.dstOuter, l.dstInner, err = socketPair(); err != nil {
			return "", "", err.Error(), st
		}
	}
	ctx, cancel := context.WithCancel(context.Background())
	defer cancel()
	var cancelOnce sync.Once
	deadline := time.Now().Add(currentIOBound())
	var wg sync.WaitGroup
	var faulty *faultConn
	for i, l := range links {
		var first, second net.Conn = l.srcInner, l.dstInner
		if c.Fault != nil && c.Fault.Conn == i {
			if c.Fault.Side == "src" {
				faulty = &faultConn{UnixConn: l.srcInner, after: c.Fault.AfterBytes}
				first = faulty
			} else {
				faulty = &faultConn{UnixConn: l.dstInner, after: c.Fault.AfterBytes}
				second = faulty
			}
		}
		go func() {
			defer close(l.returned)
			forwarding.ForwardAndClose(ctx, first, second,
				func(n uint64) { l.toSrc.Add(n) }, func(n uint64) { l.toDst.Add(n) })
		}()
		progress := func(side string) func(int) {
			if c.Cancel == nil || c.Cancel.Conn != i || c.Cancel.Side != side {
				return nil
			}
			return func(n int) {
				if n >= c.Cancel.AfterBytes {
					cancelOnce.Do(cancel)
				}
			}
		}
		script := c.Conns[i]
		wg.Add(2)
		// The trigger also fires when the watched end finishes without
		// having received that much (it aborted, or its peer could not send).
		finished := func(side string) {
			if c.Cancel != nil && c.Cancel.Conn == i && c.Cancel.Side == side {
				cancelOnce.Do(cancel)
			}
		}
		go func() {
			defer wg.Done()
			l.src = runSide(l.srcOuter, &script.Src, payload(script.Seed, 0, script.Src.planned()), deadline, progress("src"))
			finished("src")
		}()
		go func() {
			defer wg.Done()
			l.dst = runSide(l.dstOuter, &script.Dst, payload(script.Seed, 1, script.Dst.planned()), deadline, progress("dst"))
			finished("dst")
		}()
	}
	if c.Cancel != nil && c.Cancel.AfterBytes == 0 {
		cancelOnce.Do(cancel)
	}
	wg.Wait()
	for i, l := range links {
		v, tm := judgeConn(i, &c.Conns[i], l.src, l.dst, c.Cancel != nil || (c.Fault != nil && c.Fault.Conn == i))
		if v != "" {
			return v, "", "", st
		}
		if tm != "" {
			timing = tm
		}
		st.bytes += len(l.src.Received) + len(l.dst.Received)
	}
	if timing != "" {
		return "", timing, "", st
	}
	// Every application end has finished, so both directions of every
	// connection have ended: ForwardAndClose must return and both of its
	// connections must be closed.
	for i, l := range links {
		select {
		case <-l.returned:
		case <-time.After(settleBound):
			return "", fmt.Sprintf("connection %d: ForwardAndClose had not returned %v after both application ends finished", i, settleBound), "", st
		}
		for name, inner := range map[string]*net.UnixConn{"first": l.srcInner, "second": l.dstInner} {
			if _, err := inner.Write([]byte{0}); !errors.Is(err, net.ErrClosed) {
				return fmt.Sprintf("connection %d: ForwardAndClose returned but its %s connection is not closed (write result: %v)", i, name, err), "", "", st
			}
		}
	}
	// Auditor totals: what was written towards an end is what that end got,
	// if it read to the end of the stream. The copying goroutines may outlive
	// ForwardAndClose for a moment after a cancellation, so equality is
	// awaited.
	if faulty != nil {
		st.faultFired, st.faultPartial = faulty.fired.Load(), faulty.partial.Load()
	}
	if exactFault(c) {
		l := links[c.Fault.Conn]
		audit, got, name := &l.toDst, l.dst, "second (towards the destination end)"
		if c.Fault.Side == "src" {
			audit, got, name = &l.toSrc, l.src, "first (towards the source end)"
		}
		if a := int(audit.Load()); got.ReadToEnd && a != len(got.Received) {
			return fmt.Sprintf("connection %d: ForwardAndClose has returned (its %s connection failed in the middle of a write after delivering %d bytes in all) and that connection's auditor counts %d bytes, but the end received %d", c.Fault.Conn, name, c.Fault.AfterBytes, a, len(got.Received)), "", "", st
		}
	}
	settle := time.Now().Add(settleBound)
	for i, l := range links {
		for _, d := range []struct {
			name     string
			audit    *atomic.Uint64
			got      *SideResult
			peerSent int
		}{{"first (towards the source end)", &l.toSrc, l.src, l.dst.Sent}, {"second (towards the destination end)", &l.toDst, l.dst, l.src.Sent}} {
			for {
				a := int(d.audit.Load())
				if a > d.peerSent {
					return fmt.Sprintf("connection %d: the auditor of the %s connection counted %d bytes but only %d were sent", i, d.name, a, d.peerSent), "", "", st
				}
				if a > len(d.got.Received) && d.got.ReadToEnd {
					return fmt.Sprintf("connection %d: the auditor of the %s connection counted %d bytes but that end, which read its stream to the end, received %d", i, d.name, a, len(d.got.Received)), "", "", st
				}
				if a >= len(d.got.Received) {
					break
				}
				if time.Now().After(settle) {
					return "", fmt.Sprintf("connection %d: the auditor of the %s connection still counts %d bytes although %d were delivered", i, d.name, a, len(d.got.Received)), "", st
				}
				time.Sleep(time.Millisecond)
			}
		}
	}
	return "", "", "", st
}

// verdict re-executes timing complaints.
func verdict(run func() (violation, timing, trouble string)) (violation, inconclusive, trouble string) {
	violation, inconclusive, trouble, _ = verdictT(run)
	return
}

// frozen remembers a case whose violation is a timing one: such a verdict
// costs minutes, so rapid's shrinking is cut short by letting every other
// case pass unexecuted and the same case fail at once.
var frozen struct {
	key, message string
}

func verdictT(run func() (violation, timing, trouble string)) (violation, inconclusive, trouble string, timed bool) {
	defer func() {
		if violation != "" {
			violationSeen.Store(true)
		}
	}()
	var last string
	for i := 0; i < attempts; i++ {
		v, tm, tr := run()
		if violationSeen.Load() && v == "" && tr == "" {
			// Shrinking: only schedule-independent reproductions count, and
			// they are looked for with short deadlines.
			return "", "", "", false
		}
		if tr != "" {
			return "", "", tr, false
		}
		if v != "" {
			return v, "", "", false
		}
		if tm == "" {
			if i > 0 {
				return "", last + " — but not when re-executed", "", false
			}
			return "", "", "", false
		}
		last = tm
	}
	return fmt.Sprintf("%s (in each of %d executions)", last, attempts), "", "", true
}

var aborted bool

// violationSeen is set once a violation has been established in this
// process: what follows is rapid's shrinking, which uses short deadlines and
// ignores complaints about time (see verdictT).
var violationSeen atomic.Bool

func currentIOBound() time.Duration {
	if violationSeen.Load() {
		return 5 * time.Second
	}
	return ioBound
}

func abort(format string, args ...any) {
	if !aborted {
		ev.Inconclusive("C33 harness trouble: "+format, args...)
	}
	aborted = true
}

func TestForwardAndClose(t *testing.T) {
	if ev.ReplayPath() != "" {
		t.Skip("replaying")
	}
	rec := ev.New(t, prop, "forward-and-close",
		"rapid: 1..4 concurrent forwarding.ForwardAndClose calls between Unix socket pairs (real CloseWrite) sharing one context; each application end sends 0 B..1 MiB in drawn chunk sizes, starts at once or only after the other end's half-close arrived, and ends by half-close / holding the connection until EOF / abrupt close after a drawn prefix; optionally the context is cancelled once a drawn end has received a drawn number of bytes, or the forwarder's own connection towards a drawn end fails in the middle of a write (the write crossing a drawn total delivers the bytes up to it and returns them with an error). Oracle: every end receives a prefix of what the other end wrote, the complete payload followed by a clean EOF when neither end aborted (and when the aborting end's peer sent nothing), all ends finish within 30 s (re-executed 3 times before reporting), ForwardAndClose returns and both its connections are closed, each auditor total lies between bytes received and bytes sent and equals bytes received for ends that read to the end (at once, when the write fault is the only thing that can end the call). Non-trivial: an end answers only after the forwarded half-close, cancellation hits after data arrived, or a failing write delivered part of its buffer")
	violationSeen.Store(false)
	frozen.key = ""
	ev.Check(t, rec, 250, 12000, func(rt *rapid.T) {
		c := &FwdCase{}
		kind := rapid.IntRange(0, 7).Draw(rt, "cancel")
		interrupted := kind <= 1
		c.Conns = drawConns(rt, interrupted, 4)
		if interrupted {
			c.Cancel = drawTrigger(rt, c.Conns)
		} else if kind <= 3 {
			c.Fault = drawFault(rt, c.Conns)
		}
		if aborted {
			return
		}
		raw, _ := json.Marshal(c)
		if frozen.key != "" {
			if frozen.key == string(raw) {
				ev.Failf(rt, rec, c, "%s", frozen.message)
			}
			return
		}
		var st fwdStats
		violation, inconclusive, trouble, timed := verdictT(func() (string, string, string) {
			v, tm, tr, s := runFwd(c)
			st = s
			return v, tm, tr
		})
		if timed {
			frozen.key, frozen.message = string(raw), violation
		}
		if trouble != "" {
			abort("%s", trouble)
			return
		}
		rec.Eval()
		if inconclusive != "" {
			ev.Inconclusive("C33: %s", inconclusive)
		}
		if violation != "" {
			ev.Failf(rt, rec, c, "%s", violation)
		}
		cls, nt := classes(c.Conns, c.Cancel)
		for _, k := range cls {
			rec.Class(k)
		}
		if c.Fault != nil {
			switch {
			case st.faultPartial:
				rec.Class("write-fault/part-of-a-buffer-delivered")
				nt = true
			case st.faultFired:
				rec.Class("write-fault/nothing-of-the-buffer-delivered")
			default:
				rec.Class("write-fault/not-reached")
			}
			if exactFault(c) {
				rec.Class("write-fault/auditor-final-at-return")
			}
		}
		rec.ClassN("bytes-delivered", uint64(st.bytes))
		if nt {
			rec.NonTrivial(ev.Hash(string(raw)))
			if rec.WantSample() && len(c.Conns) == 1 {
				rec.Sample(c)
			}
		}
	})
}

// ---------------------------------------------------------------------------
// Part 2: real forwarding sessions.
// ---------------------------------------------------------------------------

// SessionCase is one forwarding session between two Unix socket endpoints
// served by the harness.
type SessionCase struct {
	Conns []Conn `json:"conns"`
	// Event: "none", "pause" (followed by a resume and one more connection)
	// or "terminate", fired at Trigger.
	Event   string   `json:"event"`
	Trigger *Trigger `json:"trigger,omitempty"`
}

type sessionEnv struct {
	manager *forwarding.Manager
	base    string
	counter int
}

func newSessionEnv(t *testing.T) *sessionEnv {
	// Unix socket paths are limited to ~100 bytes: keep them short.
	base, err := os.MkdirTemp("/tmp", "c33_forwarding-")
	if err != nil {
		t.Fatalf("cannot create scratch directory: %v", err)
	}
	t.Cleanup(func() { os.RemoveAll(base) })
	data := filepath.Join(base, "data")
	if err := os.MkdirAll(data, 0o700); err != nil {
		t.Fatal(err)
	}
	os.Setenv("MUTAGEN_DATA_DIRECTORY", data)
	level, w := logging.LevelDisabled, os.Stderr
	if os.Getenv("VERIF_C33_LOG") != "" {
		level = logging.LevelTrace
	}
	m, err := forwarding.NewManager(logging.NewLogger(level, w))
	if err != nil {
		t.Fatalf("cannot create forwarding manager: %v", err)
	}
	t.Cleanup(m.Shutdown)
	return &sessionEnv{manager: m, base: base}
}

// dialSource connects to the session's source socket, retrying while the
// (lazily created) listener does not exist yet.
func dialSource(path string) (*net.UnixConn, error) {
	deadline := time.Now().Add(settleBound)
	for {
		c, err := net.Dial("unix", path)
		if err == nil {
			return c.(*net.UnixConn), nil
		}
		if time.Now().After(deadline) {
			return nil, fmt.Errorf("cannot connect to the session's source socket within %v: %w", settleBound, err)
		}
		time.Sleep(time.Millisecond)
	}
}

func acceptOne(l *net.UnixListener) (*net.UnixConn, error) {
	l.SetDeadline(time.Now().Add(settleBound))
	return l.AcceptUnix()
}

func (e *sessionEnv) state(id string) (*forwarding.State, error) {
	_, states, err := e.manager.List(context.Background(), &selection.Selection{Specifications: []string{id}}, 0)
	if err != nil {
		return nil, err
	}
	if len(states) != 1 {
		return nil, fmt.Errorf("%d states listed", len(states))
	}
	return states[0], nil
}

type pair struct {
	src, dst       *net.UnixConn
	srcRes, dstRes *SideResult
}

// openPairs opens n forwarded connections one after the other, so that the
// i-th accepted destination connection belongs to the i-th source connection.
func openPairs(n int, sourcePath string, listener *net.UnixListener) ([]*pair, error) {
	var out []*pair
	for i := 0; i < n; i++ {
		s, err := dialSource(sourcePath)
		if err != nil {
			return out, err
		}
		p := &pair{src: s}
		out = append(out, p)
		if p.dst, err = acceptOne(listener); err != nil {
			return out, fmt.Errorf("the session did not open a destination connection for source connection %d within %v: %w", i, settleBound, err)
		}
	}
	return out, nil
}

// runPairs plays the scripts on the pairs; fire is called (once) when the
// trigger is reached.
func runPairs(conns []Conn, pairs []*pair, trig *Trigger, fire func()) {
	var once sync.Once
	deadline := time.Now().Add(currentIOBound())
	var wg sync.WaitGroup
	for i, p := range pairs {
		progress := func(side string) func(int) {
			if trig == nil || trig.Conn != i || trig.Side != side {
				return nil
			}
			return func(n int) {
				if n >= trig.AfterBytes {
					once.Do(fire)
				}
			}
		}
		script := conns[i]
		wg.Add(2)
		finished := func(side string) {
			if trig != nil && trig.Conn == i && trig.Side == side {
				once.Do(fire)
			}
		}
		go func() {
			defer wg.Done()
			p.srcRes = runSide(p.src, &script.Src, payload(script.Seed, 0, script.Src.planned()), deadline, progress("src"))
			finished("src")
		}()
		go func() {
			defer wg.Done()
			p.dstRes = runSide(p.dst, &script.Dst, payload(script.Seed, 1, script.Dst.planned()), deadline, progress("dst"))
			finished("dst")
		}()
	}
	if trig != nil && trig.AfterBytes == 0 {
		once.Do(fire)
	}
	wg.Wait()
}

// awaitCounters waits for the session's statistics to reach the expected
// final values. Bounds: [low, high] per direction (equal when every end read
// to the end of its stream).
func (e *sessionEnv) awaitCounters(id string, conns int, outLow, outHigh, inLow, inHigh uint64) (violation, timing string) {
	deadline := time.Now().Add(settleBound)
	for {
		st, err := e.state(id)
		if err != nil {
			return "cannot list the session: " + err.Error(), ""
		}
		desc := fmt.Sprintf("open %d, total %d, outbound %d, inbound %d", st.OpenConnections, st.TotalConnections, st.TotalOutboundData, st.TotalInboundData)
		if st.TotalConnections > uint64(conns) {
			return fmt.Sprintf("the session counts %d connections but only %d were made (%s)", st.TotalConnections, conns, desc), ""
		}
		if st.OpenConnections > st.TotalConnections {
			return fmt.Sprintf("open-connection count exceeds the total (or wrapped around): %s", desc), ""
		}
		if st.TotalOutboundData > outHigh {
			return fmt.Sprintf("outbound data %d exceeds the %d bytes the source ends sent (%s)", st.TotalOutboundData, outHigh, desc), ""
		}
		if st.TotalInboundData > inHigh {
			return fmt.Sprintf("inbound data %d exceeds the %d bytes the destination ends sent (%s)", st.TotalInboundData, inHigh, desc), ""
		}
		if st.OpenConnections == 0 && st.TotalConnections == uint64(conns) &&
			st.TotalOutboundData >= outLow && st.TotalInboundData >= inLow {
			return "", ""
		}
		if time.Now().After(deadline) {
			return "", fmt.Sprintf("%v after every connection ended the session reports %s; expected open 0, total %d, outbound %d..%d, inbound %d..%d", settleBound, desc, conns, outLow, outHigh, inLow, inHigh)
		}
		time.Sleep(2 * time.Millisecond)
	}
}

func counterBounds(pairs []*pair) (outLow, outHigh, inLow, inHigh uint64) {
	for _, p := range pairs {
		// Outbound: source end -> destination end.
		outLow += uint64(len(p.dstRes.Received))
		if p.dstRes.ReadToEnd {
			outHigh += uint64(len(p.dstRes.Received))
		} else {
			outHigh += uint64(p.srcRes.Sent)
		}
		inLow += uint64(len(p.srcRes.Received))
		if p.srcRes.ReadToEnd {
			inHigh += uint64(len(p.srcRes.Received))
		} else {
			inHigh += uint64(p.dstRes.Sent)
		}
	}
	return
}

func closePairs(pairs []*pair) {
	for _, p := range pairs {
		if p.src != nil {
			p.src.Close()
		}
		if p.dst != nil {
			p.dst.Close()
		}
	}
}

// runSession executes the case once.
func (e *sessionEnv) runSession(c *SessionCase) (violation, timing, trouble string, bytes int) {
	e.counter++
	dir := filepath.Join(e.base, fmt.Sprintf("s%d", e.counter))
	if err := os.MkdirAll(dir, 0o700); err != nil {
		return "", "", err.Error(), 0
	}
	defer os.RemoveAll(dir)
	sourcePath, destinationPath := filepath.Join(dir, "src.sock"), filepath.Join(dir, "dst.sock")
	listener, err := net.ListenUnix("unix", &net.UnixAddr{Name: destinationPath, Net: "unix"})
	if err != nil {
		return "", "", err.Error(), 0
	}
	defer listener.Close()
	source, err := urlpkg.Parse("unix:"+sourcePath, urlpkg.Kind_Forwarding, true)
	if err != nil {
		return "", "", err.Error(), 0
	}
	destination, err := urlpkg.Parse("unix:"+destinationPath, urlpkg.Kind_Forwarding, false)
	if err != nil {
		return "", "", err.Error(), 0
	}
	ctx := context.Background()
	id, err := e.manager.Create(ctx, source, destination, &forwarding.Configuration{}, &forwarding.Configuration{}, &forwarding.Configuration{}, "", nil, false, "")
	if err != nil {
		return "", "", "cannot create session: " + err.Error(), 0
	}
	sel := &selection.Selection{Specifications: []string{id}}
	terminated := false
	defer func() {
		if !terminated {
			e.manager.Terminate(ctx, sel, "")
		}
	}()

	pairs, err := openPairs(len(c.Conns), sourcePath, listener)
	defer func() { closePairs(pairs) }()
	if err != nil {
		return "", err.Error(), "", 0
	}

	// The event runs in its own goroutine: it must return by itself.
	eventDone := make(chan error, 1)
	fire := func() {
		go func() {
			switch c.Event {
			case "pause":
				eventDone <- e.manager.Pause(ctx, sel, "")
			case "terminate":
				eventDone <- e.manager.Terminate(ctx, sel, "")
			}
		}()
	}
	trig := c.Trigger
	if c.Event == "none" {
		trig = nil
	}
	runPairs(c.Conns, pairs, trig, fire)
	for i, p := range pairs {
		v, tm := judgeConn(i, &c.Conns[i], p.srcRes, p.dstRes, trig != nil)
		if v != "" {
			return v, "", "", 0
		}
		if tm != "" {
			timing = tm
		}
		bytes += len(p.srcRes.Received) + len(p.dstRes.Received)
	}
	if timing != "" {
		return "", timing, "", bytes
	}

	switch c.Event {
	case "none":
		st, err := e.state(id)
		if err != nil {
			return "cannot list the session: " + err.Error(), "", "", bytes
		}
		if st.Status != forwarding.Status_ForwardingConnections {
			return fmt.Sprintf("after %d connections the session is in status %v (last error %q) instead of forwarding", len(pairs), st.Status, st.LastError), "", "", bytes
		}
		outLow, outHigh, inLow, inHigh := counterBounds(pairs)
		if v, tm := e.awaitCounters(id, len(pairs), outLow, outHigh, inLow, inHigh); v != "" || tm != "" {
			return v, tm, "", bytes
		}
	case "pause", "terminate":
		select {
		case err := <-eventDone:
			if err != nil {
				return fmt.Sprintf("%s failed: %v", c.Event, err), "", "", bytes
			}
		case <-time.After(settleBound):
			return "", fmt.Sprintf("%s had not returned %v after every connection ended", c.Event, settleBound), "", bytes
		}
		if c.Event == "terminate" {
			terminated = true
			if _, states, err := e.manager.List(ctx, &selection.Selection{All: true}, 0); err == nil {
				for _, s := range states {
					if s.Session.Identifier == id {
						return "the session is still listed after Terminate returned", "", "", bytes
					}
				}
			}
			break
		}
		st, err := e.state(id)
		if err != nil {
			return "cannot list the session: " + err.Error(), "", "", bytes
		}
		if !st.Session.Paused || st.OpenConnections != 0 || st.Status != forwarding.Status_Disconnected {
			return fmt.Sprintf("after Pause returned the session reports paused=%v, status %v, open connections %d", st.Session.Paused, st.Status, st.OpenConnections), "", "", bytes
		}
		// The source socket is gone while paused.
		if conn, err := net.Dial("unix", sourcePath); err == nil {
			conn.Close()
			return "the source socket still accepts connections after Pause returned", "", "", bytes
		}
		// Resume: forwarding works again and the statistics start over.
		if err := e.manager.Resume(ctx, sel, ""); err != nil {
			return "resume failed: " + err.Error(), "", "", bytes
		}
		again := []Conn{{Seed: c.Conns[0].Seed + 1,
			Src: Side{Send: 3000, Chunk: 1024, Start: "now", End: "halfclose"},
			Dst: Side{Send: 5000, Chunk: 1024, Start: "after-peer-eof", End: "halfclose"}}}
		more, err := openPairs(1, sourcePath, listener)
		pairs = append(pairs, more...)
		if err != nil {
			return "", "after resume: " + err.Error(), "", bytes
		}
		runPairs(again, more, nil, nil)
		if v, tm := judgeConn(len(c.Conns), &again[0], more[0].srcRes, more[0].dstRes, false); v != "" || tm != "" {
			return prefix("after resume: ", v), prefix("after resume: ", tm), "", bytes
		}
		if v, tm := e.awaitCounters(id, 1, 3000, 3000, 5000, 5000); v != "" || tm != "" {
			return prefix("after resume: ", v), prefix("after resume: ", tm), "", bytes
		}
	}

	// Terminate: the session disappears and its source socket with it.
	if !terminated {
		done := make(chan error, 1)
		go func() { done <- e.manager.Terminate(ctx, sel, "") }()
		select {
		case err := <-done:
			terminated = true
			if err != nil {
				return "terminate failed: " + err.Error(), "", "", bytes
			}
		case <-time.After(settleBound):
			terminated = true
			return "", fmt.Sprintf("Terminate had not returned after %v", settleBound), "", bytes
		}
	}
	if conn, err := net.Dial("unix", sourcePath); err == nil {
		conn.Close()
		return "the source socket still accepts connections after the session was terminated", "", "", bytes
	}
	return "", "", "", bytes
}

func prefix(p, s string) string {
	if s == "" {
		return ""
	}
	return p + s
}

func TestSessions(t *testing.T) {
	if ev.ReplayPath() != "" {
		t.Skip("replaying")
	}
	rec := ev.New(t, prop, "sessions",
		"rapid: a real forwarding.Manager session (local protocol handler, lazily listening Unix-socket source, Unix-socket destination served by the harness) forwards 1..5 concurrent connections with the same end scripts as the ForwardAndClose part; optionally the session is paused or terminated once a drawn end has received a drawn number of bytes; a paused session is resumed and forwards one more request/response connection. Oracle: the per-connection oracle; without an event the session stays in forwarding status and List eventually reports open 0, total = connections made, outbound/inbound totals equal to the bytes the destination/source ends received (bounded by bytes sent for ends that aborted); Pause/Terminate return, end every connection, leave the session paused+disconnected resp. unlisted, and the source socket stops accepting; after resume the statistics start over and count exactly the new connection. Non-trivial: as in the ForwardAndClose part (response after forwarded half-close, or event after data arrived)")
	env := newSessionEnv(t)
	violationSeen.Store(false)
	frozen.key = ""
	ev.Check(t, rec, 120, 5000, func(rt *rapid.T) {
		c := &SessionCase{Event: rapid.SampledFrom([]string{"none", "none", "none", "pause", "terminate"}).Draw(rt, "event")}
		c.Conns = drawConns(rt, c.Event != "none", 5)
		if c.Event != "none" {
			c.Trigger = drawTrigger(rt, c.Conns)
		}
		if aborted {
			return
		}
		raw, _ := json.Marshal(c)
		if frozen.key != "" {
			if frozen.key == string(raw) {
				ev.Failf(rt, rec, c, "%s", frozen.message)
			}
			return
		}
		var bytes int
		violation, inconclusive, trouble, timed := verdictT(func() (string, string, string) {
			v, tm, tr, b := env.runSession(c)
			bytes = b
			return v, tm, tr
		})
		if timed {
			frozen.key, frozen.message = string(raw), violation
		}
		if trouble != "" {
			abort("%s", trouble)
			return
		}
		rec.Eval()
		if inconclusive != "" {
			ev.Inconclusive("C33: %s", inconclusive)
		}
		if violation != "" {
			ev.Failf(rt, rec, c, "%s", violation)
		}
		cls, nt := classes(c.Conns, c.Trigger)
		for _, k := range cls {
			rec.Class(k)
		}
		rec.Class("event/" + c.Event)
		rec.ClassN("bytes-delivered", uint64(bytes))
		if nt {
			rec.NonTrivial(ev.Hash(string(raw)))
			if rec.WantSample() && len(c.Conns) == 1 {
				rec.Sample(c)
			}
		}
	})
}

// ---------------------------------------------------------------------------
// Replay.
// ---------------------------------------------------------------------------

func TestReplay(t *testing.T) {
	if ev.ReplayPath() == "" {
		t.Skip("no replay requested")
	}
	rec := ev.New(t, prop, "replay", "replay of a saved case")
	var run func() (string, string, string)
	var c any
	switch ev.ReplayPart() {
	case "sessions":
		sc := &SessionCase{}
		if _, err := ev.LoadReplay(ev.ReplayPath(), sc); err != nil {
			t.Fatalf("cannot load replay: %v", err)
		}
		env := newSessionEnv(t)
		c = sc
		run = func() (string, string, string) {
			v, tm, tr, _ := env.runSession(sc)
			return v, tm, tr
		}
	default:
		fc := &FwdCase{}
		if _, err := ev.LoadReplay(ev.ReplayPath(), fc); err != nil {
			t.Fatalf("cannot load replay: %v", err)
		}
		c = fc
		run = func() (string, string, string) {
			v, tm, tr, _ := runFwd(fc)
			return v, tm, tr
		}
	}
	// Schedules are not reproducible exactly: execute the case several times.
	for i := 0; i < 10; i++ {
		violation, inconclusive, trouble := verdict(run)
		rec.Eval()
		if trouble != "" {
			ev.Inconclusive("C33 harness trouble: %s", trouble)
			t.Skip()
		}
		if inconclusive != "" {
			ev.Inconclusive("C33: %s", inconclusive)
		}
		if violation != "" {
			ev.FailTB(t, rec, c, "%s", violation)
		}
	}
}
