package c34_handshake

import (
	"bytes"
	"encoding/binary"
	"encoding/hex"
	"fmt"
	"io"
	"math"
	"testing"
	"time"

	"pgregory.net/rapid"

	"github.com/mutagen-io/mutagen/pkg/agent"
	"github.com/mutagen-io/mutagen/pkg/mutagen"

	"verif/kit/ev"
)

const prop = "C34"

// ---------------------------------------------------------------------------
// Independent description of the wire exchange.
// ---------------------------------------------------------------------------

// The magic numbers are protocol constants (unexported in pkg/agent): the
// server opens every stream with 05 27 87, the client answers 87 27 05.
var (
	wireServerMagic = []byte{0x05, 0x27, 0x87}
	wireClientMagic = []byte{0x87, 0x27, 0x05}
)

const handshakeLen = 15 // 3 magic bytes + 3 big-endian 32-bit version words

func versionWords(major, minor, patch uint32) []byte {
	var b [12]byte
	binary.BigEndian.PutUint32(b[0:], major)
	binary.BigEndian.PutUint32(b[4:], minor)
	binary.BigEndian.PutUint32(b[8:], patch)
	return b[:]
}

func ownVersion() []byte {
	return versionWords(mutagen.VersionMajor, mutagen.VersionMinor, mutagen.VersionPatch)
}

// expectedInput is what a side has to receive for its handshake to succeed.
func expectedInput(side string) []byte {
	if side == "client" {
		return append(append([]byte(nil), wireServerMagic...), ownVersion()...)
	}
	return append(append([]byte(nil), wireClientMagic...), ownVersion()...)
}

// expectedOutput is what a side sends in a successful handshake.
func expectedOutput(side string) []byte {
	if side == "client" {
		return expectedInput("server")
	}
	return expectedInput("client")
}

// runSide executes the real handshake sequence of a side, exactly as its only
// callers do: agent.connect (pkg/agent/dial.go) for the client, the
// synchronizer / forwarder commands of cmd/mutagen-agent for the server.
func runSide(side string, stream io.ReadWriteCloser) (stage string, err error) {
	defer func() {
		if p := recover(); p != nil {
			stage, err = "panic", fmt.Errorf("panic: %v", p)
		}
	}()
	if side == "client" {
		if err := agent.ClientHandshake(stream); err != nil {
			return "magic", err
		}
		if err := mutagen.ClientVersionHandshake(stream); err != nil {
			return "version", err
		}
		return "", nil
	}
	if err := agent.ServerHandshake(stream); err != nil {
		return "magic", err
	}
	if err := mutagen.ServerVersionHandshake(stream); err != nil {
		return "version", err
	}
	return "", nil
}

// ---------------------------------------------------------------------------
// Part 1: real side versus scripted peer.
// ---------------------------------------------------------------------------

// ScriptCase is one run of a real side against a scripted peer.
type ScriptCase struct {
	Side string `json:"side"` // "client" or "server"
	// InputHex is everything the peer sends before closing.
	InputHex string `json:"input_hex"`
	// Frag is the maximum number of bytes a Read returns (0: unlimited).
	Frag int `json:"frag"`
	// WriteLimit is the number of bytes the transport accepts from the side
	// before failing (-1: unlimited).
	WriteLimit int    `json:"write_limit"`
	Label      string `json:"label"`
}

func (c *ScriptCase) input() []byte {
	b, _ := hex.DecodeString(c.InputHex)
	return b
}

// judgeScript runs the case and applies the oracle: nil iff the first 15
// received bytes are the expected magic + own version and the side's 15 bytes
// could be written.
func judgeScript(c *ScriptCase) (violation string) {
	in := c.input()
	s := &scriptStream{in: in, frag: c.Frag, writeLimit: c.WriteLimit}
	stage, err := runSide(c.Side, s)
	if stage == "panic" {
		return fmt.Sprintf("%s side panicked: %v", c.Side, err)
	}
	want := expectedInput(c.Side)
	received := len(in) >= handshakeLen && bytes.Equal(in[:handshakeLen], want)
	writable := c.WriteLimit < 0 || c.WriteLimit >= handshakeLen
	expectNil := received && writable
	own := expectedOutput(c.Side)
	switch {
	case err == nil && !expectNil:
		why := "its transport failed while it was sending"
		if !received {
			why = fmt.Sprintf("it received % x (expected % x)", in[:min(len(in), handshakeLen)], want)
		}
		return fmt.Sprintf("%s handshake succeeded although %s", c.Side, why)
	case err != nil && expectNil:
		return fmt.Sprintf("%s handshake failed at the %s stage (%v) although it received exactly the expected % x and all its writes succeeded", c.Side, stage, err, want)
	}
	if err == nil {
		if !bytes.Equal(s.out, own) {
			return fmt.Sprintf("%s handshake succeeded but it sent % x instead of % x", c.Side, s.out, own)
		}
		if s.pos != handshakeLen {
			return fmt.Sprintf("%s handshake consumed %d bytes of the stream instead of %d (bytes that follow the handshake belong to the next protocol layer)", c.Side, s.pos, handshakeLen)
		}
	} else if !bytes.HasPrefix(own, s.out) {
		return fmt.Sprintf("%s handshake failed (%v) after sending % x, which is not a prefix of its handshake bytes % x", c.Side, err, s.out, own)
	}
	return ""
}

// perturbedValues are the replacement values for one version word.
func perturbedValues(own uint32) []uint32 {
	cand := []uint32{own - 1, own + 1, 0, math.MaxUint32, own ^ 0x100, own ^ 0x10000, own ^ 0x1000000, own << 8, own << 24, own + 256}
	var out []uint32
	seen := map[uint32]bool{own: true}
	for _, v := range cand {
		if !seen[v] {
			seen[v] = true
			out = append(out, v)
		}
	}
	return out
}

func otherSide(side string) string {
	if side == "client" {
		return "server"
	}
	return "client"
}

// enumerateScript calls f for every case of the scripted-peer enumeration.
// class is the case's class, nontrivial tells whether it is non-trivial by
// the rule (an alteration confined to the version words).
func enumerateScript(f func(c *ScriptCase, class string, nontrivial bool)) {
	own := [3]uint32{mutagen.VersionMajor, mutagen.VersionMinor, mutagen.VersionPatch}
	for _, side := range []string{"client", "server"} {
		good := expectedInput(side)
		emit := func(in []byte, frag, limit int, class, label string, nt bool) {
			f(&ScriptCase{Side: side, InputHex: hex.EncodeToString(in), Frag: frag, WriteLimit: limit, Label: label}, class, nt)
		}
		// Unaltered exchange, every fragmentation, with and without bytes
		// of the next layer following.
		for _, frag := range []int{0, 1, 2, 3, 4, 5, 7, 11, 12, 14, 15, 16, 64} {
			emit(good, frag, -1, "unaltered", "unaltered", false)
			emit(append(append([]byte(nil), good...), "NEXT-LAYER"...), frag, -1, "unaltered+following-bytes", "unaltered, 10 more bytes follow", false)
		}
		// Single-field version perturbations.
		for field := 0; field < 3; field++ {
			for _, v := range perturbedValues(own[field]) {
				w := own
				w[field] = v
				in := append(append([]byte(nil), good[:3]...), versionWords(w[0], w[1], w[2])...)
				for _, frag := range []int{0, 1} {
					emit(in, frag, -1, "version-field-perturbed", fmt.Sprintf("field %d = %d", field, v), true)
				}
			}
		}
		// Every one-byte corruption.
		for pos := 0; pos < handshakeLen; pos++ {
			for x := 1; x < 256; x++ {
				in := append([]byte(nil), good...)
				in[pos] ^= byte(x)
				class := "byte-corrupted/magic"
				if pos >= 3 {
					class = "byte-corrupted/version"
				}
				for _, frag := range []int{0, 1} {
					emit(in, frag, -1, class, fmt.Sprintf("byte %d ^ %#02x", pos, x), pos >= 3)
				}
			}
		}
		// Every truncation point.
		for k := 0; k < handshakeLen; k++ {
			for _, frag := range []int{0, 1, 4} {
				emit(good[:k], frag, -1, "truncated", fmt.Sprintf("peer closes after %d bytes", k), k > 3)
			}
		}
		// The side's own transmission fails after k bytes.
		for k := 0; k <= handshakeLen; k++ {
			class := "own-write-fails"
			if k == handshakeLen {
				class = "unaltered"
			}
			emit(good, 0, k, class, fmt.Sprintf("transport accepts %d bytes from the side", k), false)
		}
		// Structural alterations.
		emit(expectedInput(otherSide(side)), 0, -1, "structural", "peer answers with the side's own magic number (reflection)", false)
		emit(append(append([]byte(nil), good[3:]...), good[:3]...), 0, -1, "structural", "version before magic", false)
		for _, perm := range [][3]int{{0, 2, 1}, {1, 0, 2}, {1, 2, 0}, {2, 0, 1}, {2, 1, 0}} {
			w := [3]uint32{own[perm[0]], own[perm[1]], own[perm[2]]}
			if w == own {
				continue
			}
			emit(append(append([]byte(nil), good[:3]...), versionWords(w[0], w[1], w[2])...), 0, -1, "structural", fmt.Sprintf("version words permuted %v", perm), true)
		}
		{
			// Little-endian version words.
			var le [12]byte
			binary.LittleEndian.PutUint32(le[0:], own[0])
			binary.LittleEndian.PutUint32(le[4:], own[1])
			binary.LittleEndian.PutUint32(le[8:], own[2])
			if !bytes.Equal(le[:], good[3:]) {
				emit(append(append([]byte(nil), good[:3]...), le[:]...), 0, -1, "structural", "little-endian version words", true)
			}
		}
		for i := 0; i < handshakeLen; i++ {
			del := append(append([]byte(nil), good[:i]...), good[i+1:]...)
			// The following bytes of the next layer slide into the handshake.
			for _, tail := range []string{"", "\x00", "NEXT"} {
				in := append(append([]byte(nil), del...), tail...)
				if len(in) >= handshakeLen && bytes.Equal(in[:handshakeLen], good) {
					continue
				}
				emit(in, 1, -1, "byte-deleted", fmt.Sprintf("byte %d deleted, %q follows", i, tail), i >= 3)
			}
			for _, v := range []byte{0x00, 0xff, good[i], '\n'} {
				in := append(append(append([]byte(nil), good[:i]...), v), good[i:]...)
				if bytes.Equal(in[:handshakeLen], good) {
					continue
				}
				emit(in, 1, -1, "byte-inserted", fmt.Sprintf("byte %#02x inserted at %d", v, i), i >= 3)
			}
		}
		for _, text := range []string{
			"bash: .mutagen/agents/0.19.0/mutagen-agent: No such file or directory\n",
			"'.mutagen' is not recognized as an internal or external command,\r\noperable program or batch file.\r\n",
			"Last login: Mon Sep 21 10:00:00 2026 from 10.0.0.1\n",
			"\x05", "\x05\x27", "\x87\x27", "\n", "\x00\x00\x00\x00\x00\x00\x00\x00\x00\x00\x00\x00\x00\x00\x00",
		} {
			emit([]byte(text), 0, -1, "foreign-output", fmt.Sprintf("peer prints %q", text), false)
			// Foreign output in front of an otherwise correct exchange.
			emit(append([]byte(text), good...), 0, -1, "foreign-output", fmt.Sprintf("peer prints %q before the handshake", text), false)
		}
	}
}

func TestScriptedPeer(t *testing.T) {
	if ev.ReplayPath() != "" {
		t.Skip("replaying")
	}
	rec := ev.New(t, prop, "scripted-peer-enumeration",
		"fault enumeration, both real sides (client: agent.ClientHandshake + mutagen.ClientVersionHandshake as in agent.connect; server: agent.ServerHandshake + mutagen.ServerVersionHandshake as in cmd/mutagen-agent) against a scripted peer: unaltered exchange at 13 read fragmentations, every single-field version perturbation (own-1, own+1, 0, max, single-bit and shifted variants), every one-byte XOR corruption (255 values x 15 positions), every truncation point, every failure point of the side's own transmission, reflection, permuted / little-endian / displaced version words, every single-byte deletion and insertion, foreign text output; oracle: nil iff the first 15 received bytes equal expected magic + own version (independently encoded) and the side's 15 bytes were accepted, on success exactly its 15 bytes sent and exactly 15 consumed, on failure only a prefix sent. Non-trivial: the alteration lies in the version words only")
	var n, nt uint64
	enumerateScript(func(c *ScriptCase, class string, nontrivial bool) {
		n++
		rec.Class(c.Side + "/" + class)
		if v := judgeScript(c); v != "" {
			ev.FailTB(t, rec, c, "%s [%s]", v, c.Label)
		}
		if nontrivial {
			nt++
			if rec.WantSample() && n%977 == 3 {
				rec.Sample(c)
			}
		}
	})
	rec.EvalN(n)
	rec.NonTrivialDistinct(nt)
	rec.SetExhaustive("all single-byte XOR corruptions, truncation points, own-write failure points, single-byte deletions/insertions and the listed single-field version perturbations of the 15-byte input of each side")
}

// TestRandomInput feeds both sides random and randomly mutated input.
func TestRandomInput(t *testing.T) {
	if ev.ReplayPath() != "" {
		t.Skip("replaying")
	}
	rec := ev.New(t, prop, "random-input",
		"rapid: a side (client/server) reads either arbitrary bytes (0..40) or the correct 15 bytes with 1..4 random byte edits (overwrite/insert/delete) and an optional tail, at a random fragmentation and write limit; same oracle as the enumeration. Non-trivial: the first three bytes are the correct magic number and the input is at least 15 bytes long (the verdict depends on the version words)")
	ev.Check(t, rec, 30000, 3000000, func(rt *rapid.T) {
		side := rapid.SampledFrom([]string{"client", "server"}).Draw(rt, "side")
		good := expectedInput(side)
		var in []byte
		kind := rapid.SampledFrom([]string{"edits", "edits", "edits", "arbitrary", "version-words"}).Draw(rt, "kind")
		switch kind {
		case "arbitrary":
			in = rapid.SliceOfN(rapid.Byte(), 0, 40).Draw(rt, "bytes")
		case "version-words":
			w := rapid.SliceOfN(rapid.SampledFrom([]uint32{0, 1, 18, 19, 20, 255, 256, 19 << 8, 19 << 16, 19 << 24, math.MaxUint32, mutagen.VersionMajor, mutagen.VersionMinor, mutagen.VersionPatch}), 3, 3).Draw(rt, "words")
			in = append(append([]byte(nil), good[:3]...), versionWords(w[0], w[1], w[2])...)
		default:
			in = append([]byte(nil), good...)
			in = append(in, rapid.SliceOfN(rapid.Byte(), 0, 6).Draw(rt, "tail")...)
			edits := rapid.IntRange(0, 4).Draw(rt, "edits")
			for i := 0; i < edits && len(in) > 0; i++ {
				at := rapid.IntRange(0, min(len(in)-1, handshakeLen)).Draw(rt, "at")
				switch rapid.SampledFrom([]string{"overwrite", "overwrite", "insert", "delete"}).Draw(rt, "edit") {
				case "overwrite":
					in[at] = rapid.Byte().Draw(rt, "value")
				case "insert":
					in = append(in[:at], append([]byte{rapid.Byte().Draw(rt, "value")}, in[at:]...)...)
				case "delete":
					in = append(in[:at], in[at+1:]...)
				}
			}
		}
		c := &ScriptCase{
			Side: side, InputHex: hex.EncodeToString(in),
			Frag:       rapid.SampledFrom([]int{0, 1, 2, 3, 5, 12, 15}).Draw(rt, "frag"),
			WriteLimit: rapid.SampledFrom([]int{-1, -1, -1, -1, 0, 2, 3, 9, 14, 15, 20}).Draw(rt, "limit"),
			Label:      kind,
		}
		rec.Eval()
		if v := judgeScript(c); v != "" {
			ev.Failf(rt, rec, c, "%s", v)
		}
		equal := len(in) >= handshakeLen && bytes.Equal(in[:handshakeLen], good)
		switch {
		case equal:
			rec.Class("input-correct")
		case len(in) < handshakeLen:
			rec.Class("input-short")
		case !bytes.Equal(in[:3], good[:3]):
			rec.Class("magic-wrong")
		default:
			rec.Class("version-wrong")
		}
		if len(in) >= handshakeLen && bytes.Equal(in[:3], good[:3]) {
			rec.NonTrivial(ev.Hash(c.Side, c.InputHex, fmt.Sprint(c.Frag, c.WriteLimit)))
			if rec.WantSample() && !equal {
				rec.Sample(c)
			}
		}
	})
}

// ---------------------------------------------------------------------------
// Part 2: real client versus real server through a faulty pipe.
// ---------------------------------------------------------------------------

// PipeCase is one real-versus-real run.
type PipeCase struct {
	Fault Fault `json:"fault"`
	Frag  int   `json:"frag"`
}

const (
	clientToken = "CLNT"
	serverToken = "SRVR"
)

type sideResult struct {
	stage     string
	err       error
	completed bool // handshake and the following message exchange
}

// runPipeSide performs the handshake and, if it succeeds, one message
// exchange of the next layer; on any failure it closes its end (what
// agent.connect does with the stream and what a failing agent process does by
// exiting).
func runPipeSide(side string, e *end) sideResult {
	var r sideResult
	defer e.Close()
	r.stage, r.err = runSide(side, e)
	if r.err != nil {
		return r
	}
	mine, theirs := clientToken, serverToken
	if side == "server" {
		mine, theirs = serverToken, clientToken
	}
	if _, err := e.Write([]byte(mine)); err != nil {
		return r
	}
	var got [4]byte
	if _, err := io.ReadFull(e, got[:]); err != nil {
		return r
	}
	r.completed = string(got[:]) == theirs
	return r
}

// hangBound is how long a real-versus-real run may take before the pipe is
// inspected for a deadlock. Runs normally take microseconds.
const hangBound = 120 * time.Second

// judgePipe runs the case. inconclusive is set when the run did not finish
// within the bound without being a provable deadlock.
func judgePipe(c *PipeCase) (violation, inconclusive string) {
	d := newDuplex(c.Fault, c.Frag)
	results := make(chan [2]any, 2)
	go func() { results <- [2]any{"client", runPipeSide("client", d.client())} }()
	go func() { results <- [2]any{"server", runPipeSide("server", d.server())} }()
	res := map[string]sideResult{}
	timeout := time.NewTimer(hangBound)
	defer timeout.Stop()
	for len(res) < 2 {
		select {
		case r := <-results:
			res[r[0].(string)] = r[1].(sideResult)
		case <-timeout.C:
			dead := d.deadlocked()
			// Unblock the goroutines.
			d.client().Close()
			d.server().Close()
			if dead {
				return "client and server both wait for bytes that will never arrive (deadlock) although every byte of the exchange was delivered or its loss signalled by EOF", ""
			}
			return "", fmt.Sprintf("real-versus-real run did not finish within %v and is not a provable deadlock", hangBound)
		}
	}
	d.mu.Lock()
	taps := map[string][]byte{"client": append([]byte(nil), d.s2c.tap...), "server": append([]byte(nil), d.c2s.tap...)}
	writeErrAt := map[string]int{"client": d.c2s.writeErrAt, "server": d.s2c.writeErrAt}
	d.mu.Unlock()
	altered := false
	for _, side := range []string{"client", "server"} {
		r := res[side]
		if r.stage == "panic" {
			return fmt.Sprintf("%s side panicked: %v", side, r.err), ""
		}
		got := taps[side]
		want := expectedInput(side)
		received := len(got) >= handshakeLen && bytes.Equal(got[:handshakeLen], want)
		if !received {
			altered = true
		}
		writable := writeErrAt[side] < 0 || writeErrAt[side] >= handshakeLen
		expectNil := received && writable
		if r.err == nil && !expectNil {
			return fmt.Sprintf("%s handshake succeeded although it received % x (expected % x), own write error at offset %d", side, got[:min(len(got), handshakeLen)], want, writeErrAt[side]), ""
		}
		if r.err != nil && expectNil {
			return fmt.Sprintf("%s handshake failed at the %s stage (%v) although it received exactly the expected bytes and its writes succeeded", side, r.stage, r.err), ""
		}
	}
	faultInHandshake := c.Fault.Kind != "none" && c.Fault.Pos < handshakeLen
	if faultInHandshake && !altered {
		return "", "harness: a fault inside the handshake left both received streams intact"
	}
	if faultInHandshake {
		for _, side := range []string{"client", "server"} {
			if res[side].completed {
				return fmt.Sprintf("the %s completed the handshake and the following message exchange although the handshake bytes were altered in transit (%+v)", side, c.Fault), ""
			}
		}
	}
	if c.Fault.Kind == "none" {
		for _, side := range []string{"client", "server"} {
			if !res[side].completed {
				return fmt.Sprintf("unaltered exchange: the %s did not complete handshake + message exchange (stage %q, %v)", side, res[side].stage, res[side].err), ""
			}
		}
	}
	return "", ""
}

func enumeratePipe(f func(c *PipeCase, class string, nontrivial bool)) {
	frags := []int{0, 1}
	for _, frag := range []int{0, 1, 2, 3, 4, 7, 12, 15, 19} {
		f(&PipeCase{Fault: Fault{Kind: "none"}, Frag: frag}, "unaltered", false)
	}
	for _, dir := range []string{"s2c", "c2s"} {
		for pos := 0; pos < handshakeLen; pos++ {
			for x := 1; x < 256; x++ {
				for _, frag := range frags {
					class := "byte-corrupted/magic"
					if pos >= 3 {
						class = "byte-corrupted/version"
					}
					f(&PipeCase{Fault: Fault{Kind: "xor", Dir: dir, Pos: pos, Xor: x}, Frag: frag}, dir+"/"+class, pos >= 3)
				}
			}
		}
		// Truncation at every offset of the handshake and of the message
		// that follows it (offsets >= 15 leave the handshake intact).
		for pos := 0; pos < handshakeLen+4; pos++ {
			for _, mode := range []string{"silent", "error", "full"} {
				for _, frag := range frags {
					class := "truncated-in-handshake/" + mode
					if pos >= handshakeLen {
						class = "truncated-after-handshake/" + mode
					}
					f(&PipeCase{Fault: Fault{Kind: "truncate", Dir: dir, Pos: pos, Mode: mode}, Frag: frag}, dir+"/"+class, pos > 3 && pos < handshakeLen)
				}
			}
		}
	}
}

func TestRealVersusReal(t *testing.T) {
	if ev.ReplayPath() != "" {
		t.Skip("replaying")
	}
	rec := ev.New(t, prop, "real-vs-real-faulty-pipe",
		"fault enumeration: the real client sequence and the real server sequence talk through an in-memory duplex pipe that alters one direction: every one-byte XOR corruption (255 values x 15 positions x 2 directions), every truncation offset 0..18 x {silent, write error, both directions die} x 2 directions, whole-buffer and one-byte reads; each side closes its end on failure and otherwise exchanges one 4-byte message of the next layer. Oracle: a side's handshake returns nil iff the pipe delivered exactly expected magic + own version to it (and accepted its bytes); with a fault inside the handshake neither side completes the message exchange; no deadlock; unaltered runs complete on both sides. Non-trivial: the fault lies in the version words")
	var n, nt uint64
	enumeratePipe(func(c *PipeCase, class string, nontrivial bool) {
		n++
		rec.Class(class)
		violation, inconclusive := judgePipe(c)
		if inconclusive != "" {
			ev.Inconclusive("C34: %s (%+v)", inconclusive, *c)
			t.Skip()
		}
		if violation != "" {
			ev.FailTB(t, rec, c, "%s", violation)
		}
		if nontrivial {
			nt++
			if rec.WantSample() && n%1931 == 7 {
				rec.Sample(c)
			}
		}
	})
	rec.EvalN(n)
	rec.NonTrivialDistinct(nt)
	rec.SetExhaustive("all single-byte XOR corruptions and truncation offsets of both directions of the 15+15 byte exchange")
}

// ---------------------------------------------------------------------------
// Replay.
// ---------------------------------------------------------------------------

func TestReplay(t *testing.T) {
	if ev.ReplayPath() == "" {
		t.Skip("no replay requested")
	}
	rec := ev.New(t, prop, "replay", "replay of a saved case")
	switch ev.ReplayPart() {
	case "real-vs-real-faulty-pipe":
		var c PipeCase
		if _, err := ev.LoadReplay(ev.ReplayPath(), &c); err != nil {
			t.Fatalf("cannot load replay: %v", err)
		}
		rec.Eval()
		violation, inconclusive := judgePipe(&c)
		if inconclusive != "" {
			ev.Inconclusive("C34: %s", inconclusive)
			t.Skip()
		}
		if violation != "" {
			ev.FailTB(t, rec, &c, "%s", violation)
		}
	case "version-skewed-peer":
		var c SkewCase
		if _, err := ev.LoadReplay(ev.ReplayPath(), &c); err != nil {
			t.Fatalf("cannot load replay: %v", err)
		}
		rec.Eval()
		replaySkew(t, rec, &c)
	default:
		var c ScriptCase
		if _, err := ev.LoadReplay(ev.ReplayPath(), &c); err != nil {
			t.Fatalf("cannot load replay: %v", err)
		}
		rec.Eval()
		if v := judgeScript(&c); v != "" {
			ev.FailTB(t, rec, &c, "%s", v)
		}
	}
}
