// Command peer is the out-of-process handshake peer of the C34 check. It runs
// the real client or server handshake sequence of the mutagen tree it was
// built from (possibly with pkg/mutagen/version.go replaced through
// `go build -overlay`) on its standard streams, followed by one message
// exchange of the next layer.
//
// Exit status: 0 handshake and message exchange completed, 3 handshake failed,
// 4 message exchange failed, 2 usage.
package main

import (
	"fmt"
	"io"
	"os"

	"github.com/mutagen-io/mutagen/pkg/agent"
	"github.com/mutagen-io/mutagen/pkg/mutagen"
)

type stdio struct{}

func (stdio) Read(p []byte) (int, error)  { return os.Stdin.Read(p) }
func (stdio) Write(p []byte) (int, error) { return os.Stdout.Write(p) }
func (stdio) Close() error {
	os.Stdin.Close()
	return os.Stdout.Close()
}

func main() {
	if len(os.Args) != 2 || (os.Args[1] != "client" && os.Args[1] != "server") {
		fmt.Fprintln(os.Stderr, "usage: peer client|server")
		os.Exit(2)
	}
	fmt.Fprintf(os.Stderr, "peer-version %d.%d.%d\n", mutagen.VersionMajor, mutagen.VersionMinor, mutagen.VersionPatch)
	var stream stdio
	var err error
	mine, theirs := "CLNT", "SRVR"
	if os.Args[1] == "client" {
		if err = agent.ClientHandshake(stream); err == nil {
			err = mutagen.ClientVersionHandshake(stream)
		}
	} else {
		mine, theirs = theirs, mine
		if err = agent.ServerHandshake(stream); err == nil {
			err = mutagen.ServerVersionHandshake(stream)
		}
	}
	if err != nil {
		fmt.Fprintln(os.Stderr, "peer-handshake-error", err)
		stream.Close()
		os.Exit(3)
	}
	if _, err := stream.Write([]byte(mine)); err != nil {
		os.Exit(4)
	}
	var got [4]byte
	if _, err := io.ReadFull(stream, got[:]); err != nil || string(got[:]) != theirs {
		os.Exit(4)
	}
	stream.Close()
	os.Exit(0)
}
