// Package c34_handshake checks C34: the magic-number and version handshakes of
// an agent connection succeed on a side exactly when the bytes that side
// received are the expected magic number followed by its own version, and any
// altered, truncated or corrupted exchange makes the sides fail rather than
// proceed.
//
// This file holds the two in-memory transports the check uses: a scripted
// stream (fixed input, captured output, no goroutines) and a duplex pipe with
// one scripted fault per direction for real-client-versus-real-server runs.
package c34_handshake

import (
	"io"
	"sync"
)

// scriptStream plays the part of a scripted peer: the side under test reads
// Input (at most frag bytes per Read call) followed by EOF, and everything it
// writes is captured. Writes are accepted up to writeLimit bytes in total
// (unlimited when negative); the write that crosses the limit is short and
// returns an error, like a transport that died.
type scriptStream struct {
	in         []byte
	pos        int
	frag       int
	out        []byte
	writeLimit int
	writeError bool
	closed     bool
}

func (s *scriptStream) Read(p []byte) (int, error) {
	if s.closed {
		return 0, io.ErrClosedPipe
	}
	if len(p) == 0 {
		return 0, nil
	}
	if s.pos >= len(s.in) {
		return 0, io.EOF
	}
	n := min(len(p), len(s.in)-s.pos)
	if s.frag > 0 {
		n = min(n, s.frag)
	}
	copy(p, s.in[s.pos:s.pos+n])
	s.pos += n
	return n, nil
}

func (s *scriptStream) Write(p []byte) (int, error) {
	if s.closed {
		return 0, io.ErrClosedPipe
	}
	if s.writeLimit >= 0 && len(s.out)+len(p) > s.writeLimit {
		n := max(s.writeLimit-len(s.out), 0)
		s.out = append(s.out, p[:n]...)
		s.writeError = true
		return n, io.ErrClosedPipe
	}
	s.out = append(s.out, p...)
	return len(p), nil
}

func (s *scriptStream) Close() error {
	s.closed = true
	return nil
}

// Fault is the single alteration a direction of the duplex pipe applies.
type Fault struct {
	// Kind: "none", "xor" (the byte at stream offset Pos is XORed with Xor) or
	// "truncate" (the link dies after Pos bytes: later bytes are dropped and
	// the reader sees EOF).
	Kind string `json:"kind"`
	// Dir: "s2c" (server to client) or "c2s".
	Dir string `json:"dir"`
	Pos int    `json:"pos"`
	Xor int    `json:"xor,omitempty"`
	// Mode (truncate only): "silent" (the writer is not told), "error" (the
	// crossing and all later writes return an error) or "full" (as error, and
	// the opposite direction dies at the same moment).
	Mode string `json:"mode,omitempty"`
}

// half is one direction of the duplex pipe.
type half struct {
	mu   *sync.Mutex
	cond *sync.Cond
	// buf holds delivered, not yet read bytes.
	buf []byte
	// sent counts bytes written by the writer (pre-fault stream offset).
	sent int
	// tap is every byte delivered to the reader's side (post-fault).
	tap []byte
	// wclosed: no more bytes will be delivered (reader sees EOF after buf).
	wclosed bool
	// rclosed: the reader closed its end (writes fail).
	rclosed bool
	// dead: the link died (truncate in error/full mode): writes fail.
	dead bool
	// writeErrAt is the value of sent when a write first returned an error
	// (-1: never).
	writeErrAt int
	// blocked: a reader is currently waiting for data.
	blocked bool
	fault   Fault
	frag    int
	other   *half
}

// duplex is an in-memory connection between a client end and a server end.
// Writes never block (unbounded buffering), so the only way to block is a
// Read with nothing delivered and no EOF.
type duplex struct {
	mu       sync.Mutex
	s2c, c2s *half
}

func newDuplex(f Fault, frag int) *duplex {
	d := &duplex{}
	mk := func(dir string) *half {
		h := &half{mu: &d.mu, frag: frag, writeErrAt: -1, fault: Fault{Kind: "none"}}
		h.cond = sync.NewCond(&d.mu)
		if f.Dir == dir {
			h.fault = f
		}
		return h
	}
	d.s2c, d.c2s = mk("s2c"), mk("c2s")
	d.s2c.other, d.c2s.other = d.c2s, d.s2c
	return d
}

// end is one side's view of the duplex.
type end struct {
	r, w *half
}

func (d *duplex) client() *end { return &end{r: d.s2c, w: d.c2s} }
func (d *duplex) server() *end { return &end{r: d.c2s, w: d.s2c} }

func (e *end) Read(p []byte) (int, error) {
	h := e.r
	h.mu.Lock()
	defer h.mu.Unlock()
	if len(p) == 0 {
		return 0, nil
	}
	for len(h.buf) == 0 && !h.wclosed && !h.rclosed {
		h.blocked = true
		h.cond.Wait()
		h.blocked = false
	}
	if h.rclosed {
		return 0, io.ErrClosedPipe
	}
	if len(h.buf) == 0 {
		return 0, io.EOF
	}
	n := min(len(p), len(h.buf))
	if h.frag > 0 {
		n = min(n, h.frag)
	}
	copy(p, h.buf[:n])
	h.buf = h.buf[n:]
	return n, nil
}

func (h *half) failWrite() (int, error) {
	if h.writeErrAt < 0 {
		h.writeErrAt = h.sent
	}
	return 0, io.ErrClosedPipe
}

func (e *end) Write(p []byte) (int, error) {
	h := e.w
	h.mu.Lock()
	defer h.mu.Unlock()
	if h.rclosed || h.dead || (h.wclosed && h.fault.Kind != "truncate") {
		return h.failWrite()
	}
	if h.wclosed {
		// Truncated silently: bytes vanish.
		h.sent += len(p)
		return len(p), nil
	}
	deliver := append([]byte(nil), p...)
	var result error
	written := len(p)
	switch h.fault.Kind {
	case "xor":
		if i := h.fault.Pos - h.sent; i >= 0 && i < len(deliver) {
			deliver[i] ^= byte(h.fault.Xor)
		}
	case "truncate":
		if h.sent+len(p) > h.fault.Pos {
			keep := max(h.fault.Pos-h.sent, 0)
			deliver = deliver[:keep]
			h.wclosed = true
			switch h.fault.Mode {
			case "error", "full":
				h.dead = true
				written = keep
				if h.writeErrAt < 0 {
					h.writeErrAt = h.sent + keep
				}
				result = io.ErrClosedPipe
				if h.fault.Mode == "full" {
					h.other.wclosed = true
					h.other.dead = true
					h.other.cond.Broadcast()
				}
			}
		}
	}
	h.sent += written
	h.buf = append(h.buf, deliver...)
	h.tap = append(h.tap, deliver...)
	h.cond.Broadcast()
	return written, result
}

// Close closes this side's end in both directions (what agent.Dial does with
// the stream and what a terminating agent process does to its standard
// streams).
func (e *end) Close() error {
	e.r.mu.Lock()
	defer e.r.mu.Unlock()
	e.r.rclosed = true
	e.w.wclosed = true
	e.r.cond.Broadcast()
	e.w.cond.Broadcast()
	return nil
}

// deadlocked tells whether both sides are waiting in Read with nothing
// deliverable: a definite, schedule-independent hang.
func (d *duplex) deadlocked() bool {
	d.mu.Lock()
	defer d.mu.Unlock()
	return d.s2c.blocked && d.c2s.blocked && len(d.s2c.buf) == 0 && len(d.c2s.buf) == 0
}
