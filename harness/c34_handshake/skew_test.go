package c34_handshake

import (
	"bytes"
	"encoding/json"
	"fmt"
	"io"
	"os"
	"os/exec"
	"path/filepath"
	"regexp"
	"strconv"
	"strings"
	"testing"
	"time"

	"github.com/mutagen-io/mutagen/pkg/mutagen"

	"verif/kit/ev"
)

// SkewCase is one run of the in-process real side against an out-of-process
// real peer that was built from the same tree with one version constant
// changed through `go build -overlay`.
type SkewCase struct {
	Field   string `json:"field"` // "VersionMajor", "VersionMinor", "VersionPatch", "" (control: unchanged)
	Delta   int    `json:"delta"`
	OwnSide string `json:"own_side"` // the side played in-process
}

// peerBound limits building and running the peer (infrastructure, never a
// verdict).
const (
	peerBuildBound = 20 * time.Minute
	peerRunBound   = 3 * time.Minute
)

func repoDir() string {
	if d := os.Getenv("VERIF_REPO_DIR"); d != "" {
		return d
	}
	return "/repo"
}

// buildPeer builds ./peer with version.go overlaid; it returns the binary
// path and the version string the peer is expected to report.
func buildPeer(scratch, field string, delta int) (bin, version string, err error) {
	source := filepath.Join(repoDir(), "pkg", "mutagen", "version.go")
	text, err := os.ReadFile(source)
	if err != nil {
		return "", "", err
	}
	words := map[string]int64{"VersionMajor": mutagen.VersionMajor, "VersionMinor": mutagen.VersionMinor, "VersionPatch": mutagen.VersionPatch}
	name := "same"
	if field != "" {
		re := regexp.MustCompile(`(?m)^(\s*` + field + `\s*=\s*)(\d+)\s*$`)
		m := re.FindSubmatch(text)
		if m == nil {
			return "", "", fmt.Errorf("constant %s not found in %s", field, source)
		}
		old, _ := strconv.ParseInt(string(m[2]), 10, 64)
		if old != words[field] {
			return "", "", fmt.Errorf("%s is %d in the source but %d in the test binary", field, old, words[field])
		}
		words[field] = old + int64(delta)
		if words[field] < 0 {
			return "", "", fmt.Errorf("negative version")
		}
		text = re.ReplaceAll(text, []byte("${1}"+strconv.FormatInt(words[field], 10)))
		name = fmt.Sprintf("%s%+d", field, delta)
	}
	version = fmt.Sprintf("%d.%d.%d", words["VersionMajor"], words["VersionMinor"], words["VersionPatch"])
	replaced := filepath.Join(scratch, name+".version.go")
	if err := os.WriteFile(replaced, text, 0o644); err != nil {
		return "", "", err
	}
	overlay, _ := json.Marshal(map[string]any{"Replace": map[string]string{source: replaced}})
	overlayPath := filepath.Join(scratch, name+".overlay.json")
	if err := os.WriteFile(overlayPath, overlay, 0o644); err != nil {
		return "", "", err
	}
	bin = filepath.Join(scratch, name+".peer")
	args := []string{"build", "-tags", "verif", "-overlay", overlayPath, "-o", bin}
	if mf := os.Getenv("VERIF_MODFILE"); mf != "" {
		args = append(args, "-modfile="+mf)
	}
	args = append(args, "./peer")
	cmd := exec.Command("go", args...)
	cmd.Env = append(os.Environ(), "GOFLAGS=-mod=mod", "GOPROXY=off", "GOTOOLCHAIN=auto", "CGO_ENABLED=0")
	var out bytes.Buffer
	cmd.Stdout, cmd.Stderr = &out, &out
	if err := cmd.Start(); err != nil {
		return "", "", err
	}
	done := make(chan error, 1)
	go func() { done <- cmd.Wait() }()
	select {
	case err := <-done:
		if err != nil {
			return "", "", fmt.Errorf("go build failed: %v\n%s", err, out.String())
		}
	case <-time.After(peerBuildBound):
		cmd.Process.Kill()
		<-done
		return "", "", fmt.Errorf("go build did not finish within %v", peerBuildBound)
	}
	return bin, version, nil
}

type processStream struct {
	io.Reader
	io.WriteCloser
	closeReader func() error
}

func (p *processStream) Close() error {
	p.WriteCloser.Close()
	return p.closeReader()
}

// runSkew runs the in-process side against the peer binary. trouble reports
// infrastructure problems.
func runSkew(c *SkewCase, bin, version string) (violation, trouble string) {
	peerRole := otherSide(c.OwnSide)
	cmd := exec.Command(bin, peerRole)
	stdin, err := cmd.StdinPipe()
	if err != nil {
		return "", err.Error()
	}
	stdout, err := cmd.StdoutPipe()
	if err != nil {
		return "", err.Error()
	}
	var stderr bytes.Buffer
	cmd.Stderr = &stderr
	if err := cmd.Start(); err != nil {
		return "", err.Error()
	}
	stream := &processStream{Reader: stdout, WriteCloser: stdin, closeReader: stdout.Close}
	ownDone := make(chan sideResult, 1)
	go func() {
		var r sideResult
		r.stage, r.err = runSide(c.OwnSide, stream)
		if r.err == nil {
			mine, theirs := clientToken, serverToken
			if c.OwnSide == "server" {
				mine, theirs = theirs, mine
			}
			var got [4]byte
			if _, err := stream.Write([]byte(mine)); err == nil {
				if _, err := io.ReadFull(stream, got[:]); err == nil {
					r.completed = string(got[:]) == theirs
				}
			}
		}
		// Closing policy of the real callers.
		stdin.Close()
		ownDone <- r
	}()
	var r sideResult
	select {
	case r = <-ownDone:
	case <-time.After(peerRunBound):
		cmd.Process.Kill()
		<-ownDone
		cmd.Wait()
		return "", fmt.Sprintf("in-process %s did not finish within %v", c.OwnSide, peerRunBound)
	}
	waitDone := make(chan error, 1)
	go func() { waitDone <- cmd.Wait() }()
	select {
	case <-waitDone:
	case <-time.After(peerRunBound):
		cmd.Process.Kill()
		<-waitDone
		return "", fmt.Sprintf("peer %s did not exit within %v", peerRole, peerRunBound)
	}
	code := cmd.ProcessState.ExitCode()
	if !strings.Contains(stderr.String(), "peer-version "+version+"\n") {
		return "", fmt.Sprintf("peer does not report the overlaid version %s: %q", version, stderr.String())
	}
	if r.stage == "panic" {
		return fmt.Sprintf("in-process %s panicked: %v", c.OwnSide, r.err), ""
	}
	if c.Field == "" {
		if r.err != nil || !r.completed || code != 0 {
			return fmt.Sprintf("same-version peers: in-process %s: stage %q err %v completed %v; peer %s exit code %d (%s)", c.OwnSide, r.stage, r.err, r.completed, peerRole, code, strings.TrimSpace(stderr.String())), ""
		}
		return "", ""
	}
	if r.err == nil {
		return fmt.Sprintf("in-process %s (version %d.%d.%d) accepted a real %s of version %s", c.OwnSide, mutagen.VersionMajor, mutagen.VersionMinor, mutagen.VersionPatch, peerRole, version), ""
	}
	if code != 3 {
		return fmt.Sprintf("real %s of version %s did not fail its handshake against the in-process %s of version %d.%d.%d (exit code %d, %s)", peerRole, version, c.OwnSide, mutagen.VersionMajor, mutagen.VersionMinor, mutagen.VersionPatch, code, strings.TrimSpace(stderr.String())), ""
	}
	return "", ""
}

func skewCases() []SkewCase {
	var out []SkewCase
	for _, side := range []string{"client", "server"} {
		out = append(out, SkewCase{OwnSide: side})
		for _, f := range []struct {
			field string
			delta int
			own   int64
		}{
			{"VersionMajor", 1, mutagen.VersionMajor}, {"VersionMinor", 1, mutagen.VersionMinor}, {"VersionMinor", -1, mutagen.VersionMinor},
			{"VersionPatch", 1, mutagen.VersionPatch}, {"VersionPatch", 256, mutagen.VersionPatch},
		} {
			if f.own+int64(f.delta) < 0 {
				continue
			}
			out = append(out, SkewCase{Field: f.field, Delta: f.delta, OwnSide: side})
		}
	}
	return out
}

// TestVersionSkewedPeer (thorough tier only): real code on both ends, with
// genuinely different compiled-in versions.
func TestVersionSkewedPeer(t *testing.T) {
	if ev.ReplayPath() != "" {
		t.Skip("replaying")
	}
	if !ev.Thorough() && os.Getenv("VERIF_C34_SKEW") == "" {
		t.Skip("thorough tier only")
	}
	rec := ev.New(t, prop, "version-skewed-peer",
		"thorough tier: a peer program (real handshake sequence on stdio) is built from the same tree with `go build -overlay` replacing pkg/mutagen/version.go by a copy with one constant changed (major+1, minor+1, minor-1, patch+1, patch+256, unchanged as control); the in-process real client / server talks to it over OS pipes; oracle: with different versions both processes fail the handshake, with equal versions both complete it and the following message exchange. Non-trivial: the versions differ")
	scratch := t.TempDir()
	built := map[string][2]string{}
	for _, c := range skewCases() {
		key := fmt.Sprintf("%s%+d", c.Field, c.Delta)
		b, ok := built[key]
		if !ok {
			bin, version, err := buildPeer(scratch, c.Field, c.Delta)
			if err != nil {
				ev.Inconclusive("C34 version-skewed peer: cannot build the peer: %v", err)
				t.Skip()
			}
			b = [2]string{bin, version}
			built[key] = b
		}
		rec.Eval()
		violation, trouble := runSkew(&c, b[0], b[1])
		if trouble != "" {
			ev.Inconclusive("C34 version-skewed peer: %s", trouble)
			t.Skip()
		}
		if violation != "" {
			ev.FailTB(t, rec, &c, "%s", violation)
		}
		if c.Field == "" {
			rec.Class("control-same-version")
		} else {
			rec.Class("skewed/" + c.Field)
			rec.NonTrivialDistinct(1)
			if rec.WantSample() {
				rec.Sample(map[string]any{"case": c, "peer_version": b[1]})
			}
		}
	}
}

func replaySkew(t *testing.T, rec *ev.Recorder, c *SkewCase) {
	bin, version, err := buildPeer(t.TempDir(), c.Field, c.Delta)
	if err != nil {
		ev.Inconclusive("C34 version-skewed peer: cannot build the peer: %v", err)
		t.Skip()
	}
	violation, trouble := runSkew(c, bin, version)
	if trouble != "" {
		ev.Inconclusive("C34 version-skewed peer: %s", trouble)
		t.Skip()
	}
	if violation != "" {
		ev.FailTB(t, rec, c, "%s", violation)
	}
}
