// Package c35_agentstream checks C35: closing the transport stream of an
// agent process always returns, and by then the process has terminated and
// been reaped, whatever the process does about its input closing and about
// termination signals.
//
// The test binary re-executes itself as the fake agent (environment variable
// VERIF_C35_ROLE) with a scripted behaviour; this file is the child side.
package c35_agentstream

import (
	"encoding/json"
	"fmt"
	"os"
	"os/exec"
	"os/signal"
	"syscall"
	"time"

	"golang.org/x/sys/unix"
)

const (
	roleEnv = "VERIF_C35_ROLE"
	specEnv = "VERIF_C35_SPEC"
	// runEnv marks every process of one test run, so that the parent can
	// sweep for leftovers.
	runEnv = "VERIF_C35_RUN"
)

// Exit codes of the fake agent.
const (
	exitSelf          = 0  // exited on its own schedule
	exitOnEOF         = 10 // exited because its standard input reached EOF
	exitOnTerm        = 11 // exited on SIGTERM; standard input had been closed before
	exitOnTermNoHup   = 12 // exited on SIGTERM, but standard input was still open
	exitSafety        = 99 // nobody terminated it
	exitBadInvocation = 3
)

// safetyLifetime bounds the life of every child whatever happens to the
// parent.
const safetyLifetime = 150 * time.Second

// ChildSpec scripts the fake agent.
type ChildSpec struct {
	// Behaviour: "self" (exits DelayMS after start, ignores everything else),
	// "eof" (exits DelayMS after its standard input reaches EOF), "term"
	// (exits DelayMS after SIGTERM), "ignore" (never exits).
	Behaviour string `json:"behaviour"`
	DelayMS   int    `json:"delay_ms"`
	// ReadStdin: drain standard input (needed to notice EOF).
	ReadStdin bool `json:"read_stdin"`
	FloodOut  bool `json:"flood_out"`
	FloodErr  bool `json:"flood_err"`
	// Grandchild: start a process that inherits standard output and error,
	// ignores SIGTERM and outlives the agent.
	Grandchild bool   `json:"grandchild"`
	Journal    string `json:"journal"`
}

func mono() int64 {
	var ts unix.Timespec
	unix.ClockGettime(unix.CLOCK_MONOTONIC, &ts)
	return ts.Sec*1e9 + ts.Nsec
}

func journal(f *os.File, format string, args ...any) {
	if f != nil {
		f.Write([]byte(fmt.Sprintf(format, args...) + "\n"))
	}
}

// stdinHungUp tells, without consuming input, whether every write end of
// standard input has been closed.
func stdinHungUp() bool {
	fds := []unix.PollFd{{Fd: 0, Events: unix.POLLIN}}
	for {
		_, err := unix.Poll(fds, 0)
		if err == unix.EINTR {
			continue
		}
		if err != nil {
			return false
		}
		return fds[0].Revents&unix.POLLHUP != 0
	}
}

func childMain(role string) int {
	switch role {
	case "agent":
		return agentMain()
	case "grandchild":
		signal.Ignore(syscall.SIGTERM, syscall.SIGHUP, syscall.SIGINT, syscall.SIGPIPE)
		time.Sleep(safetyLifetime)
		return exitSafety
	}
	return exitBadInvocation
}

func agentMain() int {
	var spec ChildSpec
	if err := json.Unmarshal([]byte(os.Getenv(specEnv)), &spec); err != nil {
		fmt.Fprintln(os.Stderr, "c35 agent: bad spec:", err)
		return exitBadInvocation
	}
	var jf *os.File
	if spec.Journal != "" {
		f, err := os.OpenFile(spec.Journal, os.O_WRONLY|os.O_APPEND|os.O_CREATE, 0o600)
		if err != nil {
			fmt.Fprintln(os.Stderr, "c35 agent:", err)
			return exitBadInvocation
		}
		jf = f
	}
	terms := make(chan os.Signal, 4)
	signal.Notify(terms, syscall.SIGTERM)
	signal.Ignore(syscall.SIGHUP, syscall.SIGINT)
	exit := make(chan int, 8)

	// Diagnostic output, the way a real agent reports on standard error.
	os.Stderr.Write([]byte(stderrMarker))

	if spec.Grandchild {
		exe, err := os.Executable()
		if err == nil {
			g := exec.Command(exe)
			g.Env = append(os.Environ(), roleEnv+"=grandchild")
			g.Stdout, g.Stderr = os.Stdout, os.Stderr
			err = g.Start()
			if err == nil {
				journal(jf, "grandchild %d", g.Process.Pid)
			}
		}
		if err != nil {
			fmt.Fprintln(os.Stderr, "c35 agent: cannot start grandchild:", err)
			return exitBadInvocation
		}
	}

	// Signal handling is in place: announce readiness.
	if _, err := os.Stdout.Write([]byte{readyByte}); err != nil {
		return exitBadInvocation
	}
	journal(jf, "ready %d", mono())
	delay := time.Duration(spec.DelayMS) * time.Millisecond

	if spec.ReadStdin {
		go func() {
			buf := make([]byte, 64<<10)
			for {
				if _, err := os.Stdin.Read(buf); err != nil {
					break
				}
			}
			journal(jf, "eof %d", mono())
			if spec.Behaviour == "eof" {
				time.Sleep(delay)
				exit <- exitOnEOF
			}
		}()
	}
	go func() {
		for range terms {
			hup := stdinHungUp()
			journal(jf, "term %d hup=%v", mono(), hup)
			if spec.Behaviour == "term" {
				time.Sleep(delay)
				if hup {
					exit <- exitOnTerm
				} else {
					exit <- exitOnTermNoHup
				}
			}
		}
	}()
	if spec.Behaviour == "self" {
		go func() {
			time.Sleep(delay)
			exit <- exitSelf
		}()
	}
	flood := func(f *os.File) {
		block := make([]byte, 32<<10)
		for i := range block {
			block[i] = 'x'
		}
		for {
			if _, err := f.Write(block); err != nil {
				return
			}
		}
	}
	if spec.FloodOut {
		go flood(os.Stdout)
	}
	if spec.FloodErr {
		go flood(os.Stderr)
	}
	select {
	case code := <-exit:
		journal(jf, "exit %d code=%d", mono(), code)
		return code
	case <-time.After(safetyLifetime):
		return exitSafety
	}
}

const (
	readyByte    = 'R'
	stderrMarker = "c35-agent-diagnostic-output\n"
)
