package c35_agentstream

import (
	"bytes"
	"encoding/json"
	"fmt"
	"os"
	"os/exec"
	"path/filepath"
	"strconv"
	"strings"
	"sync"
	"sync/atomic"
	"syscall"
	"testing"
	"time"

	"github.com/mutagen-io/mutagen/pkg/agent/transport"

	"verif/kit/ev"
)

const prop = "C35"

func TestMain(m *testing.M) {
	if role := os.Getenv(roleEnv); role != "" {
		os.Exit(childMain(role))
	}
	os.Exit(m.Run())
}

// Bounds. The machine is shared and can be heavily loaded: everything that is
// a verdict about time is generous and re-executed before it is reported.
const (
	// closeSlack is added to the nominal worst case of Close (termination
	// delay + 1 s after closing standard input + 1 s after SIGTERM).
	closeSlack = 30 * time.Second
	// startBound limits the start of a fake agent (harness trouble beyond).
	startBound = 120 * time.Second
	// unblockGrace is how long after Close returned a blocked Read / Write may
	// take to be observed as returned.
	unblockGrace = 30 * time.Second
	// attempts: a timing complaint is reported only if it shows in every one
	// of this many executions of the same case.
	attempts = 3
	// softAttempts: the same for the auxiliary graceful-exit expectation.
	softAttempts = 4
	parallelism  = 8
)

// Case is one scripted agent and one way of using its stream.
type Case struct {
	// Behaviour of the agent: "self", "eof", "term", "ignore" (see ChildSpec).
	Behaviour string `json:"behaviour"`
	DelayMS   int    `json:"delay_ms"`
	// TermDelayMS is the stream's termination delay.
	TermDelayMS int `json:"term_delay_ms"`
	// Blocked: "none", "read" (a Read is pending when Close is called) or
	// "write" (a Write is pending: the agent does not drain its input).
	Blocked string `json:"blocked"`
	// Extra: "none" (no standard error receiver), "stderr" (receiver),
	// "flood-stdout", "flood-stderr" (receiver), "grandchild" (receiver; a
	// process that inherits the agent's output streams outlives it).
	Extra string `json:"extra"`
}

func (c *Case) valid() bool {
	if c.Blocked == "write" && c.Behaviour == "eof" {
		return false // an agent that watches its input drains it
	}
	if c.Behaviour == "ignore" && c.DelayMS != 0 {
		return false
	}
	return true
}

func (c *Case) key() string {
	raw, _ := json.Marshal(c)
	return string(raw)
}

// allCases is the full grid.
func allCases() []Case {
	var out []Case
	for _, b := range []string{"self", "eof", "term", "ignore"} {
		for _, d := range []int{0, 300, 1500, 3000} {
			for _, td := range []int{0, 500} {
				for _, bl := range []string{"none", "read", "write"} {
					for _, x := range []string{"none", "stderr", "flood-stdout", "flood-stderr", "grandchild"} {
						c := Case{Behaviour: b, DelayMS: d, TermDelayMS: td, Blocked: bl, Extra: x}
						if c.valid() {
							out = append(out, c)
						}
					}
				}
			}
		}
	}
	return out
}

type countingWriter struct {
	mu    sync.Mutex
	n     int64
	first []byte
}

func (w *countingWriter) Write(p []byte) (int, error) {
	w.mu.Lock()
	defer w.mu.Unlock()
	w.n += int64(len(p))
	if len(w.first) < 64 {
		w.first = append(w.first, p[:min(len(p), 64-len(w.first))]...)
	}
	return len(p), nil
}

func (w *countingWriter) snapshot() (int64, string) {
	w.mu.Lock()
	defer w.mu.Unlock()
	return w.n, string(w.first)
}

// Outcome of one execution of a case.
type Outcome struct {
	// Violation: a verdict that does not depend on timing.
	Violation string
	// Timing: Close (or a blocked call) did not return within its bound.
	Timing string
	// Soft: the agent was not given the documented chance to exit by itself.
	Soft string
	// Trouble: the harness could not run the case.
	Trouble string

	CloseLatency time.Duration
	Manner       string // how the agent ended: "exit:<code>" or "signal:<name>"
	StderrSeen   bool   // the receiver held the agent's diagnostic line when Close returned
	Receiver     bool
}

var caseCounter struct {
	sync.Mutex
	n int
}

func nextID() int {
	caseCounter.Lock()
	defer caseCounter.Unlock()
	caseCounter.n++
	return caseCounter.n
}

// ourLiveChild tells whether pid is a live (or zombie) child of this process.
func ourLiveChild(pid int, journalPath string) (bool, string) {
	if err := syscall.Kill(pid, 0); err == syscall.ESRCH {
		return false, ""
	}
	raw, err := os.ReadFile(fmt.Sprintf("/proc/%d/stat", pid))
	if err != nil {
		return false, ""
	}
	// pid (comm) state ppid ...
	s := string(raw)
	i := strings.LastIndexByte(s, ')')
	if i < 0 {
		return false, ""
	}
	f := strings.Fields(s[i+1:])
	if len(f) < 2 {
		return false, ""
	}
	ppid, _ := strconv.Atoi(f[1])
	if ppid != os.Getpid() {
		return false, "" // the pid has been reused by an unrelated process
	}
	if f[0] != "Z" {
		// Guard against reuse of the pid by another child of this process.
		env, _ := os.ReadFile(fmt.Sprintf("/proc/%d/environ", pid))
		if !bytes.Contains(env, []byte(journalPath)) {
			return false, ""
		}
	}
	return true, f[0]
}

func readJournal(path string) (lines []string) {
	raw, _ := os.ReadFile(path)
	for _, l := range strings.Split(string(raw), "\n") {
		if l != "" {
			lines = append(lines, l)
		}
	}
	return
}

func killGrandchildren(journalPath string) {
	for _, l := range readJournal(journalPath) {
		if rest, ok := strings.CutPrefix(l, "grandchild "); ok {
			if pid, err := strconv.Atoi(rest); err == nil && pid > 1 {
				syscall.Kill(pid, syscall.SIGKILL)
			}
		}
	}
}

// runCase executes the case once.
func runCase(c *Case, dir, runID string) (o Outcome) {
	exe, err := os.Executable()
	if err != nil {
		o.Trouble = err.Error()
		return
	}
	journalPath := filepath.Join(dir, fmt.Sprintf("journal-%d", nextID()))
	defer os.Remove(journalPath)
	spec := ChildSpec{
		Behaviour:  c.Behaviour,
		DelayMS:    c.DelayMS,
		ReadStdin:  c.Blocked != "write",
		FloodOut:   c.Extra == "flood-stdout",
		FloodErr:   c.Extra == "flood-stderr",
		Grandchild: c.Extra == "grandchild",
		Journal:    journalPath,
	}
	rawSpec, _ := json.Marshal(spec)
	cmd := exec.Command(exe)
	cmd.Env = append(os.Environ(), roleEnv+"=agent", specEnv+"="+string(rawSpec), runEnv+"="+runID)
	var receiver *countingWriter
	var stream *transport.Stream
	if c.Extra == "none" || c.Extra == "flood-stdout" {
		stream, err = transport.NewStream(cmd, nil)
	} else {
		receiver = &countingWriter{}
		o.Receiver = true
		stream, err = transport.NewStream(cmd, receiver)
	}
	if err != nil {
		o.Trouble = "NewStream: " + err.Error()
		return
	}
	stream.SetTerminationDelay(time.Duration(c.TermDelayMS) * time.Millisecond)
	if err := cmd.Start(); err != nil {
		o.Trouble = "start: " + err.Error()
		return
	}
	pid := cmd.Process.Pid

	// Whatever happens below, neither the agent nor its grandchild may
	// survive this function.
	closeDone := make(chan error, 1)
	closeCalled := false
	defer func() {
		cmd.Process.Kill()
		killGrandchildren(journalPath)
		if !closeCalled {
			go func() { closeDone <- stream.Close() }()
		}
		select {
		case <-closeDone:
		case <-time.After(closeSlack):
			// The goroutine is abandoned; the process has been killed.
		}
	}()

	// Wait for the agent to have its signal handling in place.
	ready := make(chan error, 1)
	go func() {
		var b [1]byte
		n, err := stream.Read(b[:])
		if err == nil && (n != 1 || b[0] != readyByte) {
			err = fmt.Errorf("unexpected first byte %q", b[:n])
		}
		ready <- err
	}()
	select {
	case err := <-ready:
		if err != nil {
			o.Trouble = "agent did not become ready: " + err.Error()
			return
		}
	case <-time.After(startBound):
		o.Trouble = fmt.Sprintf("agent did not become ready within %v", startBound)
		return
	}

	// Pending calls.
	pending := make(chan string, 2)
	npending := 0
	if c.Blocked == "read" {
		npending++
		go func() {
			buf := make([]byte, 64<<10)
			for {
				if _, err := stream.Read(buf); err != nil {
					pending <- "Read"
					return
				}
			}
		}()
	}
	if c.Blocked == "write" {
		npending++
		go func() {
			buf := make([]byte, 64<<10)
			for {
				if _, err := stream.Write(buf); err != nil {
					pending <- "Write"
					return
				}
			}
		}()
	}
	if npending > 0 {
		// Let the call reach the kernel (not needed for soundness).
		time.Sleep(20 * time.Millisecond)
	}

	// Close.
	nominal := time.Duration(c.TermDelayMS)*time.Millisecond + 2*time.Second
	start := time.Now()
	closeCalled = true
	go func() { closeDone <- stream.Close() }()
	select {
	case <-closeDone:
		o.CloseLatency = time.Since(start)
		closeDone <- nil // for the deferred cleanup
	case <-time.After(nominal + closeSlack):
		o.Timing = fmt.Sprintf("Close did not return within %v (termination delay %d ms + 2 s + %v slack)", nominal+closeSlack, c.TermDelayMS, closeSlack)
		return
	}
	if receiver != nil {
		_, first := receiver.snapshot()
		o.StderrSeen = strings.HasPrefix(first, stderrMarker)
	}

	// The process has terminated and been reaped.
	state := cmd.ProcessState
	if state == nil {
		o.Violation = "Close returned but the process has not been waited for (ProcessState is nil)"
		return
	}
	if alive, st := ourLiveChild(pid, journalPath); alive {
		o.Violation = fmt.Sprintf("Close returned but process %d still exists (state %s)", pid, st)
		return
	}
	ws := state.Sys().(syscall.WaitStatus)
	switch {
	case ws.Signaled():
		o.Manner = "signal:" + ws.Signal().String()
	default:
		o.Manner = fmt.Sprintf("exit:%d", ws.ExitStatus())
	}

	// The stream's pipes are closed.
	if _, err := stream.Write([]byte{0}); err == nil {
		o.Violation = "a Write after Close succeeded (standard input pipe still open)"
		return
	}
	readAfter := make(chan error, 1)
	go func() {
		_, err := stream.Read(make([]byte, 1<<10))
		readAfter <- err
	}()
	select {
	case err := <-readAfter:
		if err == nil {
			o.Violation = "a Read after Close succeeded (standard output pipe still open)"
			return
		}
	case <-time.After(unblockGrace):
		o.Timing = fmt.Sprintf("a Read issued after Close returned was still blocked after %v (standard output pipe not closed)", unblockGrace)
		return
	}

	// Pending calls have returned.
	for i := 0; i < npending; i++ {
		select {
		case <-pending:
		case <-time.After(unblockGrace):
			o.Timing = fmt.Sprintf("a %s that was pending when Close was called had not returned %v after Close returned", c.Blocked, unblockGrace)
			return
		}
	}

	// Escalation order, as observed by the agent itself (no timing involved:
	// the agent samples its input's hang-up state at the moment the signal
	// arrives).
	sawTerm := false
	for _, l := range readJournal(journalPath) {
		if strings.HasPrefix(l, "term ") {
			sawTerm = true
			if strings.HasSuffix(l, "hup=false") {
				o.Violation = "the agent received SIGTERM while its standard input was still open (input closure must come first)"
				return
			}
		}
	}
	switch o.Manner {
	case fmt.Sprintf("exit:%d", exitOnTermNoHup):
		o.Violation = "the agent received SIGTERM while its standard input was still open (input closure must come first)"
		return
	case fmt.Sprintf("exit:%d", exitSafety), fmt.Sprintf("exit:%d", exitBadInvocation):
		o.Trouble = "fake agent ended with " + o.Manner
		return
	}
	if c.Behaviour == "ignore" && o.Manner != "signal:killed" {
		o.Violation = fmt.Sprintf("an agent that ignores input closure and SIGTERM ended with %s", o.Manner)
		return
	}

	// Auxiliary (timing-sensitive, judged softly): an agent that reacts
	// promptly to the gentle means must get to use them.
	prompt := c.DelayMS <= 300
	switch {
	case c.Behaviour == "eof" && prompt && o.Manner != fmt.Sprintf("exit:%d", exitOnEOF):
		o.Soft = fmt.Sprintf("an agent that exits %d ms after its input closes ended with %s", c.DelayMS, o.Manner)
	case c.Behaviour == "term" && prompt && o.Manner != fmt.Sprintf("exit:%d", exitOnTerm):
		o.Soft = fmt.Sprintf("an agent that exits %d ms after SIGTERM ended with %s", c.DelayMS, o.Manner)
	case c.Behaviour == "self" && prompt && o.Manner != fmt.Sprintf("exit:%d", exitSelf):
		o.Soft = fmt.Sprintf("an agent that exits by itself after %d ms ended with %s", c.DelayMS, o.Manner)
	case c.Behaviour == "ignore" && !sawTerm:
		o.Soft = "an agent that had to be killed never saw SIGTERM first"
	}
	return
}

// Verdict of a case after re-executions.
type Verdict struct {
	Violation    string
	Inconclusive string
	Trouble      string
	Last         Outcome
	SoftMisses   int
	Runs         int
}

// judge executes the case, re-executing it when the complaint is about time.
func judge(c *Case, dir, runID string) (v Verdict) {
	timingFails, softFails := 0, 0
	var lastTiming, lastSoft string
	for {
		o := runCase(c, dir, runID)
		v.Runs++
		v.Last = o
		switch {
		case o.Trouble != "":
			v.Trouble = o.Trouble
			return
		case o.Violation != "":
			v.Violation = o.Violation
			return
		case o.Timing != "":
			timingFails++
			lastTiming = o.Timing
			if timingFails >= attempts {
				v.Violation = fmt.Sprintf("%s (in each of %d executions)", lastTiming, attempts)
				return
			}
			continue
		case o.Soft != "":
			softFails++
			lastSoft = o.Soft
			if softFails >= softAttempts {
				v.Violation = fmt.Sprintf("%s (in each of %d executions): Close does not give the agent the documented chance to exit on its own", lastSoft, softAttempts)
				return
			}
			continue
		}
		// A clean execution.
		if timingFails > 0 {
			v.Inconclusive = fmt.Sprintf("%s — but not when re-executed", lastTiming)
		}
		v.SoftMisses = softFails
		return
	}
}

// selectCases picks the cases of this process: the whole grid (sharded) in
// the thorough tier, a seed-dependent stratified sample in the quick tier.
func selectCases() []Case {
	grid := allCases()
	if ev.Thorough() {
		var out []Case
		for i, c := range grid {
			if i%ev.Shards() == ev.Shard() {
				out = append(out, c)
			}
		}
		return out
	}
	// One deterministic pseudo-random stream per seed.
	x := ev.ShardSeed()*0x9E3779B97F4A7C15 + 0x1234567
	next := func(n int) int {
		x ^= x << 13
		x ^= x >> 7
		x ^= x << 17
		return int(x % uint64(n))
	}
	// Strata: behaviour x extra (20), plus blocked x behaviour coverage.
	var out []Case
	seen := map[string]bool{}
	add := func(pred func(c *Case) bool) {
		var cand []Case
		for _, c := range grid {
			if pred(&c) && !seen[c.key()] {
				cand = append(cand, c)
			}
		}
		if len(cand) > 0 {
			c := cand[next(len(cand))]
			seen[c.key()] = true
			out = append(out, c)
		}
	}
	for _, b := range []string{"self", "eof", "term", "ignore"} {
		for _, x := range []string{"none", "stderr", "flood-stdout", "flood-stderr", "grandchild"} {
			add(func(c *Case) bool { return c.Behaviour == b && c.Extra == x })
		}
		for _, bl := range []string{"read", "write"} {
			add(func(c *Case) bool { return c.Behaviour == b && c.Blocked == bl })
		}
		for _, d := range []int{0, 300, 1500, 3000} {
			add(func(c *Case) bool { return c.Behaviour == b && c.DelayMS == d && c.TermDelayMS == 500 })
		}
	}
	return out
}

func TestAgentStream(t *testing.T) {
	if ev.ReplayPath() != "" {
		t.Skip("replaying")
	}
	rec := ev.New(t, prop, "fake-agents",
		"the test binary re-executed as a fake agent behind a real transport.Stream: behaviour {exits by itself after d, exits d after input EOF, exits d after SIGTERM, ignores everything} x d {0, 0.3, 1.5, 3 s} x termination delay {0, 0.5 s} x pending call at Close {none, Read, Write} x {no stderr receiver, receiver, agent floods stdout, agent floods stderr, a grandchild inheriting stdout/stderr outlives the agent}; thorough: the whole grid (350 cases), quick: seed-dependent stratified sample. Close is called once the agent has announced its signal handling is in place. Oracle: Close returns within termination delay + 2 s + 30 s slack (re-executed 3 times before reporting); then the process has been waited for and no longer exists, Write/Read on the stream fail, pending Read/Write have returned; the agent never sees SIGTERM before its input was closed (sampled by the agent at signal arrival); an agent ignoring everything dies by SIGKILL; agents reacting within 0.3 s end by their own exit path (judged over 4 executions). Non-trivial: the agent ended only through SIGTERM or SIGKILL")
	cases := selectCases()
	dir := t.TempDir()
	runID := fmt.Sprintf("%d-%d", os.Getpid(), time.Now().UnixNano())
	defer func() {
		if n := sweep(runID); n > 0 {
			rec.Note("leftover_processes_killed", n)
		}
	}()

	type result struct {
		c Case
		v Verdict
	}
	work := make(chan Case)
	results := make(chan result)
	var wg sync.WaitGroup
	// Once a violation is established the remaining cases are skipped.
	var stop atomic.Bool
	for i := 0; i < parallelism; i++ {
		wg.Add(1)
		go func() {
			defer wg.Done()
			for c := range work {
				if stop.Load() {
					continue
				}
				r := result{c, judge(&c, dir, runID)}
				if r.v.Violation != "" {
					stop.Store(true)
				}
				results <- r
			}
		}()
	}
	go func() {
		for _, c := range cases {
			work <- c
		}
		close(work)
		wg.Wait()
		close(results)
	}()
	var failed *result
	var maxLatency time.Duration
	stderrSeen, stderrTotal := 0, 0
	for r := range results {
		r := r
		if r.v.Trouble != "" {
			ev.Inconclusive("C35 harness trouble: %s (%s)", r.v.Trouble, r.c.key())
			continue
		}
		rec.EvalN(uint64(r.v.Runs))
		if r.v.Inconclusive != "" {
			ev.Inconclusive("C35: %s (%s)", r.v.Inconclusive, r.c.key())
		}
		if r.v.Violation != "" {
			if failed == nil {
				failed = &r
			}
			continue
		}
		rec.Class("behaviour/" + r.c.Behaviour)
		rec.Class("extra/" + r.c.Extra)
		rec.Class("pending/" + r.c.Blocked)
		rec.Class("ended/" + r.v.Last.Manner)
		if r.v.SoftMisses > 0 {
			rec.ClassN("graceful-exit-missed-then-seen", uint64(r.v.SoftMisses))
		}
		if r.v.Last.Receiver {
			stderrTotal++
			if r.v.Last.StderrSeen {
				stderrSeen++
			}
		}
		maxLatency = max(maxLatency, r.v.Last.CloseLatency-time.Duration(r.c.TermDelayMS)*time.Millisecond)
		m := r.v.Last.Manner
		if m == "signal:killed" || m == fmt.Sprintf("exit:%d", exitOnTerm) {
			rec.NonTrivial(ev.Hash(r.c.key()))
			if rec.WantSample() {
				rec.Sample(map[string]any{"case": r.c, "ended": m, "close_ms": r.v.Last.CloseLatency.Milliseconds()})
			}
		}
	}
	rec.Note("max_close_latency_beyond_termination_delay_ms", maxLatency.Milliseconds())
	rec.Note("stderr_line_delivered_before_close_returned", fmt.Sprintf("%d of %d", stderrSeen, stderrTotal))
	if ev.Thorough() {
		rec.SetExhaustive("the whole behaviour grid (each point executed once; schedules are not enumerated)")
	}
	if failed != nil {
		ev.FailTB(t, rec, &failed.c, "%s", failed.v.Violation)
	}
}

// sweep kills every process that carries this run's marker and returns how
// many it found.
func sweep(runID string) int {
	entries, _ := os.ReadDir("/proc")
	n := 0
	marker := []byte(runEnv + "=" + runID)
	for _, e := range entries {
		pid, err := strconv.Atoi(e.Name())
		if err != nil || pid == os.Getpid() {
			continue
		}
		env, err := os.ReadFile(filepath.Join("/proc", e.Name(), "environ"))
		if err != nil {
			continue
		}
		for _, kv := range bytes.Split(env, []byte{0}) {
			if bytes.Equal(kv, marker) {
				syscall.Kill(pid, syscall.SIGKILL)
				n++
				break
			}
		}
	}
	return n
}

func TestReplay(t *testing.T) {
	if ev.ReplayPath() == "" {
		t.Skip("no replay requested")
	}
	rec := ev.New(t, prop, "replay", "replay of a saved case")
	var c Case
	if _, err := ev.LoadReplay(ev.ReplayPath(), &c); err != nil {
		t.Fatalf("cannot load replay: %v", err)
	}
	runID := fmt.Sprintf("%d-%d", os.Getpid(), time.Now().UnixNano())
	defer sweep(runID)
	v := judge(&c, t.TempDir(), runID)
	rec.EvalN(uint64(v.Runs))
	if v.Trouble != "" {
		ev.Inconclusive("C35 harness trouble: %s", v.Trouble)
		t.Skip()
	}
	if v.Inconclusive != "" {
		ev.Inconclusive("C35: %s", v.Inconclusive)
	}
	if v.Violation != "" {
		ev.FailTB(t, rec, &c, "%s", v.Violation)
	}
}
